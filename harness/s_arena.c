// Deterministic-scheduler harness for C14 (S): the REAL code of src/bitmap.c / src/arena.c runs in
// cooperative virtual threads (ucontext) on one OS thread; every mi_atomic_* operation is a
// scheduling point (hooks.h through the MI_VERIF_HOOKS points of atomic.h).  The scheduler core
// (vts / switch_to / pick_next / verif_pre / verif_post / verif_tid) is the one of s_conc.c.
// Every choice (programs, schedule, initial bitmap, arena shape, clock) derives from the seed: the
// command line IS the replayable schedule.  Compile with tools/conc.py HOOK_FLAGS and
// -Dclock_gettime=verif_clock_gettime (virtual clock: purge expiry does not depend on real time).
//
//   usage: s_arena <raw|arena> <seed> <nthreads 2..4> <nops per thread> [log]
//
//   raw   : the threads call _mi_bitmap_try_find_from_claim_across, _mi_bitmap_unclaim_across /
//           _mi_bitmap_unclaim, the purger's `_mi_bitmap_try_claim with decreasing length, then
//           _mi_bitmap_unclaim`, and _mi_bitmap_is_claimed_across on ONE shared bitmap of 1-4 fields,
//           freeing only what they own.
//   arena : a real arena (mi_manage_os_memory_ex, 66..200 blocks: claims cross a field boundary); the
//           threads call _mi_arena_alloc_aligned / _mi_arena_free / _mi_arenas_collect under a purge
//           delay and a virtual clock (mi_arena_try_purge runs under concurrent allocations).
//
// Implementation-side oracles ("V <kind> ..." lines; the run stops at the first one):
//   lost-bit      after every atomic WRITE to the bitmap every bit of a completed claim (shadow owner
//                 array) and every pre-claimed bit is still set (nobody clears what another one owns)
//   double-claim  a claim returned a bit that already has an owner / is pre-claimed
//   outside       a claim returned a range outside the bitmap / the arena; an access next to the bitmap
//   bad-unclaim   unclaiming an own range reported that not all bits were set
//   not-claimed   _mi_bitmap_is_claimed_across of an own range returned false
//   residue       at quiescence, after every owner released its claims, the bitmap differs from the
//                 initial pattern ("nothing reserved behind", also after rolled-back cross-field claims)
//   refill        arena: after everything was freed the arena cannot be allocated completely again
//   livelock / crash
// Log (with `log`), replayed by `replay bitmap-trace` (ocaml/mode_bitmap.ml) on the small-step machine
// of coq/Model/Bitmap.v:
//   I <field0> <field1> ...            the bitmap when the scheduler starts
//   A <tid> claim <start> <count>      call brackets: _mi_bitmap_try_find_from_claim_across        R <tid> 1 <idx> | R <tid> 0
//   A <tid> free <idx> <count>         _mi_bitmap_unclaim_across (or _mi_bitmap_unclaim)           R <tid> <all_one>
//   A <tid> purge <idx> <len>          while(len>0){ if try_claim(len) break; len--; } .. unclaim   R <tid> <claimed len>
//   A <tid> isclaimed <idx> <count>    _mi_bitmap_is_claimed_across (observer, not a machine op)   R <tid> <result>
//   A <tid> alloc <blocks>             _mi_arena_alloc_aligned of <blocks> arena blocks            R <tid> 1 <block> | R <tid> 0
//   A <tid> afree <block> <blocks>     _mi_arena_free (its tail may run mi_arenas_try_purge)       R <tid>
//   A <tid> collect <force>            _mi_arenas_collect(force)                                   R <tid>
//   S <tid> <field> <kind> <old> <new> one hooked atomic access to a field of the bitmap, in global order;
//                                      kind = L load | C CAS ok | F CAS failed | P CAS failed spuriously |
//                                             W store | A fetch-and | O fetch-or | X exchange
//   B <field0> ...                     the bitmap at quiescence
// "H k=v ..." statistics, "END steps=.. viol=.. switches=.. spurious=..".
#include <time.h>
static long long vclock_ms = 100000;
int verif_clock_gettime(clockid_t id, struct timespec* ts) { (void)id; ts->tv_sec = vclock_ms / 1000; ts->tv_nsec = (vclock_ms % 1000) * 1000000; return 0; }
#include REPO_STATIC
#include <stdio.h>
#include <string.h>
#include <stdarg.h>
#include <ucontext.h>
#include <signal.h>
#include <sys/mman.h>
#include "prng.h"
#include "determ.h"

#define MAXT 4
#define MAXF 4
#define MAXBITS (MAXF * 64)
#define STACKSZ (1u << 20)
#define U(x) ((unsigned long long)(x))

// ---- scheduler core (as harness/s_conc.c) -----------------------------------------------------
typedef struct { ucontext_t ctx; char* stack; int alive; } vt_t;
static vt_t vts[MAXT];
static int cur = 0, nthreads = 3, sched_on = 0, do_log = 0, nops = 40;
static long steps = 0, max_steps = 3000000, nviol = 0, switches = 0, spurious = 0;
static prng_t G;             // scheduler choices
static prng_t GP[MAXT];      // program choices, one stream per thread
static int sw_pm = 450, sw_crit_pm = 600, burst_max = 12, burst_left = 0;   // per-run scheduling policy (per mille)

uintptr_t verif_tid(void) { return (uintptr_t)0x10000 * (uintptr_t)(cur + 1); }

// ---- the tracked bitmap and the shadow owner array ------------------------------------------------
static mi_decl_cache_align _Atomic(size_t) raw_store[MAXF + 2];   // raw mode: canary, fields, canary
#define CANARY ((size_t)0x5A5A5A5A5A5A5A5Aull)
static mi_bitmap_field_t* T_bm = NULL;     // raw: &raw_store[1]; arena: arena->blocks_inuse
static size_t T_nf = 0;
static size_t init_pat[MAXF];              // the bitmap when the scheduler started (pre-claimed bits)
static unsigned char owner[MAXBITS];       // 0 free, 255 pre-claimed, t+1: completed claim of virtual thread t
static size_t own_mask[MAXF];              // bits that have an owner
static long h_kind[16], h_claim_ok, h_claim_fail, h_cross, h_free, h_purge_ok, h_purge_fail, h_obs, h_alloc, h_null, h_afree, h_collect;

static void print_end(void) {
  printf("H loads=%ld cas_ok=%ld cas_fail=%ld stores=%ld fetch_and=%ld fetch_or=%ld claims=%ld failed_claims=%ld cross_field=%ld frees=%ld purges=%ld failed_purges=%ld observers=%ld allocs=%ld null_allocs=%ld arena_frees=%ld collects=%ld fields=%llu\n",
         h_kind[0], h_kind[1], h_kind[2], h_kind[3], h_kind[4], h_kind[5], h_claim_ok, h_claim_fail, h_cross, h_free, h_purge_ok, h_purge_fail, h_obs, h_alloc, h_null, h_afree, h_collect, U(T_nf));
  printf("END steps=%ld viol=%ld switches=%ld spurious=%ld\n", steps, nviol, switches, spurious);
  fflush(stdout);
}
static void pr_bitmap(void) { for (size_t i = 0; i < T_nf; i++) printf(" %llu", U(*(volatile size_t*)&T_bm[i])); }
static void viol(const char* kind, const char* fmt, ...) {
  va_list ap; va_start(ap, fmt);
  printf("V %s t%d step=%ld ", kind, cur, steps); vprintf(fmt, ap); printf(" bitmap:"); pr_bitmap(); printf("\n");
  va_end(ap); nviol++;
  print_end(); _exit(0);           // the state is corrupt from here on: the first violation is the witness
}
static inline long track(volatile void* p) {
  uintptr_t a = (uintptr_t)p, b = (uintptr_t)T_bm;
  if (T_bm == NULL || a < b || a >= b + T_nf * sizeof(size_t) || ((a - b) % sizeof(size_t)) != 0) return -1;
  return (long)((a - b) / sizeof(size_t));
}
static const char* TN[MAXT + 1] = { "0", "1", "2", "3", "?" };
static void check_owned(long f, const char* kind, size_t oldv, size_t newv) {
  size_t lost = own_mask[f] & ~newv;
  if (lost == 0) return;
  size_t b = mi_ctz(lost), p = (size_t)f * 64 + b;
  viol("lost-bit", "a %s of t%d on field %ld (%llu -> %llu) cleared bit %llu which is %s%s (lost bits of the field: %llu)", kind, cur, f, U(oldv), U(newv), U(p),
       owner[p] == 255 ? "pre-claimed" : "owned by the completed claim of t", owner[p] == 255 ? "" : TN[owner[p] - 1], U(lost));
}
static void stamp(int t, size_t idx, size_t count, const char* what) {
  if (count == 0 || idx + count > T_nf * 64) viol("outside", "%s returned the range [%llu,%llu) which is not inside the bitmap of %llu bits", what, U(idx), U(idx + count), U(T_nf * 64));
  for (size_t p = idx; p < idx + count; p++) {
    if (owner[p] != 0) viol("double-claim", "%s returned [%llu,%llu): bit %llu is already %s%s", what, U(idx), U(idx + count), U(p), owner[p] == 255 ? "pre-claimed" : "owned by t", owner[p] == 255 ? "" : TN[owner[p] - 1]);
    if (!((*(volatile size_t*)&T_bm[p / 64] >> (p % 64)) & 1)) viol("lost-bit", "%s returned [%llu,%llu) but bit %llu is not set in the bitmap", what, U(idx), U(idx + count), U(p));
    owner[p] = (unsigned char)(t + 1); own_mask[p / 64] |= (size_t)1 << (p % 64);
  }
}
static void unstamp(int t, size_t idx, size_t count) {
  for (size_t p = idx; p < idx + count; p++) {
    if (owner[p] != (unsigned char)(t + 1)) viol("double-claim", "bit %llu of the claim [%llu,%llu) of t%d changed its owner to %d", U(p), U(idx), U(idx + count), t, (int)owner[p] - 1);
    owner[p] = 0; own_mask[p / 64] &= ~((size_t)1 << (p % 64));
  }
}

static void switch_to(int n) {
  if (n == cur) return;
  int prev = cur; cur = n; switches++;
  swapcontext(&vts[prev].ctx, &vts[n].ctx);
}
static int pick_next(int must_leave, int critical) {
  int cand[MAXT], nc = 0;
  for (int i = 0; i < nthreads; i++) if (vts[i].alive && i != cur) cand[nc++] = i;
  if (nc == 0) return cur;
  if (!must_leave && vts[cur].alive) {
    if (burst_left > 0) { burst_left--; return cur; }
    // a thread about to CAS / store / fetch-and a bitmap field has read it before: the window in which
    // another thread can change the field is exactly here
    if ((int)prng_below(&G, 1000) >= (critical ? sw_crit_pm : sw_pm)) return cur;
  }
  burst_left = burst_max > 0 ? (int)prng_below(&G, (size_t)burst_max + 1) : 0;
  return cand[prng_below(&G, (size_t)nc)];
}
int verif_pre(int op, volatile void* p) {
  if (!sched_on) return 0;
  steps++;
  if (steps > max_steps) viol("livelock", "step budget exhausted (%ld steps)", steps);
  int critical = (op != VOP_LOAD && op != VOP_YIELD && p != NULL && track(p) >= 0);
  switch_to(pick_next(op == VOP_YIELD, critical));
  if (op == VOP_CASW && prng_below(&G, 100) < 6) { spurious++; return 1; }
  return 0;
}
void verif_post(int op, volatile void* p, int ok, uintptr_t oldv) {
  if (!sched_on || p == NULL) return;
  long f = track(p);
  if (f < 0) {
    if (T_bm == &raw_store[1] && (p == (void*)&raw_store[0] || p == (void*)&raw_store[T_nf + 1])) viol("outside", "atomic access (op %d) to the word %s the bitmap", op, p == (void*)&raw_store[0] ? "before" : "behind");
    return;
  }
  size_t newv = *(volatile size_t*)p;
  const char* kind; int hk;
  switch (op) {
    case VOP_LOAD: kind = "L"; hk = 0; break;
    case VOP_CASW: case VOP_CASS: kind = (ok == 1 ? "C" : ok == 2 ? "P" : "F"); hk = (ok == 1 ? 1 : 2); break;
    case VOP_STORE: kind = "W"; hk = 3; break;
    case VOP_AND: kind = "A"; hk = 4; break;
    case VOP_OR: kind = "O"; hk = 5; break;
    case VOP_XCHG: kind = "X"; hk = 6; break;
    default: kind = "?"; hk = 7; break;
  }
  h_kind[hk]++;
  if (do_log) printf("S %d %ld %s %llu %llu\n", cur, f, kind, U(oldv), U(newv));
  if (op != VOP_LOAD) check_owned(f, kind, oldv, newv);
}
static void yield_point(void) { verif_pre(VOP_YIELD, NULL); }
static mi_decl_cache_align _Atomic(size_t) foreign_word;   // accesses to it are scheduling points outside the bitmap
static void foreign_steps(int n) { for (int i = 0; i < n; i++) (void)mi_atomic_load_relaxed(&foreign_word); }

// ---- raw mode: the functions of bitmap.c on one shared bitmap ---------------------------------------
static int raw_cfg = 0;
typedef struct { size_t idx, cnt; } keep_t;
#define KEEP 3
static size_t raw_count(prng_t* g) {
  size_t bits = T_nf * 64, r = prng_below(g, 100);
  switch (raw_cfg) {
    case 1:  // contention of multi-field claims (rollbacks, retries)
      if (r < 12 || T_nf < 2) return 1 + prng_below(g, 2);
      return 40 + prng_below(g, bits > 150 ? 100 : bits - 50);
    case 2:  // many small claims in few fields (CAS contention inside a field)
      if (r < 70) return 1 + prng_below(g, 2);
      return 3 + prng_below(g, 10);
    case 3:  // claims over 3-4 fields (intermediate fields, rollback of several fields) against small claims in all fields
      if (r < 45) return 1 + prng_below(g, 2);
      return 90 + prng_below(g, bits - 130);
    default:
      if (r < 25) return 1 + prng_below(g, 2);
      if (r < 75) return 3 + prng_below(g, 30);
      return 3 + prng_below(g, bits > 100 ? 98 : bits - 2);
  }
}
static void raw_free(int t, keep_t* k) {
  unstamp(t, k->idx, k->cnt);                 // from now on the bits may be taken by others
  bool single = (k->idx % 64 + k->cnt <= 64) && prng_below(&GP[t], 3) == 0;
  if (do_log) printf("A %d free %llu %llu\n", t, U(k->idx), U(k->cnt));
  bool all = single ? _mi_bitmap_unclaim(T_bm, T_nf, k->cnt, k->idx) : _mi_bitmap_unclaim_across(T_bm, T_nf, k->cnt, k->idx);
  if (do_log) printf("R %d %d\n", t, (int)all);
  h_free++;
  if (!all) viol("bad-unclaim", "%s of the own claim [%llu,%llu) reported that not all bits were set", single ? "_mi_bitmap_unclaim" : "_mi_bitmap_unclaim_across", U(k->idx), U(k->idx + k->cnt));
}
static void raw_program(void) {
  int t = cur; prng_t* g = &GP[t];
  keep_t k[KEEP]; int nk = 0;
  for (int it = 0; it < nops; it++) {
    size_t r = prng_below(g, 100);
    if (nk == KEEP || (nk > 0 && r < 32)) {
      int j = (int)prng_below(g, (size_t)nk);
      raw_free(t, &k[j]); k[j] = k[nk - 1]; nk--;
    }
    else if (r < 44) {
      // the purger of mi_arena_try_purge: temporarily claim the longest prefix of a range inside one field
      size_t f = prng_below(g, T_nf), bit = prng_below(g, 64), len = 1 + prng_below(g, 64 - bit);
      if (len > 8) len = 1 + prng_below(g, 8);
      mi_bitmap_index_t x = mi_bitmap_index_create(f, bit);
      if (do_log) printf("A %d purge %llu %llu\n", t, U(x), U(len));
      while (len > 0) { if (_mi_bitmap_try_claim(T_bm, T_nf, len, x)) break; len--; }
      if (len > 0) {
        stamp(t, x, len, "_mi_bitmap_try_claim");
        foreign_steps((int)prng_below(g, 4));           // the purge itself: other threads run while the range is held
        unstamp(t, x, len);
        if (!_mi_bitmap_unclaim(T_bm, T_nf, len, x)) viol("bad-unclaim", "purger: _mi_bitmap_unclaim of the temporarily claimed range [%llu,%llu) reported that not all bits were set", U(x), U(x + len));
        h_purge_ok++;
      }
      else h_purge_fail++;
      if (do_log) printf("R %d %llu\n", t, U(len));
    }
    else if (r < 50 && nk > 0) {
      int j = (int)prng_below(g, (size_t)nk); size_t already = 0;
      if (do_log) printf("A %d isclaimed %llu %llu\n", t, U(k[j].idx), U(k[j].cnt));
      bool c = _mi_bitmap_is_claimed_across(T_bm, T_nf, k[j].cnt, k[j].idx, &already);
      if (do_log) printf("R %d %d\n", t, (int)c);
      h_obs++;
      if (!c || already != k[j].cnt) viol("not-claimed", "_mi_bitmap_is_claimed_across of the own claim [%llu,%llu) returned %d (already_set=%llu)", U(k[j].idx), U(k[j].idx + k[j].cnt), (int)c, U(already));
    }
    else if (r < 53) yield_point();
    else {
      size_t start = prng_below(g, T_nf + 1), count = raw_count(g);
      mi_bitmap_index_t x = 0;
      if (do_log) printf("A %d claim %llu %llu\n", t, U(start), U(count));
      bool ok = _mi_bitmap_try_find_from_claim_across(T_bm, T_nf, start, count, &x);
      if (do_log) { if (ok) printf("R %d 1 %llu\n", t, U(x)); else printf("R %d 0\n", t); }
      if (ok) {
        stamp(t, x, count, "_mi_bitmap_try_find_from_claim_across");
        h_claim_ok++; if (x / 64 != (x + count - 1) / 64) h_cross++;
        k[nk].idx = x; k[nk].cnt = count; nk++;
      }
      else h_claim_fail++;
    }
  }
  while (nk > 0) { nk--; raw_free(t, &k[nk]); }
}
static void raw_setup(uint64_t seed) {
  prng_t g; prng_seed(&g, seed ^ 0xB17);
  raw_cfg = (int)(seed % 4);
  T_nf = (raw_cfg == 1) ? 2 + prng_below(&g, 2) : (raw_cfg == 2) ? 1 + prng_below(&g, 2) : (raw_cfg == 3) ? 3 + prng_below(&g, 2) : 1 + prng_below(&g, 4);
  size_t total = T_nf * 64;
  for (size_t i = 0; i < MAXF; i++) init_pat[i] = 0;
  #define SETBIT(p) (init_pat[(p) / 64] |= (size_t)1 << ((p) % 64))
  if (raw_cfg == 1 || raw_cfg == 3) init_pat[0] = prng_below(&g, 1024);
  else switch (prng_below(&g, 4)) {
    case 0: break;
    case 1: { size_t post = prng_below(&g, 64); for (size_t p = total - post; p < total; p++) SETBIT(p); break; }       // arena shape
    case 2: { size_t post = prng_below(&g, 64); for (size_t p = total - post; p < total; p++) SETBIT(p);
              for (size_t n = prng_below(&g, 6); n > 0; n--) { size_t p = prng_below(&g, total), l = 1 + prng_below(&g, 20); for (size_t q = p; q < total && q < p + l; q++) SETBIT(q); } break; }
    default: for (size_t p = 0; p < total; p++) if (prng_below(&g, 5) == 0) SETBIT(p);
  }
  #undef SETBIT
  raw_store[0] = CANARY; raw_store[T_nf + 1] = CANARY;
  T_bm = &raw_store[1];
  for (size_t i = 0; i < T_nf; i++) { raw_store[1 + i] = init_pat[i]; own_mask[i] = init_pat[i]; }
  for (size_t p = 0; p < total; p++) owner[p] = ((init_pat[p / 64] >> (p % 64)) & 1) ? 255 : 0;
}
static void raw_finish(void) {
  bool same = true;
  for (size_t i = 0; i < T_nf; i++) if (raw_store[1 + i] != init_pat[i]) same = false;
  if (do_log) { printf("B"); pr_bitmap(); printf("\n"); }
  if (raw_store[0] != CANARY || raw_store[T_nf + 1] != CANARY) viol("outside", "a word next to the bitmap was written");
  if (!same) {
    char buf[200]; size_t n = 0; for (size_t i = 0; i < T_nf; i++) n += (size_t)snprintf(buf + n, sizeof buf - n, " %llu", U(init_pat[i]));
    viol("residue", "after every thread released all its claims the bitmap differs from the initial pattern%s (something stays reserved, or a pre-claimed bit was lost):", buf);
  }
}

// ---- arena mode: a real arena ----------------------------------------------------------------------
static mi_arena_id_t A_id; static mi_arena_t* A = NULL; static uint8_t* A_start; static size_t A_bcount;
typedef struct { size_t b0, cnt; mi_memid_t memid; } akeep_t;
#define AKEEP 4
static akeep_t held[MAXBITS]; static int nheld = 0;     // blocks allocated before the scheduler starts (pre-claimed for the run)
static int a_cfg = 0;

static bool arena_alloc(int t, size_t blocks, bool commit, akeep_t* out, bool pre) {
  mi_memid_t memid;
  if (do_log && !pre) printf("A %d alloc %llu\n", t, U(blocks));
  uint8_t* p = (uint8_t*)_mi_arena_alloc_aligned(blocks * MI_ARENA_BLOCK_SIZE, MI_SEGMENT_ALIGN, 0, commit, false, A_id, &memid);
  if (p == NULL) { if (do_log && !pre) printf("R %d 0\n", t); h_null++; return false; }
  bool inside = (p >= A_start && p + blocks * MI_ARENA_BLOCK_SIZE <= A_start + A_bcount * MI_ARENA_BLOCK_SIZE && ((size_t)(p - A_start) % MI_ARENA_BLOCK_SIZE) == 0);
  size_t b0 = inside ? (size_t)(p - A_start) / MI_ARENA_BLOCK_SIZE : 0;
  if (do_log && !pre) printf("R %d 1 %llu\n", t, U(b0));
  size_t ai = 0, bi = 0;
  if (!inside || memid.memkind != MI_MEM_ARENA || !mi_arena_memid_indices(memid, &ai, &bi) || bi != b0)
    viol("outside", "_mi_arena_alloc_aligned of %llu blocks returned offset %lld (memkind %d, memid block %llu): not a block range of the arena of %llu blocks", U(blocks), (long long)(p - A_start), (int)memid.memkind, U(bi), U(A_bcount));
  if (!pre) { stamp(t, b0, blocks, "_mi_arena_alloc_aligned"); h_alloc++; if (b0 / 64 != (b0 + blocks - 1) / 64) h_cross++; }
  out->b0 = b0; out->cnt = blocks; out->memid = memid;
  return true;
}
static void arena_free(int t, akeep_t* k, bool pre) {
  if (!pre) unstamp(t, k->b0, k->cnt);
  size_t size = k->cnt * MI_ARENA_BLOCK_SIZE;
  if (do_log && !pre) printf("A %d afree %llu %llu\n", t, U(k->b0), U(k->cnt));
  _mi_arena_free(A_start + k->b0 * MI_ARENA_BLOCK_SIZE, size, k->memid.initially_committed ? size : 0, k->memid);
  if (do_log && !pre) printf("R %d\n", t);
  if (!pre) h_afree++;
}
static size_t arena_count(prng_t* g) {
  size_t r = prng_below(g, 100);
  switch (a_cfg) {
    case 1: return r < 20 ? 1 + prng_below(g, 2) : 3 + prng_below(g, 8);              // multi-block requests around the field boundary
    case 2: return r < 75 ? 1 : r < 90 ? 2 : 3;                                       // purge races: small blocks, many frees
    default: return r < 40 ? 1 : r < 60 ? 2 : 3 + prng_below(g, 6);
  }
}
static void arena_program(void) {
  int t = cur; prng_t* g = &GP[t];
  akeep_t k[AKEEP]; int nk = 0;
  for (int it = 0; it < nops; it++) {
    size_t r = prng_below(g, 100);
    if (r < 12) vclock_ms += 1 + (long long)prng_below(g, 3);
    if (nk == AKEEP || (nk > 0 && r < 40)) {
      int j = (a_cfg == 2 && prng_below(g, 2)) ? 0 : (int)prng_below(g, (size_t)nk);   // purge races: free the oldest (lowest) block first
      arena_free(t, &k[j], false);
      for (int q = j; q + 1 < nk; q++) k[q] = k[q + 1];
      nk--;
    }
    else if (r < (a_cfg == 2 ? 58 : 47)) {
      int force = prng_below(g, 3) != 0;
      if (do_log) printf("A %d collect %d\n", t, force);
      _mi_arenas_collect(force != 0);
      if (do_log) printf("R %d\n", t);
      h_collect++;
    }
    else if (r < (a_cfg == 2 ? 60 : 50)) yield_point();
    else if (arena_alloc(t, arena_count(g), prng_below(g, 4) == 0, &k[nk], false)) nk++;
  }
  while (nk > 0) { nk--; arena_free(t, &k[nk], false); }
}
static void arena_setup(uint64_t seed) {
  prng_t g; prng_seed(&g, seed ^ 0xA7E7A);
  a_cfg = (int)(seed % 3);
  static const size_t sizes[] = { 70, 100, 130, 66, 135, 200, 128 };
  A_bcount = sizes[prng_below(&g, sizeof(sizes) / sizeof(sizes[0]))];
  static const long delays[] = { 1, 2, 5, 0 };
  long delay = (a_cfg == 2) ? delays[prng_below(&g, 3)] : delays[prng_below(&g, 4)];
  mi_option_set(mi_option_purge_delay, delay);
  mi_option_set(mi_option_arena_purge_mult, 1);
  size_t size = A_bcount * MI_ARENA_BLOCK_SIZE;
  uint8_t* raw = (uint8_t*)mmap(NULL, size + MI_SEGMENT_ALIGN, PROT_NONE, MAP_PRIVATE | MAP_ANONYMOUS | MAP_NORESERVE, -1, 0);
  if (raw == MAP_FAILED) { printf("V setup cannot map the arena memory\n"); nviol++; print_end(); _exit(0); }
  A_start = (uint8_t*)_mi_align_up((uintptr_t)raw, MI_SEGMENT_ALIGN);
  if (!mi_manage_os_memory_ex(A_start, size, false /*committed*/, false /*large*/, false /*zero*/, -1, true /*exclusive*/, &A_id)) { printf("V setup mi_manage_os_memory_ex failed\n"); nviol++; print_end(); _exit(0); }
  A = mi_arena_from_index(mi_arena_id_index(A_id));
  T_bm = A->blocks_inuse; T_nf = A->field_count;
  if (T_nf > MAXF) { printf("V setup arena has %llu fields\n", U(T_nf)); nviol++; print_end(); _exit(0); }
  // blocks held for the whole run, so that the free window lies where the configuration wants it:
  // cfg 1: just below the first field boundary (multi-block requests cross it), cfg 2: a few blocks only
  size_t hold = 0;
  if (a_cfg == 1) hold = 52 + prng_below(&g, 11);
  else if (a_cfg == 2) hold = A_bcount - (6 + prng_below(&g, 8));
  else if (prng_below(&g, 2)) hold = prng_below(&g, 64);
  while ((size_t)nheld < hold) { size_t c = 1 + prng_below(&g, 2); if (!arena_alloc(0, c, false, &held[nheld], true)) break; nheld++; }
  if (a_cfg == 2 && nheld > 4) {   // purge races: the free window is not at the end of the arena
    int j = (int)prng_below(&g, (size_t)nheld - 2); size_t want = 5 + prng_below(&g, 6), got = 0;
    while (got < want && j < nheld) { got += held[j].cnt; arena_free(0, &held[j], true); for (int q = j; q + 1 < nheld; q++) held[q] = held[q + 1]; nheld--; }
    vclock_ms += 100; _mi_arenas_collect(true);
  }
  for (size_t i = 0; i < T_nf; i++) { init_pat[i] = mi_atomic_load_relaxed(&T_bm[i]); own_mask[i] = init_pat[i]; }
  for (size_t p = 0; p < T_nf * 64; p++) owner[p] = ((init_pat[p / 64] >> (p % 64)) & 1) ? 255 : 0;
}
static void arena_finish(void) {
  if (do_log) { printf("B"); pr_bitmap(); printf("\n"); }
  for (int round = 0; round < 2; round++) {
    bool same = true;
    for (size_t i = 0; i < T_nf; i++) if (mi_atomic_load_relaxed(&T_bm[i]) != init_pat[i]) same = false;
    if (!same) {
      char buf[200]; size_t n = 0; for (size_t i = 0; i < T_nf; i++) n += (size_t)snprintf(buf + n, sizeof buf - n, " %llu", U(init_pat[i]));
      viol("residue", "after every thread freed all its blocks%s blocks_inuse differs from the pattern before the run%s:", round ? " and a forced purge" : "", buf);
    }
    vclock_ms += 100000; _mi_arenas_collect(true);
  }
  // free what was held for the run: the arena must be back to its initial bitmap and can be allocated completely again
  for (size_t i = 0; i < T_nf; i++) own_mask[i] = 0;
  while (nheld > 0) { nheld--; arena_free(0, &held[nheld], true); }
  vclock_ms += 100000; _mi_arenas_collect(true);
  size_t post = T_nf * 64 - A_bcount; bool pattern = true;
  for (size_t i = 0; i < T_nf; i++) { size_t want = (i == T_nf - 1 && post > 0) ? (~(size_t)0 << (64 - post)) : 0; if (mi_atomic_load_relaxed(&T_bm[i]) != want) pattern = false; }
  if (!pattern) viol("residue", "after everything was freed blocks_inuse of the arena of %llu blocks is not the initial bitmap:", U(A_bcount));
  for (size_t p = 0; p < T_nf * 64; p++) owner[p] = (p >= A_bcount) ? 255 : 0;
  size_t n = 0; static akeep_t all[MAXBITS];
  while (n <= A_bcount && arena_alloc(0, 1, false, &all[n], true)) { for (size_t q = 0; q < n; q++) if (all[q].b0 == all[n].b0) viol("double-claim", "refill: block %llu handed out twice", U(all[n].b0)); n++; }
  if (n != A_bcount) viol("refill", "after everything was freed only %llu of the %llu blocks of the arena could be allocated again with one-block requests:", U(n), U(A_bcount));
  while (n > 0) { n--; arena_free(0, &all[n], true); }
}

// ---- threads ------------------------------------------------------------------------------------------
static int mode = 0;     // 0 raw, 1 arena
static void run_program(void) { if (mode == 0) raw_program(); else arena_program(); }
static void vthread_main(void) {
  run_program();
  vts[cur].alive = 0;
  burst_left = 0;
  int nx = pick_next(1, 0);
  cur = nx; switches++;
  setcontext(&vts[nx].ctx);
}
static void on_segv(int sig) { printf("V crash t%d step=%ld signal %d\n", cur, steps, sig); nviol++; print_end(); _exit(0); }

int main(int argc, char** argv) {
  if (argc < 5) { fprintf(stderr, "usage: s_arena <raw|arena> <seed> <nthreads> <nops> [log]\n"); return 2; }
  verif_no_aslr(argv);
  mode = !strcmp(argv[1], "arena") ? 1 : 0;
  uint64_t seed = strtoull(argv[2], NULL, 10); nthreads = atoi(argv[3]); nops = atoi(argv[4]); do_log = argc > 5;
  if (nthreads > MAXT) nthreads = MAXT;
  if (nthreads < 2) nthreads = 2;
  prng_seed(&G, seed * 2 + 1);
  for (int i = 0; i < MAXT; i++) prng_seed(&GP[i], seed * 8 + 2 + (uint64_t)i);
  { // scheduling policy of this run: from "switch at every other step" to long bursts (one thread runs several
    // whole operations inside the window of another one)
    static const int sw[] = { 450, 200, 60, 25, 120, 8 }; static const int bm[] = { 0, 12, 0, 40, 120, 0 };
    size_t k = (size_t)((seed / 12) % 6);
    sw_pm = sw[k]; burst_max = bm[k]; sw_crit_pm = ((seed / 72) % 2) ? 600 : sw_pm;
  }
  setvbuf(stdout, NULL, _IOFBF, 1 << 16);
  signal(SIGSEGV, on_segv); signal(SIGBUS, on_segv); signal(SIGABRT, on_segv);
  if (mode == 0) raw_setup(seed); else arena_setup(seed);
  if (do_log) { printf("I"); pr_bitmap(); printf("\n"); }
  vts[0].alive = 1;
  for (int i = 1; i < nthreads; i++) {
    vts[i].stack = (char*)malloc(STACKSZ);
    getcontext(&vts[i].ctx);
    vts[i].ctx.uc_stack.ss_sp = vts[i].stack; vts[i].ctx.uc_stack.ss_size = STACKSZ; vts[i].ctx.uc_link = NULL;
    makecontext(&vts[i].ctx, vthread_main, 0);
    vts[i].alive = 1;
  }
  sched_on = 1;
  run_program();
  for (;;) { int live = 0; for (int i = 1; i < nthreads; i++) live += vts[i].alive; if (!live) break; yield_point(); }
  sched_on = 0;
  if (mode == 0) raw_finish(); else arena_finish();
  print_end();
  return 0;
}
