// OS / clock shim for the /verif harnesses (C07, C11, C13, C18).
//
// A harness translation unit is compiled with
//     -Dmmap=shim_mmap -Dmunmap=shim_munmap -Dmprotect=shim_mprotect -Dmadvise=shim_madvise
//     -Dclock_gettime=shim_clock_gettime
// (macro renames on the compiler command line: /repo is not changed; the renames also rewrite the
// prototypes of <sys/mman.h>/<time.h>, so the shim_* functions have exactly the libc signatures).
// shim.c itself is compiled WITHOUT the renames and performs the real system calls.
//
// The shim keeps
//   * a LEDGER of the live mappings made through it, page (4 KiB) granular: base, length, and per
//     page  SHIM_PG_RW     protection is read+write ("accessible"; otherwise PROT_NONE)
//           SHIM_PG_PURGED madvise(MADV_DONTNEED|MADV_FREE) hit the page since it was last
//                          write-committed (mmap or mprotect to read+write)
//     accessible        := RW
//     resident-possible := RW and not PURGED   ("committed" in shim_total_committed)
//   * counters per call kind and a LOG of calls (seq, kind, addr, len, arg, result, injected?)
//   * a VIRTUAL CLOCK serving CLOCK_REALTIME and CLOCK_MONOTONIC (and every other clock id)
//   * a FAILURE ORACLE hook: return nonzero to make that call fail with ENOMEM without performing it
//   * an ADDRESS hook for mmap (to force the kernel's answer, e.g. a misaligned address)
// All entry points take one mutex.
#pragma once
#include <stddef.h>
#include <stdint.h>
#include <stdio.h>
#include <time.h>
#include <sys/types.h>

#ifdef __cplusplus
extern "C" {
#endif

enum { SHIM_MMAP = 0, SHIM_MUNMAP = 1, SHIM_MPROTECT = 2, SHIM_MADVISE = 3, SHIM_KINDS = 4 };
#define SHIM_PG_RW     1u
#define SHIM_PG_PURGED 2u
#define SHIM_PAGE      4096u

typedef struct shim_call_s {
  int    seq;       // 0,1,2,... since the last shim_reset_log()
  int    kind;      // SHIM_MMAP ...
  void*  addr;      // address argument (the hint for mmap)
  size_t len;
  long   arg;       // mmap: prot ; mprotect: prot ; madvise: advice ; munmap: 0
  long   arg2;      // mmap: flags ; otherwise 0
  long   result;    // mmap: returned address (0 on failure) ; others: 0 or -1
  int    err;       // errno on failure, else 0
  int    injected;  // 1 when the failure was injected by shim_fail
} shim_call_t;

// interposed entry points (libc signatures)
void* shim_mmap(void* addr, size_t len, int prot, int flags, int fd, off_t off);
int   shim_munmap(void* addr, size_t len);
int   shim_mprotect(void* addr, size_t len, int prot);
int   shim_madvise(void* addr, size_t len, int advice);
int   shim_clock_gettime(clockid_t id, struct timespec* ts);

// failure oracle: called (under the shim lock) before the call is performed; nonzero => the call
// fails with ENOMEM (mmap returns MAP_FAILED) and is NOT performed.  NULL = never fail.
extern int (*shim_fail)(int seq, int kind, void* addr, size_t len);
// address oracle for mmap: called for every mmap that was not failed; may return a page-aligned
// address at which the shim will place the mapping (MAP_FIXED_NOREPLACE), or NULL for "let the
// kernel decide" (the caller's hint is then passed through).  NULL hook = kernel decides.
extern void* (*shim_mmap_where)(int seq, void* hint, size_t len);
// helper for shim_mmap_where: a currently unused address range of `len` bytes whose start is
// congruent to `offset` modulo `align` (align a power of two >= 4096, offset a multiple of 4096)
void* shim_find_free_range(size_t len, size_t align, size_t offset);

// virtual clock (milliseconds); starts at 1000000 ms so that "0" keeps its meaning of "unset"
void    shim_clock_set_ms(int64_t ms);
void    shim_clock_advance_ms(int64_t ms);
int64_t shim_clock_now_ms(void);
size_t  shim_clock_reads(void);            // number of clock_gettime calls served

// log
void   shim_reset_log(void);               // forget the log and the counters (the ledger stays)
size_t shim_log_count(void);
int    shim_log_get(size_t i, shim_call_t* out);   // 1 when i is valid
size_t shim_count(int kind);               // calls of this kind since the last reset (incl. failed)
size_t shim_count_ok(int kind);            // successful ones
void   shim_dump(FILE* f);                 // counters, ledger summary and the whole log
void   shim_dump_log_from(FILE* f, size_t first, const char* prefix);  // one line per call

// ledger
size_t shim_mapping_count(void);
int    shim_mapping_get(size_t i, void** base, size_t* len);           // sorted by base address
size_t shim_total_mapped(void);            // bytes in live mappings
size_t shim_total_accessible(void);        // bytes with SHIM_PG_RW
size_t shim_total_committed(void);         // bytes RW and not PURGED ("resident-possible")
int    shim_is_mapped(const void* addr, size_t len);      // every page of the range is mapped
int    shim_is_accessible(const void* addr, size_t len);  // ... and RW
int    shim_page_state(const void* addr);  // -1 unmapped, else SHIM_PG_* bits
// bytes of [addr,addr+len) that are mapped / RW / RW-and-not-purged / purged
void   shim_range_stats(const void* addr, size_t len, size_t* mapped, size_t* rw, size_t* committed, size_t* purged);
// order-independent digest of the ledger (bases made relative when `relative` != 0): lets a harness
// compare "the mapping set is what it was"
uint64_t shim_ledger_digest(int with_page_state);

#ifdef __cplusplus
}
#endif
