// C07, Coq side (coq/Model/Commit.v): commit bookkeeping of the REAL allocator under refused OS calls.
// Built like tools/props/C07.py builds its harness: -DVERIF_SHIM -Dmmap=shim_mmap -Dmunmap=shim_munmap
// -Dmprotect=shim_mprotect -Dmadvise=shim_madvise -Dclock_gettime=shim_clock_gettime, linked with shim.o
// (no change to /repo).  Optional -DMI_DEBUG=1: the build whose _mi_prim_decommit protects (needs_recommit).
//
//   f_commit <seed> <nops> <variant>
//
// Creates ONE arena with mi_manage_os_memory_ex over memory mapped PROT_NONE through the shim
// (is_committed = false), options arena_reserve = 0, disallow_os_alloc = 1 (so every segment lives in that arena),
// arena_eager_commit = 0, and per variant: eager_commit, purge_delay (10 = scheduled with a frozen clock,
// 0 = immediate, -1 = never), purge_decommits.  Then a seeded sequence of
//   M  mi_malloc of a huge (> 16 MiB), large (one page per block) or small size
//   F  mi_free of a large/huge block (its page is freed at once)
//   C  mi_collect(true)
// while shim_fail refuses a seeded subset of the mprotect calls (per API call: none / every one / each with
// probability 1/2 or 1/4 / exactly the first / exactly the second).
// After every API call it prints
//   O <opno> M <slot> <size> <class> <n> = <ptr> <segbase> <lo> <cnt>     (class 0 large, 1 huge, 2 small/medium;
//                                                                        n: slices of the fresh page the call needs)
//   O <opno> F <slot> <ptr> <segbase> <lo> <cnt>
//   O <opno> C
//   O <opno> f <slot> <ptr> <segbase> <lo> <cnt>       (drain) mi_free of a small/medium block; its page <segbase>+<lo>:<cnt>
//                                                      is freed by this call iff it is no longer a used span in the dump
//   O <opno> D <k> <segbase>:<lo>:<cnt> ...            (drain) the final mi_collect(true); the k pages without a used block
//                                                      in the order in which mi_heap_collect_ex will free them
//   L <kind> <addr> <len> <arg> <ok>                    every OS call of the API call, in order (kind 2 = mprotect)
//   A <start> <nblocks> <fields> inuse.. committed.. dirty.. purge..   the arena's bitmap words
//   S <base> <huge> <nslices> <info> <block> <nblocks> c0..c7 p0..p7 <k> lo:cnt ...   every live segment
//   K <lo> <n> <runs...>                                shim ledger, per slice, alternating run lengths (first: inaccessible)
//   T ...                                               implementation-side oracle records (see below)
//   E
// After the <nops> seeded calls the run is DRAINED (property C11, coq/Properties/C11back.v): every large/huge block is
// freed (F), every small/medium block is freed (f), mi_collect(true) is called (D) -- each with its own failure plan and
// dump -- and the real allocator must have given everything back:
//   T giveback <opno> <segments owned by the thread> <tld current_size> <arena blocks in use> <free blocks still scheduled
//              for a purge> <pages in the heap> <bytes mapped outside the arena at the start> <now> <segment-map bytes>
//   G <segments> <blocks in use> <scheduled> <outside delta>    the same for the model replay (ocaml/mode_commit.ml)
// T records:  T ret <opno> <ptr> <usable> <accessible>      a returned block, accessible per the ledger?
//             T bit <opno> arena <block> <slice>            a committed bit over an inaccessible slice (not governed by a mask)
//             T bit <opno> mask <segbase> <slice>           a commit-mask bit (or a huge segment) over an inaccessible slice
//             T orphan <opno> <block>                       an in-use arena block that belongs to no segment (leaked)
//             T unused <opno> <segbase> <block> <used>      a live segment without a single page (never freed later)
//             T chk <opno> <bits checked>
//             T crash <opno> <signal>
//             T giveback ...                                 see above (after the drain)
#include REPO_STATIC
#include <stdio.h>
#include <stdlib.h>
#include <string.h>
#include <signal.h>
#include <unistd.h>
#include <sys/mman.h>
#include "prng.h"
#include "shim.h"

#define U(x) ((unsigned long long)(x))
#define SLICE ((size_t)MI_SEGMENT_SLICE_SIZE)
#define MAXSLOT 96
static prng_t G, GF;
static long opno = 0;
static struct { void* p; size_t size; int kind; } slots[MAXSLOT];   // kind: 0 free, 1 small (never freed), 2 large, 3 huge
static mi_arena_t* arena;
static int fail_num = 0, fail_den = 1, inject = 0, fail_only = -1, fail_seen = 0;
static long injected = 0;

static int fail_hook(int seq, int kind, void* addr, size_t len) {
  (void)seq; (void)addr; (void)len;
  if (!inject || kind != SHIM_MPROTECT) return 0;
  int k = fail_seen++;
  if (fail_only >= 0) { if (k == fail_only) { injected++; return 1; } return 0; }
  if (fail_num == 0) return 0;
  if ((int)prng_below(&GF, (size_t)fail_den) < fail_num) { injected++; return 1; }
  return 0;
}
static void on_crash(int sig) {
  char buf[96]; int n = snprintf(buf, sizeof buf, "T crash %ld %d\n", opno, sig);
  fflush(stdout); if (write(1, buf, (size_t)n) < 0) {} _exit(5);
}

static int slice_acc(size_t slice) { return shim_is_accessible((void*)(slice * SLICE), SLICE); }

// the live segments: every run of in-use arena blocks starts with a segment header (all users of the arena are
// segments here).  Before the repair of mi_segments_page_alloc a segment could stay live without a live page (a fresh
// segment whose first span commit was refused, or that the retry did not use, stayed cached in the span queues), so
// the live blocks do not tell; the header is read only when the ledger says that it is accessible and is recognised
// by its cookie.  A segment without a page after an API call is reported (T unused): nothing ever frees it.
static mi_segment_t* segs[256]; static size_t nsegs;
static void collect_segments(void) {
  nsegs = 0;
  for (size_t b = 0; b < arena->block_count; ) {
    if (!((arena->blocks_inuse[b / 64] >> (b % 64)) & 1)) { b++; continue; }
    mi_segment_t* s = (mi_segment_t*)(arena->start + b * MI_ARENA_BLOCK_SIZE);
    if (shim_is_accessible(s, sizeof(mi_segment_t)) && s->cookie == _mi_ptr_cookie(s) && s->segment_slices > 0 && nsegs < 256) {
      segs[nsegs++] = s;
      b += mi_block_count_of_size(mi_segment_size(s));
    }
    else { printf("T orphan %ld %zu\n", opno, b); b++; }
  }
}
static int governed(size_t slice) {
  for (size_t i = 0; i < nsegs; i++) {
    size_t b = (size_t)segs[i] / SLICE;
    if (segs[i]->kind != MI_SEGMENT_HUGE && slice >= b && slice < b + segs[i]->segment_slices) return 1;
  }
  return 0;
}

static void dump(size_t log_from) {
  size_t nlog = shim_log_count();
  for (size_t i = log_from; i < nlog; i++) {
    shim_call_t c; shim_log_get(i, &c);
    printf("L %d %llu %zu %ld %d\n", c.kind, U(c.kind == SHIM_MMAP && c.err == 0 ? (size_t)c.result : (size_t)c.addr), c.len, c.arg, c.err == 0 ? 1 : 0);
  }
  size_t a0 = (size_t)arena->start / SLICE, bs = MI_ARENA_BLOCK_SIZE / SLICE;
  printf("A %zu %zu %zu", a0, arena->block_count, arena->field_count);
  for (size_t i = 0; i < arena->field_count; i++) printf(" %llu", U(arena->blocks_inuse[i]));
  for (size_t i = 0; i < arena->field_count; i++) printf(" %llu", U(arena->blocks_committed[i]));
  for (size_t i = 0; i < arena->field_count; i++) printf(" %llu", U(arena->blocks_dirty[i]));
  for (size_t i = 0; i < arena->field_count; i++) printf(" %llu", U(arena->blocks_purge[i]));
  printf("\n");
  collect_segments();
  size_t checked = 0;
  for (size_t i = 0; i < nsegs; i++) {
    mi_segment_t* s = segs[i];
    size_t base = (size_t)s / SLICE;
    size_t blk = 0, nblk = 0;
    if (s->memid.memkind == MI_MEM_ARENA) { size_t ai, bi; mi_arena_memid_indices(s->memid, &ai, &bi); blk = bi; nblk = mi_block_count_of_size(mi_segment_size(s)); }
    printf("S %zu %d %zu %zu %zu %zu", base, s->kind == MI_SEGMENT_HUGE ? 1 : 0, s->segment_slices, s->segment_info_slices, blk, nblk);
    for (int k = 0; k < MI_COMMIT_MASK_FIELD_COUNT; k++) printf(" %llu", U(s->commit_mask.mask[k]));
    for (int k = 0; k < MI_COMMIT_MASK_FIELD_COUNT; k++) printf(" %llu", U(s->purge_mask.mask[k]));
    // used spans (other than the header span at 0)
    size_t cnt = 0;
    const mi_slice_t* end = mi_segment_slices_end(s);
    for (mi_slice_t* sl = &s->slices[0]; sl < end; sl += sl->slice_count) { if (sl->slice_count == 0) break; if (sl != &s->slices[0] && sl->block_size > 0) cnt++; }
    printf(" %zu", cnt);
    for (mi_slice_t* sl = &s->slices[0]; sl < end; sl += sl->slice_count) {
      if (sl->slice_count == 0) break;
      if (sl != &s->slices[0] && sl->block_size > 0) printf(" %zu:%u", (size_t)(sl - s->slices), sl->slice_count);
    }
    printf("\n");
    // implementation oracle: a segment is never owned without a page once the API call has returned
    // (_mi_segment_page_free frees a segment with its last page; mi_segments_page_alloc frees a fresh segment that
    // its retry did not use); such a segment would never be freed: mi_collect visits segments through their pages
    if (cnt == 0 || s->used == 0) printf("T unused %ld %zu %zu %zu\n", opno, base, blk, s->used);
    // implementation oracle: mask bit => accessible ; huge => all accessible
    for (size_t k = 0; k < s->segment_slices; k++) {
      int bit = (s->kind == MI_SEGMENT_HUGE) ? 1 : (k < MI_COMMIT_MASK_BITS && ((s->commit_mask.mask[k / 64] >> (k % 64)) & 1));
      if (bit) { checked++; if (!slice_acc(base + k)) { printf("T bit %ld mask %zu %zu\n", opno, base, k); break; } }
    }
  }
  for (size_t b = 0; b < arena->block_count; b++) {
    if ((arena->blocks_committed[b / 64] >> (b % 64)) & 1) {
      for (size_t k = 0; k < bs; k++) {
        size_t x = a0 + b * bs + k;
        if (governed(x)) continue;
        checked++;
        if (!slice_acc(x)) { printf("T bit %ld arena %zu %zu\n", opno, b, k); break; }
      }
    }
  }
  printf("T chk %ld %zu\n", opno, checked);
  // ledger over the arena
  size_t total = arena->block_count * bs;
  printf("K %zu %zu", a0, total);
  int cur = 0; size_t run = 0;
  for (size_t k = 0; k < total; k++) {
    int a = slice_acc(a0 + k);
    if (a == cur) run++; else { printf(" %zu", run); cur = a; run = 1; }
  }
  printf(" %zu\nE\n", run);
}

static size_t page_slices_needed(size_t size, int* huge) {
  // mi_find_page / mi_large_huge_page_alloc / mi_segments_page_alloc / mi_segment_calculate_slices
  size_t sz = size + MI_PADDING_SIZE;
  *huge = 0;
  if (size <= MI_MEDIUM_OBJ_SIZE_MAX - MI_PADDING_SIZE) {
    size_t bsize = _mi_bin_size(_mi_bin(sz));
    *huge = 2;   // size class with a page queue: mi_page_queue_find_free_ex tries twice
    if (bsize <= MI_SMALL_OBJ_SIZE_MAX) return 1;
    return MI_MEDIUM_PAGE_SIZE / SLICE;
  }
  size_t block_size = _mi_os_good_alloc_size(sz);
  if (block_size > MI_LARGE_OBJ_SIZE_MAX) { *huge = 1; return _mi_divide_up(block_size, SLICE); }
  size_t page_size = _mi_align_up(block_size, (block_size > MI_MEDIUM_PAGE_SIZE ? MI_MEDIUM_PAGE_SIZE : SLICE));
  return page_size / SLICE;
}

static void set_failure_plan(void) {
  fail_only = -1; fail_seen = 0;
  switch (prng_below(&G, 10)) {
    case 0: case 1: fail_num = 0; fail_den = 1; break;            // no refusal
    case 2: fail_num = 1; fail_den = 1; break;                    // every mprotect of the call refused
    case 3: case 4: fail_num = 1; fail_den = 2; break;            // each with probability 1/2
    case 5: fail_num = 1; fail_den = 4; break;                    // each with probability 1/4
    case 6: case 7: case 8: fail_num = 0; fail_only = 0; break;   // exactly the first one
    default: fail_num = 0; fail_only = 1; break;                  // exactly the second one
  }
}

// mi_free of the one-block page in slot s (large or huge): its page is freed at once
static void op_free_page(int s) {
  void* p = slots[s].p;
  mi_segment_t* sg = _mi_ptr_segment(p); mi_page_t* pg = _mi_segment_page_of(sg, p);
  printf("O %ld F %d %llu %zu %zu %u\n", opno, s, U(p), (size_t)sg / SLICE, (size_t)((mi_slice_t*)pg - sg->slices), pg->slice_count);
  inject = 1; mi_free(p); inject = 0;
  slots[s].kind = 0; slots[s].p = NULL;
}

// ---- the drain (C11): what is mapped outside the memory reserved for the arena, the segment-map parts (never freed)
static uint8_t* reserved_base; static size_t reserved_len;
static size_t mapped_outside(void) {
  size_t m = 0, rw = 0, c = 0, pu = 0;
  shim_range_stats(reserved_base, reserved_len, &m, &rw, &c, &pu);
  return shim_total_mapped() - m;
}
static size_t segmap_bytes(void) {
  size_t n = 0;
  for (size_t i = 0; i < MI_SEGMENT_MAP_MAX_PARTS; i++) if (mi_atomic_load_ptr_relaxed(mi_segmap_part_t, &mi_segment_map[i]) != NULL) n += _mi_os_good_alloc_size(sizeof(mi_segmap_part_t));
  return n;
}
static void print_page(mi_page_t* page) {
  mi_segment_t* sg = _mi_page_segment(page);
  printf(" %zu:%zu:%u", (size_t)sg / SLICE, (size_t)((mi_slice_t*)page - sg->slices), page->slice_count);
}
// the pages that the forced collect will free, in its order: _mi_heap_collect_retired (the head of every queue from
// page_retired_min to page_retired_max that is retired and without a used block), then mi_heap_visit_pages (queue by queue)
static void print_collect_order(mi_heap_t* heap) {
  mi_page_t* first[MI_BIN_FULL + 1]; size_t k = 0;
  for (size_t bin = 0; bin <= MI_BIN_FULL; bin++) first[bin] = NULL;
  for (size_t bin = heap->page_retired_min; bin <= heap->page_retired_max && bin <= MI_BIN_FULL; bin++) {
    mi_page_t* page = heap->pages[bin].first;
    if (page != NULL && page->retire_expire != 0 && mi_page_all_free(page)) { first[bin] = page; k++; }
  }
  for (size_t bin = 0; bin <= MI_BIN_FULL; bin++)
    for (mi_page_t* page = heap->pages[bin].first; page != NULL; page = page->next) if (page != first[bin] && mi_page_all_free(page)) k++;
  printf("O %ld D %zu", opno, k);
  for (size_t bin = 0; bin <= MI_BIN_FULL; bin++) if (first[bin] != NULL) print_page(first[bin]);
  for (size_t bin = 0; bin <= MI_BIN_FULL; bin++)
    for (mi_page_t* page = heap->pages[bin].first; page != NULL; page = page->next) if (page != first[bin] && mi_page_all_free(page)) print_page(page);
  printf("\n");
}

int main(int argc, char** argv) {
  uint64_t seed = argc > 1 ? strtoull(argv[1], NULL, 10) : 1;
  long nops = argc > 2 ? atol(argv[2]) : 200;
  int variant = argc > 3 ? atoi(argv[3]) : 0;
  prng_seed(&G, seed); prng_seed(&GF, seed ^ 0x5bd1e995u);
  signal(SIGSEGV, on_crash); signal(SIGBUS, on_crash); signal(SIGABRT, on_crash);
  setvbuf(stdout, NULL, _IOFBF, 1 << 16);

  const int eager = variant & 1;
  const long delay = ((variant >> 1) & 3) == 0 ? 10 : ((variant >> 1) & 3) == 1 ? 0 : ((variant >> 1) & 3) == 2 ? -1 : 10;
  const int decommits = ((variant >> 3) & 1) ? 0 : 1;
  mi_option_set(mi_option_arena_reserve, 0);
  mi_option_set(mi_option_disallow_os_alloc, 1);
  mi_option_set(mi_option_arena_eager_commit, 0);
  mi_option_set(mi_option_eager_commit, eager);
  mi_option_set(mi_option_purge_delay, delay);
  mi_option_set(mi_option_purge_decommits, decommits);
  mi_option_set(mi_option_verbose, 0);
  mi_option_set(mi_option_show_errors, 0);
  mi_option_set(mi_option_max_errors, 0);
  mi_option_set(mi_option_max_warnings, 0);

  const size_t nblocks = 5 + prng_below(&G, 6);
  const size_t asize = nblocks * MI_ARENA_BLOCK_SIZE;
  uint8_t* raw = (uint8_t*)mmap(NULL, asize + MI_SEGMENT_ALIGN, PROT_NONE, MAP_PRIVATE | MAP_ANONYMOUS | MAP_NORESERVE, -1, 0);
  if (raw == MAP_FAILED) { fprintf(stderr, "cannot reserve the arena\n"); return 2; }
  reserved_base = raw; reserved_len = asize + MI_SEGMENT_ALIGN;
  uint8_t* start = (uint8_t*)_mi_align_up((uintptr_t)raw, MI_SEGMENT_ALIGN);
  mi_arena_id_t aid;
  if (!mi_manage_os_memory_ex(start, asize, false /* committed */, false /* large */, true /* zero */, -1, false /* exclusive */, &aid)) {
    fprintf(stderr, "mi_manage_os_memory_ex failed\n"); return 2;
  }
  arena = mi_arena_from_index(mi_arena_id_index(aid));
  if (arena == NULL || arena->blocks_committed == NULL || arena->blocks_purge == NULL || arena->blocks_dirty == NULL) { fprintf(stderr, "unexpected arena layout\n"); return 2; }
  const long adelay = mi_arena_purge_delay();
  printf("CFG %d %d %d %d %d %zu %zu %zu\n", ((MI_DEBUG || MI_SECURE) && decommits) ? 1 : 0, delay == 0 ? 1 : 0, adelay == 0 ? 1 : 0, delay >= 0 ? 1 : 0, eager,
         (size_t)arena->start / SLICE, arena->block_count, (size_t)(MI_ARENA_BLOCK_SIZE / SLICE));
  shim_fail = &fail_hook;
  const size_t outside_start = mapped_outside(), segmap_start = segmap_bytes();

  for (long k = 0; k < nops; k++) {
    opno++;
    size_t log_from = shim_log_count();
    size_t r = prng_below(&G, 100);
    int nlive = 0, nfreeable = 0; for (int i = 0; i < MAXSLOT; i++) { if (slots[i].kind) nlive++; if (slots[i].kind >= 2) nfreeable++; }
    set_failure_plan();
    if (r < 8) {
      inject = 1; mi_collect(true); inject = 0;
      printf("O %ld C\n", opno);
    }
    else if ((r < 45 && nfreeable > 0) || nlive >= MAXSLOT - 1) {
      if (nfreeable == 0) { opno--; continue; }
      int s; do { s = (int)prng_below(&G, MAXSLOT); } while (slots[s].kind < 2);
      op_free_page(s);
    }
    else {
      int s = 0; while (slots[s].kind) s++;
      size_t size; int kind;
      size_t c = prng_below(&G, 100);
      if (c < 12)      { size = 16 + prng_below(&G, 60000); kind = 1; }
      else if (c < 30) { size = MI_LARGE_OBJ_SIZE_MAX + 1 + prng_below(&G, 46 * 1024 * 1024) + (prng_below(&G, 10) == 0 ? 40 * 1024 * 1024 : 0); kind = 3; }
      else if (c < 80) { size = MI_MEDIUM_OBJ_SIZE_MAX + 1 + prng_below(&G, 2 * 1024 * 1024); kind = 2; }
      else             { size = MI_MEDIUM_OBJ_SIZE_MAX + 1 + prng_below(&G, MI_LARGE_OBJ_SIZE_MAX - MI_MEDIUM_OBJ_SIZE_MAX); kind = 2; }
      int huge; size_t n = page_slices_needed(size, &huge);
      inject = 1; void* p = mi_malloc(size); inject = 0;
      if (p == NULL) printf("O %ld M %d %zu %d %zu = 0 0 0 0\n", opno, s, size, huge, n);
      else {
        mi_segment_t* sg = _mi_ptr_segment(p); mi_page_t* pg = _mi_segment_page_of(sg, p);
        printf("O %ld M %d %zu %d %zu = %llu %zu %zu %u\n", opno, s, size, huge, n, U(p), (size_t)sg / SLICE, (size_t)((mi_slice_t*)pg - sg->slices), pg->slice_count);
        size_t us = mi_usable_size(p);
        int acc = shim_is_accessible(p, us);
        printf("T ret %ld %llu %zu %d\n", opno, U(p), us, acc);
        if (acc) {   // really touch every slice of the block
          fflush(stdout);
          for (size_t off = 0; off < us; off += SLICE) ((volatile uint8_t*)p)[off] = (uint8_t)(opno + off);
          ((volatile uint8_t*)p)[us - 1] = 0x5a;
        }
        slots[s].p = p; slots[s].size = size; slots[s].kind = kind;
      }
    }
    dump(log_from);
  }

  // ---- the drain: free everything, force a collect, and look at what the allocator still holds
  for (int s = 0; s < MAXSLOT; s++) {
    if (slots[s].kind < 2) continue;
    opno++; size_t log_from = shim_log_count(); set_failure_plan();
    op_free_page(s);
    dump(log_from);
  }
  for (int s = 0; s < MAXSLOT; s++) {
    if (slots[s].kind != 1) continue;
    opno++; size_t log_from = shim_log_count(); set_failure_plan();
    void* p = slots[s].p;
    mi_segment_t* sg = _mi_ptr_segment(p); mi_page_t* pg = _mi_segment_page_of(sg, p);
    printf("O %ld f %d %llu %zu %zu %u\n", opno, s, U(p), (size_t)sg / SLICE, (size_t)((mi_slice_t*)pg - sg->slices), pg->slice_count);
    inject = 1; mi_free(p); inject = 0;
    slots[s].kind = 0; slots[s].p = NULL;
    dump(log_from);
  }
  {
    opno++; size_t log_from = shim_log_count(); set_failure_plan();
    mi_heap_t* heap = mi_prim_get_default_heap();
    print_collect_order(heap);
    inject = 1; mi_collect(true); inject = 0;
    dump(log_from);
    size_t inuse = 0, sched = 0;
    for (size_t b = 0; b < arena->block_count; b++) {
      int u = (int)((arena->blocks_inuse[b / 64] >> (b % 64)) & 1), pg = (int)((arena->blocks_purge[b / 64] >> (b % 64)) & 1);
      if (u) inuse++; else if (pg) sched++;
    }
    mi_segments_tld_t* stld = &heap->tld->segments;
    const size_t outside_now = mapped_outside(), segmap_now = segmap_bytes();
    printf("T giveback %ld %zu %zu %zu %zu %zu %zu %zu %zu\n", opno, stld->count, stld->current_size, inuse, sched, heap->page_count,
           outside_start, outside_now, segmap_now - segmap_start);
    const size_t allowed = outside_start + (segmap_now - segmap_start);
    printf("G %zu %zu %zu %zu\n", stld->count, inuse, sched, outside_now > allowed ? outside_now - allowed : (size_t)0);
  }
  printf("END %ld %ld\n", opno, injected);
  return 0;
}
