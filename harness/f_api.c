// Correspondence harness for the API-level model (coq/Model/Api.v): properties C03 C04 C05 C06.
// Includes the whole allocator as one TU so that static functions (mi_malloc_is_naturally_aligned,
// _mi_page_ptr_unalign, mi_count_size_overflow, ...) are the real ones.  Everything runs on a DIRTY
// heap: many blocks of many size classes are allocated, filled with a non-zero pattern and freed
// first, and random dirty blocks keep being allocated and freed in between.
//
//   F <fn> <args> = <results>     compared with the extracted Coq model (ocaml/mode_api.ml)
//   T <kind> ...                  implementation-side oracle records, checked by tools/apimodel.py
//
// usage: f_api <seed> <0|1 thorough>
#include REPO_STATIC
#include <stdio.h>
#include <inttypes.h>
#include <errno.h>
#include <string.h>
#include "prng.h"

#define U(x) ((unsigned long long)(uintptr_t)(x))
#define MAX_REAL ((size_t)64 * 1024 * 1024)     // larger well-formed requests are not issued

static prng_t G;

// ---------------------------------------------------------------------------------------------
// dirty heap
// ---------------------------------------------------------------------------------------------
#define NKEEP 256
static void* keep[NKEEP];
static size_t keep_sz[NKEEP];

static size_t pick_size(void) {
  switch (prng_below(&G, 12)) {
    case 0: return prng_below(&G, 17);
    case 1: return 1 + prng_below(&G, 128);
    case 2: return 1 + prng_below(&G, 1024);
    case 3: return 1000 + prng_below(&G, 50);            // around MI_SMALL_SIZE_MAX
    case 4: return 1 + prng_below(&G, 8192);
    case 5: return 8150 + prng_below(&G, 100);           // around MI_SMALL_OBJ_SIZE_MAX
    case 6: return 1 + prng_below(&G, 65536);
    case 7: return 65500 + prng_below(&G, 100);          // around MI_MEDIUM_OBJ_SIZE_MAX
    case 8: return 1 + prng_below(&G, 300000);
    case 9: return (size_t)8 << prng_below(&G, 14);      // powers of two
    case 10: return ((size_t)8 << prng_below(&G, 14)) + 1;
    default: return 1 + prng_below(&G, 4096);
  }
}

static void dirty_fill(void* p, size_t n, unsigned tag) {
  uint8_t* b = (uint8_t*)p;
  for (size_t i = 0; i < n; i++) b[i] = (uint8_t)(0xA5 ^ (i * 7 + tag) | 1);   // never zero
}

// allocate, dirty the full usable size, free: leaves dirty free blocks of many classes behind
static void churn(int n) {
  for (int k = 0; k < n; k++) {
    size_t i = prng_below(&G, NKEEP);
    if (keep[i] != NULL) { mi_free(keep[i]); keep[i] = NULL; }
    if (prng_below(&G, 4) != 0) {
      size_t s = pick_size();
      void* p = (prng_below(&G, 5) == 0 ? mi_malloc_aligned(s, (size_t)16 << prng_below(&G, 8)) : mi_malloc(s));
      if (p != NULL) { dirty_fill(p, mi_usable_size(p), (unsigned)k); keep[i] = p; keep_sz[i] = s; }
    }
  }
}

// user data pattern of a chain (byte i of block `id`), never zero
static inline uint8_t pat(size_t id, size_t i) { return (uint8_t)(((i * 31 + id * 17 + 3) & 0xFF) | 0x40); }

// ---------------------------------------------------------------------------------------------
// F: in-place decision of the realloc family
// ---------------------------------------------------------------------------------------------
static size_t pick_newsize(size_t usable) {
  switch (prng_below(&G, 12)) {
    case 0: return usable / 2;
    case 1: return usable / 2 + 1;
    case 2: return (usable / 2 > 0 ? usable / 2 - 1 : 0);
    case 3: return usable;
    case 4: return usable + 1;
    case 5: return usable - 1;
    case 6: return 0;
    case 7: return 1;
    case 8: return usable - usable / 2;
    case 9: return prng_below(&G, usable + 1);
    case 10: return usable / 4 + prng_below(&G, usable / 2 + 1);
    default: return usable + prng_below(&G, usable + 16);
  }
}

static void rec_realloc_inplace(void) {
  size_t s = pick_size();
  void* p = mi_malloc(s);
  if (p == NULL) { printf("T malloc_null %llu\n", U(s)); return; }
  size_t usable = mi_usable_size(p);
  size_t n = pick_newsize(usable);
  int fn = (int)prng_below(&G, 7);
  void* q;
  switch (fn) {
    case 0: q = mi_realloc(p, n); break;
    case 1: q = mi_rezalloc(p, n); break;
    case 2: q = mi_reallocn(p, 1, n); break;
    case 3: q = mi_recalloc(p, 1, n); break;
    case 4: q = mi_reallocf(p, n); break;
    case 5: q = mi_reallocarray(p, n, 1); break;
    default: q = mi_heap_realloc(mi_heap_get_default(), p, n); break;
  }
  printf("F realloc_inplace %llu %llu = %d\n", U(usable), U(n), q == p ? 1 : 0);
  // implementation-side: the result is never NULL for these moderate sizes, fits, expand agrees
  size_t uq = (q ? mi_usable_size(q) : 0);
  printf("T realloc_res %d %llu %llu %llu %llu %d\n", fn, U(usable), U(n), U(q), U(uq), q == p ? 1 : 0);
  if (q != NULL) {
    void* e1 = mi_expand(q, uq); void* e2 = mi_expand(q, uq + 1);
    printf("T expand %llu %llu %d %d\n", U(q), U(uq), e1 == q ? 1 : 0, e2 == NULL ? 1 : 0);
    mi_free(q);
  }
}

static const size_t aligns[] = { 1, 2, 4, 8, 16, 32, 64, 128, 256, 512, 1024, 2048, 4096, 8192, 16384, 32768,
                                 65536, 131072, 262144, 1u << 20, 1u << 22 };
#define NALIGNS (sizeof(aligns) / sizeof(aligns[0]))

static size_t pick_offset(size_t size) {
  switch (prng_below(&G, 6)) {
    case 0: case 1: case 2: return 0;
    case 3: return 8 * prng_below(&G, 16);
    case 4: return prng_below(&G, size + 1);
    default: return prng_below(&G, 4096);
  }
}

static void rec_realloc_aligned_inplace(void) {
  size_t s = 1 + prng_below(&G, 20000);
  size_t a0 = aligns[prng_below(&G, 16)];
  size_t off0 = pick_offset(s);
  void* p = (prng_below(&G, 3) == 0 ? mi_malloc(s) : mi_malloc_aligned_at(s, a0, off0));
  if (p == NULL) { printf("T malloc_null %llu\n", U(s)); return; }
  size_t usable = mi_usable_size(p);
  size_t n = pick_newsize(usable);
  // re-allocate with the same or another alignment / offset (all powers of two, some <= 8)
  size_t a = (prng_below(&G, 2) == 0 ? a0 : aligns[prng_below(&G, 16)]);
  size_t off = (prng_below(&G, 2) == 0 ? off0 : pick_offset(n));
  int zero = (int)prng_below(&G, 2);
  void* q = (zero ? mi_rezalloc_aligned_at(p, n, a, off) : mi_realloc_aligned_at(p, n, a, off));
  printf("F realloc_aligned_inplace %llu %llu %llu %llu %llu = %d\n", U(usable), U(n), U(p), U(a), U(off), q == p ? 1 : 0);
  size_t uq = (q ? mi_usable_size(q) : 0);
  printf("T realloc_aligned_res %llu %llu %llu %llu %llu %llu\n", U(n), U(a), U(off), U(q), U(uq), U(p));
  if (q != NULL) mi_free(q);
}

// ---------------------------------------------------------------------------------------------
// F: aligned allocation decision procedure
// ---------------------------------------------------------------------------------------------
static void rec_natural(size_t size, size_t alignment) {
  printf("F is_naturally_aligned %llu %llu = %d\n", U(size), U(alignment), mi_malloc_is_naturally_aligned(size, alignment) ? 1 : 0);
}

static void rec_aligned_alloc(size_t size, size_t alignment, size_t offset, int zero) {
  void* p = (zero ? mi_zalloc_aligned_at(size, alignment, offset) : mi_malloc_aligned_at(size, alignment, offset));
  if (p == NULL) { printf("T aligned_null %llu %llu %llu\n", U(size), U(alignment), U(offset)); return; }
  mi_page_t* page = _mi_ptr_page(p);
  void* start = (void*)_mi_page_ptr_unalign(page, p);
  size_t adjust = (size_t)((uint8_t*)p - (uint8_t*)start);
  size_t usable = mi_usable_size(p);
  size_t busable = mi_page_usable_block_size(page);
  printf("F aligned_adjust %llu %llu %llu = %llu\n", U(start), U(alignment), U(offset), U(adjust));
  printf("F aligned_alloc %llu %llu %llu %llu %llu = %llu %llu\n", U(size), U(alignment), U(offset), U(start), U(busable), U(p), U(usable));
  // implementation-side: alignment, size, zero contents, interior pointer accepted by expand
  size_t nz = (size_t)-1;
  if (zero) { for (size_t i = 0; i < usable; i++) { if (((uint8_t*)p)[i] != 0) { nz = i; break; } } }
  void* e = mi_expand(p, size);
  printf("T align %llu %llu %llu %llu %llu %d %lld %d %d\n", U(size), U(alignment), U(offset), U(p), U(usable), zero,
         (long long)nz, e == p ? 1 : 0, mi_page_has_aligned(page) ? 1 : 0);
  dirty_fill(p, usable, (unsigned)size);
  // the neighbouring block start must be untouched by the adjustment: the block is the one found by unalign
  mi_free(p);
}

// ---------------------------------------------------------------------------------------------
// F: which requests are accepted (NULL vs non-NULL) + T: failing calls leave everything intact
// ---------------------------------------------------------------------------------------------
static uint8_t* sentinel; static size_t sentinel_n = 3000;
static int sentinel_ok(void) {
  for (size_t i = 0; i < sentinel_n; i++) if (sentinel[i] != pat(99, i)) return 0;
  return 1;
}

static size_t boundary_value(void) {
  static const size_t base[] = { 0, 1, 2, 7, 8, 9, 16, 1024, 1025, 4095, 4096, 4097, 65536, 65537,
     (size_t)1 << 31, ((size_t)1 << 32) - 1, (size_t)1 << 32, ((size_t)1 << 32) + 1,
     MI_MAX_ALLOC_SIZE - 4096, MI_MAX_ALLOC_SIZE - 1, MI_MAX_ALLOC_SIZE, MI_MAX_ALLOC_SIZE + 1, MI_MAX_ALLOC_SIZE + 4096,
     PTRDIFF_MAX - 4096, PTRDIFF_MAX - 1, PTRDIFF_MAX, (size_t)PTRDIFF_MAX + 1, (size_t)PTRDIFF_MAX + 4096,
     SIZE_MAX - 8192, SIZE_MAX - 4097, SIZE_MAX - 4096, SIZE_MAX - 4095, SIZE_MAX - 16, SIZE_MAX - 8, SIZE_MAX - 7, SIZE_MAX - 1, SIZE_MAX,
     SIZE_MAX / 2, SIZE_MAX / 2 + 1, SIZE_MAX / 3, SIZE_MAX / 3 + 1, SIZE_MAX / 24, SIZE_MAX / 24 + 1 };
  size_t n = sizeof(base) / sizeof(base[0]);
  size_t k = prng_below(&G, n + 6);
  if (k < n) return base[k];
  if (k < n + 3) return prng_sized(&G);
  return prng_below(&G, 5000);
}

static size_t pick_alignment_any(void) {
  switch (prng_below(&G, 10)) {
    case 0: return 0;
    case 1: return 3 + 2 * prng_below(&G, 3);                 // 3 5 7
    case 2: return 24 << prng_below(&G, 8);                   // multiples of 8, not powers of two
    case 3: return ((size_t)1 << (4 + prng_below(&G, 20))) + 8;
    case 4: return (size_t)1 << (24 + prng_below(&G, 3));     // 2^24 (= MI_BLOCK_ALIGNMENT_MAX), 2^25, 2^26
    case 5: return (size_t)1 << (40 + prng_below(&G, 24));    // absurd powers of two
    case 6: return SIZE_MAX - prng_below(&G, 3);
    default: return aligns[prng_below(&G, NALIGNS)];
  }
}

// would this (well-formed) request really allocate a lot of memory?  then it is not issued
static bool too_big_to_issue(size_t total, size_t alignment) {
  if (total > MI_MAX_ALLOC_SIZE) return false;              // fails before reaching the OS
  if (total > MAX_REAL) return true;
  if (alignment != 0 && _mi_is_power_of_two(alignment) && alignment > MAX_REAL && alignment < ((size_t)1 << 40) ) return true;
  if (alignment != 0 && _mi_is_power_of_two(alignment) && total + alignment > MAX_REAL && total + alignment > total) return true;
  return false;
}

static void rec_request(void) {
  int code = (int)prng_below(&G, 24);
  size_t size = boundary_value(), count = 1, alignment = 0, offset = 0;
  bool has_count = (code == 2 || code == 3 || code == 5 || code == 8 || code == 11 || code == 14 || code == 22 || code == 23);
  bool has_align = (code >= 9 && code <= 18) || code == 21;
  bool has_off = (code >= 9 && code <= 14);
  bool has_ptr = (code >= 4 && code <= 8) || (code >= 12 && code <= 16) || code == 22 || code == 23;
  if (has_count) {
    count = boundary_value();
    if (prng_below(&G, 3) == 0 && size != 0) count = SIZE_MAX / size + prng_below(&G, 3) - 1;  // around SIZE_MAX/size
    if (prng_below(&G, 8) == 0) count = 1;
  }
  if (has_align) alignment = pick_alignment_any();
  if (has_off) offset = (prng_below(&G, 3) == 0 ? boundary_value() : pick_offset(64));
  if (code == 19 || code == 20) alignment = 4096;
  // the total the call will ask for
  size_t total = size; bool ovf = false;
  if (has_count) { ovf = (count != 0 && size > SIZE_MAX / count); total = ovf ? SIZE_MAX : count * size; }
  if (code == 20 && size < SIZE_MAX - 4096) total = _mi_align_up(size, 4096);
  if (!ovf && too_big_to_issue(total, alignment)) return;
  // the block to re-allocate: NULL or a live 40-byte block holding a pattern
  uint8_t* p = NULL; size_t pu = 0;
  if (has_ptr && (code == 23 || prng_below(&G, 5) != 0)) {
    p = (uint8_t*)mi_malloc(40); pu = mi_usable_size(p);
    for (size_t i = 0; i < pu; i++) p[i] = pat(7, i);
  }
  void* q = NULL; int rc = 0; void* out = (void*)(uintptr_t)0x1; void* arr = p;
  mi_page_t* const ppage = (p != NULL ? _mi_ptr_page(p) : NULL);      // to see whether a failing call released p
  const size_t pused = (ppage != NULL ? ppage->used : 0);
  errno = 0;
  switch (code) {
    case 0: q = mi_malloc(size); break;
    case 1: q = mi_zalloc(size); break;
    case 2: q = mi_calloc(count, size); break;
    case 3: q = mi_mallocn(count, size); break;
    case 4: q = mi_realloc(p, size); break;
    case 5: q = mi_reallocn(p, count, size); break;
    case 6: q = mi_reallocf(p, size); break;
    case 7: q = mi_rezalloc(p, size); break;
    case 8: q = mi_recalloc(p, count, size); break;
    case 9: q = mi_malloc_aligned_at(size, alignment, offset); break;
    case 10: q = mi_zalloc_aligned_at(size, alignment, offset); break;
    case 11: q = mi_calloc_aligned_at(count, size, alignment, offset); break;
    case 12: q = mi_realloc_aligned_at(p, size, alignment, offset); break;
    case 13: q = mi_rezalloc_aligned_at(p, size, alignment, offset); break;
    case 14: q = mi_recalloc_aligned_at(p, count, size, alignment, offset); break;
    case 15: q = mi_realloc_aligned(p, size, alignment); break;
    case 16: q = mi_rezalloc_aligned(p, size, alignment); break;
    case 17: rc = mi_posix_memalign(&out, alignment, size); q = (rc == 0 ? out : NULL); break;
    case 18: q = mi_memalign(alignment, size); break;
    case 19: q = mi_valloc(size); break;
    case 20: q = mi_pvalloc(size); break;
    case 21: q = mi_aligned_alloc(alignment, size); break;
    case 22: q = mi_reallocarray(p, count, size); break;
    default: rc = mi_reallocarr(&arr, count, size); q = (rc == 0 ? arr : NULL); break;
  }
  int err = errno;
  int ok = (code == 17 || code == 23) ? (rc == 0) : (q != NULL);
  printf("F request_ok %d %llu %llu %llu %llu %llu %llu = %d\n", code, U(size), U(count), U(alignment), U(offset), U(p), U(pu), ok);
  if (code == 17) printf("F posix_memalign_rc %llu %llu = %d %d\n", U(alignment), U(size), rc, out != (void*)(uintptr_t)0x1 ? 1 : 0);
  if (!ok) {
    // failing call: sentinel intact; the block being re-allocated intact and still valid (reallocf: freed)
    int pok = 1; bool released = false;
    if (p != NULL && code != 6) {
      if (ppage->used != pused) { pok = 0; released = true; }      // the block count of its page changed: p was freed
      for (size_t i = 0; i < pu; i++) if (p[i] != pat(7, i)) { pok = 0; break; }
      if (mi_usable_size(p) != pu) pok = 0;
      if (code == 23 && arr != p) pok = 0;
    }
    else if (p != NULL && code == 6 && ppage->used == pused) pok = 0;   // mi_reallocf must free p on failure
    printf("T fail %d %llu %llu %llu %llu %d %d %d %d %d\n", code, U(size), U(count), U(alignment), U(offset), sentinel_ok(), pok, err, rc,
           out != (void*)(uintptr_t)0x1 ? 1 : 0);
    if (p != NULL && code != 6 && !released) mi_free(p);
  }
  else {
    // successful call: usable size covers the request, alignment honoured
    size_t uq = (q ? mi_usable_size(q) : 0);
    printf("T ok %d %llu %llu %llu %llu %llu %llu %d %d\n", code, U(total), U(alignment), U(offset), U(q), U(uq), U(p), err, rc);
    if (q != NULL) mi_free(q);
  }
}

static void rec_overflow(void) {
  size_t c = boundary_value(), s = boundary_value();
  if (prng_below(&G, 3) == 0 && s != 0) c = SIZE_MAX / s + prng_below(&G, 3) - 1;
  if (prng_below(&G, 10) == 0) c = 1;
  size_t t = 0; bool o = mi_count_size_overflow(c, s, &t);
  printf("F count_size_overflow %llu %llu = %d %llu\n", U(c), U(s), o ? 1 : 0, U(t));
  // implementation-side: the flag is exact and the total is the product
  unsigned __int128 prod = (unsigned __int128)c * s;
  printf("T overflow %llu %llu %d %llu %d %llu\n", U(c), U(s), o ? 1 : 0, U(t), prod > (unsigned __int128)SIZE_MAX ? 1 : 0, U((size_t)prod));
}

static void rec_pvalloc(void) {
  size_t s = (prng_below(&G, 4) == 0 ? boundary_value() : prng_below(&G, 70000));
  if (s < SIZE_MAX - 4096) printf("F pvalloc_req %llu = %llu\n", U(s), U(_mi_align_up(s, _mi_os_page_size())));
  if (s > MAX_REAL && s <= MI_MAX_ALLOC_SIZE) return;
  void* p = mi_pvalloc(s);
  size_t u = (p ? mi_usable_size(p) : 0);
  printf("F pvalloc_size %llu = %d\n", U(s), p != NULL ? 1 : 0);
  printf("T pvalloc %llu %llu %llu\n", U(s), U(p), U(u));
  if (p) mi_free(p);
  void* v = (s <= MAX_REAL ? mi_valloc(s) : NULL);
  if (v) { printf("T valloc %llu %llu %llu\n", U(s), U(v), U(mi_usable_size(v))); mi_free(v); }
}

// ---------------------------------------------------------------------------------------------
// T: chains of re-allocations on dirtied memory (C04 + C05)
// ---------------------------------------------------------------------------------------------
static size_t grow(size_t req, void* p) {
  size_t usable = mi_usable_size(p);
  switch (prng_below(&G, 8)) {
    case 0: return req + 1;
    case 1: return req + 1 + prng_below(&G, 16);
    case 2: return usable;                     // exactly the slack
    case 3: return usable + 1;
    case 4: return req + req / 2 + 1;
    case 5: return 2 * req + 1;
    case 6: return (usable > req ? req + 1 + prng_below(&G, usable - req) : req + 1);   // inside the slack
    default: return req + prng_below(&G, 3000);
  }
}

static void chain_zero(size_t id, int steps) {
  size_t req = (prng_below(&G, 3) == 0 ? prng_below(&G, 40) : pick_size() % 20000);
  size_t a = aligns[4 + prng_below(&G, 10)];
  int kind0 = (int)prng_below(&G, 5);
  uint8_t* p;
  switch (kind0) {
    case 0: p = (uint8_t*)mi_zalloc(req); break;
    case 1: p = (uint8_t*)mi_calloc(req, 1); break;
    case 2: p = (uint8_t*)mi_zalloc_aligned(req, a); break;
    case 3: p = (uint8_t*)mi_rezalloc(NULL, req); break;
    default: p = (uint8_t*)mi_heap_zalloc(mi_heap_get_default(), req); break;
  }
  if (p == NULL) { printf("T malloc_null %llu\n", U(req)); return; }
  size_t usable = mi_usable_size(p);
  long long nz = -1;
  for (size_t i = 0; i < usable; i++) if (p[i] != 0) { nz = (long long)i; break; }
  printf("T zalloc %llu %d %llu %llu %lld\n", U(id), kind0, U(req), U(usable), nz);
  for (size_t i = 0; i < req; i++) p[i] = pat(id, i);
  for (int st = 0; st < steps; st++) {
    churn(8);
    size_t n = grow(req, p);
    if (n > 600000) break;
    int fn = (int)prng_below(&G, 6);
    if (kind0 == 2 && prng_below(&G, 2) == 0) fn = 4;
    const size_t pmod = (uintptr_t)p % a;      // mi_rezalloc_aligned keeps (q + p%a) a multiple of a
    uint8_t* q;
    switch (fn) {
      case 0: q = (uint8_t*)mi_rezalloc(p, n); break;
      case 1: q = (uint8_t*)mi_recalloc(p, n, 1); break;
      case 2: q = (uint8_t*)mi_recalloc(p, (n + 3) / 4, 4); n = ((n + 3) / 4) * 4; break;
      case 3: q = (uint8_t*)mi_heap_rezalloc(mi_heap_get_default(), p, n); break;
      case 4: q = (uint8_t*)mi_rezalloc_aligned(p, n, a); break;
      default: q = (uint8_t*)mi_recalloc_aligned_at(p, n, 1, a, 0); break;
    }
    if (q == NULL) { printf("T chain_null %llu %d %llu %llu\n", U(id), fn, U(req), U(n)); break; }
    long long bad_prefix = -1, bad_zero = -1;
    for (size_t i = 0; i < req; i++) if (q[i] != pat(id, i)) { bad_prefix = (long long)i; break; }
    for (size_t i = req; i < n; i++) if (q[i] != 0) { bad_zero = (long long)i; break; }
    size_t uq = mi_usable_size(q);
    printf("T zchain %llu %d %d %llu %llu %d %lld %lld %llu %llu\n", U(id), st, fn, U(req), U(n), q == p ? 0 : 1, bad_prefix, bad_zero, U(uq),
           U(fn == 4 ? (((uintptr_t)q + pmod) % a) : fn == 5 ? ((uintptr_t)q % a) : 0));
    for (size_t i = req; i < n; i++) q[i] = pat(id, i);
    p = q; req = n;
  }
  dirty_fill(p, mi_usable_size(p), (unsigned)id);
  mi_free(p);
}

static void chain_plain(size_t id, int steps) {
  size_t req = pick_size() % 30000;
  uint8_t* p = (uint8_t*)mi_malloc(req);
  if (p == NULL) { printf("T malloc_null %llu\n", U(req)); return; }
  for (size_t i = 0; i < req; i++) p[i] = pat(id, i);
  for (int st = 0; st < steps; st++) {
    churn(4);
    size_t usable = mi_usable_size(p);
    size_t n = (prng_below(&G, 2) == 0 ? pick_newsize(usable) : pick_size() % 40000);
    size_t a = aligns[prng_below(&G, 14)];
    int fn = (int)prng_below(&G, 6);
    const size_t pmod = (uintptr_t)p % a;
    uint8_t* q;
    switch (fn) {
      case 0: q = (uint8_t*)mi_realloc(p, n); break;
      case 1: q = (uint8_t*)mi_reallocn(p, n, 1); break;
      case 2: q = (uint8_t*)mi_reallocf(p, n); break;
      case 3: q = (uint8_t*)mi_realloc_aligned(p, n, a); break;
      case 4: q = (uint8_t*)mi_realloc_aligned_at(p, n, a, 0); break;
      default: q = (uint8_t*)mi_reallocarray(p, n, 1); break;
    }
    if (q == NULL) { printf("T chain_null %llu %d %llu %llu\n", U(id), fn, U(req), U(n)); break; }
    size_t m = (req < n ? req : n);
    long long bad_prefix = -1;
    for (size_t i = 0; i < m; i++) if (q[i] != pat(id, i)) { bad_prefix = (long long)i; break; }
    size_t uq = mi_usable_size(q);
    printf("T chain %llu %d %d %llu %llu %d %lld %llu %llu\n", U(id), st, fn, U(req), U(n), q == p ? 0 : 1, bad_prefix, U(uq),
           U(fn == 3 ? (a > 8 ? ((uintptr_t)q + pmod) % a : 0) : fn == 4 ? ((uintptr_t)q % a) : 0));
    for (size_t i = m; i < n; i++) q[i] = pat(id, i);
    p = q; req = n;
  }
  mi_free(p);
}

// minimal alignment and usable size of plain allocations
static void rec_minalign(void) {
  size_t s = pick_size();
  int fn = (int)prng_below(&G, 4);
  void* p = (fn == 0 ? mi_malloc(s) : fn == 1 ? mi_zalloc(s) : fn == 2 ? mi_calloc(1, s) : mi_mallocn(s, 1));
  if (p == NULL) { printf("T malloc_null %llu\n", U(s)); return; }
  printf("T minalign %llu %llu %llu\n", U(s), U(p), U(mi_usable_size(p)));
  dirty_fill(p, mi_usable_size(p), (unsigned)s);
  mi_free(p);
}

// the refuted clause of C06 (Properties/C06.v, C06_bad_alignment_realloc_refuted), replayed
static void rec_bad_align_realloc(void) {
  static const size_t bad[] = { 3, 5, 6, 7, 0 };
  for (size_t k = 0; k < 5; k++) {
    uint8_t* p = (uint8_t*)mi_malloc(20);
    void* q = mi_realloc_aligned(p, 100, bad[k]);
    printf("T bad_align_realloc %llu %d %llu\n", U(bad[k]), q != NULL ? 1 : 0, U(q));
    mi_free(q != NULL ? q : p);
  }
}

int main(int argc, char** argv) {
  uint64_t seed = (argc > 1 ? strtoull(argv[1], NULL, 10) : 1);
  int thorough = (argc > 2 ? atoi(argv[2]) : 0);
  int scale = thorough ? 8 : 1;
  prng_seed(&G, seed);
  setvbuf(stdout, NULL, _IOLBF, 1 << 16);   // line buffered: after a crash the last record names the culprit
  mi_option_set(mi_option_show_errors, 0); mi_option_set(mi_option_verbose, 0);
  mi_option_set(mi_option_max_errors, 0); mi_option_set(mi_option_max_warnings, 0);

  // dirty the heap
  churn(4000);
  sentinel = (uint8_t*)mi_malloc(sentinel_n);
  for (size_t i = 0; i < sentinel_n; i++) sentinel[i] = pat(99, i);

  // decision functions: grid + random
  for (size_t k = 0; k <= 22; k++) {
    size_t a = (size_t)1 << k;
    static const size_t ss[] = { 0, 1, 7, 8, 9, 15, 16, 17, 24, 32, 48, 63, 64, 65, 96, 100, 128, 192, 256, 320, 512, 1000, 1024, 1025, 2048, 4096,
                                 5000, 8192, 10240, 16384, 20480, 32768, 40960, 65536, 65537, 81920, 131072, 262144, 1048576, 4194304 };
    for (size_t i = 0; i < sizeof(ss) / sizeof(ss[0]); i++) rec_natural(ss[i], a);
  }
  for (int i = 0; i < 600 * scale; i++) rec_natural(pick_size(), (size_t)1 << prng_below(&G, 23));

  for (int round = 0; round < 40 * scale; round++) {
    churn(40);
    for (int i = 0; i < 12; i++) rec_realloc_inplace();
    for (int i = 0; i < 8; i++) rec_realloc_aligned_inplace();
    for (int i = 0; i < 10; i++) {
      size_t s = (prng_below(&G, 4) == 0 ? prng_below(&G, 32) : pick_size() % 100000);
      rec_aligned_alloc(s, aligns[prng_below(&G, NALIGNS)], pick_offset(s), (int)prng_below(&G, 2));
    }
    for (int i = 0; i < 25; i++) rec_request();
    for (int i = 0; i < 6; i++) rec_overflow();
    for (int i = 0; i < 3; i++) rec_pvalloc();
    for (int i = 0; i < 6; i++) rec_minalign();
    chain_zero((size_t)round * 4 + 1, 6 + (int)prng_below(&G, 8));
    chain_zero((size_t)round * 4 + 2, 3);
    chain_plain((size_t)round * 4 + 3, 6 + (int)prng_below(&G, 6));
  }
  // a few huge alignments (dedicated segments) and large blocks
  for (int i = 0; i < 3; i++) {
    rec_aligned_alloc(1 + prng_below(&G, 100000), (size_t)1 << 25, 0, i & 1);
    rec_aligned_alloc(17 * 1024 * 1024 + prng_below(&G, 1000), (size_t)4096 << prng_below(&G, 6), 8 * prng_below(&G, 8), i & 1);
  }
  rec_bad_align_realloc();
  printf("T sentinel %d\n", sentinel_ok());
  printf("END\n");
  return 0;
}
