(* mode "span": replay of the slice-array dumps of harness/f_span.c against the Coq segment/span model.
   For every dump (G lines = one segment, Q lines = the thread's span queues, E = end of one API call):
     * span_inv_b (translation of mi_segment_is_valid + queue exactness) on (segment, its queue projection);
     * the used spans are pairwise disjoint and inside [info_slices, slice_entries) (normal segments);
     * coalesced_b (no two adjacent free spans) on normal segments;
     * transition: the dump must be EXACTLY (all entries incl. interior ones, `used`, queue order) the state
       the model reaches from the previous dump of the same segment by the span operations the call
       implies (more than 5 operations in one call: span structure, `used` and queue contents only): page_clear for every used span that disappeared, page_find_and_allocate n (+ the block size
       store of mi_page_init) for every used span that appeared -- the order inside one call is not
       observable, so every order is tried (at most 5 events, else counted as unchecked);
       page_find_and_allocate must pick the same slice index as the implementation did;
     * a segment seen for the first time must equal segment_init (normal / huge / huge aligned) followed by the
       allocations; for an aligned huge block the model's pointer must be the returned pointer;
     * a segment that disappeared must reach used = 0 by page_clear of its pages, and segment_free must empty
       its queues;
     * when a call allocated exactly one span and freed none, t_find over ALL segments and the real queue order
       must pick the (segment, slice) the implementation picked. *)
open BinNums
open Util
module L = Stdlib.List

let n0 = N0
let nint = n_of_int
let huge_threshold = 16777216   (* MI_LARGE_OBJ_SIZE_MAX *)

type gdump = Same | Full of Span.segment * int   (* segment_slices *)

let parse_entries toks =
  let z = { Span.slice_count = N0; slice_offset = N0; bsz = N0 } in
  let rec go acc = function
    | [] -> L.rev acc
    | t :: r ->
      if String.length t > 0 && t.[0] = 'z' then
        let k = int_of_string (String.sub t 1 (String.length t - 1)) in
        let rec rep acc k = if k = 0 then acc else rep (z :: acc) (k - 1) in
        go (rep acc k) r
      else
        (match String.split_on_char ':' t with
         | [c; o; b] -> go ({ Span.slice_count = n_of_string c; slice_offset = n_of_string o; bsz = n_of_string b } :: acc) r
         | _ -> failwith ("bad entry " ^ t)) in
  go [] toks

let show_slice (e : Span.slice) = Printf.sprintf "%s:%s:%s" (string_of_n e.Span.slice_count) (string_of_n e.Span.slice_offset) (string_of_n e.Span.bsz)

let show_spans (sg : Span.segment) =
  match Span.spans_of sg with
  | None -> "<walk fails>"
  | Some sps -> String.concat " " (L.map (fun (i, c) ->
      Printf.sprintf "%s+%s%s" (string_of_n i) (string_of_n c) (if (Span.get sg.Span.entries i).Span.bsz = N0 then "f" else "u")) sps)

let show_q (q : Span.queues) =
  String.concat ";" (L.filter (fun s -> s <> "") (L.mapi (fun b l -> if l = [] then "" else Printf.sprintf "%d:[%s]" b (String.concat "," (L.map string_of_n l))) q))

(* first difference between two states, for the message *)
let diff_state ((a, qa) : Span.state) ((b, qb) : Span.state) : string option =
  if a.Span.kind <> b.Span.kind then Some "kind"
  else if a.Span.slice_entries <> b.Span.slice_entries then Some "slice_entries"
  else if a.Span.info_slices <> b.Span.info_slices then Some "info_slices"
  else if a.Span.used <> b.Span.used then Some (Printf.sprintf "used model=%s impl=%s" (string_of_n a.Span.used) (string_of_n b.Span.used))
  else if L.length a.Span.entries <> L.length b.Span.entries then Some "number of entries"
  else begin
    let rec go i xs ys = match xs, ys with
      | x :: xr, y :: yr -> if x = y then go (i + 1) xr yr else Some (Printf.sprintf "entry %d model=%s impl=%s" i (show_slice x) (show_slice y))
      | _ -> None in
    match go 0 a.Span.entries b.Span.entries with
    | Some d -> Some d
    | None -> if qa = qb then None else Some (Printf.sprintf "queues model=%s impl=%s" (show_q qa) (show_q qb))
  end

let rec perms = function
  | [] -> [[]]
  | l -> L.concat (L.mapi (fun i x -> let rest = L.filteri (fun j _ -> j <> i) l in L.map (fun p -> x :: p) (perms rest)) l)

type ev = Free of coq_N | Alloc of coq_N * coq_N * coq_N   (* idx, count, block size *)

let show_ev = function
  | Free i -> "free " ^ string_of_n i
  | Alloc (i, c, b) -> Printf.sprintf "alloc %s slices at %s (bsize %s)" (string_of_n c) (string_of_n i) (string_of_n b)

(* run the events on the model; Error = the model disagrees on the way *)
let run_events (st : Span.state) (evs : ev list) : (Span.state, string) result =
  L.fold_left (fun acc e ->
    match acc with
    | Error _ -> acc
    | Ok st ->
      (match e with
       | Free i -> Ok (fst (Span.page_clear st i))
       | Alloc (i, c, b) ->
         (match Span.page_find_and_allocate st c (fun _ -> true) true with
          | (Some j, st') -> if j = i then Ok (Span.set_block_size st' i b)
            else Error (Printf.sprintf "page_find_and_allocate %s picks slice %s, implementation allocated slice %s" (string_of_n c) (string_of_n j) (string_of_n i))
          | (None, _) -> Error (Printf.sprintf "page_find_and_allocate %s finds nothing, implementation allocated slice %s" (string_of_n c) (string_of_n i))))) (Ok st) evs

let page_spans (sg : Span.segment) : (coq_N * coq_N * coq_N) list =
  L.filter_map (fun (i, c) -> if i = N0 then None else Some (i, c, (Span.get sg.Span.entries i).Span.bsz)) (Span.used_spans sg)

let events_between (b : Span.segment) (a : Span.segment) : ev list =
  let ub = page_spans b and ua = page_spans a in
  L.map (fun (i, _, _) -> Free i) (L.filter (fun x -> not (L.mem x ua)) ub) @
  L.map (fun (i, c, bs) -> Alloc (i, c, bs)) (L.filter (fun x -> not (L.mem x ub)) ua)

let () = Modes.register "span" (fun records mismatches ->
  let prev : (string, Span.segment * int) Hashtbl.t = Hashtbl.create 64 in
  let prev_q : (string * int) list array ref = ref (Array.make 36 []) in
  let cur : (string * gdump) list ref = ref [] in
  let cur_q : (string * int) list array ref = ref (Array.make 36 []) in
  let cur_o : string list ref = ref [] in
  let ids : (string, coq_N) Hashtbl.t = Hashtbl.create 64 in
  let id_of a = match Hashtbl.find_opt ids a with Some i -> i | None -> let i = nint (Hashtbl.length ids + 1) in Hashtbl.replace ids a i; i in
  let invs = ref 0 and exact = ref 0 and unchecked = ref 0 and fresh = ref 0 and gone = ref 0 and tfind = ref 0
  and nochange = ref 0 and reused = ref 0 and nev = ref 0 and hugealigned = ref 0 and maxev = ref 0 and splits = ref 0 and merges = ref 0 in
  let mism fmt = Printf.ksprintf (fun s -> incr mismatches; if !mismatches <= 30 then print_endline ("MISMATCH " ^ s)) fmt in
  let proj (tq : (string * int) list array) (a : string) : Span.queues =
    Array.to_list (Array.map (fun l -> L.filter_map (fun (s, i) -> if s = a then Some (nint i) else None) l) tq) in
  let try_orders (b : Span.state) (evs : ev list) (target : Span.state) : (unit, string) result =
    let ps = perms evs in
    let rec go last = function
      | [] -> Error last
      | p :: r ->
        (match run_events b p with
         | Error m -> go m r
         | Ok st -> (match diff_state st target with None -> Ok () | Some d -> go ("after [" ^ String.concat "; " (L.map show_ev p) ^ "] differs in " ^ d) r)) in
    go "no order" ps in
  let process op =
    let opname, oargs, ores = match !cur_o with
      | _ :: _ :: k :: rest ->
        let rec split acc = function "=" :: r -> (L.rev acc, r) | x :: r -> split (x :: acc) r | [] -> (L.rev acc, []) in
        let (a, r) = split [] rest in (k, a, r)
      | _ -> ("?", [], []) in
    let afters = L.rev_map (fun (a, g) ->
      match g with
      | Full (sg, ss) -> (a, sg, ss, true)
      | Same -> (match Hashtbl.find_opt prev a with
          | Some (sg, ss) -> (a, sg, ss, false)
          | None -> mism "op %d: segment %s dumped as unchanged but never seen" op a;
            (a, { Span.kind = Span.SegNormal; owned = true; slice_entries = N0; info_slices = N0; entries = []; used = N0 }, 0, false))) !cur in
    let total_allocs = ref [] and total_frees = ref 0 and any_new = ref false in
    L.iter (fun (a, sg, ss, changed) ->
      let qa = proj !cur_q a in
      let after : Span.state = (sg, qa) in
      let qchanged = (match Hashtbl.find_opt prev a with Some _ -> proj !prev_q a <> qa | None -> true) in
      if changed || qchanged then begin
        incr records; incr invs;
        if not (Span.span_inv_b after) then
          mism "op %d (%s): span invariant (mi_segment_is_valid) violated on segment %s: spans %s queues %s used %s" op opname a (show_spans sg) (show_q qa) (string_of_n sg.Span.used);
        (* used spans pairwise disjoint and inside the segment *)
        let us = Span.used_spans sg in
        let rec disj = function
          | (i, c) :: (((j, _) :: _) as r) -> BinNat.N.leb (BinNat.N.add i c) j && disj r
          | [(i, c)] -> sg.Span.kind = Span.SegHuge || BinNat.N.leb (BinNat.N.add i c) sg.Span.slice_entries
          | [] -> true in
        if not (disj us) then mism "op %d: used spans overlap or leave the segment %s: %s" op a (show_spans sg);
        if sg.Span.kind = Span.SegNormal && not (Span.coalesced_b sg) then
          mism "op %d (%s): two adjacent free spans in segment %s (coalescing incomplete): %s" op opname a (show_spans sg)
      end;
      (* transition *)
      (match Hashtbl.find_opt prev a with
       | Some (bsg, _) ->
         let before : Span.state = (bsg, proj !prev_q a) in
         let evs = events_between bsg sg in
         L.iter (function Free _ -> incr total_frees | Alloc (i, c, _) -> total_allocs := (a, i, c) :: !total_allocs) evs;
         nev := !nev + L.length evs; if L.length evs > !maxev then maxev := L.length evs;
         if evs = [] then begin
           (match diff_state before after with
            | None -> incr nochange
            | Some d -> mism "op %d (%s): segment %s changed without a span operation: %s" op opname a d)
         end else if L.length evs > 5 then begin
           (* too many orders: the span structure and the queue contents do not depend on the order *)
           incr unchecked;
           (match run_events before evs with
            | Ok (msg, mq) ->
              let sortq q = L.map (L.sort compare) q in
              if show_spans msg <> show_spans sg || msg.Span.used <> sg.Span.used || sortq mq <> sortq qa then
                mism "op %d (%s): segment %s after %d span operations: model spans %s queues %s, implementation spans %s queues %s" op opname a (L.length evs) (show_spans msg) (show_q (sortq mq)) (show_spans sg) (show_q (sortq qa))
            | Error m -> mism "op %d (%s): segment %s: %s" op opname a m)
         end else begin
           (match try_orders before evs after with
            | Ok () -> incr exact;
              L.iter (function
                  | Alloc (i, c, _) -> if (Span.get bsg.Span.entries i).Span.slice_count <> c then incr splits
                  | Free i -> if (Span.get sg.Span.entries i).Span.slice_count <> (Span.get bsg.Span.entries i).Span.slice_count || (Span.get sg.Span.entries i).Span.slice_offset <> N0 then incr merges) evs
            | Error m ->
              (* the address may have been reused by a fresh segment within this call *)
              let ok_fresh = sg.Span.kind = Span.SegNormal &&
                (match Span.segment_init N0 N0 Span.empty_queues with
                 | Some init ->
                   let fe = events_between (fst init) sg in
                   L.length fe <= 5 && (match try_orders init fe after with Ok () -> true | Error _ -> false)
                 | None -> false) in
              if ok_fresh then incr reused
              else mism "op %d (%s): transition of segment %s is not the model's: %s ; before %s after %s" op opname a m (show_spans bsg) (show_spans sg))
         end
       | None ->
         any_new := true; incr fresh;
         let base = n_of_string (Printf.sprintf "%d" (int_of_string a)) in
         (match sg.Span.kind with
          | Span.SegNormal ->
            (match Span.segment_init N0 N0 Span.empty_queues with
             | None -> mism "op %d: segment_init fails" op
             | Some init ->
               let evs = events_between (fst init) sg in
               if L.length evs > 5 then incr unchecked
               else (match try_orders init evs after with
                   | Ok () -> incr exact
                   | Error m -> mism "op %d (%s): fresh segment %s is not segment_init + allocations: %s ; after %s" op opname a m (show_spans sg)))
          | Span.SegHuge ->
            let size = (match oargs with _ :: s :: _ -> int_of_string s | _ -> 0) in
            let align = (match opname, oargs with "A", [_; _; al] -> int_of_string al | _ -> 0) in
            let oversize = if align > 0 && size <= 1024 then 1025 else size in
            let required = Arith.os_good_alloc_size (nint oversize) in
            (match Span.segment_init required (nint align) Span.empty_queues with
             | None -> mism "op %d: segment_init (huge) fails" op
             | Some init ->
               let info = (fst init).Span.info_slices in
               let psize = snd (Span.page_start base (fst init) info) in
               let st = Span.set_block_size init info psize in
               (match diff_state st after with
                | None -> incr exact
                | Some d -> mism "op %d (%s %s): huge segment %s is not segment_init %s %d + block size store: differs in %s" op opname (String.concat " " oargs) a (string_of_n required) align d);
               let (((ss_m, _), _), _) = Span.segment_request required (nint align) in
               if string_of_n ss_m <> string_of_int ss then mism "op %d: segment_slices model=%s impl=%d" op (string_of_n ss_m) ss;
               if align > 0 then begin
                 incr hugealigned;
                 let p = Span.huge_aligned_ptr base (fst st) (nint align) in
                 let got = (match ores with p :: _ -> int_of_string p | _ -> 0) in
                 if string_of_n p <> string_of_int got then mism "op %d: aligned huge pointer model=%s impl=%d" op (string_of_n p) got;
                 if Arith.ptr_segment p <> base then mism "op %d: ptr_segment of the aligned huge pointer %s is not the segment" op (string_of_n p);
                 if Span.segment_page_of base (fst st) p <> info then mism "op %d: segment_page_of of the aligned huge pointer is slice %s" op (string_of_n (Span.segment_page_of base (fst st) p))
               end)))) afters;
    (* segments that disappeared *)
    Hashtbl.iter (fun a (bsg, _) ->
      if not (L.exists (fun (x, _, _, _) -> x = a) afters) then begin
        incr gone;
        let before : Span.state = (bsg, proj !prev_q a) in
        let evs = L.map (fun (i, _, _) -> Free i) (page_spans bsg) in
        total_frees := !total_frees + L.length evs;
        let orders = if L.length evs <= 4 then perms evs else [evs] in
        let ok = L.exists (fun p ->
          match run_events before p with
          | Ok st -> (fst st).Span.used = N0 &&
                     (match Span.segment_free st with Some (_, q) -> L.for_all (fun l -> l = []) q | None -> false)
          | Error _ -> false) orders in
        if not ok then mism "op %d (%s): segment %s disappeared but the model does not reach used = 0 / empty queues by freeing its pages: %s" op opname a (show_spans bsg)
      end) prev;
    (* the search over all segments *)
    (match !total_allocs with
     | [(a, i, c)] when !total_frees = 0 && not !any_new ->
       let segs = Hashtbl.fold (fun a (sg, _) acc -> (id_of a, sg) :: acc) prev [] in
       let tq = Array.to_list (Array.map (fun l -> L.map (fun (s, i) -> (id_of s, nint i)) l) !prev_q) in
       incr tfind;
       (match Span.t_find segs tq c (fun _ -> true) with
        | Some (sid, j) -> if not (sid = id_of a && j = i) then mism "op %d: search over all span queues picks slice %s of another/the same segment, implementation took slice %s of %s" op (string_of_n j) (string_of_n i) a
        | None -> mism "op %d: search over all span queues finds nothing, implementation took slice %s of %s" op (string_of_n i) a)
     | _ -> ());
    (* roll over *)
    Hashtbl.reset prev;
    L.iter (fun (a, sg, ss, _) -> Hashtbl.replace prev a (sg, ss)) afters;
    prev_q := !cur_q; cur_q := Array.make 36 []; cur := []; cur_o := [] in
  (try
    while true do
      let line = input_line stdin in
      let toks = split_ws line in
      match toks with
      | "O" :: _ -> cur_o := toks
      | "G" :: _ :: a :: "=" :: [] -> cur := (a, Same) :: !cur
      | "G" :: _ :: a :: k :: ne :: info :: used :: ss :: "|" :: rest ->
        let es = parse_entries rest in
        cur := (a, Full ({ Span.kind = (if k = "1" then Span.SegHuge else Span.SegNormal); owned = true;
                           slice_entries = n_of_string ne; info_slices = n_of_string info; entries = es; used = n_of_string used },
                         int_of_string ss)) :: !cur
      | "Q" :: _ :: b :: rest ->
        let b = int_of_string b in
        if b < 36 then
          (!cur_q).(b) <- L.map (fun t -> match String.split_on_char ':' t with
              | [s; i] -> (s, int_of_string i) | _ -> failwith ("bad queue entry " ^ t)) rest
      | "E" :: op :: [] -> process (int_of_string op)
      | _ -> ()
    done
  with End_of_file -> ());
  Printf.printf "STATS span invariants=%d transitions_exact=%d transitions_unchecked=%d unchanged=%d fresh_segments=%d freed_segments=%d reused_address=%d tfind=%d events=%d max_events_per_call=%d splits=%d merges=%d huge_aligned=%d\n"
    !invs !exact !unchecked !nochange !fresh !gone !reused !tfind !nev !maxev !splits !merges !hugealigned)
