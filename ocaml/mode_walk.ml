(* mode "walk": replay of harness/t_walk.c against Model/Walk.v.  Per walk ("VR" line): the pages dumped before it
   ("P <run> w ..." in the order of mi_heap_visit_pages) are given to the extracted Walk.walk_stop_at with the harness
   visitor's k; the model's call list and result must be exactly the "VC" lines and the result of the real walk.
   Every dumped page must satisfy Page.page_inv_b. *)
open BinNums
open Util
module L = Stdlib.List

let show_call (c : Walk.vcall) : string =
  match c with
  | Walk.VArea (pg, u, r, cm, bs) -> String.concat " " ("a" :: L.map string_of_n [pg; u; r; cm; bs])
  | Walk.VBlock (pg, i) -> String.concat " " ("b" :: L.map string_of_n [pg; i])

let () = Modes.register "walk" (fun records mismatches ->
  let pages : (coq_N * Page.page) list ref = ref [] in
  let got : string list ref = ref [] in
  let expect : (coq_N * Page.page) list option ref = ref None in   (* the model's pages after the previous walk of the same heap *)
  let after_checked = ref 0 in
  let walks = ref 0 and stopped = ref 0 and ncalls = ref 0 and npages = ref 0 and empty = ref 0 in
  let mism fmt = Printf.ksprintf (fun s -> incr mismatches; if !mismatches <= 30 then print_endline ("MISMATCH " ^ s)) fmt in
  (try
    while true do
      let line = input_line stdin in
      let toks = split_ws line in
      match toks with
      | "P" :: _ ->
        (match Mode_page.parse_p toks with
         | Some (run, _, pg, Mode_page.Pg p) ->
           incr npages;
           if not (Page.page_inv_b p) then mism "walk run %d: page invariant violated on %s %s" run pg (Mode_page.show p);
           pages := (n_of_string pg, p) :: !pages
         | _ -> mism "walk unparsable page dump: %s" line)
      | "S" :: _ -> expect := None     (* another heap, or allocator activity between two walks *)
      | "VC" :: _ :: rest -> got := String.concat " " rest :: !got
      | "VR" :: run :: vb :: k :: res :: _ ->
        incr records; incr walks;
        let ps = L.rev !pages and calls = L.rev !got in
        pages := []; got := [];
        if ps = [] then incr empty;
        (match !expect with
         | Some ex ->
           incr after_checked;
           if L.length ex <> L.length ps || not (L.for_all2 (fun (a, p) (b, q) -> a = b && Mode_page.same p q) ex ps) then begin
             let bad = try L.find (fun ((a, p), (b, q)) -> not (a = b && Mode_page.same p q)) (L.combine ex ps) with _ -> L.hd (L.combine ex ps) in
             let ((a, p), (_, q)) = bad in
             mism "walk run %s: the pages before this walk are not what Model/Walk.v:walk_pages_after gives for the previous walk, e.g. page %s model %s code %s"
               run (string_of_n a) (Mode_page.show p) (Mode_page.show q)
           end
         | None -> ());
        expect := Some (Walk.pages_after_stop_at (vb = "1") (n_of_string k) ps);
        let (tr, r) = Walk.walk_stop_at (vb = "1") (n_of_string k) ps in
        let want = L.map show_call tr in
        ncalls := !ncalls + L.length calls;
        if not r then incr stopped;
        if (if r then "1" else "0") <> res then
          mism "walk run %s (visit_blocks=%s k=%s, %d pages): result %s, model walk_stop_at gives %b" run vb k (L.length ps) res r
        else if want <> calls then begin
          let rec first_diff i a b = match a, b with
            | x :: a', y :: b' -> if x = y then first_diff (i + 1) a' b' else (i, x, y)
            | x :: _, [] -> (i, x, "<none>") | [], y :: _ -> (i, "<none>", y) | [], [] -> (i, "", "") in
          let (i, w, g) = first_diff 0 want calls in
          mism "walk run %s (visit_blocks=%s k=%s): %d visitor calls, model %d; first difference at call %d: model [%s] code [%s]"
            run vb k (L.length calls) (L.length want) (i + 1) w g
        end
      | _ -> ()
    done
  with End_of_file -> ());
  Printf.printf "STATS walk walks=%d stopped=%d empty_heaps=%d visitor_calls=%d page_dumps=%d pages_after_checked=%d\n" !walks !stopped !empty !ncalls !npages !after_checked)
