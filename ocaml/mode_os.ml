(* Replay driver for the OS / commit-mask / purge models (coq/Model/Os.v, Mask.v, Purge.v; extracted to
   Os.ml, Mask.ml, Purge.ml).  mode "os"; records on stdin (all numbers decimal):

     K reset                                   forget the ghost kernel of the driver
     K map <base> <len> <rw>                   a mapping made outside the modelled calls
     F <fn> <args> = <results>                 a call of the real function: the model must give the same results

   notation:  MASK = 8 words;  CFG = purge_delay purge_decommits arena_purge_mult purge_extend_delay decommit_protects allow_large_os_pages
              ANS  = n (ok addr)*n             the answers the real kernel gave to the n system calls of this call
              CALLS= n (kind addr len arg)*n   the system calls seen by the shim (0 mmap 1 munmap 2 mprotect 3 madvise)
              SEG  = base kind size info MASK(commit) MASK(purge) expire allow_decommit allow_purge
              SEGO = MASK(commit) MASK(purge) expire
              AR   = start bcount fcount inuse*fc committed*fc purge*fc expire pinned ;  ARO = inuse*fc committed*fc purge*fc expire
              SMP  = n (addr state)*n          page states seen by the shim after the call (-1 unmapped, bit0 rw, bit1 purged)
   functions:
     cm_create bitidx bitcount = MASK | cm_all_set MASK MASK = b | cm_any_set MASK MASK = b | cm_is_empty MASK = b
     cm_is_full MASK = b | cm_intersect MASK MASK = MASK | cm_clear MASK MASK = MASK | cm_set MASK MASK = MASK
     cm_committed_size MASK total = n | cm_next_run MASK idx = idx count | cm_runs MASK = n (idx count)*n
     cmw_next_run MASK idx = idx count | cmw_runs MASK = n (idx count)*n     (word-level model, Model/MaskWords.v)
     seg_commit_mask base kind size info conservative p sz = start full MASK
     page_align conservative addr size = start csize
     seg_commit CFG SEG p size now ANS = ok SEGO CALLS SMP        (also seg_ensure)
     seg_purge CFG SEG p size ANS = SEGO CALLS SMP
     seg_schedule CFG SEG p size now ANS = SEGO CALLS SMP
     seg_try_purge CFG SEG force now ANS = SEGO CALLS SMP
     arena_purge CFG AR idx blocks ANS = ARO CALLS
     arena_schedule CFG g AR idx blocks now ANS = g ARO CALLS
     arena_try_purge CFG AR now force ANS = any ARO CALLS
     arenas_try_purge CFG g n AR*n now force visit_all ANS = g ARO*n CALLS
     arena_free CFG g n AR*n ai idx blocks all_committed now ANS = g ARO*n CALLS
     os_roundtrip CFG which size align offset commit allow_large hint0 freesize ANS = ok p kind base msize committed zero pinned nmaps mbase mlen CALLS nmaps_after
*)
open BinNums
open Util
module L = Stdlib.List

let rec nat_of_int n = if n <= 0 then Datatypes.O else Datatypes.S (nat_of_int (n - 1))
let rec int_of_nat = function Datatypes.O -> 0 | Datatypes.S k -> 1 + int_of_nat k
let sn = string_of_n
let sz = string_of_z
let sb b = if b then "1" else "0"

(* token cursor *)
type cur = { toks : string array; mutable pos : int }
let next c = if c.pos >= Array.length c.toks then failwith "record too short" else (let t = c.toks.(c.pos) in c.pos <- c.pos + 1; t)
let rd_n c = n_of_string (next c)
let rd_z c = z_of_string (next c)
let rd_b c = (next c) <> "0"
let rd_i c = int_of_string (next c)
let rec rd_list c k f = if k <= 0 then [] else (let x = f c in x :: rd_list c (k - 1) f)
let rd_big c k = Mask.mask_of_fields (rd_list c k rd_n)          (* k words -> one number *)
let big_out k m = L.map sn (Mask.fields_of_mask_aux (nat_of_int k) m)

let rd_cfg c : Os.oscfg =
  let d = rd_z c in let dc = rd_b c in let m = rd_z c in let e = rd_z c in let dp = rd_b c in let al = rd_z c in
  { Os.purge_delay = d; purge_decommits = dc; arena_purge_mult = m; purge_extend_delay = e; decommit_protects = dp;
    hint_init = OsConsts.coq_MI_HINT_BASE_; allow_large_os_pages = al }

let rd_answers c : (Datatypes.nat -> Os.answer) =
  let n = rd_i c in
  let arr = Array.of_list (rd_list c n (fun c -> let ok = rd_b c in let a = rd_n c in { Os.a_ok = ok; a_addr = a })) in
  fun k -> let i = int_of_nat k in if i < Array.length arr then arr.(i) else { Os.a_ok = true; a_addr = N0 }

let kind_num = function Os.KMmap -> "0" | Os.KMunmap -> "1" | Os.KMprotect -> "2" | Os.KMadvise -> "3"
let calls_out (o : Os.os) : string list =
  let cs = Os.calls o in
  string_of_int (L.length cs) :: L.concat (L.map (fun (((k, a), l), g) -> [kind_num k; sn a; sn l; sn g]) cs)

let rd_seg c : Mask.segment =
  let base = rd_n c in let kind = rd_i c in let size = rd_n c in let info = rd_n c in
  let cm = rd_big c 8 in let pm = rd_big c 8 in let ex = rd_z c in let ad = rd_b c in let ap = rd_b c in
  { Mask.s_base = base; s_kind = (if kind = 0 then Mask.SegNormal else Mask.SegHuge); s_size = size; s_info_size = info;
    s_commit = cm; s_purge = pm; s_expire = ex; s_allow_decommit = ad; s_allow_purge = ap }
let seg_out (s : Mask.segment) = big_out 8 s.Mask.s_commit @ big_out 8 s.Mask.s_purge @ [sz s.Mask.s_expire]

let rd_arena c : Purge.arena * int =
  let st = rd_n c in let bc = rd_n c in let fc = rd_i c in
  let iu = rd_big c fc in let cm = rd_big c fc in let pu = rd_big c fc in let ex = rd_z c in let pin = rd_b c in
  ({ Purge.a_start = st; a_block_count = bc; a_field_count = n_of_int fc; a_inuse = iu; a_committed = cm; a_purge = pu;
     a_expire = ex; a_pinned = pin }, fc)
let arena_out (a : Purge.arena) fc =
  big_out fc a.Purge.a_inuse @ big_out fc a.Purge.a_committed @ big_out fc a.Purge.a_purge @ [sz a.Purge.a_expire]

(* the driver's ghost kernel (page states follow the modelled calls; see K records) *)
let kern : Os.kernel ref = ref Os.kernel0
let fresh_os (hint : coq_N) : Os.os = { Os.os_k = !kern; os_seq = Datatypes.O; os_log = []; os_hint = hint }

(* page samples: n (addr state)*n as the model sees them *)
let samples_out c (k : Os.kernel) : string list =
  let n = rd_i c in
  let l = rd_list c n (fun c -> let a = rd_n c in let _ = next c in a) in
  string_of_int n :: L.concat (L.map (fun a ->
    let st = if not (Os.addr_mapped k a) then "-1"
             else let p = k.Os.k_at a in string_of_int ((if p.Os.pg_rw then 1 else 0) + (if p.Os.pg_purged then 2 else 0)) in
    [sn a; st]) l)

(* split a record at "=" *)
let split_eq toks =
  let rec go acc = function "=" :: r -> (L.rev acc, r) | x :: r -> go (x :: acc) r | [] -> (L.rev acc, []) in
  go [] toks

let eval (fn : string) (args : string list) (res : string list) : string list =
  let c = { toks = Array.of_list args; pos = 0 } in
  let r = { toks = Array.of_list res; pos = 0 } in
  match fn with
  | "cm_create" -> let i = rd_n c in let k = rd_n c in big_out 8 (Mask.commit_mask_create i k)
  | "cm_all_set" -> let a = rd_big c 8 in let b = rd_big c 8 in [sb (Mask.commit_mask_all_set a b)]
  | "cm_any_set" -> let a = rd_big c 8 in let b = rd_big c 8 in [sb (Mask.commit_mask_any_set a b)]
  | "cm_is_empty" -> let a = rd_big c 8 in [sb (Mask.commit_mask_is_empty a)]
  | "cm_is_full" -> let a = rd_big c 8 in [sb (Mask.commit_mask_is_full a)]
  | "cm_intersect" -> let a = rd_big c 8 in let b = rd_big c 8 in big_out 8 (Mask.commit_mask_create_intersect a b)
  | "cm_clear" -> let a = rd_big c 8 in let b = rd_big c 8 in big_out 8 (Mask.commit_mask_clear a b)
  | "cm_set" -> let a = rd_big c 8 in let b = rd_big c 8 in big_out 8 (Mask.commit_mask_set a b)
  | "cm_committed_size" -> let a = rd_big c 8 in let t = rd_n c in [sn (Mask.commit_mask_committed_size a t)]
  | "cm_next_run" -> let a = rd_big c 8 in let i = rd_n c in let (i', k) = Mask.commit_mask_next_run a i in [sn i'; sn k]
  | "cm_runs" ->
    let a = rd_big c 8 in let rs = Mask.mask_runs a in
    string_of_int (L.length rs) :: L.concat (L.map (fun (i, k) -> [sn i; sn k]) rs)
  (* the same two records against the WORD-level model (Model/MaskWords.v follows the C loops over the 8 words) *)
  | "cmw_next_run" -> let ws = rd_list c 8 rd_n in let i = rd_n c in let (i', k) = MaskWords.next_run_words ws i in [sn i'; sn k]
  | "cmw_runs" ->
    let ws = rd_list c 8 rd_n in
    (match MaskWords.foreach_words ws with
     | Some rs -> string_of_int (L.length rs) :: L.concat (L.map (fun (i, k) -> [sn i; sn k]) rs)
     | None -> ["fuel-exhausted"])
  | "seg_commit_mask" ->
    let base = rd_n c in let kind = rd_i c in let size = rd_n c in let info = rd_n c in let cons = rd_b c in
    let p = rd_n c in let sz_ = rd_n c in
    let s = { Mask.s_base = base; s_kind = (if kind = 0 then Mask.SegNormal else Mask.SegHuge); s_size = size; s_info_size = info;
              s_commit = N0; s_purge = N0; s_expire = Z0; s_allow_decommit = true; s_allow_purge = true } in
    let ((st, full), m) = Mask.segment_commit_mask s cons p sz_ in
    [sn st; sn full] @ big_out 8 m
  | "page_align" ->
    let cons = rd_b c in let a = rd_n c in let s = rd_n c in
    let (st, cs) = Os.os_page_align_area cons a s in [sn st; sn cs]
  | "seg_commit" | "seg_ensure" ->
    let cfg = rd_cfg c in let s = rd_seg c in let p = rd_n c in let size = rd_n c in let now = rd_z c in let orc = rd_answers c in
    let ((o, s'), ok) = (if fn = "seg_commit" then Mask.segment_commit else Mask.segment_ensure_committed) cfg orc (fresh_os N0) s p size now in
    kern := o.Os.os_k;
    let head = [sb ok] @ seg_out s' @ calls_out o in
    r.pos <- L.length head; head @ samples_out r o.Os.os_k
  | "seg_purge" ->
    let cfg = rd_cfg c in let s = rd_seg c in let p = rd_n c in let size = rd_n c in let orc = rd_answers c in
    let (o, s') = Mask.segment_purge cfg orc (fresh_os N0) s p size in
    kern := o.Os.os_k;
    let head = seg_out s' @ calls_out o in
    r.pos <- L.length head; head @ samples_out r o.Os.os_k
  | "seg_schedule" ->
    let cfg = rd_cfg c in let s = rd_seg c in let p = rd_n c in let size = rd_n c in let now = rd_z c in let orc = rd_answers c in
    let (o, s') = Mask.segment_schedule_purge cfg orc (fresh_os N0) s p size now in
    kern := o.Os.os_k;
    let head = seg_out s' @ calls_out o in
    r.pos <- L.length head; head @ samples_out r o.Os.os_k
  | "seg_try_purge" ->
    let cfg = rd_cfg c in let s = rd_seg c in let force = rd_b c in let now = rd_z c in let orc = rd_answers c in
    let (o, s') = Mask.segment_try_purge cfg orc (fresh_os N0) s force now in
    kern := o.Os.os_k;
    let head = seg_out s' @ calls_out o in
    r.pos <- L.length head; head @ samples_out r o.Os.os_k
  | "arena_purge" ->
    let cfg = rd_cfg c in let (a, fc) = rd_arena c in let idx = rd_n c in let blocks = rd_n c in let orc = rd_answers c in
    let (o, a') = Purge.arena_purge cfg orc (fresh_os N0) a idx blocks in
    kern := o.Os.os_k; arena_out a' fc @ calls_out o
  | "arena_schedule" ->
    let cfg = rd_cfg c in let g = rd_z c in let (a, fc) = rd_arena c in let idx = rd_n c in let blocks = rd_n c in
    let now = rd_z c in let orc = rd_answers c in
    let ((o, g'), a') = Purge.arena_schedule_purge cfg orc (fresh_os N0) g a idx blocks now in
    kern := o.Os.os_k; [sz g'] @ arena_out a' fc @ calls_out o
  | "arena_try_purge" ->
    let cfg = rd_cfg c in let (a, fc) = rd_arena c in let now = rd_z c in let force = rd_b c in let orc = rd_answers c in
    let ((o, a'), any) = Purge.arena_try_purge cfg orc (fresh_os N0) a now force in
    kern := o.Os.os_k; [sb any] @ arena_out a' fc @ calls_out o
  | "arenas_try_purge" ->
    let cfg = rd_cfg c in let g = rd_z c in let n = rd_i c in let ars = rd_list c n rd_arena in
    let now = rd_z c in let force = rd_b c in let va = rd_b c in let orc = rd_answers c in
    let ((o, g'), l') = Purge.arenas_try_purge cfg orc (fresh_os N0) g (L.map fst ars) now force va in
    kern := o.Os.os_k;
    [sz g'] @ L.concat (L.map2 (fun a' (_, fc) -> arena_out a' fc) l' ars) @ calls_out o
  | "arena_free" ->
    let cfg = rd_cfg c in let g = rd_z c in let n = rd_i c in let ars = rd_list c n rd_arena in
    let ai = rd_i c in let idx = rd_n c in let blocks = rd_n c in let allc = rd_b c in let now = rd_z c in let orc = rd_answers c in
    let ((o, g'), l') = Purge.arena_free cfg orc (fresh_os N0) g (L.map fst ars) (nat_of_int ai) idx blocks allc now in
    kern := o.Os.os_k;
    [sz g'] @ L.concat (L.map2 (fun a' (_, fc) -> arena_out a' fc) l' ars) @ calls_out o
  | "os_roundtrip" ->
    let cfg = rd_cfg c in let which = rd_i c in let size = rd_n c in let align = rd_n c in let offset = rd_n c in
    let commit = rd_b c in let al = rd_b c in let hint0 = rd_n c in let freesize = rd_n c in let orc = rd_answers c in
    let o0 = { Os.os0 with Os.os_hint = hint0 } in
    let (o1, res) =
      (match which with
       | 0 -> Os.os_alloc cfg orc o0 size
       | 1 -> Os.os_alloc_aligned cfg orc o0 size align commit al
       | _ -> Os.os_alloc_aligned_at_offset cfg orc o0 size align offset commit al) in
    (match res with
     | None -> ["0"; "0"; "0"; "0"; "0"; "0"; "0"; "0"; string_of_int (L.length o1.Os.os_k.Os.k_maps); "0"; "0"] @ calls_out o1 @
               [string_of_int (L.length o1.Os.os_k.Os.k_maps)]
     | Some (p, m) ->
       let (mb, ml) = (match o1.Os.os_k.Os.k_maps with mp :: _ -> (mp.Os.m_base, mp.Os.m_len) | [] -> (N0, N0)) in
       let nm = L.length o1.Os.os_k.Os.k_maps in
       let o2 = Os.os_free_ex orc o1 p freesize commit m in
       let kn = (match m.Os.mem_kind with Os.MemNone -> 0 | Os.MemExternal -> 1 | Os.MemStatic -> 2 | Os.MemOs -> 3
                                        | Os.MemOsHuge -> 4 | Os.MemOsRemap -> 5 | Os.MemArena -> 6) in
       ["1"; sn p; string_of_int kn; sn m.Os.mem_base; sn m.Os.mem_size; sb m.Os.initially_committed; sb m.Os.initially_zero;
        sb m.Os.is_pinned; string_of_int nm; sn mb; sn ml] @ calls_out o2 @ [string_of_int (L.length o2.Os.os_k.Os.k_maps)])
  | _ -> failwith ("unknown function record: " ^ fn)

let () = Modes.register "os" (fun records mismatches ->
  (try
    while true do
      let line = input_line stdin in
      match split_ws line with
      | "K" :: "reset" :: _ -> kern := Os.kernel0
      | "K" :: "map" :: b :: l :: rw :: _ ->
        let base = n_of_string b and len = n_of_string l and rw = (rw <> "0") in
        let k = !kern in
        kern := { Os.k_maps = { Os.m_base = base; m_len = len } :: k.Os.k_maps;
                  k_at = Os.set_range k.Os.k_at base len (fun _ -> { Os.pg_rw = rw; pg_purged = false }) }
      | "F" :: fn :: rest ->
        incr records;
        let (args, res) = split_eq rest in
        let got = (try eval fn args res with Failure m -> ["<" ^ m ^ ">"] | Invalid_argument m -> ["<" ^ m ^ ">"]) in
        if got <> res then begin
          incr mismatches;
          if !mismatches <= 40 then
            Printf.printf "MISMATCH F %s %s : impl=%s model=%s\n" fn (String.concat " " args) (String.concat " " res) (String.concat " " got)
        end
      | _ -> ()
    done
  with End_of_file -> ()))
