(* mode G: validation of the source-to-Gallina translator (tools/c2gallina.py).  The extracted generated
   functions (Gen/Funcs.v, through Funcs.c_dispatch) are run on the records of harness/f_arith.c:
     "F <short name> <args> = <results>"   the records also compared with the hand model (mode F)
     "G <C function> <args> = <results>"   records of functions that have no F record
   and must reproduce the results of the real (gcc-compiled) C functions.  Prints
     MISMATCH G <C function> <args> : impl=<...> gen=<...>     translator (or semantics) wrong on this input
     UB G <C function> <args>                                   c_<fn>_ok false: the real code was run on an
                                                                input where the model sees an undefined operation
     REFUSED <C function> <n records>                           function not translated in this run *)
open BinNums
open Util
module L = Stdlib.List

let string_of_codes (cs : coq_N list) : string =
  String.concat "" (L.map (fun c -> String.make 1 (Char.chr (int_of_n c))) cs)

let ids : (string * coq_N) list = L.map (fun (id, cs) -> (string_of_codes cs, id)) Funcs.c_names

(* F record name -> C function *)
let fmap = [ "bin", "mi_bin"; "good_size", "mi_good_size"; "wsize", "_mi_wsize_from_size"; "align_up", "_mi_align_up";
             "align_down", "_mi_align_down"; "divide_up", "_mi_divide_up"; "clz", "mi_clz"; "ctz", "mi_ctz"; "bsr", "mi_bsr";
             "is_pow2", "_mi_is_power_of_two"; "mul_overflow", "mi_mul_overflow"; "count_size_overflow", "mi_count_size_overflow";
             "bin_size", "_mi_bin_size"; "os_good_alloc_size", "_mi_os_good_alloc_size"; "slice_bin", "mi_slice_bin8";
             "fast_divisor", "mi_get_fast_divisor"; "fast_divide", "mi_fast_divide"; "ptr_segment", "_mi_ptr_segment";
             "unalign", "_mi_page_ptr_unalign" ]

let () = Modes.register "G" (fun records mismatches ->
  let shifts : (string, string) Hashtbl.t = Hashtbl.create 64 in      (* block size -> page->block_size_shift *)
  let refused : (string, int) Hashtbl.t = Hashtbl.create 16 in
  let ubs = ref 0 in
  let run cfn args res =
    match L.assoc_opt cfn ids with
    | None -> Hashtbl.replace refused cfn (1 + (try Hashtbl.find refused cfn with Not_found -> 0))
    | Some id ->
      incr records;
      (match Funcs.c_dispatch id (L.map n_of_string args) with
       | None -> incr mismatches; Printf.printf "MISMATCH G %s %s : arity of the generated function differs\n" cfn (String.concat " " args)
       | Some (got, ok) ->
         let got = L.map string_of_n got in
         if got <> res then begin
           incr mismatches;
           if !mismatches <= 50 then
             Printf.printf "MISMATCH G %s %s : impl=%s gen=%s\n" cfn (String.concat " " args) (String.concat " " res) (String.concat " " got)
         end;
         if not ok then begin
           incr ubs;
           if !ubs <= 20 then Printf.printf "UB G %s %s\n" cfn (String.concat " " args)
         end) in
  (try
    while true do
      let line = input_line stdin in
      let rec split acc = function
        | "=" :: r -> (L.rev acc, r)
        | x :: r -> split (x :: acc) r
        | [] -> (L.rev acc, []) in
      match split_ws line with
      | "F" :: "block_size_shift" :: rest ->
        (match split [] rest with ([bs], [sh]) -> Hashtbl.replace shifts bs sh | _ -> ())
      | "F" :: "unalign" :: rest ->
        (match split [] rest with
         | ([ps; bs; p], res) ->
           (match Hashtbl.find_opt shifts bs with
            | Some sh -> run "_mi_page_ptr_unalign" [p; ps; sh; bs] res
            | None -> ())
         | _ -> ())
      | "F" :: fn :: rest ->
        (match L.assoc_opt fn fmap with
         | Some cfn -> let (args, res) = split [] rest in run cfn args res
         | None -> ())
      | "G" :: cfn :: rest -> let (args, res) = split [] rest in run cfn args res
      | _ -> ()
    done
  with End_of_file -> ());
  Hashtbl.iter (fun cfn n -> Printf.printf "REFUSED %s %d\n" cfn n) refused;
  Printf.printf "UBCOUNT %d\n" !ubs)
