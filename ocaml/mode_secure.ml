(* Replay of harness/t_secure.c F records on the extracted model Model/Secure.v (property C17).
   mode "secure": pure functions (encode/decode/canary/rotl/rotr, constants) are compared value by
   value; page episodes are replayed from the dumped initial page: after every operation the error
   codes, the returned block and the observation (capacity, used, the three lists as the allocator
   walks them) must agree, the executable strong invariant inv_b must hold while no link has been
   forged, and at the end of the episode every byte of every block must agree. *)
open BinNums
open Util
module L = Stdlib.List

let n = n_of_string
let ni = n_of_int

type episode = {
  mutable cfg : Secure.cfg option;
  mutable st : Secure.st option;
  mem0 : (int, Bytes.t) Hashtbl.t;      (* initial dump; keys -1-i mark the blocks printed in the final dump *)
  cur : (int, Bytes.t) Hashtbl.t;       (* the model's memory, flattened after every operation *)
  cache : (int, coq_N -> coq_N) Hashtbl.t;
  mutable nops : int;
  mutable bsz : int;
  mutable rsv : int;
  mutable dead : bool;      (* a mismatch was already reported for this episode *)
}

let hex_to_bytes (s : string) : Bytes.t =
  let len = String.length s / 2 in
  let b = Bytes.create len in
  let v c = match c with '0'..'9' -> Char.code c - 48 | 'a'..'f' -> Char.code c - 87 | _ -> 0 in
  for i = 0 to len - 1 do Bytes.set b i (Char.chr (v s.[2*i] * 16 + v s.[2*i+1])) done;
  b

let idx1 (o : coq_N option) : int = match o with None -> 0 | Some i -> int_of_n i + 1
let opt_of_idx1 (k : int) : coq_N option = if k = 0 then None else Some (ni (k - 1))

(* the list as the harness walks it: at most capacity+1 elements, -1 for a wild pointer *)
let walk_like_harness (c : Secure.cfg) (s : Secure.st) (h : coq_N option) : int list =
  let limit = int_of_n s.Secure.cap + 1 in
  let rec go h k acc =
    match h with
    | None -> L.rev acc
    | Some i ->
      if k >= limit then L.rev acc
      else
        let acc = (int_of_n i + 1) :: acc in
        (match Secure.block_next c s.Secure.mem i with
         | (Secure.NNull, _) -> L.rev acc
         | (Secure.NBlk j, _) -> go (Some j) (k + 1) acc
         | (Secure.NWild _, _) -> if k + 1 >= limit then L.rev acc else L.rev ((-1) :: acc))
  in go h 0 []

let obs_string (c : Secure.cfg) (s : Secure.st) : string =
  let lst l = String.concat " " (L.map string_of_int (L.length l :: l)) in
  Printf.sprintf "%s %s | %s | %s | %s" (string_of_n s.Secure.cap) (string_of_n s.Secure.used)
    (lst (walk_like_harness c s s.Secure.free)) (lst (walk_like_harness c s s.Secure.lfree))
    (lst (walk_like_harness c s s.Secure.tfree))

(* memory backed by a table of byte arrays (absent block = all zero).  The per-block closure is
   cached, so that an unchanged block is recognised by physical equality after an operation *)
let table_mem (tbl : (int, Bytes.t) Hashtbl.t) (cache : (int, coq_N -> coq_N) Hashtbl.t) : coq_N -> coq_N -> coq_N =
  fun i ->
    let k = int_of_n i in
    match Hashtbl.find_opt cache k with
    | Some f -> f
    | None ->
      let f = fun o ->
        (match Hashtbl.find_opt tbl k with
         | None -> N0
         | Some b -> let o = int_of_n o in if o < Bytes.length b then ni (Char.code (Bytes.get b o)) else N0) in
      Hashtbl.replace cache k f; f

(* the extracted operations wrap the memory function once per write; evaluate the blocks whose
   function changed and continue from the flat table (same function, cheaper to apply) *)
let flatten (e : episode) (s : Secure.st) : Secure.st =
  let cap = int_of_n s.Secure.cap in
  let base = table_mem e.cur e.cache in
  let changed = ref [] in
  for i = 0 to cap - 1 do
    let blk = s.Secure.mem (ni i) in
    if blk != base (ni i) then
      changed := (i, Bytes.init e.bsz (fun o -> Char.chr (int_of_n (Secure.byte blk (ni o))))) :: !changed
  done;
  L.iter (fun (i, b) -> Hashtbl.replace e.cur i b) !changed;
  { s with Secure.mem = base }

let () = Modes.register "secure" (fun records mismatches ->
  let eps : (string, episode) Hashtbl.t = Hashtbl.create 64 in
  let get ep =
    match Hashtbl.find_opt eps ep with
    | Some e -> e
    | None -> let e = { cfg = None; st = None; mem0 = Hashtbl.create 64; cur = Hashtbl.create 64; cache = Hashtbl.create 64; nops = 0; bsz = 0; rsv = 0; dead = false } in
      Hashtbl.replace eps ep e; e in
  let report fmt = Printf.ksprintf (fun s -> incr mismatches; if !mismatches <= 40 then print_endline ("MISMATCH " ^ s)) fmt in
  let b2n b = if b then ni 1 else ni 0 in
  let pure fn args res =
    let a = L.map n args in
    let got = match fn, a with
      | "encode", [nl; p; k0; k1] -> [Secure.ptr_encode nl p k0 k1]
      | "decode", [nl; x; k0; k1] -> [Secure.ptr_decode nl x k0 k1]
      | "canary", [nl; p; k0; k1] -> [Secure.encode_canary nl p k0 k1]
      | "rotl", [x; s] -> [Secure.rotl x s]
      | "rotr", [x; s] -> [Secure.rotr x s]
      | _ -> failwith ("unknown pure function " ^ fn) in
    let got = L.map string_of_n got in
    ignore b2n;
    if got <> res then report "F %s %s : impl=%s model=%s" fn (String.concat " " args) (String.concat " " res) (String.concat " " got) in
  let seclvl = ref 0 in
  (try
    while true do
      let line = input_line stdin in
      try
      match split_ws line with
      | "F" :: "const" :: name :: "=" :: v :: _ ->
        incr records;
        let model = match name with
          | "PAD" -> Some Secure.coq_PAD | "DBG_UNINIT" -> Some Secure.coq_DBG_UNINIT
          | "DBG_FREED" -> Some Secure.coq_DBG_FREED | "DBG_PADDING" -> Some Secure.coq_DBG_PADDING
          | "MAX_EXTEND_SIZE" -> Some Consts.coq_MI_MAX_EXTEND_SIZE | "MAX_ALIGN_SIZE" -> Some Consts.coq_MI_MAX_ALIGN_SIZE
          | "EAGAIN" -> Some Consts.coq_EAGAIN_ | "EFAULT" -> Some Consts.coq_EFAULT_
          | "MIN_EXTEND" -> None
          | _ -> None in
        (match model with
         | Some m -> if string_of_n m <> v then report "F const %s : impl=%s model=%s" name v (string_of_n m)
         | None -> if name = "MIN_EXTEND" then seclvl := int_of_string v)
      | "F" :: "cfg" :: ep :: bsz :: rsv :: k0 :: k1 :: pg :: seg :: ps :: psz :: dbg :: lvl :: _ ->
        incr records;
        let e = get ep in
        let c = { Secure.bsz = n bsz; rsv = n rsv; k0 = n k0; k1 = n k1; pgaddr = n pg; seg = n seg;
                  pstart = n ps; psize = n psz; dbg = (dbg = "1"); seclvl = n lvl } in
        e.cfg <- Some c; e.bsz <- int_of_string bsz; e.rsv <- int_of_string rsv;
        (* MI_MIN_EXTEND of the build against the model's min_extend *)
        if !seclvl <> 0 && string_of_n (Secure.min_extend c) <> string_of_int !seclvl then
          report "F const MIN_EXTEND : impl=%d model=%s" !seclvl (string_of_n (Secure.min_extend c))
      | "F" :: "mem" :: ep :: i :: hex :: _ ->
        let e = get ep in Hashtbl.replace e.mem0 (int_of_string i) (hex_to_bytes hex)
      | "F" :: "st" :: ep :: cap :: used :: f :: l :: t :: _ ->
        incr records;
        let e = get ep in
        Hashtbl.iter (fun k b -> Hashtbl.replace e.cur k (Bytes.copy b)) e.mem0;
        let mem = table_mem e.cur e.cache in
        let s = { Secure.cap = n cap; free = opt_of_idx1 (int_of_string f); lfree = opt_of_idx1 (int_of_string l);
                  tfree = opt_of_idx1 (int_of_string t); used = n used; mem = mem } in
        e.st <- Some s;
        (match e.cfg with
         | Some c -> if not (Secure.inv_b c s) then begin e.dead <- true; report "F inv %s : the dumped initial page does not satisfy inv_b" ep end
         | None -> ())
      | "F" :: "op" :: ep :: strong :: name :: rest ->
        incr records;
        let e = get ep in
        if not e.dead then begin
          match e.cfg, e.st with
          | Some c, Some s ->
            let rec split acc = function
              | "=" :: r -> (L.rev acc, r)
              | x :: r -> split (x :: acc) r
              | [] -> (L.rev acc, []) in
            let (args, res) = split [] rest in
            let op = match name, args with
              | "malloc", [r] -> Secure.OMalloc (n r)
              | "free", [i] -> Secure.OFree (n i)
              | "remote_free", [i] -> Secure.ORemoteFree (n i)
              | "tf_collect", [] -> Secure.OTfCollect
              | "collect", [f] -> Secure.OCollect (f = "1")
              | "extend_seq", [] -> Secure.OExtendSeq
              | "extend_secure", _ :: order -> Secure.OExtendSecure (L.map n order)
              | "write", [i; o; v] -> Secure.OWrite (n i, n o, n v)
              | "overflow", [i; v] -> Secure.OOverflow (n i, n v)
              | "overwrite_link", [i; w] -> Secure.OOverwriteLink (n i, n w)
              | _ -> failwith ("unknown op " ^ name) in
            (* impl side: ret nerr errs... | cap used | nF F.. | nL L.. | nT T.. *)
            let impl = String.concat " " res in
            (match Secure.step c s op with
             | Secure.Ok ((s', r), errs) ->
               let s' = flatten e s' in
               let model = Printf.sprintf "%d %s | %s" (idx1 r)
                   (String.concat " " (string_of_int (L.length errs) :: L.map string_of_n errs)) (obs_string c s') in
               e.st <- Some s';
               if model <> impl then begin
                 e.dead <- true;
                 let cut x = if String.length x > 300 then String.sub x 0 300 ^ "..." else x in
                 report "F op ep=%s %s %s : impl=[%s] model=[%s]" ep name (String.concat " " args) (cut impl) (cut model)
               end
               else if strong = "1" && (e.nops <- e.nops + 1; e.nops mod 3 = 0) && not (Secure.inv_b c s') then begin
                 e.dead <- true; report "F inv ep=%s after %s %s : inv_b fails on the state reached" ep name (String.concat " " args)
               end
             | Secure.Undef -> e.dead <- true; report "F op ep=%s %s %s : model undefined, impl=[%s]" ep name (String.concat " " args) (String.sub impl 0 (min 200 (String.length impl)))
             | Secure.OutOfFuel -> e.dead <- true; report "F op ep=%s %s %s : model out of fuel" ep name (String.concat " " args))
          | _ -> report "F op ep=%s without cfg/st" ep
        end
      | "F" :: "memf" :: ep :: i :: hex :: _ ->
        let e = get ep in
        if not e.dead then begin
          match e.st with
          | Some s when int_of_string i >= int_of_n s.Secure.cap ->
            (* beyond the capacity nothing may have changed *)
            let b = hex_to_bytes hex in
            let b0 = match Hashtbl.find_opt e.mem0 (int_of_string i) with Some x -> x | None -> Bytes.make (Bytes.length b) '\000' in
            if not (Bytes.equal b b0) then begin e.dead <- true; report "F memf ep=%s block %s beyond capacity changed" ep i end
          | Some s ->
            let b = hex_to_bytes hex in
            let bi = ni (int_of_string i) in
            let blk = s.Secure.mem bi in
            (try
              for o = 0 to Bytes.length b - 1 do
                let m = int_of_n (Secure.byte blk (ni o)) in
                if m <> Char.code (Bytes.get b o) then begin
                  e.dead <- true;
                  report "F memf ep=%s block %s offset %d : impl=%d model=%d" ep i o (Char.code (Bytes.get b o)) m;
                  raise Exit
                end
              done
            with Exit -> ());
            Hashtbl.replace e.mem0 (-1 - int_of_string i) b   (* remember that the block was printed *)
          | None -> ()
        end
      | "F" :: "end" :: ep :: _ ->
        incr records;
        let e = get ep in
        (* blocks that were not printed in the final dump are all zero *)
        if not e.dead then begin
          match e.st with
          | Some s ->
            (try
              for i = 0 to int_of_n s.Secure.cap - 1 do
                if not (Hashtbl.mem e.mem0 (-1 - i)) then begin
                  let blk = s.Secure.mem (ni i) in
                  for o = 0 to e.bsz - 1 do
                    if int_of_n (Secure.byte blk (ni o)) <> 0 then begin
                      report "F memf ep=%s block %d offset %d : impl=0 model=%d" ep i o (int_of_n (Secure.byte blk (ni o)));
                      raise Exit
                    end
                  done
                end
              done
            with Exit -> ())
          | None -> ()
        end;
        Hashtbl.remove eps ep
      | "F" :: fn :: rest ->
        incr records;
        let rec split acc = function
          | "=" :: r -> (L.rev acc, r)
          | x :: r -> split (x :: acc) r
          | [] -> (L.rev acc, []) in
        let (args, res) = split [] rest in
        pure fn args res
      | _ -> ()
      with Failure msg -> report "unparsable record (%s): %s" msg (if String.length line > 120 then String.sub line 0 120 else line)
         | Invalid_argument msg -> report "unparsable record (%s): %s" msg (if String.length line > 120 then String.sub line 0 120 else line)
    done
  with End_of_file -> ()))
