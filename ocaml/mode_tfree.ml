(* Drivers for the cross-thread free protocol model (coq/Model/TFree.v, extracted).

   Mode `tfree-sim`  -- MODEL-SIDE TESTING ONLY.  It supports the Coq theorems of Properties/C02.v,
   C08.v, C10conc.v (it found the right invariant before they were proved and shows they are not
   vacuous); it never replaces them.  Input: lines `<seed> <number of programs> [<max steps>]`.
   For every program: 1-2 owner threads with 1-2 heaps, 1-3 pages of capacity 2-4, 2-4 remote threads;
   a random schedule with spurious weak-CAS failures, heap delete, collects; `inv_b` (all parts of the
   invariant) is evaluated after every step, `Err` states are reported, and at the end all threads are
   run to idle and the C08 quiescence result (`collected_b`) is checked for every live heap.
   Output: `MISMATCH ...` lines for failures and one `STAT ...` line per input line.

   Mode `tfree-lockstep` -- schedule-lockstep replay of a log produced by a real-code scheduler (the
   deterministic scheduler that runs /repo in virtual threads with every mi_atomic operation a
   scheduling point).  The model must be able to perform, for every logged atomic access, a transition
   of the same thread with the same location, the same kind and the same abstract old and new value.

   LOG FORMAT (one record per line, blank-separated; lines starting with '#' are comments).  Ids of
   threads, pages and heaps are small decimal numbers chosen by the harness; a block is written
   <page>.<idx> (idx = (block address - page_start) / block_size).
     H <heap> <owner tid> <backing 0|1>
         a heap that exists (before the first step, or created by the preceding call).
     G <page> <heap|-> <owner tid> <reserved> <capacity> <used> <in_full 0|1> <flag 0..3> : <free idx...> : <local_free idx...> : <tf idx...>
         snapshot of a page taken while its owner thread is between two API calls (after its R line, before
         its next A line); other threads may be anywhere.  A page the
         replay does not know yet is created; for a known page the SHARED part (flag, thread-free list, heap)
         must equal the model's, and the owner-private part (free, local_free, used, capacity, reserved,
         in_full) is taken over from the snapshot: owner-private steps that touch no shared word (malloc fast
         path, local free, extend, retire decisions) are not in the log, so the private part is re-synchronised
         at these points; `inv_b` is evaluated on the result (the invariant on the real state).
         `G <page> dead` : the page has been freed.
     B <tid> <page>.<idx>
         thread <tid>'s program holds this live block (initially, or returned by the preceding malloc).
     P <tid> <text...>
         the program of thread <tid> (informative only; echoed in mismatch reports).
     A <tid> <call> <args...>
         thread <tid> starts an API call.  Calls: malloc | free <page>.<idx> | give <page>.<idx> <to tid> |
         collect <heap> <force 0|1> | delete <heap> | newheap <heap>, or a model operation written
         op <name> <numeric args...> (names as in Model/TFree.v: Fresh p h res n, Extend p n, Pop p,
         Collect p force, ToFull p, Partial h, DelayedAll h, PageFree p, HeapCollect h force, Never p).
     R <tid>
         the call of thread <tid> has returned: the model thread must be able to become idle without a further
         atomic step.
     S <tid> <kind> <loc> <id> <old flag> <old ids...> -> <new flag> <new ids...>
         one atomic access, in global (scheduler) order.
           kind = L (load) | C (successful CAS) | F (failed CAS, spurious or not) | W (store)
           loc  = tf   page->xthread_free, id = page; flag 0..3; ids = block indices of the list, head first
                | heap page->xheap, id = page; flag 0; ids = the heap id, or nothing for NULL
                | del  heap->thread_delayed_free, id = heap; flag 0; ids = blocks <page>.<idx>, head first
         Loads of page->xheap by the page's owner (mi_page_heap(page) in queue code) are not modelled: they are
         accepted when the value equals the model's and otherwise reported.
     Q
         a quiescent point: every thread is between API calls.
   Because the sub-steps of an API call that touch no shared location are not in the log, the replay keeps the
   SET of model states consistent with the log so far (bounded; idle owners may start any sub-operation of the
   current call whose first atomic access matches); it reports `MISMATCH` when the set becomes empty, i.e.
   when the model cannot perform the logged access with the same old and new abstract value.
   mi_heap_delete (`A <tid> delete <heap>`) and mi_heap_new (`A <tid> newheap <heap>`) are NOT decomposed: the model
   operation OpHeapDelete / OpHeapNew is started at the A line and every atomic access up to the R line must be a step
   of its frames (HD2 / HD3 incl. the xheap store and the _mi_page_use_delayed_free spin / the two drains / HD4); the
   order in which the pages are appended is a choice of the model (rotation transition, CAlt).
   The STAT line ends with a histogram `hist=<transition>:<count>,...` of the model transitions on accepted paths
   (transition = constructor of the stepping thread's top frame, `~alt` = taken with the choice CAlt, `spin` = inside
   _mi_page_use_delayed_free; `start:<Op>` = sub-operation started by an idle owner; `op:<Op>` = operation named by an
   A line), each counted once per log line on which some accepted path uses it. *)
open BinNums
open Util
open TFree
module L = Stdlib.List

(* ---------- small helpers ---------- *)
let n = n_of_int
let i = int_of_n
let rec nat_of_int k = if k <= 0 then Datatypes.O else Datatypes.S (nat_of_int (k - 1))
let sb (p, x) = Printf.sprintf "%d.%d" (i p) (i x)
let sbl l = "[" ^ String.concat " " (L.map sb (L.filteri (fun k _ -> k < 12) l)) ^ (if L.length l > 12 then " ..+" ^ string_of_int (L.length l - 12) else "") ^ "]"
let sflag f = string_of_int (i (flag_num f))
let sopt = function None -> "-" | Some h -> string_of_int (i h)

let sframe = function
  | RF1 b -> "RF1 " ^ sb b | RF2 (b, f, _) -> "RF2 " ^ sb b ^ " f" ^ sflag f | RF3 b -> "RF3 " ^ sb b
  | RF4 (b, h) -> Printf.sprintf "RF4 %s h%d" (sb b) (i h) | RF5 (b, h, _) -> Printf.sprintf "RF5 %s h%d" (sb b) (i h)
  | RF6 p -> Printf.sprintf "RF6 p%d" (i p) | RF7 (p, f, _) -> Printf.sprintf "RF7 p%d f%s" (i p) (sflag f)
  | TU1 (p, d, o, s, y) -> Printf.sprintf "TU1 p%d d%s o%b s%b y%d" (i p) (sflag d) o s (i y)
  | TU2 (p, d, o, s, y, f, _) -> Printf.sprintf "TU2 p%d d%s o%b s%b y%d f%s" (i p) (sflag d) o s (i y) (sflag f)
  | TC1 p -> Printf.sprintf "TC1 p%d" (i p) | TC2 (p, f, _) -> Printf.sprintf "TC2 p%d f%s" (i p) (sflag f)
  | TC3 (p, tl) -> Printf.sprintf "TC3 p%d %s" (i p) (sbl tl)
  | FC1 (p, f) -> Printf.sprintf "FC1 p%d %b" (i p) f | FC2 (p, f) -> Printf.sprintf "FC2 p%d %b" (i p) f
  | DP1 h -> Printf.sprintf "DP1 h%d" (i h) | DP2 (h, _) -> Printf.sprintf "DP2 h%d" (i h)
  | DP3 (h, pe, af) -> Printf.sprintf "DP3 h%d %s af%b" (i h) (sbl pe) af
  | DP4 (h, b, r, af) -> Printf.sprintf "DP4 h%d %s %s af%b" (i h) (sb b) (sbl r) af
  | DP5 (h, b, r, _) -> Printf.sprintf "DP5 h%d %s %s" (i h) (sb b) (sbl r)
  | DP6 (h, b, r, af) -> Printf.sprintf "DP6 h%d %s %s af%b" (i h) (sb b) (sbl r) af
  | DA h -> Printf.sprintf "DA h%d" (i h) | PF p -> Printf.sprintf "PF p%d" (i p)
  | HC2 (h, f) -> Printf.sprintf "HC2 h%d %b" (i h) f
  | HC3 (h, f, ps) -> Printf.sprintf "HC3 h%d %b [%s]" (i h) f (String.concat " " (L.map (fun p -> string_of_int (i p)) ps))
  | HC4 (h, f, p, _) -> Printf.sprintf "HC4 h%d %b p%d" (i h) f (i p)
  | HD2 (h, bk) -> Printf.sprintf "HD2 h%d bk%d" (i h) (i bk)
  | HD3 (h, bk, ps) -> Printf.sprintf "HD3 h%d bk%d [%s]" (i h) (i bk) (String.concat " " (L.map (fun p -> string_of_int (i p)) ps))
  | HD4 h -> Printf.sprintf "HD4 h%d" (i h)

let scfg (c : cfg) =
  let b = Buffer.create 256 in
  L.iter (fun (t, th) ->
    Buffer.add_string b (Printf.sprintf "  T%d ret=%b bk=%s held=%s stk=[%s]\n" (i t) th.th_ret (sopt th.th_backing)
      (sbl th.th_held) (String.concat "; " (L.map sframe th.th_stk)))) c.c_th;
  L.iter (fun (p, pg) ->
    Buffer.add_string b (Printf.sprintf "  P%d alive=%b tid=%d flag=%s tf=%s heap=%s free=%s lfree=%s used=%d cap=%d res=%d full=%b\n"
      (i p) pg.pg_alive (i pg.pg_tid) (sflag pg.pg_flag) (sbl pg.pg_tf) (sopt pg.pg_heap) (sbl pg.pg_free)
      (sbl pg.pg_lfree) (i pg.pg_used) (i pg.pg_cap) (i pg.pg_res) pg.pg_full)) c.c_pg;
  L.iter (fun (h, hp) ->
    Buffer.add_string b (Printf.sprintf "  H%d st=%s owner=%d backing=%b del=%s\n" (i h)
      (match hp.hp_st with HVirgin -> "virgin" | HAlive -> "alive" | HDead -> "dead") (i hp.hp_owner) hp.hp_backing
      (sbl hp.hp_del))) c.c_hp;
  Buffer.contents b

let sop = function
  | OpHeapNew h -> Printf.sprintf "HeapNew h%d" (i h)
  | OpFresh (p, h, r, k) -> Printf.sprintf "Fresh p%d h%d res%d n%d" (i p) (i h) (i r) (i k)
  | OpExtend (p, k) -> Printf.sprintf "Extend p%d %d" (i p) (i k)
  | OpPop p -> Printf.sprintf "Pop p%d" (i p)
  | OpFree (b, k) -> Printf.sprintf "Free %s keep%b" (sb b) k
  | OpGive (b, t) -> Printf.sprintf "Give %s T%d" (sb b) (i t)
  | OpCollect (p, f) -> Printf.sprintf "Collect p%d %b" (i p) f
  | OpToFull p -> Printf.sprintf "ToFull p%d" (i p)
  | OpPartial h -> Printf.sprintf "Partial h%d" (i h)
  | OpDelayedAll h -> Printf.sprintf "DelayedAll h%d" (i h)
  | OpPageFree p -> Printf.sprintf "PageFree p%d" (i p)
  | OpHeapCollect (h, f) -> Printf.sprintf "HeapCollect h%d %b" (i h) f
  | OpHeapDelete h -> Printf.sprintf "HeapDelete h%d" (i h)
  | OpNever p -> Printf.sprintf "Never p%d" (i p)
let schoice = function CGo -> "go" | CAlt -> "alt" | COp o -> sop o

(* ---------- PRNG (splitmix64) ---------- *)
let rng = ref 0L
let next64 () =
  rng := Int64.add !rng 0x9E3779B97F4A7C15L;
  let z = !rng in
  let z = Int64.mul (Int64.logxor z (Int64.shift_right_logical z 30)) 0xBF58476D1CE4E5B9L in
  let z = Int64.mul (Int64.logxor z (Int64.shift_right_logical z 27)) 0x94D049BB133111EBL in
  Int64.logxor z (Int64.shift_right_logical z 31)
let rnd k = if k <= 0 then 0 else Int64.to_int (Int64.unsigned_rem (next64 ()) (Int64.of_int k))
let pick l = L.nth l (rnd (L.length l))
let chance pct = rnd 100 < pct

(* ---------- statistics ---------- *)
type stats = {
  mutable programs : int; mutable steps : int; mutable atomic : int; mutable spurious : int;
  mutable saw_freeing : int; mutable saw_nod : int; mutable saw_never : int; mutable first_into_full : int;
  mutable repush : int; mutable giveup : int; mutable pagefree : int; mutable heapdel : int;
  mutable quiescent_checks : int; mutable cas_fail_real : int; mutable handouts : int; mutable remote_frees : int;
  mutable stale_heap_push : int }
let st = { programs = 0; steps = 0; atomic = 0; spurious = 0; saw_freeing = 0; saw_nod = 0; saw_never = 0;
           first_into_full = 0; repush = 0; giveup = 0; pagefree = 0; heapdel = 0; quiescent_checks = 0;
           cas_fail_real = 0; handouts = 0; remote_frees = 0; stale_heap_push = 0 }

(* ---------- one random program ---------- *)
exception Fail of string

let enabled c t o = match cstep c t (COp o) with RNone -> false | _ -> true

(* candidate operations of an idle thread in configuration c *)
let candidates (c : cfg) (t : coq_N) (nthreads : int) (npages : int) (nheaps : int) : op list =
  let th = gett c t in
  let acc = ref [] in
  let add w o = if enabled c t o then for _ = 1 to w do acc := o :: !acc done in
  L.iter (fun b ->
    add 6 (OpFree (b, chance 30));
    add 2 (OpGive (b, n (rnd nthreads)))) th.th_held;
  for p = 0 to npages - 1 do
    let p = n p in
    add 8 (OpPop p);
    add 2 (OpCollect (p, false)); add 1 (OpCollect (p, true));
    add 1 (OpToFull p); add 1 (OpPageFree p); add 1 (OpExtend (p, n (1 + rnd 2)));
    if chance 3 then add 1 (OpNever p);
    for h = 0 to nheaps - 1 do
      let res = 2 + rnd 3 in
      add 1 (OpFresh (p, n h, n res, n (1 + rnd res)))
    done
  done;
  for h = 0 to nheaps - 1 do
    let h = n h in
    add 2 (OpPartial h); add 1 (OpDelayedAll h);
    add 1 (OpHeapCollect (h, false)); add 1 (OpHeapCollect (h, true));
    if chance 15 then add 1 (OpHeapDelete h);
    if chance 30 then add 1 (OpHeapNew h)
  done;
  !acc

let observe (c : cfg) (c' : cfg) (t : coq_N) (ch : choice) (ev : event option) =
  st.steps <- st.steps + 1;
  (match ev with
   | Some e ->
     st.atomic <- st.atomic + 1;
     (match e.ev_kind, ch with
      | EvCasFail, CAlt -> st.spurious <- st.spurious + 1
      | EvCasFail, _ -> st.cas_fail_real <- st.cas_fail_real + 1
      | _ -> ());
     (match e.ev_new, e.ev_old with
      | AvTF (Freeing, _), AvTF (UseD, _) ->
        st.saw_freeing <- st.saw_freeing + 1;
        (match e.ev_loc with LTF p -> if (getp c p).pg_full then st.first_into_full <- st.first_into_full + 1 | _ -> ())
      | AvTF (NoD, _), AvTF (Freeing, _) -> st.saw_nod <- st.saw_nod + 1
      | AvTF (NeverD, _), AvTF (f, _) when f <> NeverD -> st.saw_never <- st.saw_never + 1
      | AvHeap None, AvHeap (Some _) -> st.pagefree <- st.pagefree + 1
      | _ -> ())
   | None -> ());
  (match (gett c t).th_stk, (gett c' t).th_stk with
   | DP5 _ :: _, DP3 _ :: _ -> st.repush <- st.repush + 1
   | TU1 (_, _, _, false, _) :: _, DP4 _ :: _ when not (gett c' t).th_ret -> st.giveup <- st.giveup + 1
   | [HD4 _], [] -> st.heapdel <- st.heapdel + 1
   | RF5 (b, h, _) :: _, RF6 _ :: _ ->
     if (getp c (fst b)).pg_heap <> Some h then st.stale_heap_push <- st.stale_heap_push + 1
   | _ -> ());
  (match ch with
   | COp (OpPop _) -> st.handouts <- st.handouts + 1
   | COp (OpFree (b, _)) -> if (getp c (fst b)).pg_tid <> t then st.remote_frees <- st.remote_frees + 1
   | _ -> ())

let do_step (c : cfg) (t : coq_N) (ch : choice) (trace : (coq_N * choice) list ref) : cfg option =
  match cstep c t ch with
  | RNone -> None
  | RErr e ->
    trace := (t, ch) :: !trace;
    raise (Fail (Printf.sprintf "model reached Err %d by T%d %s" (i e) (i t) (schoice ch)))
  | ROk (c', ev) ->
    trace := (t, ch) :: !trace;
    (* C02: no step writes into a block held by a program (for mi_free: held after the call started) *)
    let w = step_writes c t ch in
    L.iter (fun (_, th) -> L.iter (fun b -> if mem_bid b th.th_held then
                raise (Fail (Printf.sprintf "step T%d %s writes live block %s" (i t) (schoice ch) (sb b)))) w) c'.c_th;
    observe c c' t ch ev;
    if not (inv_b c') then
      raise (Fail (Printf.sprintf "inv_b part %d fails after T%d %s\nbefore:\n%safter:\n%s" (i (inv_fail c')) (i t) (schoice ch)
                     (scfg c) (scfg c')));
    Some c'

let run_program (seed : int64) (maxsteps : int) =
  rng := seed;
  let trace = ref [] in
  let nowners = 1 + rnd 2 in
  let nremote = 2 + rnd 3 in
  let nthreads = nowners + nremote in
  let npages = 1 + rnd 3 in
  let nheaps = 2 + rnd 2 in
  let c = ref (match init with Ok c -> c | Err _ -> assert false) in
  let step t ch = match do_step !c t ch trace with Some c' -> c := c'; true | None -> false in
  (* set-up by the owners: backing heaps first *)
  for o = 0 to nowners - 1 do ignore (step (n o) (COp (OpHeapNew (n o)))) done;
  for h = nowners to nheaps - 1 do ignore (step (n (rnd nowners)) (COp (OpHeapNew (n h)))) done;
  for p = 0 to npages - 1 do
    let h = rnd nheaps in
    let owner = (geth !c (n h)).hp_owner in
    let res = 2 + rnd 3 in
    ignore (step owner (COp (OpFresh (n p, n h, n res, n (1 + rnd res)))))
  done;
  let spur = 5 + rnd 30 in
  (* scheduling weights; in `stall` programs a thread inside the DELAYED_FREEING window is rarely scheduled,
     which produces the give-up / re-push paths and the spin of mi_heap_delete *)
  let weight = Array.init nthreads (fun _ -> 1 + rnd 8) in
  let stall = chance 50 in
  let in_window t = match (gett !c (n t)).th_stk with
    | (RF3 _ | RF4 _ | RF5 _ | RF6 _ | RF7 _) :: _ -> true | _ -> false in
  let pick_thread () =
    let w t = if stall && in_window t then 1 else 8 * weight.(t) in
    let total = ref 0 in
    for t = 0 to nthreads - 1 do total := !total + w t done;
    let r = ref (rnd !total) and res = ref 0 in
    (try for t = 0 to nthreads - 1 do
        if !r < w t then (res := t; raise Exit) else r := !r - w t done with Exit -> ());
    !res in
  let k = ref 0 in
  while !k < maxsteps do
    incr k;
    let t = n (pick_thread ()) in
    let th = gett !c t in
    if th.th_stk = [] then begin
      let cands = candidates !c t nthreads npages nheaps in
      if cands <> [] then ignore (step t (COp (pick cands)))
    end else
      ignore (step t (if chance spur then CAlt else CGo))
  done;
  (* drain: run every thread to idle (no spurious failures), round robin *)
  let guard = ref 0 in
  while not (quiescent !c) && !guard < 100000 do
    incr guard;
    L.iter (fun (t, th) -> if th.th_stk <> [] then ignore (step t CGo)) !c.c_th
  done;
  if not (quiescent !c) then raise (Fail "threads do not become idle");
  (* C08 at quiescence: forced collect of every live heap by its owner, nobody else moves *)
  L.iter (fun (h, hp) ->
    if hp_alive hp then begin
      let c0 = !c in
      let t = hp.hp_owner in
      if not (step t (COp (OpHeapCollect (h, true)))) then raise (Fail "collect not enabled");
      let g = ref 0 in
      while (gett !c t).th_stk <> [] && !g < 100000 do incr g; ignore (step t CGo) done;
      if (gett !c t).th_stk <> [] then raise (Fail "solo collect does not terminate");
      st.quiescent_checks <- st.quiescent_checks + 1;
      if not (collected_b c0 !c h) then
        raise (Fail (Printf.sprintf "quiescent collect of h%d incomplete\nbefore:\n%safter:\n%s" (i h) (scfg c0) (scfg !c)));
      (* the Coq function `solo` must agree with the stepwise run *)
      (match cstep c0 t (COp (OpHeapCollect (h, true))) with
       | ROk (c1, _) ->
         (match solo (nat_of_int 100000) c1 t with
          | Some c2 -> if c2 <> !c then raise (Fail "solo <> stepwise run")
          | None -> raise (Fail "solo: out of fuel"))
       | _ -> ())
    end) !c.c_hp;
  ignore trace

let sim records mismatches =
  (try
    while true do
      let line = input_line stdin in
      match split_ws line with
      | seed :: cnt :: rest ->
        let seed = Int64.of_string seed and cnt = int_of_string cnt in
        let maxsteps = match rest with m :: _ -> int_of_string m | [] -> 400 in
        for k = 0 to cnt - 1 do
          incr records;
          st.programs <- st.programs + 1;
          let s = Int64.add (Int64.mul seed 1000003L) (Int64.of_int k) in
          (try run_program s maxsteps
           with Fail msg ->
             incr mismatches;
             if !mismatches <= 10 then Printf.printf "MISMATCH tfree-sim seed=%Ld program=%d: %s\n" seed k msg)
        done;
        Printf.printf "STAT tfree-sim(model-side test) programs=%d steps=%d atomic=%d spurious_cas_fail=%d real_cas_fail=%d freeing=%d no_delayed=%d never=%d first_remote_free_into_full_page=%d repush=%d tryuse_giveup=%d page_free=%d heap_delete=%d stale_heap_push=%d handouts=%d remote_frees=%d quiescent_checks=%d\n"
          st.programs st.steps st.atomic st.spurious st.cas_fail_real st.saw_freeing st.saw_nod st.saw_never
          st.first_into_full st.repush st.giveup st.pagefree st.heapdel st.stale_heap_push st.handouts st.remote_frees
          st.quiescent_checks
      | _ -> ()
    done
  with End_of_file -> ())

let () = Modes.register "tfree-sim" sim

(* ================================================================================================ *)
(* log output (used by tfree-genlog: the model writes a log in the lockstep format; self-test of the  *)
(* replay and a reference for the real-code scheduler)                                               *)
(* ================================================================================================ *)
let sids l = String.concat " " (L.map (fun (_, x) -> string_of_int (i x)) l)
let sbids l = String.concat " " (L.map sb l)
let s_aval = function
  | AvTF (f, l) -> sflag f ^ (if l = [] then "" else " " ^ sids l)
  | AvHeap None -> "0"
  | AvHeap (Some h) -> "0 " ^ string_of_int (i h)
  | AvDel l -> "0" ^ (if l = [] then "" else " " ^ sbids l)
let s_event (t : coq_N) (e : event) =
  let k = match e.ev_kind with EvLoad -> "L" | EvCasOk -> "C" | EvCasFail -> "F" | EvStore -> "W" in
  let (loc, id) = match e.ev_loc with LTF p -> ("tf", p) | LHeap p -> ("heap", p) | LDel h -> ("del", h) in
  Printf.sprintf "S %d %s %s %d %s -> %s" (i t) k loc (i id) (s_aval e.ev_old) (s_aval e.ev_new)
let s_page (p : coq_N) (pg : page) =
  if not pg.pg_alive then Printf.sprintf "G %d dead" (i p) else
  Printf.sprintf "G %d %s %d %d %d %d %d %s : %s : %s : %s" (i p) (sopt pg.pg_heap) (i pg.pg_tid) (i pg.pg_res) (i pg.pg_cap)
    (i pg.pg_used) (if pg.pg_full then 1 else 0) (sflag pg.pg_flag) (sids pg.pg_free) (sids pg.pg_lfree) (sids pg.pg_tf)
let s_op = function
  | OpHeapNew h -> Printf.sprintf "newheap %d" (i h)
  | OpFree (b, _) -> "free " ^ sb b
  | OpGive (b, t) -> Printf.sprintf "give %s %d" (sb b) (i t)
  | OpFresh (p, h, r, k) -> Printf.sprintf "op Fresh %d %d %d %d" (i p) (i h) (i r) (i k)
  | OpExtend (p, k) -> Printf.sprintf "op Extend %d %d" (i p) (i k)
  | OpPop p -> Printf.sprintf "op Pop %d" (i p)
  | OpCollect (p, f) -> Printf.sprintf "op Collect %d %d" (i p) (if f then 1 else 0)
  | OpToFull p -> Printf.sprintf "op ToFull %d" (i p)
  | OpPartial h -> Printf.sprintf "op Partial %d" (i h)
  | OpDelayedAll h -> Printf.sprintf "op DelayedAll %d" (i h)
  | OpPageFree p -> Printf.sprintf "op PageFree %d" (i p)
  | OpHeapCollect (h, f) -> Printf.sprintf "op HeapCollect %d %d" (i h) (if f then 1 else 0)
  | OpHeapDelete h -> Printf.sprintf "delete %d" (i h)
  | OpNever p -> Printf.sprintf "op Never %d" (i p)

let genlog records mismatches =
  (try
    while true do
      let line = input_line stdin in
      match split_ws line with
      | seed :: rest ->
        incr records;
        let seed = Int64.of_string seed in
        let maxsteps = match rest with m :: _ -> int_of_string m | [] -> 300 in
        rng := seed;
        let nowners = 1 + rnd 2 in
        let nthreads = nowners + 2 + rnd 3 in
        let npages = 1 + rnd 3 and nheaps = 2 + rnd 2 in
        let c = ref (match init with Ok c -> c | Err _ -> assert false) in
        let busy = Hashtbl.create 8 in
        let step t ch =
          (match ch with COp o when (gett !c t).th_stk = [] -> (match cstep !c t ch with RNone -> () | _ -> Printf.printf "A %d %s\n" (i t) (s_op o)) | _ -> ());
          match cstep !c t ch with
          | RNone -> false
          | RErr e -> Printf.printf "# model error %d\n" (i e); false
          | ROk (c', ev) ->
            (match ev with Some e -> print_endline (s_event t e) | None -> ());
            (match ch with COp (OpHeapNew h) -> let hp = geth c' h in Printf.printf "H %d %d %d\n" (i h) (i hp.hp_owner) (if hp.hp_backing then 1 else 0) | _ -> ());
            (match ch with COp _ -> Hashtbl.replace busy t () | _ -> ());
            c := c';
            if (gett c' t).th_stk = [] && Hashtbl.mem busy t then begin
              Hashtbl.remove busy t;
              (* the call returned: snapshot the pages this thread owns *)
              Printf.printf "R %d\n" (i t);
              L.iter (fun (p, pg) -> if pg.pg_tid = t || not pg.pg_alive then print_endline (s_page p pg)) c'.c_pg
            end;
            true in
        for o = 0 to nowners - 1 do ignore (step (n o) (COp (OpHeapNew (n o)))) done;
        for h = nowners to nheaps - 1 do ignore (step (n (rnd nowners)) (COp (OpHeapNew (n h)))) done;
        for p = 0 to npages - 1 do
          let h = rnd nheaps in
          let owner = (geth !c (n h)).hp_owner in
          let res = 2 + rnd 3 in
          ignore (step owner (COp (OpFresh (n p, n h, n res, n (1 + rnd res)))))
        done;
        let spur = 5 + rnd 30 in
        for _ = 1 to maxsteps do
          let t = n (rnd nthreads) in
          if (gett !c t).th_stk = [] then begin
            let cands = candidates !c t nthreads npages nheaps in
            if cands <> [] then begin
              let o = pick cands in
              (match o with
               | OpPop p -> (* malloc: the log tells the block *)
                 let before = (gett !c t).th_held in
                 if step t (COp o) then
                   (match (gett !c t).th_held with b :: r when r = before -> Printf.printf "B %d %s\n" (i t) (sb b) | _ -> ())
               | OpGive (b, t') -> if step t (COp o) then ()
               | _ -> ignore (step t (COp o)))
            end
          end else ignore (step t (if chance spur then CAlt else CGo))
        done;
        let guard = ref 0 in
        while not (quiescent !c) && !guard < 100000 do
          incr guard; L.iter (fun (t, th) -> if th.th_stk <> [] then ignore (step t CGo)) !c.c_th
        done;
        print_endline "Q"
      | _ -> ()
    done
  with End_of_file -> ())

let () = Modes.register "tfree-genlog" genlog

(* ================================================================================================ *)
(* tfree-lockstep                                                                                    *)
(* ================================================================================================ *)
type lval = { lflag : int; lids : string list }
type lstep = { ltid : coq_N; lkind : string; lloc : string; lid : coq_N; lold : lval; lnew : lval }

let parse_block (s : string) : bid =
  match String.split_on_char '.' s with
  | [p; x] -> (n (int_of_string p), n (int_of_string x))
  | _ -> failwith ("bad block " ^ s)
let parse_val = function
  | f :: ids -> { lflag = int_of_string f; lids = ids }
  | [] -> failwith "missing value"
let rec split_at tok acc = function
  | x :: r when x = tok -> (L.rev acc, r)
  | x :: r -> split_at tok (x :: acc) r
  | [] -> (L.rev acc, [])

let aval_matches (loc : string) (id : coq_N) (v : aval) (l : lval) : bool =
  match v, loc with
  | AvTF (f, bl), "tf" -> i (flag_num f) = l.lflag && L.map (fun (_, x) -> string_of_int (i x)) bl = l.lids
                          && L.for_all (fun (p, _) -> p = id) bl
  | AvHeap None, "heap" -> l.lids = []
  | AvHeap (Some h), "heap" -> l.lids = [string_of_int (i h)]
  | AvDel bl, "del" -> L.map sb bl = l.lids
  | _, _ -> false
let event_matches (e : event) (st : lstep) : bool =
  let k = match e.ev_kind with EvLoad -> "L" | EvCasOk -> "C" | EvCasFail -> "F" | EvStore -> "W" in
  let (loc, id) = match e.ev_loc with LTF p -> ("tf", p) | LHeap p -> ("heap", p) | LDel h -> ("del", h) in
  k = st.lkind && loc = st.lloc && id = st.lid && aval_matches loc id e.ev_old st.lold && aval_matches loc id e.ev_new st.lnew

let max_cands = 2048
let dedupe (l : cfg list) : cfg list =
  let l = L.sort_uniq compare l in
  if L.length l > max_cands then L.filteri (fun k _ -> k < max_cands) l else l

let fname = function
  | RF1 _ -> "RF1" | RF2 _ -> "RF2" | RF3 _ -> "RF3" | RF4 _ -> "RF4" | RF5 _ -> "RF5" | RF6 _ -> "RF6" | RF7 _ -> "RF7"
  | TU1 (_, _, _, sp, _) -> if sp then "TU1spin" else "TU1" | TU2 (_, _, _, sp, _, _, _) -> if sp then "TU2spin" else "TU2"
  | TC1 _ -> "TC1" | TC2 _ -> "TC2" | TC3 _ -> "TC3" | FC1 _ -> "FC1" | FC2 _ -> "FC2"
  | DP1 _ -> "DP1" | DP2 _ -> "DP2" | DP3 _ -> "DP3" | DP4 _ -> "DP4" | DP5 _ -> "DP5" | DP6 _ -> "DP6" | DA _ -> "DA" | PF _ -> "PF"
  | HC2 _ -> "HC2" | HC3 _ -> "HC3" | HC4 _ -> "HC4" | HD2 _ -> "HD2" | HD3 _ -> "HD3" | HD4 _ -> "HD4"
let opname = function
  | OpHeapNew _ -> "HeapNew" | OpFresh _ -> "Fresh" | OpExtend _ -> "Extend" | OpPop _ -> "Pop" | OpFree _ -> "Free" | OpGive _ -> "Give"
  | OpCollect _ -> "Collect" | OpToFull _ -> "ToFull" | OpPartial _ -> "Partial" | OpDelayedAll _ -> "DelayedAll" | OpPageFree _ -> "PageFree"
  | OpHeapCollect _ -> "HeapCollect" | OpHeapDelete _ -> "HeapDelete" | OpNever _ -> "Never"
let step_name (c : cfg) (t : coq_N) (ch : choice) : string =
  match (gett c t).th_stk with
  | f :: _ -> fname f ^ (if ch = CAlt && cstep c t CGo <> cstep c t CAlt then "~alt" else "")
  | [] -> "idle"

(* all states thread t can reach by tau steps only (including the starting state), bounded; with the names of the
   transitions on one path to each *)
let tau_closure_p (c : cfg) (t : coq_N) : (cfg * string list) list =
  let seen = ref [] in
  let rec go c path depth =
    if depth > 64 || L.mem_assoc c !seen then () else begin
      seen := (c, path) :: !seen;
      if (gett c t).th_stk <> [] then
        L.iter (fun ch -> match cstep c t ch with ROk (c', None) -> go c' (step_name c t ch :: path) (depth + 1) | _ -> ()) [CGo; CAlt]
    end in
  go c [] 0; !seen
let tau_closure (c : cfg) (t : coq_N) : cfg list = L.map fst (tau_closure_p c t)

(* the operations an idle thread may start so that its first atomic access is at location (loc, id) *)
let start_candidates (c : cfg) (t : coq_N) (call : string list) (st : lstep) : op list =
  let ops = ref [] in
  let add o = ops := o :: !ops in
  (match st.lloc with
   | "tf" ->
     let p = st.lid in
     (* mi_page_to_full = in_full := true (owner-private, re-synchronised by the next G line) + OpCollect p false;
        OpNever only occurs on thread exit / heap destroy, which are outside the replayed programs *)
     add (OpCollect (p, false)); add (OpCollect (p, true))
   | "del" ->
     let h = st.lid in
     (* (mi_heap_delete is never a sub-operation: it is started by its A line) *)
     add (OpPartial h); add (OpDelayedAll h); add (OpHeapCollect (h, false)); add (OpHeapCollect (h, true))
   | "heap" ->
     let p = st.lid in
     add (OpPageFree p);
     (match st.lnew.lids with
      | [h] -> (* a fresh page: its private part is taken from the next G line *) add (OpFresh (p, n (int_of_string h), n 65535, n 1))
      | _ -> ())
   | _ -> ());
  (match call with
   | ["op"; "Fresh"; p; h; r; k] -> add (OpFresh (n (int_of_string p), n (int_of_string h), n (int_of_string r), n (int_of_string k)))
   | _ -> ());
  !ops

let lockstep records mismatches =
  let cands : cfg list ref = ref [ (match init with Ok c -> c | Err _ -> assert false) ] in
  let calls : (coq_N, string list) Hashtbl.t = Hashtbl.create 8 in
  let lineno = ref 0 and steps = ref 0 and reported = ref 0 and inv_checked = ref 0 in
  let maxset = ref 1 in
  let progs = Buffer.create 256 in
  let hist : (string, int) Hashtbl.t = Hashtbl.create 64 in
  let line_names : (string, unit) Hashtbl.t = Hashtbl.create 16 in
  let note names = L.iter (fun nm -> Hashtbl.replace line_names nm ()) names in
  let commit_names ok =
    if ok then Hashtbl.iter (fun nm () -> Hashtbl.replace hist nm (1 + (try Hashtbl.find hist nm with Not_found -> 0))) line_names;
    Hashtbl.reset line_names in
  let fail msg =
    incr mismatches; incr reported;
    if !reported <= 10 then begin
      Printf.printf "MISMATCH tfree-lockstep line %d: %s\n" !lineno msg;
      (match !cands with c :: _ when !reported <= 2 -> Printf.printf "  one model state before the line:\n%s" (scfg c) | _ -> ())
    end in
  let update f what =
    let next = dedupe (L.concat_map f !cands) in
    commit_names (next <> []);
    if next = [] then fail what else begin cands := next; if L.length next > !maxset then maxset := L.length next end in
  let check_inv () =
    incr inv_checked;
    let good = L.filter inv_b !cands in
    if good = [] then (match !cands with c :: _ -> fail (Printf.sprintf "inv_b part %d fails in every candidate state" (i (inv_fail c))) | [] -> ())
    else cands := good in
  let apply_op (c : cfg) (t : coq_N) (o : op) : cfg list =
    match cstep c t (COp o) with ROk (c', _) -> note ["op:" ^ opname o]; [c'] | _ -> [] in
  (* a hand-off is a ghost move between the programs: it does not depend on what the allocator is doing *)
  let give (c : cfg) (t : coq_N) (b : bid) (t' : coq_N) : cfg list =
    let th = gett c t in
    if not (mem_bid b th.th_held) then [] else
    let c1 = sett c t { th with th_held = remove_bid b th.th_held } in
    let th' = gett c1 t' in
    [sett c1 t' { th' with th_held = b :: th'.th_held }] in
  let dirty = ref false in
  (try
    while true do
      let line = input_line stdin in
      incr lineno;
      (match split_ws line with
       | ("G" | "B" | "H" | "P") :: _ -> ()
       | _ -> if !dirty then begin dirty := false; check_inv () end);
      match split_ws line with
      | [] -> ()
      | w :: _ when String.length w > 0 && w.[0] = '#' -> ()
      | "P" :: _ -> Buffer.add_string progs (line ^ "\n")
      | ["H"; h; owner; backing] ->
        incr records;
        let h = n (int_of_string h) and owner = n (int_of_string owner) and backing = backing = "1" in
        update (fun c ->
          let hp = geth c h in
          if hp_alive hp then (if hp.hp_owner = owner && hp.hp_backing = backing then [c] else [])
          else
            let c1 = seth c h { hp_st = HAlive; hp_owner = owner; hp_backing = backing; hp_del = [] } in
            let th = gett c1 owner in
            [ if backing then sett c1 owner { th with th_backing = Some h } else c1 ]) "heap declaration inconsistent with the model"
      | "G" :: p :: "dead" :: _ ->
        incr records;
        let p = n (int_of_string p) in
        update (fun c -> if (getp c p).pg_alive then [] else [c]) "page is freed in the implementation but alive in the model"
      | "G" :: p :: heap :: owner :: res :: cap :: used :: full :: flag :: ":" :: rest ->
        incr records;
        let p = n (int_of_string p) in
        let (fr, rest) = split_at ":" [] rest in
        let (lf, tf) = split_at ":" [] rest in
        let blk x = (p, n (int_of_string x)) in
        let heap = if heap = "-" then None else Some (n (int_of_string heap)) in
        let fl = match int_of_string flag with 0 -> UseD | 1 -> Freeing | 2 -> NoD | _ -> NeverD in
        let snap = { pg_alive = true; pg_tid = n (int_of_string owner); pg_flag = fl; pg_tf = L.map blk tf; pg_heap = heap;
                     pg_free = L.map blk fr; pg_lfree = L.map blk lf; pg_used = n (int_of_string used);
                     pg_cap = n (int_of_string cap); pg_res = n (int_of_string res); pg_full = (full = "1") } in
        update (fun c ->
          let pg = getp c p in
          if not pg.pg_alive then [setp c p snap]
          else if pg.pg_flag = snap.pg_flag && pg.pg_tf = snap.pg_tf && pg.pg_heap = snap.pg_heap && pg.pg_tid = snap.pg_tid
          then [setp c p snap] else []) "page snapshot: the shared part (flag / thread-free list / heap) differs from the model";
        dirty := true
      | ["B"; t; b] ->
        incr records;
        let t = n (int_of_string t) and b = parse_block b in
        update (fun c -> let th = gett c t in
                 if mem_bid b th.th_held then [c] else [sett c t { th with th_held = b :: th.th_held }]) "B"
      | "A" :: t :: call ->
        incr records;
        let t = n (int_of_string t) in
        Hashtbl.replace calls t call;
        (match call with
         | ["free"; b] ->
           let b = parse_block b in
           update (fun c -> apply_op c t (OpFree (b, false)) @ apply_op c t (OpFree (b, true))) "free of a block the model thread does not hold / thread not idle"
         | ["give"; b; t'] ->
           update (fun c -> give c t (parse_block b) (n (int_of_string t'))) "give: the giving thread does not hold the block"
         | ["newheap"; h] -> update (fun c -> apply_op c t (OpHeapNew (n (int_of_string h)))) "newheap"
         | ["delete"; h] -> update (fun c -> apply_op c t (OpHeapDelete (n (int_of_string h)))) "delete: not enabled in the model"
         | ["op"; "Pop"; p] -> update (fun c -> apply_op c t (OpPop (n (int_of_string p)))) "Pop"
         | ["op"; "Extend"; p; k] -> update (fun c -> apply_op c t (OpExtend (n (int_of_string p), n (int_of_string k)))) "Extend"
         | _ -> ())
      | ["R"; t] ->
        incr records;
        let t = n (int_of_string t) in
        Hashtbl.remove calls t;
        update (fun c -> L.filter_map (fun (c', path) -> if (gett c' t).th_stk = [] then (note path; Some c') else None) (tau_closure_p c t))
          "the call returned but the model thread still has atomic steps to perform";
        check_inv ()
      | ["Q"] ->
        incr records;
        update (fun c -> if quiescent c then [c] else []) "quiescent point: a model thread is not idle"
      | "S" :: t :: kind :: loc :: id :: rest ->
        incr records; incr steps;
        let (o, nw) = split_at "->" [] rest in
        let st = { ltid = n (int_of_string t); lkind = kind; lloc = loc; lid = n (int_of_string id); lold = parse_val o; lnew = parse_val nw } in
        let t = st.ltid in
        let call = try Hashtbl.find calls t with Not_found -> [] in
        let step_from (pre : string list) (c : cfg) : cfg list =
          (* the atomic steps available after tau steps *)
          L.concat_map (fun (c1, path) ->
            if (gett c1 t).th_stk = [] then []
            else L.concat_map (fun ch -> match cstep c1 t ch with
                | ROk (c2, Some e) when event_matches e st -> note (step_name c1 t ch :: path); note pre; [c2]
                | _ -> []) [CGo; CAlt]) (tau_closure_p c t) in
        update (fun c ->
          let direct = step_from [] c in
          let started =
            L.concat_map (fun (c1, path) ->
              if (gett c1 t).th_stk <> [] then []
              else L.concat_map (fun o -> match cstep c1 t (COp o) with
                  | ROk (c2, Some e) when event_matches e st -> note (("start:" ^ opname o) :: path); [c2]   (* the start itself is the access (Fresh) *)
                  | ROk (c2, None) -> step_from (("start:" ^ opname o) :: path) c2
                  | _ -> []) (start_candidates c1 t call st)) (tau_closure_p c t) in
          (* owner loads of xheap are not modelled *)
          let skipped =
            if st.lkind = "L" && st.lloc = "heap" && (getp c st.lid).pg_tid = t
               && aval_matches "heap" st.lid (AvHeap (getp c st.lid).pg_heap) st.lold then [c] else [] in
          direct @ started @ skipped)
          (Printf.sprintf "the model cannot perform: %s" line);
        if !steps mod 1 = 0 then check_inv ()
      | _ -> ()
    done
  with End_of_file -> ());
  if !dirty then check_inv ();
  let hl = L.sort compare (Hashtbl.fold (fun k v acc -> (k, v) :: acc) hist []) in
  Printf.printf "STAT tfree-lockstep lines=%d atomic_steps=%d inv_b_checks=%d max_state_set=%d final_state_set=%d hist=%s\n"
    !lineno !steps !inv_checked !maxset (L.length !cands) (String.concat "," (L.map (fun (k, v) -> Printf.sprintf "%s:%d" k v) hl))

let () = Modes.register "tfree-lockstep" lockstep
