(* mode "zero": replay of harness/f_zero.c against the Coq zero-knowledge model (coq/Model/Zero.v, variant Pinned).
   The records of one op are grouped ("O ..." up to "E").  What is compared:
   mode R  every _mi_arena_alloc_aligned / write / _mi_arena_free is one `Zero.step` (ORawAlloc with the claimed block
           index as the search's answer, ORawWrite, ORawFree): memid.initially_zero / initially_committed of the result,
           blocks_inuse and blocks_dirty after every op; the model's ghost of returned memory may say zero only if the
           real memory is zero (T ghost).  blocks_committed is compared after allocations and re-read from the dump
           after every op (the purge schedule is Model/Purge.v's subject; no flag depends on it).  After a purge, every free
           block that really reads as zero is an OArenaPurge with pz = true (the ghost becomes zero, blocks_dirty stays).
   mode P  the page of the `I` record becomes the model state (flags, lists, ghost := the real contents); every
           _mi_page_malloc_zero / store / mi_free / _mi_page_free_collect / mi_page_extend_free is one `Zero.step`; the
           returned block index, capacity, used, free, local_free, free_is_zero, is_zero_init must agree exactly after every
           op; the model ghost may say zero only where the real block is; page_know_b must hold on the initial state.
   mode A  the public API: the layer events are inferred from consecutive dumps (segments / pages that appear or
           disappear; a segment or page whose identity data changed, or whose flags differ from the model's, is
           tried as freed + allocated again within the call) and run through `Zero.step` (OSegAlloc, OSegFree,
           OPageAlloc, OPageFree; the frees inside a page are not replayed: `used` is cleared before OPageFree);
           memid.initially_zero of every segment, is_zero_init of every page (equal), free_is_zero (real => model:
           C04_flags_only_cleared), blocks_inuse and blocks_dirty of every arena after every call.
   Prints MISMATCH lines, a STATS line and (by replay.ml) DONE. *)
open BinNums
open Util
module L = Stdlib.List

let v = Zero.Pinned
let n = n_of_int
let b01 s = (s = "1")

let bits_of_string (s : string) : Zero.bits =
  fun i -> (match i with N0 -> 0 < String.length s && s.[0] = '1'
                       | _ -> let k = int_of_n i in k < String.length s && s.[k] = '1')
let string_of_bits (f : Zero.bits) (len : int) : string = String.init len (fun i -> if f (n i) then '1' else '0')

let set_committed (a : Zero.arena) (f : Zero.bits) : Zero.arena = { a with Zero.ar_committed = f }

let () = Modes.register "zero" (fun records mismatches ->
  let mism fmt = Printf.ksprintf (fun s -> incr mismatches; if !mismatches <= 40 then print_endline ("MISMATCH " ^ s)) fmt in
  let st = ref Zero.init in
  let mode = ref "?" in
  let steps = ref 0 and flagchecks = ref 0 and ghostchecks = ref 0 and ghostzero = ref 0 and segallocs = ref 0 and pageallocs = ref 0
  and recreated = ref 0 and segzero = ref 0 and pagesflagged = ref 0 and knowb = ref 0 and purged = ref 0 in
  let step_ what (o : Zero.op) : Zero.out option =
    incr steps;
    match Zero.step v !st o with
    | Some (st', r) -> st := st'; Some r
    | None -> mism "step %s: the operation is not enabled in the model state" what; None in
  let arena_of ai = L.nth_opt (!st).Zero.st_arenas ai in
  let put_arena ai a = st := { !st with Zero.st_arenas = L.mapi (fun i x -> if i = ai then a else x) (!st).Zero.st_arenas } in

  (* ---- arena lines, common to all modes *)
  let check_arena opno (cmp_committed : bool) toks =
    match toks with
    | [ "A"; ai; nb; inuse; dirty; committed ] ->
      let ai = int_of_string ai and nb = int_of_string nb in
      (match arena_of ai with
       | None -> mism "arena %d op %s: not in the model" ai opno
       | Some a ->
         incr flagchecks;
         let mi = string_of_bits a.Zero.ar_inuse nb and md = string_of_bits a.Zero.ar_dirty nb in
         if mi <> inuse then mism "arena %d op %s blocks_inuse: impl=%s model=%s" ai opno inuse mi;
         if dirty <> "-" && md <> dirty then mism "arena %d op %s blocks_dirty: impl=%s model=%s" ai opno dirty md;
         if committed <> "-" then begin
           let mc = string_of_bits a.Zero.ar_committed nb in
           if cmp_committed && mc <> committed then mism "arena %d op %s blocks_committed: impl=%s model=%s" ai opno committed mc;
           put_arena ai (set_committed a (bits_of_string committed))
         end)
    | _ -> () in
  let new_arena toks =
    match toks with
    | [ "N"; _ai; nb; zero; pinned; committed; gz ] ->
      ignore (step_ "OArenaNew" (Zero.OArenaNew (n_of_string nb, b01 zero, b01 pinned, b01 committed, b01 gz)))
    | _ -> () in

  (* ---- mode P: page record -> model page *)
  let parse_page (toks : string list) =
    match toks with
    | _tag :: pid :: sid :: lo :: cnt :: bsize :: psize :: huge :: reserved :: capacity :: used :: fiz :: izi :: "F" :: rest ->
      let rec upto stop acc = function
        | x :: r when x = stop -> (L.rev acc, r)
        | x :: r -> upto stop (x :: acc) r
        | [] -> (L.rev acc, []) in
      let (fl, rest) = upto "L" [] rest in
      let (ll, rest) = upto "B" [] rest in
      let bstr = (match rest with s :: _ -> s | [] -> "") in
      let pg = { Page.bsize = n_of_string bsize; reserved = n_of_string reserved; capacity = n_of_string capacity; used = n_of_string used;
                 free = L.map n_of_string fl; local_free = L.map n_of_string ll; thread_free = []; free_is_zero = b01 fiz;
                 is_zero_init = b01 izi; has_aligned = false; retire_expire = N0 } in
      Some (n_of_string pid, n_of_string sid, n_of_string lo, n_of_string cnt, b01 huge, pg, bstr)
    | _ -> None in
  let ghost_of_string (s : string) : coq_N -> Zero.bg =
    fun i -> let k = int_of_n i in
      if k < String.length s then (let c = Char.code s.[k] - 48 in { Zero.g_w0 = (c land 1) <> 0; g_rest = (c land 2) <> 0 })
      else { Zero.g_w0 = false; g_rest = false } in
  let cur_pid = ref N0 in
  let show_page (p : Page.page) =
    Printf.sprintf "cap=%s used=%s fiz=%b izi=%b F[%s] L[%s]" (string_of_n p.Page.capacity) (string_of_n p.Page.used) p.Page.free_is_zero p.Page.is_zero_init
      (String.concat "," (L.map string_of_n p.Page.free)) (String.concat "," (L.map string_of_n p.Page.local_free)) in
  let compare_page opno toks =
    match parse_page toks, Zero.aget !cur_pid (!st).Zero.st_pages with
    | Some (pid, sid, lo, cnt, huge, pg, bstr), Some z ->
      incr flagchecks;
      let mp = z.Zero.zp_page in
      let same = mp.Page.capacity = pg.Page.capacity && mp.Page.used = pg.Page.used && mp.Page.free = pg.Page.free &&
                 mp.Page.local_free = pg.Page.local_free && mp.Page.free_is_zero = pg.Page.free_is_zero && mp.Page.is_zero_init = pg.Page.is_zero_init in
      if not same then mism "page op %s: impl %s ; model %s" opno (show_page pg) (show_page mp);
      (* ghost soundness: the model may say zero only where the real memory is *)
      let real = ghost_of_string bstr in
      let nres = int_of_n pg.Page.reserved in
      let bad = ref (-1) in
      for i = 0 to nres - 1 do
        let g = z.Zero.zp_ghost (n i) and r = real (n i) in
        incr ghostchecks;
        if g.Zero.g_w0 then incr ghostzero; if g.Zero.g_rest then incr ghostzero;
        if (g.Zero.g_w0 && not r.Zero.g_w0) || (g.Zero.g_rest && not r.Zero.g_rest) then (if !bad < 0 then bad := i)
      done;
      if !bad >= 0 then mism "ghost op %s: the model says block %d is zero (w0=%b rest=%b), the real block is not (%c)" opno !bad
          (z.Zero.zp_ghost (n !bad)).Zero.g_w0 (z.Zero.zp_ghost (n !bad)).Zero.g_rest bstr.[!bad];
      (* keep the closures shallow: tabulate the model ghost; after a disagreement go on from the real state *)
      let arr = Array.init (max nres 1) (fun i -> z.Zero.zp_ghost (n i)) in
      let g' = (fun i -> let k = int_of_n i in if k < Array.length arr then arr.(k) else { Zero.g_w0 = false; g_rest = false }) in
      let z' = if same && !bad < 0 then { z with Zero.zp_ghost = g' }
               else { Zero.zp_seg = sid; zp_lo = lo; zp_cnt = cnt; zp_huge = huge; zp_page = pg; zp_ghost = real } in
      st := { !st with Zero.st_pages = Zero.aset pid z' (!st).Zero.st_pages }
    | Some _, None -> mism "page op %s: no model page" opno
    | None, _ -> () in

  (* ---- mode A *)
  let drop_page pid =
    (match Zero.aget pid (!st).Zero.st_pages with
     | Some z ->
       let z0 = { z with Zero.zp_page = { z.Zero.zp_page with Page.used = N0 } } in
       st := { !st with Zero.st_pages = Zero.aset pid z0 (!st).Zero.st_pages };
       ignore (step_ "OPageFree" (Zero.OPageFree pid))
     | None -> ()) in
  let process_api opno (lines : string list list) =
    let segs = L.filter_map (function
        | [ "S"; sid; kind; ai; b0; nb; zero; committed; huge; nslices; info ] ->
          Some (n_of_string sid, (int_of_string kind, n_of_string ai, n_of_string b0, n_of_string nb, b01 zero, b01 committed, b01 huge, n_of_string nslices, n_of_string info))
        | _ -> None) lines in
    let pages = L.filter_map (function
        | "G" :: pid :: sid :: lo :: cnt :: bsize :: psize :: huge :: _res :: _cap :: _used :: fiz :: izi :: _ ->
          Some (n_of_string pid, (n_of_string sid, n_of_string lo, n_of_string cnt, n_of_string bsize, n_of_string psize, b01 huge, b01 fiz, b01 izi))
        | _ -> None) lines in
    let seg_same (s : Zero.segment) (kind, ai, b0, nb, zero, _c, huge, nslices, info) =
      s.Zero.sg_memid.Zero.m_zero = zero && s.Zero.sg_huge = huge && s.Zero.sg_slices = nslices && s.Zero.sg_info = info &&
      (match s.Zero.sg_memid.Zero.m_kind with Zero.MemArena (a, b, c) -> kind = 1 && a = ai && b = b0 && c = nb | Zero.MemOs -> kind = 2) in
    (* segments of the model that are gone, or that cannot be the dumped one *)
    let redo = L.filter (fun (sid, s) -> match L.assoc_opt sid segs with None -> true | Some d -> not (seg_same s d)) (!st).Zero.st_segs in
    let redo_ids = L.map fst redo in
    L.iter (fun (sid, _) -> if L.mem_assoc sid segs then incr recreated) redo;
    (* pages first *)
    L.iter (fun (pid, z) ->
        let gone = (match L.assoc_opt pid pages with
            | None -> true
            | Some (sid, lo, cnt, bsize, _, _, _, _) ->
              not (z.Zero.zp_seg = sid && z.Zero.zp_lo = lo && z.Zero.zp_cnt = cnt && z.Zero.zp_page.Page.bsize = bsize)) in
        if gone || L.mem z.Zero.zp_seg redo_ids then drop_page pid) (!st).Zero.st_pages;
    L.iter (fun (sid, _) -> ignore (step_ "OSegFree" (Zero.OSegFree (sid, true)))) redo;
    (* new segments *)
    L.iter (fun (sid, (kind, ai, b0, nb, zero, _c, huge, nslices, info)) ->
        if Zero.aget sid (!st).Zero.st_segs = None then begin
          incr segallocs;
          let src = if kind = 1 then Zero.SrcArena (ai, b0, nb, true, true, false) else Zero.SrcOs (true, true) in
          (match step_ (Printf.sprintf "OSegAlloc sid=%s op %s" (string_of_n sid) opno) (Zero.OSegAlloc (sid, src, huge, nslices, info, true, false)) with
           | Some (Zero.OutMem m) ->
             incr flagchecks; if m.Zero.m_zero then incr segzero;
             if m.Zero.m_zero <> zero then
               mism "segment %s op %s memid.initially_zero: impl=%b model=%b (%s blocks %s+%s)" (string_of_n sid) opno zero m.Zero.m_zero
                 (if kind = 1 then "arena " ^ string_of_n ai else "OS") (string_of_n b0) (string_of_n nb)
           | _ -> ())
        end) segs;
    (* pages *)
    let check_flags pid (fiz, izi) =
      (match Zero.aget pid (!st).Zero.st_pages with
       | Some z -> z.Zero.zp_page.Page.is_zero_init = izi && ((not fiz) || z.Zero.zp_page.Page.free_is_zero)
       | None -> false) in
    L.iter (fun (pid, (sid, lo, cnt, bsize, psize, _huge, fiz, izi)) ->
        incr flagchecks; if fiz || izi then incr pagesflagged;
        let alloc () =
          incr pageallocs;
          ignore (step_ (Printf.sprintf "OPageAlloc pid=%s sid=%s lo=%s cnt=%s bsize=%s psize=%s op %s" (string_of_n pid) (string_of_n sid) (string_of_n lo)
                           (string_of_n cnt) (string_of_n bsize) (string_of_n psize) opno)
                    (Zero.OPageAlloc (pid, sid, lo, cnt, bsize, psize, true))) in
        if Zero.aget pid (!st).Zero.st_pages = None then alloc ()
        else if not (check_flags pid (fiz, izi)) then begin incr recreated; drop_page pid; alloc () end;
        if not (check_flags pid (fiz, izi)) then
          (match Zero.aget pid (!st).Zero.st_pages with
           | Some z -> mism "page %s op %s flags: impl is_zero_init=%b free_is_zero=%b ; model is_zero_init=%b free_is_zero=%b (block size %s, slices %s+%s of segment %s)"
                         (string_of_n pid) opno izi fiz z.Zero.zp_page.Page.is_zero_init z.Zero.zp_page.Page.free_is_zero (string_of_n bsize) (string_of_n lo) (string_of_n cnt) (string_of_n sid)
           | None -> ())) pages;
    L.iter (check_arena opno false) lines;
    incr knowb;
    if not (Zero.know_b !st) then mism "know_b is false on the model state after op %s" opno in

  (* ---- main loop: group the lines of one op *)
  let cur : string list list ref = ref [] in
  let finish () =
    let lines = L.rev !cur in
    cur := [];
    match lines with
    | ("O" :: opno :: op :: args) :: rest ->
      incr records;
      (match !mode, op, args with
       | _, "init", _ -> L.iter (check_arena opno false) rest
       (* ---------------- R *)
       | "R", "r", [ s; nb; commit; "="; kind; ai; b0; zero; committed ] ->
         let rid = n_of_string s in
         if kind <> "0" then begin
           let src = if kind = "1" then Zero.SrcArena (n_of_string ai, n_of_string b0, n_of_string nb, b01 commit, true, false) else Zero.SrcOs (b01 commit, true) in
           (match step_ ("ORawAlloc op " ^ opno) (Zero.ORawAlloc (rid, src)) with
            | Some (Zero.OutMem m) ->
              incr flagchecks; if m.Zero.m_zero then incr segzero;
              if m.Zero.m_zero <> b01 zero || m.Zero.m_committed <> b01 committed then
                mism "raw op %s memid: impl zero=%s committed=%s ; model zero=%b committed=%b" opno zero committed m.Zero.m_zero m.Zero.m_committed
            | _ -> ());
           L.iter (function
               | [ "T"; "ghost"; _; _; z; _ ] ->
                 incr ghostchecks;
                 (match Zero.aget rid (!st).Zero.st_raws with
                  | Some r -> if r.Zero.rw_ghost then incr ghostzero;
                    if r.Zero.rw_ghost && z <> "1" then mism "ghost op %s: the model says the returned memory is zero, it is not" opno
                  | None -> ())
               | _ -> ()) rest
         end;
         L.iter (check_arena opno true) rest
       | "R", "w", [ s ] -> ignore (step_ "ORawWrite" (Zero.ORawWrite (n_of_string s))); L.iter (check_arena opno false) rest
       | "R", "f", [ s; allc ] -> ignore (step_ "ORawFree" (Zero.ORawFree (n_of_string s, b01 allc))); L.iter (check_arena opno false) rest
       | "R", "p", _ ->
         (* a free block that reads as zero after the purge: the kernel's answer pz = true of mi_arena_purge (blocks_dirty stays) *)
         L.iter (function
             | [ "T"; "purged"; _; ai; b; "1" ] -> incr purged; ignore (step_ ("OArenaPurge op " ^ opno) (Zero.OArenaPurge (n_of_string ai, n_of_string b, n 1, true, false)))
             | _ -> ()) rest;
         L.iter (check_arena opno false) rest
       (* ---------------- P *)
       | "P", "I", _ ->
         L.iter (fun toks -> match toks with
             | "I" :: _ ->
               (match parse_page toks with
                | Some (pid, sid, lo, cnt, huge, pg, bstr) ->
                  let z = { Zero.zp_seg = sid; zp_lo = lo; zp_cnt = cnt; zp_huge = huge; zp_page = pg; zp_ghost = ghost_of_string bstr } in
                  cur_pid := pid;
                  st := { !st with Zero.st_pages = [ (pid, z) ] };
                  incr knowb; if pg.Page.free_is_zero || pg.Page.is_zero_init then incr pagesflagged;
                  if not (Zero.page_know_b z) then mism "page op %s: the initial state does not satisfy page_know_b (%s)" opno (show_page pg)
                | None -> mism "page op %s: unreadable I record" opno)
             | _ -> ()) rest
       | "P", ("m" | "w" | "f" | "c" | "e"), _ ->
         let pid = !cur_pid in
         (match op, args with
          | "m", [ zero; "="; idx ] ->
            (match step_ ("OMalloc op " ^ opno) (Zero.OMalloc (pid, b01 zero)) with
             | Some (Zero.OutBlock b) -> if string_of_n b <> idx then mism "page op %s malloc: impl block %s model block %s" opno idx (string_of_n b)
             | _ -> ())
          | "w", [ idx; w0; rest_ ] -> ignore (step_ ("OWrite op " ^ opno) (Zero.OWrite (pid, n_of_string idx, b01 w0, b01 rest_)))
          | "f", [ idx ] -> ignore (step_ ("OFree op " ^ opno) (Zero.OFree (pid, n_of_string idx)))
          | "c", [ force ] -> ignore (step_ ("OCollect op " ^ opno) (Zero.OCollect (pid, b01 force)))
          | "e", [] -> ignore (step_ ("OExtend op " ^ opno) (Zero.OExtend pid))
          | _ -> mism "page op %s: unreadable op" opno);
         L.iter (fun toks -> match toks with "D" :: _ -> compare_page opno toks | _ -> ()) rest
       (* ---------------- A *)
       | "A", _, _ -> process_api opno rest
       | _ -> ())
    | _ -> () in
  (try
    while true do
      let line = input_line stdin in
      let toks = split_ws line in
      match toks with
      | "CFG" :: m :: _ -> mode := m
      | "N" :: _ -> new_arena toks
      | "O" :: _ -> cur := [ toks ]
      | "E" :: _ -> finish ()
      | "END" :: _ -> ()
      | [] -> ()
      | _ -> if !cur <> [] then cur := toks :: !cur
    done
  with End_of_file -> ());
  Printf.printf "STATS zero mode=%s steps=%d flag_checks=%d ghost_checks=%d ghost_zero=%d seg_allocs=%d zero_memids=%d page_allocs=%d recreated=%d flagged_pages=%d know_b=%d purged_zero=%d\n"
    !mode !steps !flagchecks !ghostchecks !ghostzero !segallocs !segzero !pageallocs !recreated !pagesflagged !knowb !purged)
