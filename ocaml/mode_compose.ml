(* mode "compose": the FULL-STATE dumps of harness/t_api.c (trace op DUMP: FS/FG/FQ/FP/FB/FE records) against
   the Coq composite memory model (coq/Model/Compose.v, Properties/C01compose.v).
   For every dump a Compose.mem is rebuilt from the REAL state: every segment (slice array, projection of
   the thread's span queues), every page (block size, reserved, capacity, used, the three lists as block
   indices, has_aligned).  The ghost table of live blocks comes from the harness's SHADOW table (FB: address,
   usable size, requested size): every shadow block is resolved with the model's pointer resolution
   (Compose.resolve = ptr_segment / segment_page_of / ptr_unalign on the real slice array).  Checked:
     * every shadow block resolves to a block of a page, no two to the same block;
     * usable size: block start + block size = pointer + mi_usable_size (and requested <= usable);
     * the page start stored by the implementation is the one the model computes (Arith.page_start_from_slice);
     * segment_slices of the implementation = Compose.seg_slices; pages of normal segments have Compose.slices_needed
       slices and a block size in the image of Compose.block_size_of (the parameters of the model's fresh_page);
     * mem_inv_b (decides mem_inv, C01_compose_inv_b_spec): span_inv_b of every segment, page_inv_b of every
       page, block size = slice entry, reserved = page area / block size, ghost = complement of the three lists
       (so: every block that is on no list is a block the harness holds, and vice versa), pages = spans in
       use, segments pairwise apart;
     * abs: Compose.live_blocks of the rebuilt state is the shadow table (same block starts, usable, requested). *)
open BinNums
open Util
module L = Stdlib.List
module N = BinNat.N

let nint = n_of_int

let parse_entries toks =
  let z = { Span.slice_count = N0; slice_offset = N0; bsz = N0 } in
  let rec go acc = function
    | [] -> L.rev acc
    | t :: r ->
      if String.length t > 0 && t.[0] = 'z' then
        let k = int_of_string (String.sub t 1 (String.length t - 1)) in
        let rec rep acc k = if k = 0 then acc else rep (z :: acc) (k - 1) in
        go (rep acc k) r
      else
        (match String.split_on_char ':' t with
         | [c; o; b] -> go ({ Span.slice_count = n_of_string c; slice_offset = n_of_string o; bsz = n_of_string b } :: acc) r
         | _ -> failwith ("bad entry " ^ t)) in
  go [] toks

(* "a" or "a+n" *)
let parse_rle toks =
  L.concat (L.map (fun t ->
    match String.split_on_char '+' t with
    | [a] -> [n_of_string a]
    | [a; n] -> let a = int_of_string a and n = int_of_string n in L.init (n + 1) (fun i -> nint (a + i))
    | _ -> failwith ("bad list item " ^ t)) toks)

let rec split3 acc cur = function
  | [] -> L.rev (L.rev cur :: acc)
  | "|" :: r -> split3 (L.rev cur :: acc) [] r
  | x :: r -> split3 acc (x :: cur) r

type fg = { g_base : coq_N; g_seg : Span.segment; g_slices : coq_N }
type fp = { p_base : coq_N; p_idx : coq_N; p_start : coq_N; p_page : Page.page }
type fb = { b_ptr : coq_N; b_usable : coq_N; b_req : coq_N; b_kind : string }

let () = Modes.register "compose" (fun records mismatches ->
  let mism fmt = Printf.ksprintf (fun s -> incr mismatches; if !mismatches <= 30 then print_endline ("MISMATCH " ^ s)) fmt in
  let segs = ref [] and queues = ref [] and pages = ref [] and blocks = ref [] in
  let dumps = ref 0 and nsegs = ref 0 and npages = ref 0 and nblocks = ref 0 and nhuge = ref 0 and ninterior = ref 0 in
  let finish op =
    incr dumps; incr records;
    let segs_l = L.rev !segs and pages_l = L.rev !pages and blocks_l = L.rev !blocks in
    (* thread queues: list (per bin 0..MI_SEGMENT_BIN_MAX) of (segment id, idx) *)
    let nb = 36 in
    let tqs = L.init nb (fun b -> try L.assoc b !queues with Not_found -> []) in
    let mk_mem ghost_of =
      L.map (fun g ->
        let ps = L.filter (fun p -> p.p_base = g.g_base) pages_l in
        { Compose.cs_base = g.g_base;
          cs_st = (g.g_seg, Span.proj_queues g.g_base tqs);
          cs_pages = L.map (fun p -> { Compose.cp_idx = p.p_idx; cp_page = p.p_page; cp_ghost = ghost_of p }) ps }) segs_l in
    let m0 = mk_mem (fun _ -> []) in
    (* resolve the shadow blocks *)
    let ghost : (coq_N * coq_N, (coq_N * coq_N) list) Hashtbl.t = Hashtbl.create 64 in
    let expect = ref [] in
    L.iter (fun b ->
      match Compose.resolve m0 b.b_ptr with
      | None -> mism "compose op %d: live block %s (usable %s) does not resolve to a block of a page (ptr_segment/segment_page_of/unalign on the dumped slice arrays)"
                  op (string_of_n b.b_ptr) (string_of_n b.b_usable)
      | Some ((base, idx), bi) ->
        (match Compose.find_seg m0 base with
         | None -> mism "compose op %d: resolve returned an unknown segment" op
         | Some cs ->
           (match Compose.find_page cs idx with
            | None -> mism "compose op %d: resolve returned an unknown page" op
            | Some cp ->
              let start = Compose.block_addr cs cp bi in
              let bs = cp.Compose.cp_page.Page.bsize in
              if start <> b.b_ptr then incr ninterior;
              (* mi_usable_size(p) = block size - (p - block start) *)
              if N.add start bs <> N.add b.b_ptr b.b_usable then
                mism "compose op %d: block %s: mi_usable_size=%s but the block [%s,+%s) of page %s/%s ends elsewhere"
                  op (string_of_n b.b_ptr) (string_of_n b.b_usable) (string_of_n start) (string_of_n bs) (string_of_n base) (string_of_n idx);
              if not (N.leb b.b_req b.b_usable) then
                mism "compose op %d: block %s: requested %s > usable %s" op (string_of_n b.b_ptr) (string_of_n b.b_req) (string_of_n b.b_usable);
              let key = (base, idx) in
              let old = try Hashtbl.find ghost key with Not_found -> [] in
              if L.mem_assoc bi old then
                mism "compose op %d: two live blocks resolve to block %s of page %s/%s (second: %s)" op (string_of_n bi) (string_of_n base) (string_of_n idx) (string_of_n b.b_ptr);
              (* requested size as seen from the block start *)
              let req' = N.add b.b_req (N.sub b.b_ptr start) in
              Hashtbl.replace ghost key ((bi, req') :: old);
              expect := (start, bs, req') :: !expect)))
      blocks_l;
    let m = mk_mem (fun p -> try Hashtbl.find ghost (p.p_base, p.p_idx) with Not_found -> []) in
    (* page start and segment_slices as the implementation has them *)
    L.iter (fun g ->
      match Compose.find_seg m g.g_base with
      | None -> ()
      | Some cs ->
        if Compose.seg_slices (fst cs.Compose.cs_st) <> g.g_slices && g.g_seg.Span.kind = Span.SegHuge then
          mism "compose op %d: segment %s: segment_slices impl=%s model=%s" op (string_of_n g.g_base) (string_of_n g.g_slices)
            (string_of_n (Compose.seg_slices (fst cs.Compose.cs_st)));
        if g.g_seg.Span.kind = Span.SegHuge then incr nhuge;
        L.iter (fun p ->
          if p.p_base = g.g_base then begin
            let (st, _) = Compose.page_area cs p.p_idx in
            (* a page of a normal segment: the slices mi_segments_page_alloc asks for, and a block size that
               mi_page_queue / mi_large_huge_page_alloc can produce (Compose.slices_needed / block_size_of) *)
            if g.g_seg.Span.kind = Span.SegNormal then begin
              let bs = p.p_page.Page.bsize in
              let cnt = (Span.get g.g_seg.Span.entries p.p_idx).Span.slice_count in
              if Compose.slices_needed bs <> cnt then
                mism "compose op %d: page %s/%s (block size %s) has %s slices, the model's slices_needed gives %s" op (string_of_n g.g_base)
                  (string_of_n p.p_idx) (string_of_n bs) (string_of_n cnt) (string_of_n (Compose.slices_needed bs));
              if Compose.block_size_of bs <> bs then
                mism "compose op %d: page %s/%s: block size %s is not a size-class block size (block_size_of gives %s)" op (string_of_n g.g_base)
                  (string_of_n p.p_idx) (string_of_n bs) (string_of_n (Compose.block_size_of bs))
            end;
            if st <> p.p_start then
              mism "compose op %d: page %s/%s (block size %s): page_start impl=%s model=%s" op (string_of_n g.g_base) (string_of_n p.p_idx)
                (string_of_n p.p_page.Page.bsize) (string_of_n p.p_start) (string_of_n st)
          end) pages_l) segs_l;
    (* the invariant *)
    if not (Compose.mem_inv_b m) then begin
      let why = ref [] in
      L.iter (fun cs ->
        if not (Compose.seg_ok_b cs) then begin
          let b = string_of_n cs.Compose.cs_base in
          if not (Span.span_inv_b cs.Compose.cs_st) then why := ("segment " ^ b ^ ": span_inv_b fails") :: !why;
          L.iter (fun cp ->
            if not (Compose.page_ok_b cs cp) then begin
              let pg = cp.Compose.cp_page in
              let (_, psize) = Compose.page_area cs cp.Compose.cp_idx in
              let what =
                if not (Page.page_inv_b pg) then "page_inv_b fails"
                else if pg.Page.bsize <> (Span.get (fst cs.Compose.cs_st).Span.entries cp.Compose.cp_idx).Span.bsz then "block size differs from the slice entry"
                else if pg.Page.bsize <> N0 && pg.Page.reserved <> N.div psize pg.Page.bsize then
                  Printf.sprintf "reserved=%s but page area / block size = %s / %s = %s" (string_of_n pg.Page.reserved) (string_of_n psize)
                    (string_of_n pg.Page.bsize) (string_of_n (N.div psize pg.Page.bsize))
                else if not (Compose.ghost_ok_b cp) then
                  Printf.sprintf "live blocks of the page (complement of the lists: %s) differ from the blocks the program holds (%s)"
                    (String.concat "," (L.map string_of_n (Page.page_live pg)))
                    (String.concat "," (L.map (fun (i, _) -> string_of_n i) cp.Compose.cp_ghost))
                else "page_ok_b fails" in
              why := (Printf.sprintf "page %s/%s (block size %s): %s" b (string_of_n cp.Compose.cp_idx) (string_of_n pg.Page.bsize) what) :: !why
            end) cs.Compose.cs_pages;
          if !why = [] then why := ("segment " ^ b ^ ": pages do not match the spans in use / segment bounds") :: !why
        end) m;
      if not (Compose.apart_b m) then why := "segments overlap or share a base address" :: !why;
      mism "compose op %d: mem_inv_b fails: %s" op (String.concat "; " (L.rev !why))
    end;
    (* abs = shadow table *)
    let norm l = L.sort compare (L.map (fun ((a, u), r) -> (string_of_n a, string_of_n u, string_of_n r)) l) in
    let got = norm (Compose.live_blocks m) and want = norm (L.map (fun (a, u, r) -> ((a, u), r)) !expect) in
    if got <> want then
      mism "compose op %d: abs (live blocks of the rebuilt state, %d) differs from the shadow table (%d)" op (L.length got) (L.length want);
    nsegs := !nsegs + L.length segs_l; npages := !npages + L.length pages_l; nblocks := !nblocks + L.length blocks_l;
    segs := []; queues := []; pages := []; blocks := [] in
  (try
    while true do
      let line = input_line stdin in
      if String.length line > 1 && line.[0] = 'F' then
        match split_ws line with
        | "FS" :: _ -> segs := []; queues := []; pages := []; blocks := []
        | "FG" :: _op :: base :: kind :: n :: info :: used :: slices :: "|" :: ents ->
          let sg = { Span.kind = (if kind = "1" then Span.SegHuge else Span.SegNormal); owned = true; slice_entries = n_of_string n;
                     info_slices = n_of_string info; entries = parse_entries ents; used = n_of_string used } in
          segs := { g_base = n_of_string base; g_seg = sg; g_slices = n_of_string slices } :: !segs
        | "FQ" :: _op :: bin :: items ->
          let q = L.map (fun t -> match String.split_on_char ':' t with
                                  | [s; i] -> (n_of_string s, n_of_string i)
                                  | _ -> failwith ("bad queue item " ^ t)) items in
          queues := (int_of_string bin, q) :: !queues
        | "FP" :: _op :: base :: idx :: start :: bs :: res :: cap :: used :: ha :: "|" :: rest ->
          (match split3 [] [] rest with
           | [f; l; t] ->
             let pg = { Page.bsize = n_of_string bs; reserved = n_of_string res; capacity = n_of_string cap; used = n_of_string used;
                        free = parse_rle f; local_free = parse_rle l; thread_free = parse_rle t;
                        free_is_zero = false; is_zero_init = false; has_aligned = (ha = "1"); retire_expire = N0 } in
             pages := { p_base = n_of_string base; p_idx = n_of_string idx; p_start = n_of_string start; p_page = pg } :: !pages
           | _ -> mism "compose: malformed FP record")
        | "FB" :: _op :: ptr :: usable :: req :: kind :: _ ->
          blocks := { b_ptr = n_of_string ptr; b_usable = n_of_string usable; b_req = n_of_string req; b_kind = kind } :: !blocks
        | "FE" :: op :: _ -> finish (int_of_string op)
        | _ -> ()
    done
  with End_of_file -> ());
  Printf.printf "STATS compose dumps=%d segments=%d pages=%d blocks=%d huge_segments=%d interior_pointers=%d\n"
    !dumps !nsegs !npages !nblocks !nhuge !ninterior)
