(* registry of further replay modes (filled by the other driver modules at link time) *)
let table : (string * (int ref -> int ref -> unit)) list ref = ref []
let register name f = table := (name, f) :: !table
