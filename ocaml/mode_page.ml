(* mode "page": replay of the page dumps ("P" lines) of harness/t_api.c against the Coq page model.
   For every dump: the boolean invariant page_inv_b (Appendix A.1) must hold.
   For every op with a known before-state: the after-state must be one the model allows:
     free      : after = page_free_local before b   for the freed block b (a live block of before)
     allocation: after = page_malloc y,  y in {x, page_extend x},  x in {before, collect before}
   (the generic allocation path may collect and extend the page before popping).
   Lines: "P <op> <b|a> <page> <bsize> <reserved> <capacity> <used> <fiz> <zi> <ha> <full> <retire> | f.. | l.. | t.."
          "P <op> <b|a> <page> 0"  page unknown/freed ;  "X <op>" forget everything ; "O <op> <opcode> ..." *)
open BinNums
open Util
module L = Stdlib.List

type dump = Gone | Pg of Page.page

let parse_p (toks : string list) : (int * string * string * dump) option =
  match toks with
  | "P" :: op :: wh :: pg :: "0" :: [] -> Some (int_of_string op, wh, pg, Gone)
  | "P" :: op :: wh :: pg :: bs :: res :: cap :: used :: fiz :: zi :: ha :: _full :: ret :: "|" :: rest ->
    let rec split acc cur = function
      | [] -> L.rev (L.rev cur :: acc)
      | "|" :: r -> split (L.rev cur :: acc) [] r
      | x :: r -> split acc (n_of_string x :: cur) r in
    (match split [] [] rest with
     | [f; l; t] ->
       let b s = (s = "1") in
       Some (int_of_string op, wh, pg,
             Pg { Page.bsize = n_of_string bs; reserved = n_of_string res; capacity = n_of_string cap; used = n_of_string used;
                  free = f; local_free = l; thread_free = t; free_is_zero = b fiz; is_zero_init = b zi; has_aligned = b ha;
                  retire_expire = n_of_string ret })
     | _ -> None)
  | _ -> None

let proj (p : Page.page) =
  (L.map string_of_n [p.Page.bsize; p.Page.reserved; p.Page.capacity; p.Page.used],
   L.map string_of_n (p.Page.free), L.map string_of_n (p.Page.local_free), L.map string_of_n (p.Page.thread_free),
   p.Page.free_is_zero)

let show (p : Page.page) =
  let (h, f, l, t, z) = proj p in
  Printf.sprintf "[%s|f:%s|l:%s|t:%s|z:%b]" (String.concat "," h) (String.concat "," f) (String.concat "," l) (String.concat "," t) z

let same a b = (proj a = proj b)

let () = Modes.register "page" (fun records mismatches ->
  let cache : (string, Page.page) Hashtbl.t = Hashtbl.create 64 in
  let before : (string, Page.page) Hashtbl.t = Hashtbl.create 8 in   (* explicit 'b' dumps of the current op *)
  let wdump : (string, Page.page) Hashtbl.t = Hashtbl.create 64 in
  let visited : (string, string list) Hashtbl.t = Hashtbl.create 64 in
  let walks = ref 0 in
  let last_dt : coq_N list ref = ref [] in
  let directs = ref 0 in
  let cur_op = ref (-1) in
  let checked = ref 0 and unchecked = ref 0 and invs = ref 0 in
  let mism fmt = Printf.ksprintf (fun s -> incr mismatches; if !mismatches <= 30 then print_endline ("MISMATCH " ^ s)) fmt in
  (try
    while true do
      let line = input_line stdin in
      let toks = split_ws line in
      match toks with
      | "X" :: _ -> Hashtbl.reset cache; Hashtbl.reset before
      | "DT" :: _ :: _ :: entries -> last_dt := L.map n_of_string entries
      | "QF" :: op :: h :: firsts ->
        (* direct table law: entry w is the first page of queue mi_bin(8*w) (0 = the empty page) *)
        let tbl = L.map (fun s -> match String.split_on_char ':' s with
                                  | [b; p] -> (int_of_string b, n_of_string p) | _ -> (-1, N0)) firsts in
        let qf (b : coq_N) : coq_N = (try L.assoc (int_of_n b) tbl with Not_found -> N0) in
        incr directs;
        if not (Direct.direct_ok_b !last_dt qf) then
          mism "op %s heap %s: pages_free_direct violates the direct table law (Direct.direct_ok_b)" op h
      | "VB" :: _ :: pg :: idx :: [] ->
        let cur = try Hashtbl.find visited pg with Not_found -> [] in
        Hashtbl.replace visited pg (idx :: cur)
      | "WE" :: op :: [] ->
        (* heap walk finished: per page, the visited block indices must be exactly what the model's
           page_visit_blocks computes from the page state dumped just before the walk *)
        Hashtbl.iter (fun pg p ->
          let got = L.rev (try Hashtbl.find visited pg with Not_found -> []) in
          let want = L.map string_of_n (Page.page_visit_blocks p) in
          incr walks;
          if got <> want then mism "op %s: heap walk of page %s visited [%s], model page_visit_blocks gives [%s] on %s" op pg
              (String.concat "," got) (String.concat "," want) (show p)) wdump;
        Hashtbl.reset wdump; Hashtbl.reset visited
      | "P" :: _ ->
        (match parse_p toks with
         | None -> mism "unparsable page dump: %s" line
         | Some (op, wh, pg, Gone) -> Hashtbl.remove cache pg; Hashtbl.remove before pg
         | Some (op, wh, pg, Pg p) ->
           incr records; incr invs;
           if op <> !cur_op then begin Hashtbl.reset before; cur_op := op end;   (* before-dumps belong to one op *)
           if not (Page.page_inv_b p) then mism "op %d: page invariant violated on %s %s" op pg (show p);
           if wh = "w" then Hashtbl.replace wdump pg p
           else if wh = "b" then begin
             (* an explicit before-dump must agree with what we knew (up to a silent collect) *)
             (match Hashtbl.find_opt cache pg with
              | Some c when c.Page.bsize = p.Page.bsize && c.Page.reserved = p.Page.reserved ->
                if not (same c p || same (fst (Page.page_free_collect c false)) p || same (fst (Page.page_free_collect c true)) p) then
                  (* internal activity we did not see: accept, but count *)
                  incr unchecked
              | _ -> ());
             Hashtbl.replace before pg p; Hashtbl.replace cache pg p
           end else begin
             (* after-dump: decide which transition this was *)
             (match Hashtbl.find_opt before pg with
              | Some b when not (b.Page.bsize = p.Page.bsize && b.Page.reserved = p.Page.reserved) ->
                (* the page was released and its descriptor re-used for another size class *)
                Hashtbl.remove before pg; incr unchecked
              | Some b ->
                (* a free (or the release of the old block of a moving realloc) *)
                Hashtbl.remove before pg;
                (match p.Page.local_free, p.Page.thread_free with
                 | x :: _, _ when same (Page.page_free_local b x) p && L.mem x (Page.page_live b) -> incr checked
                 | x :: _, _ when same (Page.page_free_local (fst (Page.page_free_collect b false)) x) p && L.mem x (Page.page_live b) -> incr checked
                   (* pending remote frees of the page are collected first (page was re-adopted) *)
                 | _, x :: _ when same (Page.page_remote_free b x) p && L.mem x (Page.page_live b) -> incr checked
                   (* the block's segment is not owned by this thread (force-abandoned): remote-free path *)
                 | _ ->
                   (* in-place realloc / expand leave the page unchanged *)
                   if same b p then incr checked
                   else
                     (* realloc in the same page: free then allocate, or allocate then free *)
                     let cands x = [x; fst (Page.page_free_collect x false); fst (Page.page_free_collect x true)] in
                     let ok = L.exists (fun x -> L.exists (fun y ->
                         match Page.page_malloc y with
                         | Some (_, y') -> (match p.Page.local_free with
                                            | f :: _ -> same (Page.page_free_local y' f) p
                                            | [] -> false)
                         | None -> false) [x; Page.page_extend x]) (cands b) in
                     if ok then incr checked
                     else mism "op %d: transition not allowed by the model on %s: before %s after %s" op pg (show b) (show p))
              | None ->
                (match Hashtbl.find_opt cache pg with
                 | Some c when c.Page.bsize = p.Page.bsize && c.Page.reserved = p.Page.reserved
                               && BinNat.N.leb (c.Page.capacity) (p.Page.capacity) && not (BinNat.N.eqb (c.Page.used) N0) ->
                   if same c p then incr checked   (* untouched (e.g. the op failed) *)
                   else begin
                     let xs = [c; fst (Page.page_free_collect c false); fst (Page.page_free_collect c true)] in   (* a failed request in between force-collects the heap *)
                     let ys = L.concat (L.map (fun x -> [x; Page.page_extend x]) xs) in
                     let ok = L.exists (fun y -> match Page.page_malloc y with Some (_, y') -> same y' p | None -> false) ys in
                     if ok then incr checked
                     else mism "op %d: allocation transition not allowed by the model on %s: before %s after %s" op pg (show c) (show p)
                   end
                 | _ -> incr unchecked));
             if BinNat.N.eqb (p.Page.used) N0 then Hashtbl.remove cache pg else Hashtbl.replace cache pg p
           end)
      | _ -> ()
    done
  with End_of_file -> ());
  Printf.printf "STATS page invariants=%d transitions_checked=%d transitions_unchecked=%d\n" !invs !checked !unchecked;
  Printf.printf "STATS walk pages=%d direct_tables=%d\n" !walks !directs)
