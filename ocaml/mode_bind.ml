(* Replay driver for the arena-binding model (coq/Model/Bind.v, property C15).  mode "bind"; records on
   stdin (numbers decimal, arena ids signed):

     F manage_region <start> <size> = <aligned start> <block_count>        (0 0: refused)
     F manage_inuse <start> <size> = <field_count> <last word of blocks_inuse>
     F arena_id_index <id> = <index>
     F arena_id_is_suitable <arena id> <exclusive> <req id> = <0|1>
     F memid_is_suitable <memkind name> <arena id> <exclusive> <req id> = <0|1>
     F heap_memid_is_suitable <heap arena id> <memkind name> <arena id> <exclusive> = <0|1>

   Every other line is ignored.  A disagreement prints `MISMATCH F <fn> <args> : impl=.. model=..`.
   The op-level trace tie of the same model (mode `bind-trace`, input from harness/t_bind.c) is in ocaml/mode_bindtrace.ml. *)
open BinNums
open Util
module L = Stdlib.List

let sb b = if b then "1" else "0"
let memid_of kind id ex : Bind.memid =
  if kind = "arena" then Bind.MemArena (z_of_string id, ex <> "0") else Bind.MemOther

let eval fn (args : string list) : string list =
  match fn, args with
  | "manage_region", [start; size] ->
    (match Bind.manage_os_memory (n_of_string start) (n_of_string size) with
     | Some m -> [string_of_n m.Bind.m_start; string_of_n m.Bind.m_bcount]
     | None -> ["0"; "0"])
  | "manage_inuse", [start; size] ->
    (match Bind.manage_os_memory (n_of_string start) (n_of_string size) with
     | Some m -> [string_of_n m.Bind.m_fields; string_of_n (Bind.inuse_init_word m (BinNat.N.sub m.Bind.m_fields (n_of_int 1)))]
     | None -> ["refused"])
  | "arena_id_index", [id] -> [string_of_n (Bind.arena_id_index (z_of_string id))]
  | "arena_id_is_suitable", [aid; ex; req] -> [sb (Bind.arena_id_is_suitable (z_of_string aid) (ex <> "0") (z_of_string req))]
  | "memid_is_suitable", [kind; id; ex; req] -> [sb (Bind.memid_is_suitable (memid_of kind id ex) (z_of_string req))]
  | "heap_memid_is_suitable", [harena; kind; id; ex] ->
    let h = { Bind.h_id = n_of_int 1; h_thread = n_of_int 1; h_arena = z_of_string harena; h_tag = N0; h_backing = false } in
    [sb (Bind.heap_memid_is_suitable h (memid_of kind id ex))]
  | _ -> failwith ("unknown bind record: " ^ fn)

let () = Modes.register "bind" (fun records mismatches ->
  (try
    while true do
      let line = input_line stdin in
      match split_ws line with
      | "F" :: fn :: rest ->
        incr records;
        let rec split acc = function
          | "=" :: r -> (L.rev acc, r)
          | x :: r -> split (x :: acc) r
          | [] -> (L.rev acc, []) in
        let (args, res) = split [] rest in
        let got = (try eval fn args with Failure m -> ["ERROR:" ^ m]) in
        if got <> res then begin
          incr mismatches;
          if !mismatches <= 50 then
            Printf.printf "MISMATCH F %s %s : impl=%s model=%s\n" fn (String.concat " " args)
              (String.concat " " res) (String.concat " " got)
        end
      | _ -> ()
    done
  with End_of_file -> ()))

(* ------------------------------------------------------------------------------------------------
   Mode `abandon-sim` -- MODEL-SIDE TESTING ONLY (supporting test of the C09 model, coq/Model/Abandon.v).
   It supports the theorems of Properties/C09abandon.v (it shows that they are not vacuous; the two statements it
   exercised while they were open -- abandoned_count at quiescence, the forced collect -- are theorems now:
   C09_abandoned_count_quiescent, C09_collect_frees_dead_abandoned[_gen]); it never replaces them and says nothing
   about /repo.  The forced collect of the first collector is collect_prog (index order, as many list visits as the
   combined list is long), that of the second is collect_prog_of with a rotated visit order, a random OVisitLock and
   os_list_count = os_count (the entries of its own sub-process).
   Input: lines `<seed> <number of programs> [<max steps>]`.  Every program: 2-5 segments (arena / OS list,
   sub-process 1 or 2, an owner, 0-3 live blocks), 3-6 threads (the last thread of each sub-process is the
   collector); owners free locally and exit (abandon everything they own), the others free remotely with
   reclaim-on-free on / off and run cursor visits (try_reclaim / collect / reclaim_all decisions random).
   A random schedule of <max steps> steps with `inv_b` evaluated after every step; then all threads run to
   completion (round robin), `inv_b`, `quiescent`, `count_ok_b` are checked, and finally each collector
   runs one forced collect alone and `no_dead_abandoned_b` is checked for its sub-process.
   Output: `MISMATCH sim ...` per failure, one `STAT sim ...` line per input line.

   Mode `abandon-trace`: prints the adoption trace (thread, location, old, new on thread_id / abandoned
   bit / OS-list membership) of the example program for a schedule given as a list of thread numbers:
   input lines `<seed> <t0> <t1> ...` (the program is the one `abandon-sim` generates for <seed>). *)
module A = Abandon
let rec nat_of_int n = if n <= 0 then Datatypes.O else Datatypes.S (nat_of_int (n - 1))
let rec int_of_nat = function Datatypes.O -> 0 | Datatypes.S k -> 1 + int_of_nat k
let n_i = n_of_int

type simprog = { st0 : A.state; nthreads : int; collectors : (int * int) list (* thread, subproc *); nsegs : int }

let gen_prog (seed : int) : simprog =
  Random.init seed;
  let rnd k = Random.int k in
  let nsegs = 2 + rnd 4 in
  let nworkers = 2 + rnd 3 in
  (* threads 0 .. nworkers-1 are workers with a sub-process; then one collector per sub-process *)
  let wsp = Array.init nworkers (fun i -> if i = 0 then 1 else 1 + rnd 2) in
  let nthreads = nworkers + 2 in
  let sp_of t = if t < nworkers then wsp.(t) else (t - nworkers + 1) in
  let owner = Array.make nsegs 0 and live = Array.make nsegs 0 and arena = Array.make nsegs true in
  let segs = L.init nsegs (fun s ->
    let o = rnd nworkers in
    owner.(s) <- o; live.(s) <- rnd 4; arena.(s) <- (rnd 3 <> 0);
    { A.g_arena = arena.(s); g_subproc = n_i (sp_of o); g_tid = A.tid_of (nat_of_int o); g_bit = false; g_flag = A.coq_USE;
      g_live = n_i live.(s); g_tfree = N0; g_delayed = N0; g_visits = N0; g_freed = false; g_holder = None }) in
  let budget = Array.copy live in
  let progs = Array.make nthreads [] in
  let add t o = progs.(t) <- progs.(t) @ [o] in
  let modes = [| A.MTry; A.MCollect; A.MAll |] in
  for t = 0 to nworkers - 1 do
    (* some local / remote frees, some visits, then thread exit: abandon everything owned *)
    let nops = rnd 5 in
    for _ = 1 to nops do
      let s = rnd nsegs in
      (match rnd 4 with
       | 0 | 1 -> if budget.(s) > 0 then (budget.(s) <- budget.(s) - 1; add t (A.OFree (nat_of_int s, rnd 2 = 0, rnd 4 <> 0)))
       | 2 -> add t (A.OVisitArena (modes.(rnd 3), nat_of_int s, rnd 2 = 0))
       | _ -> add t (A.OVisitOs (modes.(rnd 3), rnd 2 = 0, rnd 3 = 0)); add t A.OCursorDone)
    done;
    if rnd 5 <> 0 then
      for s = 0 to nsegs - 1 do if owner.(s) = t then add t (A.OAbandon (nat_of_int s)) done;
    let nafter = rnd 3 in
    for _ = 1 to nafter do
      let s = rnd nsegs in
      if budget.(s) > 0 && rnd 2 = 0 then (budget.(s) <- budget.(s) - 1; add t (A.OFree (nat_of_int s, rnd 2 = 0, true)))
      else (add t (A.OVisitArena (modes.(rnd 3), nat_of_int s, rnd 2 = 0)))
    done
  done;
  (* collectors: remote frees of what is left, then nothing (the forced collect is appended later by the driver) *)
  for c = nworkers to nthreads - 1 do
    for s = 0 to nsegs - 1 do
      while budget.(s) > 0 && rnd 3 <> 0 do budget.(s) <- budget.(s) - 1; add c (A.OFree (nat_of_int s, rnd 2 = 0, true)) done
    done
  done;
  let st0 = A.mk_state segs [] [] (L.init nthreads (fun t -> (n_i (sp_of t), progs.(t)))) in
  { st0; nthreads; collectors = [(nworkers, 1); (nworkers + 1, 2)]; nsegs }

let append_prog (st : A.state) (t : int) (ops : A.op list) : A.state =
  { st with A.threads = L.mapi (fun i th -> if i = t then { th with A.t_prog = th.A.t_prog @ ops } else th) st.A.threads }

let sim_one (seed : int) (maxsteps : int) (fail : string -> unit) : int * int =
  let p = gen_prog seed in
  let st = ref p.st0 in
  let steps = ref 0 in
  if not (A.inv_b !st) then fail (Printf.sprintf "inv_b-initial seed=%d" seed);
  Random.init (seed * 7919 + 13);
  (try
    for i = 1 to maxsteps do
      let t = Random.int p.nthreads in
      (match A.step !st (nat_of_int t) with
       | Some st' -> st := st'; incr steps;
         if not (A.inv_b st') then (fail (Printf.sprintf "inv_b seed=%d step=%d thread=%d" seed i t); raise Exit)
       | None -> ())
    done
  with Exit -> ());
  (* run everybody to completion *)
  let progress = ref true and rounds = ref 0 in
  while !progress && !rounds < 2000 do
    progress := false; incr rounds;
    for t = 0 to p.nthreads - 1 do
      match A.step !st (nat_of_int t) with
      | Some st' -> st := st'; incr steps; progress := true;
        if not (A.inv_b st') then fail (Printf.sprintf "inv_b-drain seed=%d thread=%d" seed t)
      | None -> ()
    done
  done;
  if not (A.finished !st) then fail (Printf.sprintf "not-finished seed=%d (a thread is blocked for ever)" seed);
  if not (A.quiescent !st) then fail (Printf.sprintf "not-quiescent seed=%d" seed);
  if not (A.count_ok_b !st [n_i 1; n_i 2]) then fail (Printf.sprintf "abandoned_count seed=%d" seed);
  (* forced collects *)
  let collects = ref 0 in
  L.iter (fun (c, sp) ->
    let general = (sp = 2) in
    let nos = if general then int_of_nat (A.os_count !st (n_i sp)) else L.length !st.A.os_list in
    let prog =
      if general then begin
        let r = Random.int p.nsegs in
        let order = L.init p.nsegs (fun k -> nat_of_int ((k + r) mod p.nsegs)) in
        A.collect_prog_of order (Random.bool ()) (nat_of_int nos)
      end else A.collect_prog (nat_of_int p.nsegs) (nat_of_int nos) in
    st := append_prog !st c prog;
    st := A.run_solo (nat_of_int (16 * (p.nsegs + nos + 2))) !st (nat_of_int c);
    incr collects;
    if not (A.inv_b !st) then fail (Printf.sprintf "inv_b-collect seed=%d" seed);
    if not (A.quiescent !st) then fail (Printf.sprintf "collect-not-quiescent seed=%d" seed);
    if not (A.no_dead_abandoned_b !st (n_i sp)) then fail (Printf.sprintf "dead-abandoned-left seed=%d subproc=%d" seed sp);
    if not (A.count_ok_b !st [n_i 1; n_i 2]) then fail (Printf.sprintf "abandoned_count-after-collect seed=%d" seed)) p.collectors;
  (!steps, !collects)

let string_of_loc = function
  | A.LTid s -> Printf.sprintf "tid %d" (int_of_nat s) | A.LTidPlain s -> Printf.sprintf "tid-plain %d" (int_of_nat s) | A.LBit s -> Printf.sprintf "bit %d" (int_of_nat s)
  | A.LList s -> Printf.sprintf "list %d" (int_of_nat s) | A.LCount sp -> "count " ^ string_of_n sp
  | A.LFlag s -> Printf.sprintf "flag %d" (int_of_nat s) | A.LTfree s -> Printf.sprintf "tfree %d" (int_of_nat s)
  | A.LLock sp -> "lock " ^ string_of_n sp | A.LVLock sp -> "vlock " ^ string_of_n sp
  | A.LBlock s -> Printf.sprintf "block %d" (int_of_nat s) | A.LVisits s -> Printf.sprintf "visits %d" (int_of_nat s)

let () = Modes.register "abandon-sim" (fun records mismatches ->
  (try
    while true do
      let line = input_line stdin in
      match split_ws line with
      | seed :: n :: rest ->
        let seed = int_of_string seed and n = int_of_string n in
        let maxsteps = (match rest with m :: _ -> int_of_string m | [] -> 300) in
        let steps = ref 0 and collects = ref 0 in
        for i = 0 to n - 1 do
          incr records;
          let (s, c) = sim_one (seed * 100003 + i) maxsteps (fun msg ->
            incr mismatches; if !mismatches <= 50 then Printf.printf "MISMATCH sim %s\n" msg) in
          steps := !steps + s; collects := !collects + c
        done;
        Printf.printf "STAT sim seed=%d programs=%d steps=%d forced_collects=%d\n" seed n !steps !collects
      | _ -> ()
    done
  with End_of_file -> ()))

let () = Modes.register "abandon-trace" (fun records mismatches ->
  (try
    while true do
      let line = input_line stdin in
      match split_ws line with
      | seed :: sched ->
        incr records;
        let p = gen_prog (int_of_string seed) in
        let tr = A.adoption_trace p.st0 (L.map (fun x -> nat_of_int (int_of_string x)) sched) in
        L.iter (fun (((t, l), o), n) -> Printf.printf "S %d %s %s %s\n" (int_of_nat t) (string_of_loc l) (string_of_z o) (string_of_z n)) tr
      | _ -> ()
    done
  with End_of_file -> ()))
