(* Replay driver for the arena-binding model (coq/Model/Bind.v, property C15).  mode "bind"; records on
   stdin (numbers decimal, arena ids signed):

     F manage_region <start> <size> = <aligned start> <block_count>        (0 0: refused)
     F manage_inuse <start> <size> = <field_count> <last word of blocks_inuse>
     F arena_id_index <id> = <index>
     F arena_id_is_suitable <arena id> <exclusive> <req id> = <0|1>
     F memid_is_suitable <memkind name> <arena id> <exclusive> <req id> = <0|1>
     F heap_memid_is_suitable <heap arena id> <memkind name> <arena id> <exclusive> = <0|1>

   Every other line is ignored.  A disagreement prints `MISMATCH F <fn> <args> : impl=.. model=..`. *)
open BinNums
open Util
module L = Stdlib.List

let sb b = if b then "1" else "0"
let memid_of kind id ex : Bind.memid =
  if kind = "arena" then Bind.MemArena (z_of_string id, ex <> "0") else Bind.MemOther

let eval fn (args : string list) : string list =
  match fn, args with
  | "manage_region", [start; size] ->
    (match Bind.manage_os_memory (n_of_string start) (n_of_string size) with
     | Some m -> [string_of_n m.Bind.m_start; string_of_n m.Bind.m_bcount]
     | None -> ["0"; "0"])
  | "manage_inuse", [start; size] ->
    (match Bind.manage_os_memory (n_of_string start) (n_of_string size) with
     | Some m -> [string_of_n m.Bind.m_fields; string_of_n (Bind.inuse_init_word m (BinNat.N.sub m.Bind.m_fields (n_of_int 1)))]
     | None -> ["refused"])
  | "arena_id_index", [id] -> [string_of_n (Bind.arena_id_index (z_of_string id))]
  | "arena_id_is_suitable", [aid; ex; req] -> [sb (Bind.arena_id_is_suitable (z_of_string aid) (ex <> "0") (z_of_string req))]
  | "memid_is_suitable", [kind; id; ex; req] -> [sb (Bind.memid_is_suitable (memid_of kind id ex) (z_of_string req))]
  | "heap_memid_is_suitable", [harena; kind; id; ex] ->
    let h = { Bind.h_id = n_of_int 1; h_thread = n_of_int 1; h_arena = z_of_string harena; h_tag = N0; h_backing = false } in
    [sb (Bind.heap_memid_is_suitable h (memid_of kind id ex))]
  | _ -> failwith ("unknown bind record: " ^ fn)

let () = Modes.register "bind" (fun records mismatches ->
  (try
    while true do
      let line = input_line stdin in
      match split_ws line with
      | "F" :: fn :: rest ->
        incr records;
        let rec split acc = function
          | "=" :: r -> (L.rev acc, r)
          | x :: r -> split (x :: acc) r
          | [] -> (L.rev acc, []) in
        let (args, res) = split [] rest in
        let got = (try eval fn args with Failure m -> ["ERROR:" ^ m]) in
        if got <> res then begin
          incr mismatches;
          if !mismatches <= 50 then
            Printf.printf "MISMATCH F %s %s : impl=%s model=%s\n" fn (String.concat " " args)
              (String.concat " " res) (String.concat " " got)
        end
      | _ -> ()
    done
  with End_of_file -> ()))
