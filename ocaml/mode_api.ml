(* mode "api": replay of the F records of harness/f_api.c against the API-level Coq model
   (coq/Model/Api.v, extracted to Api.ml).  One line per record on stdin:
     F realloc_inplace <usable_old> <newsize> = <0|1>
         the real realloc-family call returned the same pointer; model: Api.realloc_zero on a state that
         holds one block of that usable size returns that pointer (and Api.realloc_inplace_b agrees)
     F realloc_aligned_inplace <usable_old> <newsize> <p> <alignment> <offset> = <0|1>
         same for Api.realloc_zero_aligned_at (alignments <= 8 are delegated to the plain rule)
     F is_naturally_aligned <size> <alignment> = <0|1>        Api.malloc_is_naturally_aligned
     F aligned_adjust <block_start> <alignment> <offset> = <adjust>   Api.aligned_adjust
     F aligned_alloc <size> <alignment> <offset> <block_start> <block_usable> = <p> <usable(p)>
         Api.heap_malloc_zero_aligned_at with the real block as the oracle answer returns the real user
         pointer and Api.usable_size of it is the real mi_usable_size
     F request_ok <code> <size> <count> <alignment> <offset> <p> <usable_p> = <0|1>
         NULL / non-NULL (posix_memalign, reallocarr: rc == 0) of entry point <code>; model: Api.exec of
         the corresponding call with granting oracles does not fail
     F posix_memalign_rc <alignment> <size> = <rc> <out written>     Api.posix_memalign
     F count_size_overflow <count> <size> = <flag> <total>           Arith.count_size_overflow
     F pvalloc_req <size> = <rounded size>                           Arith.align_up size os_page_size_default
     F pvalloc_size <size> = <0|1>                                   Api.pvalloc with granting oracles
   output: MISMATCH lines; the main driver prints DONE <records> <mismatches>. *)
open BinNums
open Util
module L = Stdlib.List

let n = n_of_string
let sn = string_of_n
let b01 x = if x then "1" else "0"
let pow2 k = n_of_u64 (Int64.shift_left 1L k)

(* granting oracles: fresh, very aligned addresses far away from real heap addresses *)
let big = pow2 50
let granting : Api.oracles =
  { Api.o_page_free = None; o_ans = Some ((pow2 45, big), []); o_ans2 = Some ((pow2 46, big), []) }

let blk usable : Api.block =
  { Api.b_usable = usable; b_bytes = []; b_heap = N0; b_req = usable; b_zero = false; b_adjust = N0 }

let state_of p usable : Api.state = if p = N0 then [] else [ (p, blk usable) ]

let call_of (code : int) size count alignment offset p : Api.call =
  let h = N0 in
  match code with
  | 0 -> Api.CMalloc (h, size)
  | 1 -> Api.CZalloc (h, size)
  | 2 -> Api.CCalloc (h, count, size)
  | 3 -> Api.CMallocn (h, count, size)
  | 4 -> Api.CRealloc (h, p, size)
  | 5 -> Api.CReallocn (h, p, count, size)
  | 6 -> Api.CReallocf (h, p, size)
  | 7 -> Api.CRezalloc (h, p, size)
  | 8 -> Api.CRecalloc (h, p, count, size)
  | 9 -> Api.CMallocAlignedAt (h, size, alignment, offset)
  | 10 -> Api.CZallocAlignedAt (h, size, alignment, offset)
  | 11 -> Api.CCallocAlignedAt (h, count, size, alignment, offset)
  | 12 -> Api.CReallocAlignedAt (h, p, size, alignment, offset)
  | 13 -> Api.CRezallocAlignedAt (h, p, size, alignment, offset)
  | 14 -> Api.CRecallocAlignedAt (h, p, count, size, alignment, offset)
  | 15 -> Api.CReallocAligned (h, p, size, alignment)
  | 16 -> Api.CRezallocAligned (h, p, size, alignment)
  | 17 -> Api.CPosixMemalign (false, alignment, size)
  | 18 -> Api.CMemalign (alignment, size)
  | 19 -> Api.CValloc size
  | 20 -> Api.CPvalloc size
  | 21 -> Api.CAlignedAlloc (alignment, size)
  | 22 -> Api.CReallocarray (p, count, size)
  | 23 -> Api.CReallocarr (false, p, count, size)
  | _ -> failwith "unknown entry point code"

let f_eval (fn : string) (a : string list) : string list =
  match fn, a with
  | "realloc_inplace", [u; ns] ->
    let p = pow2 20 in
    let (_, r) = Api.realloc_zero (state_of p (n u)) N0 p (n ns) false granting.Api.o_ans in
    let same = (r = Some p) in
    if same <> Api.realloc_inplace_b (n u) (n ns) then [ "model-inconsistent" ] else [ b01 same ]
  | "realloc_aligned_inplace", [u; ns; p; al; off] ->
    let (_, r) = Api.realloc_zero_aligned_at (state_of (n p) (n u)) N0 (n p) (n ns) (n al) (n off) false granting in
    [ b01 (r = Some (n p)) ]
  | "is_naturally_aligned", [s; al] -> [ b01 (Api.malloc_is_naturally_aligned (n s) (n al)) ]
  | "aligned_adjust", [st; al; off] -> [ sn (Api.aligned_adjust (n st) (n al) (n off)) ]
  | "aligned_alloc", [s; al; off; start; bu] ->
    let ans = Some ((n start, n bu), []) in
    let o = { Api.o_page_free = None; o_ans = ans; o_ans2 = ans } in
    let ((st', r), _) = Api.heap_malloc_zero_aligned_at [] N0 (n s) (n al) (n off) false o in
    (match r with
     | Some q -> [ sn q; sn (Api.usable_size st' q) ]
     | None -> [ "0"; "0" ])
  | "request_ok", [code; s; c; al; off; p; pu] ->
    let call = call_of (int_of_string code) (n s) (n c) (n al) (n off) (n p) in
    let (_, r) = Api.exec (state_of (n p) (n pu)) call granting in
    [ b01 (not (Api.call_failed call r)) ]
  | "posix_memalign_rc", [al; s] ->
    let ((_, rc), out) = Api.posix_memalign [] false (n al) (n s) granting in
    [ sn rc; b01 (out <> None) ]
  | "count_size_overflow", [c; s] -> let (o, t) = Arith.count_size_overflow (n c) (n s) in [ b01 o; sn t ]
  | "pvalloc_req", [s] -> [ sn (Arith.align_up (n s) Consts.os_page_size_default) ]
  | "pvalloc_size", [s] -> let (_, r) = Api.pvalloc [] (n s) granting in [ b01 (r <> None) ]
  | _ -> failwith ("unknown api record: " ^ fn)

let () = Modes.register "api" (fun records mismatches ->
  (try
    while true do
      let line = input_line stdin in
      match split_ws line with
      | "F" :: fn :: rest ->
        incr records;
        let rec split acc = function
          | "=" :: r -> (L.rev acc, r)
          | x :: r -> split (x :: acc) r
          | [] -> (L.rev acc, []) in
        let (args, res) = split [] rest in
        let got = (try f_eval fn args with Failure m -> [ "error:" ^ m ]) in
        if got <> res then begin
          incr mismatches;
          if !mismatches <= 50 then
            Printf.printf "MISMATCH F %s %s : impl=%s model=%s\n" fn (String.concat " " args)
              (String.concat " " res) (String.concat " " got)
        end
      | _ -> ()
    done
  with End_of_file -> ()))
