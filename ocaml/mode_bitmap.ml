(* C14 replay driver for the bitmap model (coq/Model/Bitmap.v, extracted to Bitmap.ml).
   mode "bitmap", records on stdin:
     F <fn> ...            records of harness/f_bitmap.c: the real function's result and bitmap after
                           are compared with the sequential model; for `across` and `unclaimx` the
                           small-step machine, run alone, must give the same result as well
     S <seed> <runs>       MODEL-SIDE testing of the small-step machine (no real code involved):
                           random programs of 2-4 model threads under random schedules; the boolean
                           invariant inv_b is evaluated after every step and, when every thread has
                           finished and every claim has been freed, the bitmap must equal the initial one
   mode "bitmap-trace": interface for a schedule-lockstep comparison with a log of the real code
     I <field0> <field1> ...           initial bitmap
     P <tid> claim <start> <count>     append an operation to the program of thread <tid>
     P <tid> free <start> <count>
     P <tid> purge <bitmap_idx> <len>
     X <tid> <tid> ...                 the schedule (may be given on several lines)
   output: one line `A <tid> <field index> <old value> <new value>` per atomic access of the model,
   then `R <tid> <results of its operations in order>` and `B <final bitmap>`. *)
open BinNums
open Util
module L = Stdlib.List

let b x = if x then "1" else "0"
let sn = string_of_n
let rec nat_of_int n = if n <= 0 then Datatypes.O else Datatypes.S (nat_of_int (n - 1))
let rec int_of_nat = function Datatypes.O -> 0 | Datatypes.S k -> 1 + int_of_nat k
let fields_str bm = L.map sn bm
let nlen bm = n_of_int (L.length bm)

let rec take n l = if n = 0 then [] else match l with [] -> [] | x :: r -> x :: take (n - 1) r
let rec drop n l = if n = 0 then l else match l with [] -> [] | _ :: r -> drop (n - 1) r

let opt_res (r : coq_N option) = match r with Some i -> ["1"; sn i] | None -> ["0"; "0"]

let string_of_gev = function
  | Bitmap.GNone -> "none"
  | Bitmap.GClaimed (s, c) -> Printf.sprintf "claimed(%s,%s)" (sn s) (sn c)
  | Bitmap.GClaimFailed -> "claim-failed"
  | Bitmap.GFreed a -> Printf.sprintf "freed(%s)" (b a)
  | Bitmap.GSkipped -> "skipped"
  | Bitmap.GPurgeFailed -> "purge-failed"
  | Bitmap.GPurged l -> Printf.sprintf "purged(%s)" (sn l)

(* run thread 0 of a one-thread machine to completion *)
let solo (bm : coq_N list) (pool : (Datatypes.nat * (coq_N * coq_N)) list) (o : Bitmap.op) =
  let s0 = { (Bitmap.init_state bm [[o]]) with Bitmap.s_pool = pool } in
  match Bitmap.run_solo (nat_of_int 5000) s0 Datatypes.O with
  | None -> None
  | Some s -> (match s.Bitmap.s_thr with [th] -> Some (s.Bitmap.s_bm, th.Bitmap.t_res) | _ -> None)

(* expected output tokens of a record according to the model; `extra` = machine cross-check failure *)
let f_eval (fn : string) (toks : string list) : string list * string option =
  let n = n_of_string in
  match fn with
  | "mask" -> (match toks with [c; bi] -> ([sn (Bitmap.mask_ (n c) (n bi))], None) | _ -> failwith "mask")
  | "maskacross" ->
    (match toks with
     | [x; nf; c] -> let (((pre, mid), post), midc) = Bitmap.mask_across (n x) (n nf) (n c) in ([sn pre; sn mid; sn post; sn midc], None)
     | _ -> failwith "maskacross")
  | "arena_init" ->
    (match toks with
     | [bc] -> let bm = Bitmap.arena_init (n bc) in (sn (Bitmap.arena_fields (n bc)) :: fields_str bm, None)
     | _ -> failwith "arena_init")
  | _ ->
    let nf = int_of_string (L.hd toks) in
    let bm = L.map n (take nf (L.tl toks)) in
    let args = L.map n (drop nf (L.tl toks)) in
    let fields = nlen bm in
    (match fn, args with
     | "field", [idx; count] -> let (r, bm') = Bitmap.try_find_claim_field bm idx count in (opt_res r @ fields_str bm', None)
     | "from", [start; count] -> let (r, bm') = Bitmap.try_find_from_claim bm fields start count in (opt_res r @ fields_str bm', None)
     | "pred", [start; count; k; r] ->
       let pred i = not (BinNat.N.eqb (BinNat.N.modulo i k) r) in
       let (res, bm') = Bitmap.try_find_from_claim_pred bm fields start count pred in (opt_res res @ fields_str bm', None)
     | "unclaim", [count; x] -> let (a, bm') = Bitmap.unclaim bm fields count x in (b a :: fields_str bm', None)
     | "claim", [count; x] -> let ((az, anz), bm') = Bitmap.claim bm fields count x in ([b az; b anz] @ fields_str bm', None)
     | "isclaimed", [count; x] -> ([b (Bitmap.is_claimed bm fields count x); b (Bitmap.is_any_claimed bm fields count x)], None)
     | "tryclaim", [count; x] -> let (ok, bm') = Bitmap.try_claim bm fields count x in (b ok :: fields_str bm', None)
     | "facross", [idx; count] ->
       let (r, bm') = Bitmap.try_find_claim_field_across Bitmap.coq_ACROSS_TRIES bm fields idx count N0 in (opt_res r @ fields_str bm', None)
     | "across", [start; count] ->
       let (r, bm') = Bitmap.try_find_from_claim_across bm fields start count in
       let expect = opt_res r @ fields_str bm' in
       (* the small-step machine, run alone, must agree *)
       let extra =
         match solo bm [] (Bitmap.OpClaim (start, count)) with
         | None -> Some "machine did not terminate"
         | Some (mbm, res) ->
           let mres = (match res with [Bitmap.GClaimed (s, _)] -> opt_res (Some s) | [Bitmap.GClaimFailed] -> opt_res None | _ -> ["?"]) in
           if mres @ fields_str mbm = expect then None
           else Some ("machine=" ^ String.concat " " (mres @ fields_str mbm)) in
       (expect, extra)
     | "unclaimx", [count; x] ->
       let (a, bm') = Bitmap.unclaim_across bm fields count x in
       let expect = b a :: fields_str bm' in
       let extra =
         match solo bm [(Datatypes.O, (x, count))] (Bitmap.OpFree (x, count)) with
         | None -> Some "machine did not terminate"
         | Some (mbm, res) ->
           let mres = (match res with [Bitmap.GFreed a] -> [b a] | _ -> ["?"]) in
           if mres @ fields_str mbm = expect then None else Some ("machine=" ^ String.concat " " (mres @ fields_str mbm)) in
       (expect, extra)
     | "claimx", [count; x] ->
       let (((az, anz), already), bm') = Bitmap.claim_across bm fields count x in ([b az; b anz; sn already] @ fields_str bm', None)
     | "isclaimedx", [count; x] ->
       let (a, already) = Bitmap.is_claimed_across bm fields count x in
       ([b a; sn already; b (Bitmap.is_any_claimed_across bm fields count x)], None)
     | _ -> failwith ("unknown bitmap record: " ^ fn))

(* ---- model-side schedule testing ---- *)
type sstat = { mutable steps : int; mutable claims : int; mutable cross : int; mutable failed : int; mutable rollback_steps : int;
               mutable cas_fail : int; mutable purged : int; mutable freed : int; mutable runs : int; mutable maxlen : int }
let st = { steps = 0; claims = 0; cross = 0; failed = 0; rollback_steps = 0; cas_fail = 0; purged = 0; freed = 0; runs = 0; maxlen = 0 }

let is_rollback_pc = function Bitmap.ARollStore _ | Bitmap.ARollInitLoad _ | Bitmap.ARollInitCas _ -> true | _ -> false
let is_cas_pc = function
  | Bitmap.FCas _ | Bitmap.AInitCas _ | Bitmap.AMidCas _ | Bitmap.AFinalCas _ | Bitmap.ARollInitCas _ | Bitmap.PCas _ -> true
  | _ -> false

let n64 = n_of_int 64
let random_bitmap rs nf =
  let total = nf * 64 in
  let f = Array.make nf 0L in
  let set p = f.(p / 64) <- Int64.logor f.(p / 64) (Int64.shift_left 1L (p mod 64)) in
  (match Random.State.int rs 4 with
   | 0 -> ()
   | 1 -> let post = Random.State.int rs 64 in for p = total - post to total - 1 do set p done     (* arena shape *)
   | 2 -> let post = Random.State.int rs 64 in for p = total - post to total - 1 do set p done;
          for _ = 1 to Random.State.int rs 6 do let p = Random.State.int rs total in let l = 1 + Random.State.int rs 20 in
            for q = p to min (total - 1) (p + l - 1) do set q done done
   | _ -> for p = 0 to total - 1 do if Random.State.int rs 5 = 0 then set p done);
  L.map n_of_u64 (Array.to_list f)

let one_schedule_run rs (mismatches : int ref) =
  (* every third run: heavy contention of multi-field claims (rollbacks, retries) *)
  let contention = (Random.State.int rs 3 = 0) in
  let nf = if contention then 2 + Random.State.int rs 2 else 1 + Random.State.int rs 3 in
  let nt = 2 + Random.State.int rs 3 in
  let pre = if contention then L.init nf (fun i -> if i = 0 then n_of_int (Random.State.int rs 1024) else N0) else random_bitmap rs nf in
  let random_op () =
    if contention then
      (if Random.State.int rs 8 = 0 then Bitmap.OpPurge (n_of_int (64 + Random.State.int rs 8), n_of_int (1 + Random.State.int rs 3))
       else Bitmap.OpClaim (n_of_int (Random.State.int rs 2), n_of_int (40 + Random.State.int rs (if nf = 2 then 50 else 100))))
    else
    match Random.State.int rs 10 with
    | 0 | 1 -> Bitmap.OpPurge (n_of_int (Random.State.int rs (nf * 64)), n_of_int (1 + Random.State.int rs 6))
    | 2 | 3 -> Bitmap.OpClaim (n_of_int (Random.State.int rs (nf + 1)), n_of_int (1 + Random.State.int rs 2))
    | _ -> Bitmap.OpClaim (n_of_int (Random.State.int rs (nf + 1)), n_of_int (3 + Random.State.int rs (if Random.State.bool rs then 20 else 100))) in
  let s = ref (Bitmap.init_state pre (L.init nt (fun _ -> [random_op ()]))) in
  let ok = ref true in
  let budget = ref (150 + Random.State.int rs 400) in     (* steps during which new operations are started *)
  let len = ref 0 in
  let fail what =
    if !ok then begin
      ok := false; incr mismatches;
      if !mismatches <= 20 then
        Printf.printf "MISMATCH S %s after %d steps: pre=%s bitmap=%s\n" what !len
          (String.concat " " (fields_str pre)) (String.concat " " (fields_str !s.Bitmap.s_bm))
    end in
  let set_prog t prog =
    s := { !s with Bitmap.s_thr = L.mapi (fun i th -> if i = t then { th with Bitmap.t_prog = prog } else th) !s.Bitmap.s_thr } in
  let continue = ref true in
  while !continue && !ok do
    (* threads that can move; idle threads get a new operation while the budget lasts, afterwards
       they free the remaining completed claims *)
    L.iteri (fun t th ->
        if th.Bitmap.t_pc = Bitmap.Idle && th.Bitmap.t_prog = [] then begin
          if !budget > 0 then begin
            let pool = !s.Bitmap.s_pool in
            if pool <> [] && Random.State.int rs 3 = 0 then
              let (_, (st0, c)) = L.nth pool (Random.State.int rs (L.length pool)) in set_prog t [Bitmap.OpFree (st0, c)]
            else set_prog t [random_op ()]
          end
          else (match !s.Bitmap.s_pool with
              | (_, (st0, c)) :: _ when t = 0 -> set_prog t [Bitmap.OpFree (st0, c)]
              | _ -> ())
        end) !s.Bitmap.s_thr;
    let movable = L.filter (fun t -> let th = L.nth !s.Bitmap.s_thr t in not (th.Bitmap.t_pc = Bitmap.Idle && th.Bitmap.t_prog = [])) (L.init nt (fun i -> i)) in
    if movable = [] then continue := false
    else begin
      (* bursts: the same thread tends to run a few steps, then another one *)
      let t = L.nth movable (Random.State.int rs (L.length movable)) in
      let th = L.nth !s.Bitmap.s_thr t in
      let pc0 = th.Bitmap.t_pc in
      (match Bitmap.stepx !s (nat_of_int t) with
       | None -> fail "a movable thread cannot step"
       | Some (s', acc) ->
         incr len; decr budget; st.steps <- st.steps + 1;
         if is_rollback_pc pc0 then st.rollback_steps <- st.rollback_steps + 1;
         (match acc with Some ((_, v), w) when is_cas_pc pc0 && v = w -> st.cas_fail <- st.cas_fail + 1 | _ -> ());
         let th' = L.nth s'.Bitmap.s_thr t in
         if L.length th'.Bitmap.t_res > L.length th.Bitmap.t_res then
           (match L.hd th'.Bitmap.t_res with
            | Bitmap.GClaimed (st0, c) -> st.claims <- st.claims + 1;
              if BinNat.N.div st0 n64 <> BinNat.N.div (BinNat.N.sub (BinNat.N.add st0 c) (n_of_int 1)) n64 then st.cross <- st.cross + 1
            | Bitmap.GClaimFailed -> st.failed <- st.failed + 1
            | Bitmap.GPurged _ -> st.purged <- st.purged + 1
            | Bitmap.GFreed a -> st.freed <- st.freed + 1; if not a then fail "unclaim_across of a completed claim reported bits not all set"
            | _ -> ());
         s := s';
         if not (Bitmap.inv_b pre s') then fail ("inv_b false after a step of thread " ^ string_of_int t))
    end;
    if !len > 20000 then (fail "run does not end"; continue := false)
  done;
  if !ok then begin
    if !s.Bitmap.s_pool <> [] then fail "completed claims left at the end"
    else if !s.Bitmap.s_bm <> pre then fail "final bitmap differs from the initial one although everything was freed"
  end;
  st.runs <- st.runs + 1; if !len > st.maxlen then st.maxlen <- !len

let schedule_tests seed runs (mismatches : int ref) =
  let rs = Random.State.make [| seed; 0xC14 |] in
  for _ = 1 to runs do one_schedule_run rs mismatches done;
  Printf.printf "SINFO runs=%d steps=%d max_schedule_len=%d claims=%d cross_field=%d failed_claims=%d rollback_steps=%d failed_cas=%d purges=%d frees=%d\n"
    st.runs st.steps st.maxlen st.claims st.cross st.failed st.rollback_steps st.cas_fail st.purged st.freed

let mode_bitmap (records : int ref) (mismatches : int ref) =
  let solo_checked = ref 0 in
  (try
     while true do
       let line = input_line stdin in
       match split_ws line with
       | "F" :: fn :: rest ->
         incr records;
         let rec split acc = function
           | "=" :: r -> (L.rev acc, r)
           | x :: r -> split (x :: acc) r
           | [] -> (L.rev acc, []) in
         let (args, res) = split [] rest in
         let (got, extra) = (try f_eval fn args with Failure m -> (["ERROR:" ^ m], None)) in
         if fn = "across" || fn = "unclaimx" then incr solo_checked;
         if got <> res then begin
           incr mismatches;
           if !mismatches <= 50 then
             Printf.printf "MISMATCH F %s %s : impl=%s model=%s\n" fn (String.concat " " args) (String.concat " " res) (String.concat " " got)
         end
         else (match extra with
             | Some m -> incr mismatches; if !mismatches <= 50 then Printf.printf "MISMATCH M %s %s : sequential=%s %s\n" fn (String.concat " " args) (String.concat " " got) m
             | None -> ())
       | ["S"; seed; runs] -> schedule_tests (int_of_string seed) (int_of_string runs) mismatches
       | _ -> ()
     done
   with End_of_file -> ());
  Printf.printf "MINFO machine_solo_checked=%d\n" !solo_checked

let mode_trace (records : int ref) (mismatches : int ref) =
  let bm = ref [] and progs = Hashtbl.create 8 and sched = ref [] and maxt = ref (-1) in
  (try
     while true do
       match split_ws (input_line stdin) with
       | "I" :: f -> bm := L.map n_of_string f
       | ["P"; t; kind; a; c] ->
         incr records;
         let t = int_of_string t in
         if t > !maxt then maxt := t;
         let o = (match kind with
             | "claim" -> Bitmap.OpClaim (n_of_string a, n_of_string c)
             | "free" -> Bitmap.OpFree (n_of_string a, n_of_string c)
             | "purge" -> Bitmap.OpPurge (n_of_string a, n_of_string c)
             | _ -> failwith "P: claim|free|purge") in
         Hashtbl.replace progs t ((try Hashtbl.find progs t with Not_found -> []) @ [o])
       | "X" :: ts -> sched := !sched @ L.map int_of_string ts
       | _ -> ()
     done
   with End_of_file -> ());
  let s0 = Bitmap.init_state !bm (L.init (!maxt + 1) (fun t -> try Hashtbl.find progs t with Not_found -> [])) in
  let nsched = L.map nat_of_int !sched in
  L.iter (fun (((t, i), v), w) -> Printf.printf "A %d %s %s %s\n" (int_of_nat t) (sn i) (sn v) (sn w)) (Bitmap.run_trace s0 nsched);
  let s = Bitmap.run_schedule s0 nsched in
  L.iteri (fun t th -> Printf.printf "R %d %s%s\n" t (String.concat " " (L.rev_map string_of_gev th.Bitmap.t_res))
              (if th.Bitmap.t_pc = Bitmap.Idle && th.Bitmap.t_prog = [] then "" else " (unfinished)")) s.Bitmap.s_thr;
  Printf.printf "B %s\n" (String.concat " " (fields_str s.Bitmap.s_bm));
  if not (Bitmap.inv_b !bm s) then (incr mismatches; Printf.printf "MISMATCH trace: inv_b false at the end of the schedule\n")

let () =
  Modes.register "bitmap" mode_bitmap;
  Modes.register "bitmap-trace" mode_trace
