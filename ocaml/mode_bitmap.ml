(* C14 replay driver for the bitmap model (coq/Model/Bitmap.v, extracted to Bitmap.ml).
   mode "bitmap", records on stdin:
     F <fn> ...            records of harness/f_bitmap.c: the real function's result and bitmap after
                           are compared with the sequential model; for `across` and `unclaimx` the
                           small-step machine, run alone, must give the same result as well
     S <seed> <runs>       MODEL-SIDE testing of the small-step machine (no real code involved):
                           random programs of 2-4 model threads under random schedules; the boolean
                           invariant inv_b is evaluated after every step and, when every thread has
                           finished and every claim has been freed, the bitmap must equal the initial one
   mode "bitmap-trace": SCHEDULE-LOCKSTEP replay of a log of the REAL code (harness/s_arena.c: src/bitmap.c /
   src/arena.c in virtual threads under the deterministic scheduler, every mi_atomic_* a scheduling point) on
   the small-step machine of Model/Bitmap.v.  Log records (format: header of harness/s_arena.c):
     I <field0> ...                    the bitmap when the scheduler starts (= `pre` of the theorems)
     A <tid> claim <start> <count>     call brackets; the model thread gets the program [OpClaim start count]
     A <tid> alloc <blocks>            _mi_arena_alloc_aligned            = [OpClaim 0 blocks]
     A <tid> free <idx> <count>        _mi_bitmap_unclaim(_across)        = [OpFree idx count]
     A <tid> afree <block> <blocks>    _mi_arena_free                     = [OpFree block blocks], then purge operations
     A <tid> purge <idx> <len>         the purger's claim/unclaim         = [OpPurge idx len]
     A <tid> collect <force>           _mi_arenas_collect                 = purge operations
     A <tid> isclaimed <idx> <count>   observer (not a machine operation): its loads must read the model's field values
     S <tid> <field> <kind> <old> <new>  one atomic access: the model thread must take EXACTLY this step: stepx gives the
                                       same field, the same old and new value, and the pc is of the same kind
                                       (L load, C successful CAS, F failed CAS, W store, A fetch-and); inv_b after every step
     R <tid> <result>                  the call returned: the model thread must be idle, the results must agree
     B <field0> ...                    quiescence: every model thread idle, no completed claim left, bitmap = logged = initial
   Purge operations inside `afree` / `collect` (mi_arenas_try_purge -> mi_arena_try_purge) have arguments the harness
   cannot see (static functions of arena.c): the replay keeps the SET of program counters consistent with the log
   (an idle thread may start OpPurge bi len for any range of the accessed field; the set collapses at the first
   successful CAS, whose new value fixes the mask); MISMATCH when the set becomes empty.
   Output: MISMATCH lines, `STAT bitmap-lockstep ...` and `PC <pc>=<count> ...` (which machine pcs were exercised).
   Legacy interface of the same mode (model only): I / P <tid> claim|free|purge <a> <c> / X <tid> ... prints the model's
   accesses `A <tid> <field> <old> <new>`, `R <tid> <results>` and `B <final bitmap>`. *)
open BinNums
open Util
module L = Stdlib.List

let b x = if x then "1" else "0"
let sn = string_of_n
let rec nat_of_int n = if n <= 0 then Datatypes.O else Datatypes.S (nat_of_int (n - 1))
let rec int_of_nat = function Datatypes.O -> 0 | Datatypes.S k -> 1 + int_of_nat k
let fields_str bm = L.map sn bm
let nlen bm = n_of_int (L.length bm)

let rec take n l = if n = 0 then [] else match l with [] -> [] | x :: r -> x :: take (n - 1) r
let rec drop n l = if n = 0 then l else match l with [] -> [] | _ :: r -> drop (n - 1) r

let opt_res (r : coq_N option) = match r with Some i -> ["1"; sn i] | None -> ["0"; "0"]

let string_of_gev = function
  | Bitmap.GNone -> "none"
  | Bitmap.GClaimed (s, c) -> Printf.sprintf "claimed(%s,%s)" (sn s) (sn c)
  | Bitmap.GClaimFailed -> "claim-failed"
  | Bitmap.GFreed a -> Printf.sprintf "freed(%s)" (b a)
  | Bitmap.GSkipped -> "skipped"
  | Bitmap.GPurgeFailed -> "purge-failed"
  | Bitmap.GPurged l -> Printf.sprintf "purged(%s)" (sn l)

(* run thread 0 of a one-thread machine to completion *)
let solo (bm : coq_N list) (pool : (Datatypes.nat * (coq_N * coq_N)) list) (o : Bitmap.op) =
  let s0 = { (Bitmap.init_state bm [[o]]) with Bitmap.s_pool = pool } in
  match Bitmap.run_solo (nat_of_int 5000) s0 Datatypes.O with
  | None -> None
  | Some s -> (match s.Bitmap.s_thr with [th] -> Some (s.Bitmap.s_bm, th.Bitmap.t_res) | _ -> None)

(* expected output tokens of a record according to the model; `extra` = machine cross-check failure *)
let f_eval (fn : string) (toks : string list) : string list * string option =
  let n = n_of_string in
  match fn with
  | "mask" -> (match toks with [c; bi] -> ([sn (Bitmap.mask_ (n c) (n bi))], None) | _ -> failwith "mask")
  | "maskacross" ->
    (match toks with
     | [x; nf; c] -> let (((pre, mid), post), midc) = Bitmap.mask_across (n x) (n nf) (n c) in ([sn pre; sn mid; sn post; sn midc], None)
     | _ -> failwith "maskacross")
  | "arena_init" ->
    (match toks with
     | [bc] -> let bm = Bitmap.arena_init (n bc) in (sn (Bitmap.arena_fields (n bc)) :: fields_str bm, None)
     | _ -> failwith "arena_init")
  | _ ->
    let nf = int_of_string (L.hd toks) in
    let bm = L.map n (take nf (L.tl toks)) in
    let args = L.map n (drop nf (L.tl toks)) in
    let fields = nlen bm in
    (match fn, args with
     | "field", [idx; count] -> let (r, bm') = Bitmap.try_find_claim_field bm idx count in (opt_res r @ fields_str bm', None)
     | "from", [start; count] -> let (r, bm') = Bitmap.try_find_from_claim bm fields start count in (opt_res r @ fields_str bm', None)
     | "pred", [start; count; k; r] ->
       let pred i = not (BinNat.N.eqb (BinNat.N.modulo i k) r) in
       let (res, bm') = Bitmap.try_find_from_claim_pred bm fields start count pred in (opt_res res @ fields_str bm', None)
     | "unclaim", [count; x] -> let (a, bm') = Bitmap.unclaim bm fields count x in (b a :: fields_str bm', None)
     | "claim", [count; x] -> let ((az, anz), bm') = Bitmap.claim bm fields count x in ([b az; b anz] @ fields_str bm', None)
     | "isclaimed", [count; x] -> ([b (Bitmap.is_claimed bm fields count x); b (Bitmap.is_any_claimed bm fields count x)], None)
     | "tryclaim", [count; x] -> let (ok, bm') = Bitmap.try_claim bm fields count x in (b ok :: fields_str bm', None)
     | "facross", [idx; count] ->
       let (r, bm') = Bitmap.try_find_claim_field_across Bitmap.coq_ACROSS_TRIES bm fields idx count N0 in (opt_res r @ fields_str bm', None)
     | "across", [start; count] ->
       let (r, bm') = Bitmap.try_find_from_claim_across bm fields start count in
       let expect = opt_res r @ fields_str bm' in
       (* the small-step machine, run alone, must agree *)
       let extra =
         match solo bm [] (Bitmap.OpClaim (start, count)) with
         | None -> Some "machine did not terminate"
         | Some (mbm, res) ->
           let mres = (match res with [Bitmap.GClaimed (s, _)] -> opt_res (Some s) | [Bitmap.GClaimFailed] -> opt_res None | _ -> ["?"]) in
           if mres @ fields_str mbm = expect then None
           else Some ("machine=" ^ String.concat " " (mres @ fields_str mbm)) in
       (expect, extra)
     | "unclaimx", [count; x] ->
       let (a, bm') = Bitmap.unclaim_across bm fields count x in
       let expect = b a :: fields_str bm' in
       let extra =
         match solo bm [(Datatypes.O, (x, count))] (Bitmap.OpFree (x, count)) with
         | None -> Some "machine did not terminate"
         | Some (mbm, res) ->
           let mres = (match res with [Bitmap.GFreed a] -> [b a] | _ -> ["?"]) in
           if mres @ fields_str mbm = expect then None else Some ("machine=" ^ String.concat " " (mres @ fields_str mbm)) in
       (expect, extra)
     | "claimx", [count; x] ->
       let (((az, anz), already), bm') = Bitmap.claim_across bm fields count x in ([b az; b anz; sn already] @ fields_str bm', None)
     | "isclaimedx", [count; x] ->
       let (a, already) = Bitmap.is_claimed_across bm fields count x in
       ([b a; sn already; b (Bitmap.is_any_claimed_across bm fields count x)], None)
     | _ -> failwith ("unknown bitmap record: " ^ fn))

(* ---- model-side schedule testing ---- *)
type sstat = { mutable steps : int; mutable claims : int; mutable cross : int; mutable failed : int; mutable rollback_steps : int;
               mutable cas_fail : int; mutable purged : int; mutable freed : int; mutable runs : int; mutable maxlen : int }
let st = { steps = 0; claims = 0; cross = 0; failed = 0; rollback_steps = 0; cas_fail = 0; purged = 0; freed = 0; runs = 0; maxlen = 0 }

let is_rollback_pc = function Bitmap.ARollStore _ | Bitmap.ARollInitLoad _ | Bitmap.ARollInitCas _ -> true | _ -> false
let is_cas_pc = function
  | Bitmap.FCas _ | Bitmap.AInitCas _ | Bitmap.AMidCas _ | Bitmap.AFinalCas _ | Bitmap.ARollInitCas _ | Bitmap.PCas _ -> true
  | _ -> false

let n64 = n_of_int 64
let random_bitmap rs nf =
  let total = nf * 64 in
  let f = Array.make nf 0L in
  let set p = f.(p / 64) <- Int64.logor f.(p / 64) (Int64.shift_left 1L (p mod 64)) in
  (match Random.State.int rs 4 with
   | 0 -> ()
   | 1 -> let post = Random.State.int rs 64 in for p = total - post to total - 1 do set p done     (* arena shape *)
   | 2 -> let post = Random.State.int rs 64 in for p = total - post to total - 1 do set p done;
          for _ = 1 to Random.State.int rs 6 do let p = Random.State.int rs total in let l = 1 + Random.State.int rs 20 in
            for q = p to min (total - 1) (p + l - 1) do set q done done
   | _ -> for p = 0 to total - 1 do if Random.State.int rs 5 = 0 then set p done);
  L.map n_of_u64 (Array.to_list f)

let one_schedule_run rs (mismatches : int ref) =
  (* every third run: heavy contention of multi-field claims (rollbacks, retries) *)
  let contention = (Random.State.int rs 3 = 0) in
  let nf = if contention then 2 + Random.State.int rs 2 else 1 + Random.State.int rs 3 in
  let nt = 2 + Random.State.int rs 3 in
  let pre = if contention then L.init nf (fun i -> if i = 0 then n_of_int (Random.State.int rs 1024) else N0) else random_bitmap rs nf in
  let random_op () =
    if contention then
      (if Random.State.int rs 8 = 0 then Bitmap.OpPurge (n_of_int (64 + Random.State.int rs 8), n_of_int (1 + Random.State.int rs 3))
       else Bitmap.OpClaim (n_of_int (Random.State.int rs 2), n_of_int (40 + Random.State.int rs (if nf = 2 then 50 else 100))))
    else
    match Random.State.int rs 10 with
    | 0 | 1 -> Bitmap.OpPurge (n_of_int (Random.State.int rs (nf * 64)), n_of_int (1 + Random.State.int rs 6))
    | 2 | 3 -> Bitmap.OpClaim (n_of_int (Random.State.int rs (nf + 1)), n_of_int (1 + Random.State.int rs 2))
    | _ -> Bitmap.OpClaim (n_of_int (Random.State.int rs (nf + 1)), n_of_int (3 + Random.State.int rs (if Random.State.bool rs then 20 else 100))) in
  let s = ref (Bitmap.init_state pre (L.init nt (fun _ -> [random_op ()]))) in
  let ok = ref true in
  let budget = ref (150 + Random.State.int rs 400) in     (* steps during which new operations are started *)
  let len = ref 0 in
  let fail what =
    if !ok then begin
      ok := false; incr mismatches;
      if !mismatches <= 20 then
        Printf.printf "MISMATCH S %s after %d steps: pre=%s bitmap=%s\n" what !len
          (String.concat " " (fields_str pre)) (String.concat " " (fields_str !s.Bitmap.s_bm))
    end in
  let set_prog t prog =
    s := { !s with Bitmap.s_thr = L.mapi (fun i th -> if i = t then { th with Bitmap.t_prog = prog } else th) !s.Bitmap.s_thr } in
  let continue = ref true in
  while !continue && !ok do
    (* threads that can move; idle threads get a new operation while the budget lasts, afterwards
       they free the remaining completed claims *)
    L.iteri (fun t th ->
        if th.Bitmap.t_pc = Bitmap.Idle && th.Bitmap.t_prog = [] then begin
          if !budget > 0 then begin
            let pool = !s.Bitmap.s_pool in
            if pool <> [] && Random.State.int rs 3 = 0 then
              let (_, (st0, c)) = L.nth pool (Random.State.int rs (L.length pool)) in set_prog t [Bitmap.OpFree (st0, c)]
            else set_prog t [random_op ()]
          end
          else (match !s.Bitmap.s_pool with
              | (_, (st0, c)) :: _ when t = 0 -> set_prog t [Bitmap.OpFree (st0, c)]
              | _ -> ())
        end) !s.Bitmap.s_thr;
    let movable = L.filter (fun t -> let th = L.nth !s.Bitmap.s_thr t in not (th.Bitmap.t_pc = Bitmap.Idle && th.Bitmap.t_prog = [])) (L.init nt (fun i -> i)) in
    if movable = [] then continue := false
    else begin
      (* bursts: the same thread tends to run a few steps, then another one *)
      let t = L.nth movable (Random.State.int rs (L.length movable)) in
      let th = L.nth !s.Bitmap.s_thr t in
      let pc0 = th.Bitmap.t_pc in
      (match Bitmap.stepx !s (nat_of_int t) with
       | None -> fail "a movable thread cannot step"
       | Some (s', acc) ->
         incr len; decr budget; st.steps <- st.steps + 1;
         if is_rollback_pc pc0 then st.rollback_steps <- st.rollback_steps + 1;
         (match acc with Some ((_, v), w) when is_cas_pc pc0 && v = w -> st.cas_fail <- st.cas_fail + 1 | _ -> ());
         let th' = L.nth s'.Bitmap.s_thr t in
         if L.length th'.Bitmap.t_res > L.length th.Bitmap.t_res then
           (match L.hd th'.Bitmap.t_res with
            | Bitmap.GClaimed (st0, c) -> st.claims <- st.claims + 1;
              if BinNat.N.div st0 n64 <> BinNat.N.div (BinNat.N.sub (BinNat.N.add st0 c) (n_of_int 1)) n64 then st.cross <- st.cross + 1
            | Bitmap.GClaimFailed -> st.failed <- st.failed + 1
            | Bitmap.GPurged _ -> st.purged <- st.purged + 1
            | Bitmap.GFreed a -> st.freed <- st.freed + 1; if not a then fail "unclaim_across of a completed claim reported bits not all set"
            | _ -> ());
         s := s';
         if not (Bitmap.inv_b pre s') then fail ("inv_b false after a step of thread " ^ string_of_int t))
    end;
    if !len > 20000 then (fail "run does not end"; continue := false)
  done;
  if !ok then begin
    if !s.Bitmap.s_pool <> [] then fail "completed claims left at the end"
    else if !s.Bitmap.s_bm <> pre then fail "final bitmap differs from the initial one although everything was freed"
  end;
  st.runs <- st.runs + 1; if !len > st.maxlen then st.maxlen <- !len

let schedule_tests seed runs (mismatches : int ref) =
  let rs = Random.State.make [| seed; 0xC14 |] in
  for _ = 1 to runs do one_schedule_run rs mismatches done;
  Printf.printf "SINFO runs=%d steps=%d max_schedule_len=%d claims=%d cross_field=%d failed_claims=%d rollback_steps=%d failed_cas=%d purges=%d frees=%d\n"
    st.runs st.steps st.maxlen st.claims st.cross st.failed st.rollback_steps st.cas_fail st.purged st.freed

let mode_bitmap (records : int ref) (mismatches : int ref) =
  let solo_checked = ref 0 in
  (try
     while true do
       let line = input_line stdin in
       match split_ws line with
       | "F" :: fn :: rest ->
         incr records;
         let rec split acc = function
           | "=" :: r -> (L.rev acc, r)
           | x :: r -> split (x :: acc) r
           | [] -> (L.rev acc, []) in
         let (args, res) = split [] rest in
         let (got, extra) = (try f_eval fn args with Failure m -> (["ERROR:" ^ m], None)) in
         if fn = "across" || fn = "unclaimx" then incr solo_checked;
         if got <> res then begin
           incr mismatches;
           if !mismatches <= 50 then
             Printf.printf "MISMATCH F %s %s : impl=%s model=%s\n" fn (String.concat " " args) (String.concat " " res) (String.concat " " got)
         end
         else (match extra with
             | Some m -> incr mismatches; if !mismatches <= 50 then Printf.printf "MISMATCH M %s %s : sequential=%s %s\n" fn (String.concat " " args) (String.concat " " got) m
             | None -> ())
       | ["S"; seed; runs] -> schedule_tests (int_of_string seed) (int_of_string runs) mismatches
       | _ -> ()
     done
   with End_of_file -> ());
  Printf.printf "MINFO machine_solo_checked=%d\n" !solo_checked

(* ---- schedule-lockstep replay of a real-code log ---- *)
let pc_name = function
  | Bitmap.Idle -> "Idle" | Bitmap.FLoad _ -> "FLoad" | Bitmap.FCas _ -> "FCas" | Bitmap.ALoad _ -> "ALoad"
  | Bitmap.AScan _ -> "AScan" | Bitmap.AInitLoad _ -> "AInitLoad" | Bitmap.AInitCas _ -> "AInitCas"
  | Bitmap.AMidCas _ -> "AMidCas" | Bitmap.AFinalLoad _ -> "AFinalLoad" | Bitmap.AFinalCas _ -> "AFinalCas"
  | Bitmap.ARollStore _ -> "ARollStore" | Bitmap.ARollInitLoad _ -> "ARollInitLoad" | Bitmap.ARollInitCas _ -> "ARollInitCas"
  | Bitmap.UPre _ -> "UPre" | Bitmap.UMid _ -> "UMid" | Bitmap.UPost _ -> "UPost"
  | Bitmap.PLoad _ -> "PLoad" | Bitmap.PCas _ -> "PCas" | Bitmap.PUnclaim _ -> "PUnclaim"
let all_pc_keys = ["FLoad"; "FCas.ok"; "FCas.fail"; "ALoad"; "AScan"; "AInitLoad"; "AInitCas.ok"; "AInitCas.fail"; "AMidCas.ok"; "AMidCas.fail";
                   "AFinalLoad"; "AFinalCas.ok"; "AFinalCas.fail"; "ARollStore"; "ARollInitLoad"; "ARollInitCas.ok"; "ARollInitCas.fail";
                   "UPre"; "UMid"; "UPost"; "PLoad"; "PCas.ok"; "PCas.fail"; "PUnclaim"]
let neq a b = BinNat.N.eqb a b
(* the kind of access the pc performs when the field holds v *)
let expect_kind pc v =
  let cas e = if neq v e then "C" else "F" in
  match pc with
  | Bitmap.FLoad _ | Bitmap.ALoad _ | Bitmap.AScan _ | Bitmap.AInitLoad _ | Bitmap.AFinalLoad _ | Bitmap.ARollInitLoad _ | Bitmap.PLoad _ -> "L"
  | Bitmap.FCas (_, m, _, _) -> cas m
  | Bitmap.AInitCas (_, m) | Bitmap.AFinalCas (_, m) | Bitmap.ARollInitCas (_, m) -> cas m
  | Bitmap.AMidCas _ -> cas N0
  | Bitmap.PCas (_, _, e) -> cas e
  | Bitmap.ARollStore _ -> "W"
  | Bitmap.UPre _ | Bitmap.UMid _ | Bitmap.UPost _ | Bitmap.PUnclaim _ -> "A"
  | Bitmap.Idle -> "?"
let hist_key pc kind = match kind with "C" -> pc_name pc ^ ".ok" | "F" -> pc_name pc ^ ".fail" | _ -> pc_name pc

type tinfo = { mutable call : string;            (* the open call bracket, "" = none *)
               mutable infer : bool;             (* purge operations with unknown arguments may run: `cands` is the set of possible pcs *)
               mutable infer_after : bool;       (* afree: inference starts when the OpFree has completed *)
               mutable cands : Bitmap.pc list;
               mutable last_res : Bitmap.gev option }   (* result of the definite operation of the call *)
let max_threads = 6

let mode_trace (records : int ref) (mismatches : int ref) =
  let pre = ref [] and s = ref (Bitmap.init_state [] []) and started = ref false in
  let info = Array.init max_threads (fun _ -> { call = ""; infer = false; infer_after = false; cands = []; last_res = None }) in
  let hist : (string, int) Hashtbl.t = Hashtbl.create 32 in
  let ghist : (string, int) Hashtbl.t = Hashtbl.create 16 in
  let bump h k = Hashtbl.replace h k (1 + (try Hashtbl.find h k with Not_found -> 0)) in
  let lineno = ref 0 and nsteps = ref 0 and ninv = ref 0 and nobs = ref 0 and ncalls = ref 0 and ninfer = ref 0 and maxc = ref 0 in
  let dead = ref false in         (* after the first mismatch the model state is no longer synchronised with the log *)
  let legacy_progs = Hashtbl.create 8 and legacy_sched = ref [] and legacy_maxt = ref (-1) in
  let mismatch fmt = Printf.ksprintf (fun m ->
      incr mismatches; dead := true;
      if !mismatches <= 5 then Printf.printf "MISMATCH lockstep line %d: %s\n" !lineno m) fmt in
  let thread t = L.nth !s.Bitmap.s_thr t in
  let set_thread st t f = { st with Bitmap.s_thr = L.mapi (fun i th -> if i = t then f th else th) st.Bitmap.s_thr } in
  let fields () = nlen !s.Bitmap.s_bm in
  let acting_pc st (prog, pc) = match pc, prog with
    | Bitmap.Idle, o :: _ -> let ((p, _), _) = Bitmap.enter (nlen st.Bitmap.s_bm) st.Bitmap.s_pool o in p
    | p, _ -> p in
  (* one configuration (prog, pc) of thread t takes the logged step, or cannot *)
  let try_step t (prog, pc) f kind old nw =
    let s0 = set_thread !s t (fun th -> { th with Bitmap.t_prog = prog; Bitmap.t_pc = pc }) in
    let act = acting_pc s0 (prog, pc) in
    match Bitmap.stepx s0 (nat_of_int t) with
    | Some (s', Some ((i, v), w)) when neq i f && neq v old && neq w nw && expect_kind act v = kind -> Some (s', act)
    | _ -> None in
  let describe t (prog, pc) =
    let s0 = set_thread !s t (fun th -> { th with Bitmap.t_prog = prog; Bitmap.t_pc = pc }) in
    let act = acting_pc s0 (prog, pc) in
    match Bitmap.stepx s0 (nat_of_int t) with
    | Some (_, Some ((i, v), w)) -> Printf.sprintf "the model thread is at %s: %s field %s %s -> %s" (pc_name act) (expect_kind act v) (sn i) (sn v) (sn w)
    | Some (_, None) -> Printf.sprintf "the model thread (at %s) ends its operation without an atomic access" (pc_name act)
    | None -> "the model thread is idle (no operation in progress)" in
  let check_inv what =
    incr ninv;
    if not (Bitmap.inv_b !pre !s) then mismatch "inv_b is false after %s (model bitmap %s)" what (String.concat " " (fields_str !s.Bitmap.s_bm)) in
  let op_done t =         (* the definite operation of thread t has completed *)
    let th = thread t in
    (match th.Bitmap.t_res with r :: _ -> info.(t).last_res <- Some r; bump ghist (match r with
        | Bitmap.GClaimed (st0, c) -> if BinNat.N.div st0 n64 <> BinNat.N.div (BinNat.N.sub (BinNat.N.add st0 c) (n_of_int 1)) n64 then "claimed-cross-field" else "claimed"
        | Bitmap.GClaimFailed -> "claim-failed" | Bitmap.GFreed _ -> "freed" | Bitmap.GSkipped -> "skipped"
        | Bitmap.GPurgeFailed -> "purge-failed" | Bitmap.GPurged _ -> "purged" | Bitmap.GNone -> "none") | [] -> ());
    if info.(t).infer_after then begin info.(t).infer_after <- false; info.(t).infer <- true; info.(t).cands <- [Bitmap.Idle] end in
  let on_step t f kind old nw line =
    incr nsteps;
    let ti = info.(t) in
    if ti.call = "" then mismatch "atomic access to the bitmap outside a call bracket: %s" line
    else if ti.call = "isclaimed" then begin
      incr nobs;
      if not (kind = "L" && neq old nw && neq old (Bitmap.getf !s.Bitmap.s_bm f)) then
        mismatch "observer access `%s`: the model bitmap holds %s in field %s" line (sn (Bitmap.getf !s.Bitmap.s_bm f)) (sn f)
    end
    else if ti.infer then begin
      (* purge operations with unknown arguments: every possible pc of the thread takes the step or is dropped.
         The candidates are filtered with the model's own step function (Bitmap.enter / access_field / exec, the
         parts stepx is made of); the state is advanced with stepx on the first survivor (all survivors write the
         same value and purge operations never touch the pool, so the shared state is the same for all of them) *)
      let fl = fields () in
      let v = Bitmap.getf !s.Bitmap.s_bm f in
      let before = L.concat (L.map (fun c ->
          if c = Bitmap.Idle then
            (if kind <> "L" then [] else
               L.concat (L.init 64 (fun bit -> L.filter_map (fun l ->
                   let ((p, _), _) = Bitmap.enter fl !s.Bitmap.s_pool (Bitmap.OpPurge (Bitmap.index_create f (n_of_int bit), n_of_int (l + 1))) in
                   if p = Bitmap.Idle then None else Some p) (L.init (64 - bit) (fun l -> l)))))
          else [c]) ti.cands) in
      let surv = L.filter_map (fun pc ->
          if neq (Bitmap.access_field pc) f && neq v old && expect_kind pc v = kind then
            let ((pc', w), _) = Bitmap.exec fl pc v in
            if neq (match w with Some x -> x | None -> v) nw then Some (pc, pc') else None
          else None) before in
      (match surv with
       | [] -> mismatch "no purge operation of the model can take the step `%s` (model field value %s; %d candidate pcs%s)" line (sn v) (L.length ti.cands)
                 (match ti.cands with [c] when c <> Bitmap.Idle -> "; " ^ describe t ([], c) | _ -> "")
       | (act, _) :: _ ->
         (match try_step t ([], act) f kind old nw with
          | None -> mismatch "internal: stepx disagrees with exec on `%s`" line
          | Some (s', _) ->
            bump hist (hist_key act kind); incr ninfer;
            let pcs = L.sort_uniq compare (L.map snd surv) in
            if L.length pcs > !maxc then maxc := L.length pcs;
            (match act with Bitmap.PUnclaim _ -> bump ghist "purged-inferred" | _ -> ());
            s := set_thread s' t (fun th -> { th with Bitmap.t_prog = [] });
            ti.cands <- pcs;
            check_inv ("`" ^ line ^ "`")))
    end
    else begin
      let th = thread t in
      if th.Bitmap.t_pc = Bitmap.Idle && th.Bitmap.t_prog = [] then
        mismatch "`%s`: the operation of the model thread has already completed (%s)" line
          (match ti.last_res with Some r -> string_of_gev r | None -> "no result")
      else
        (match try_step t (th.Bitmap.t_prog, th.Bitmap.t_pc) f kind old nw with
         | None -> mismatch "`%s`: %s" line (describe t (th.Bitmap.t_prog, th.Bitmap.t_pc))
         | Some (s', act) ->
           bump hist (hist_key act kind);
           s := s';
           let th' = thread t in
           if th'.Bitmap.t_pc = Bitmap.Idle && th'.Bitmap.t_prog = [] then op_done t;
           check_inv ("`" ^ line ^ "`"))
    end in
  let on_call t kind args line =
    incr ncalls; incr records;
    let ti = info.(t) in
    if ti.call <> "" then mismatch "`%s` inside the open call `%s` of the same thread" line ti.call
    else begin
      ti.call <- kind; ti.last_res <- None; ti.infer <- false; ti.infer_after <- false; ti.cands <- [];
      let th = thread t in
      if not (th.Bitmap.t_pc = Bitmap.Idle && th.Bitmap.t_prog = []) then mismatch "`%s`: the model thread is not idle" line
      else
        let setp o = s := set_thread !s t (fun th -> { th with Bitmap.t_prog = [o] }) in
        (match kind, args with
         | "claim", [a; c] -> setp (Bitmap.OpClaim (a, c))
         | "alloc", [c] -> setp (Bitmap.OpClaim (N0, c))
         | "free", [a; c] -> setp (Bitmap.OpFree (a, c))
         | "afree", [a; c] -> setp (Bitmap.OpFree (a, c)); ti.infer_after <- true
         | "purge", [a; c] -> setp (Bitmap.OpPurge (a, c))
         | "collect", _ -> ti.infer <- true; ti.cands <- [Bitmap.Idle]
         | "isclaimed", _ -> ()
         | _ -> mismatch "unknown call `%s`" line)
    end in
  let on_return t res line =
    let ti = info.(t) in
    if ti.call = "" then mismatch "`%s` without an open call" line
    else begin
      (if ti.call = "isclaimed" then ()
       else if ti.infer then begin
         if not (L.mem Bitmap.Idle ti.cands) then
           mismatch "`%s`: the call returned but the model thread is inside a purge operation (%s)" line
             (String.concat "|" (L.map pc_name ti.cands))
       end
       else begin
         (* a degenerate operation ends without an atomic access *)
         let th = thread t in
         if th.Bitmap.t_pc = Bitmap.Idle && th.Bitmap.t_prog <> [] then
           (match Bitmap.stepx !s (nat_of_int t) with
            | Some (s', None) -> s := s'; op_done t
            | _ -> mismatch "`%s`: the call returned without any atomic access but %s" line (describe t (th.Bitmap.t_prog, th.Bitmap.t_pc)));
         let th = thread t in
         if not (th.Bitmap.t_pc = Bitmap.Idle && th.Bitmap.t_prog = []) then
           mismatch "`%s`: the call returned but %s" line (describe t (th.Bitmap.t_prog, th.Bitmap.t_pc))
       end);
      (if not !dead && ti.call <> "isclaimed" && ti.call <> "collect" then
         let model = (match ti.last_res with
             | Some (Bitmap.GClaimed (st0, _)) -> ["1"; sn st0]
             | Some Bitmap.GClaimFailed -> ["0"]
             | Some (Bitmap.GFreed a) -> if ti.call = "afree" then (if a then [] else ["double-free"]) else [b a]
             | Some (Bitmap.GPurged l) -> [sn l]
             | Some Bitmap.GPurgeFailed -> ["0"]
             | Some Bitmap.GSkipped -> ["skipped"]
             | _ -> ["?"]) in
         if model <> res then mismatch "`%s` (call %s): the model's result is `%s`" line ti.call (String.concat " " model));
      ti.call <- ""; ti.infer <- false; ti.infer_after <- false; ti.cands <- [];
      s := set_thread !s t (fun th -> { th with Bitmap.t_prog = []; Bitmap.t_pc = (if !dead then th.Bitmap.t_pc else Bitmap.Idle) })
    end in
  (try
     while true do
       let line = input_line stdin in
       incr lineno;
       if not !dead then
       match split_ws line with
       | "I" :: f ->
         pre := L.map n_of_string f;
         s := Bitmap.init_state !pre (L.init max_threads (fun _ -> []));
         started := true;
         if not (Bitmap.inv_b !pre !s) then mismatch "inv_b is false on the initial bitmap"
       | ["P"; t; kind; a; c] ->
         incr records;
         let t = int_of_string t in
         if t > !legacy_maxt then legacy_maxt := t;
         let o = (match kind with
             | "claim" -> Bitmap.OpClaim (n_of_string a, n_of_string c)
             | "free" -> Bitmap.OpFree (n_of_string a, n_of_string c)
             | "purge" -> Bitmap.OpPurge (n_of_string a, n_of_string c)
             | _ -> failwith "P: claim|free|purge") in
         Hashtbl.replace legacy_progs t ((try Hashtbl.find legacy_progs t with Not_found -> []) @ [o])
       | "X" :: ts -> legacy_sched := !legacy_sched @ L.map int_of_string ts
       | "A" :: t :: kind :: args when !started && int_of_string t < max_threads -> on_call (int_of_string t) kind (L.map n_of_string args) line
       | ["S"; t; f; kind; old; nw] when !started && int_of_string t < max_threads -> on_step (int_of_string t) (n_of_string f) kind (n_of_string old) (n_of_string nw) line
       | "R" :: t :: res when !started && int_of_string t < max_threads -> on_return (int_of_string t) res line
       | "B" :: f when !started ->
         let logged = L.map n_of_string f in
         if not (Bitmap.finished !s) then mismatch "quiescence: a model thread is not idle"
         else if !s.Bitmap.s_pool <> [] then mismatch "quiescence: %d completed claims are left in the model's pool" (L.length !s.Bitmap.s_pool)
         else if !s.Bitmap.s_bm <> logged then mismatch "quiescence: logged bitmap %s, model bitmap %s" (String.concat " " f) (String.concat " " (fields_str !s.Bitmap.s_bm))
         else if !s.Bitmap.s_bm <> !pre then mismatch "quiescence: the bitmap %s differs from the initial one although every claim was freed (contradicts C14_all_freed_restores)" (String.concat " " f)
       | ("S" | "A" | "R" | "B") :: _ -> mismatch "malformed or unexpected record `%s`" line
       | _ -> ()
     done
   with End_of_file -> ());
  if !started then begin
    Printf.printf "STAT bitmap-lockstep lines=%d atomic_steps=%d inv_b_checks=%d calls=%d observer_loads=%d inferred_purge_steps=%d max_candidate_pcs=%d\n"
      !lineno !nsteps !ninv !ncalls !nobs !ninfer !maxc;
    Printf.printf "PC %s\n" (String.concat " " (L.map (fun k -> Printf.sprintf "%s=%d" k (try Hashtbl.find hist k with Not_found -> 0)) all_pc_keys));
    Printf.printf "EV %s\n" (String.concat " " (Hashtbl.fold (fun k v acc -> Printf.sprintf "%s=%d" k v :: acc) ghist []))
  end;
  if !legacy_sched <> [] then begin
    let bm = !pre in
    let s0 = Bitmap.init_state bm (L.init (!legacy_maxt + 1) (fun t -> try Hashtbl.find legacy_progs t with Not_found -> [])) in
    let nsched = L.map nat_of_int !legacy_sched in
    L.iter (fun (((t, i), v), w) -> Printf.printf "A %d %s %s %s\n" (int_of_nat t) (sn i) (sn v) (sn w)) (Bitmap.run_trace s0 nsched);
    let s = Bitmap.run_schedule s0 nsched in
    L.iteri (fun t th -> Printf.printf "R %d %s%s\n" t (String.concat " " (L.rev_map string_of_gev th.Bitmap.t_res))
                (if th.Bitmap.t_pc = Bitmap.Idle && th.Bitmap.t_prog = [] then "" else " (unfinished)")) s.Bitmap.s_thr;
    Printf.printf "B %s\n" (String.concat " " (fields_str s.Bitmap.s_bm));
    if not (Bitmap.inv_b bm s) then (incr mismatches; Printf.printf "MISMATCH trace: inv_b false at the end of the schedule\n")
  end

let () =
  Modes.register "bitmap" mode_bitmap;
  Modes.register "bitmap-trace" mode_trace
