(* Mode `abandon-lockstep` -- schedule-lockstep replay of the abandonment / adoption model (coq/Model/Abandon.v,
   extracted) against a step log of the REAL allocator (harness/s_conc.c mode `exit` with `alog`, see
   harness/s_conc_abandon.h for the log format).  For every logged access to segment->thread_id, to the segment's bit
   of arena->blocks_abandoned, to subproc->abandoned_count, to abandoned_os_lock / abandoned_os_visit_lock (acquire,
   failed try, release) the model thread must be able to take a transition whose event is exactly that access
   (same thread, same location, same old -> new value, same kind of operation for the pc); the boolean invariant
   `inv_b` is evaluated after every such step.

   What is synchronised how (every item is a decision about the step granularity; see NOTES-abandon.md):
   * thread-private steps of the model (no shared access: Vs1, Vo2, Ab4o, Fr3o, Hd0, Rc2, FrL, the start of an op) are not
     in the log: they are run lazily, immediately before the next logged access of the same thread (or at its `R`).
   * the oracle arguments of the model ops (heur, d, the vmode, which segment a cursor examines) are not in the log:
     the replay keeps the SET of model states consistent with the log so far and starts every op the context
     allows (free <s> -> OFree s rof heur; P tid -> OAbandon; and-of-a-bit by an idle thread inside malloc -> OVisitArena MTry,
     inside collect -> MAll | MCollect, inside done -> MCollect; vlock -> OVisitLock / OCursorDone; os lock with the visit lock
     held -> OVisitOs); a wrong guess dies at the next access that does not match.
   * page-level summary (g_live, g_tfree, g_flag): the model summarises the pages of a segment by three numbers and folds
     the per-page collects of mi_segment_check_free / mi_segment_reclaim into one step; under concurrent frees the real
     per-page order cannot be matched by any placement of that step.  The summary is therefore taken over from the `G`
     records (read from the real pages): g_flag := NEVER iff every used page carries MI_NEVER_DELAYED_FREE (so inv_b's
     clause `abandoned -> NEVER` is evaluated on the real flags), g_tfree := blocks on the page lists, g_live := blocks the
     program holds; immediately before Hd0 / Rc2 g_live := sum of page->used, which is exactly what the C code tests
     (`segment->used == 0` after the collects).  Checked in exchange: the model frees the segment in Rc2 iff the
     implementation frees it (`D` record before the call returns), the collect / reclaim decision of Hd0 is the store that
     follows (thread_id := me or := 0), a push goes to the page list iff the flag is not USE_DELAYED_FREE.
   * cursor pre-check: the C code loads a whole blocks_abandoned field once and then tries every set bit; the model loads
     the bit immediately before the atomic-and.  An and of a bit that is clear by now is accepted as the model's
     `load, bit clear, skip` (same effect: none).  A field load is accepted only from a thread that is between two visits
     and the set bits must be exactly the marked arena segments of that field in the model.
   * loads of thread_id by the owner or holder of the segment (mi_segment_is_abandoned in mi_segment_span_free) are not
     modelled: accepted when the value equals the model's.
   * a thread whose heap is not initialised skips _mi_segment_attempt_reclaim after the load in mi_free_block_mt: the model's
     second load (Fr2, heur = false, no effect) is then taken without a log record.
   * segment->abandoned_visits (private to the holder) is compared with the model's g_visits when the holder stores thread_id.
   * arena->abandoned_visit_lock is not in the model: ignored.  abandoned_os_list_count is not in the model either, but it is what
     the theorem C09_collect_frees_dead_abandoned_gen assumes about a cursor (as many list visits as the sub-process has entries:
     os_count <= n_os), so two implementation-side facts are checked on the log: (a) at every release of abandoned_os_lock the
     counter equals the length of the abandoned OS list printed at that release (both are only changed under the lock);
     (b) the OS-list part of every cursor of a collect (mi_collect, mi_thread_done: _mi_abandoned_reclaim_all / _mi_abandoned_collect;
     not mi_segment_try_reclaim, whose loop has other exits) is the loop of mi_arena_segment_clear_abandoned_next_list: with c0 the value
     of abandoned_os_list_count loaded by _mi_arena_field_cursor_init, the cursor takes abandoned_os_lock for a pop exactly c0 times
     unless a pop found the list empty or the max_tries of a forced _mi_abandoned_collect (the abandoned_count loaded right after the
     cursor init) were used up by the segments returned so far or the visit lock was not obtained.  (Heaps bound to one arena get
     os_list_count = 0; the harness creates none in this mode.)
   * a segment freed by its owner after the last local free (`D` for an owned segment) has no model transition: the
     segment is marked freed (owner-private, like malloc).
   Output: MISMATCH lines (with the log line number), one STAT line, HIST lines (model transitions taken, by pc). *)
open BinNums
open Util
module L = Stdlib.List
module A = Abandon

let nat_tab : (int, Datatypes.nat) Hashtbl.t = Hashtbl.create 64
let rec nat_of_int k =
  if k <= 0 then Datatypes.O else
  match Hashtbl.find_opt nat_tab k with Some x -> x | None -> let x = Datatypes.S (nat_of_int (k - 1)) in Hashtbl.replace nat_tab k x; x
let rec int_of_nat = function Datatypes.O -> 0 | Datatypes.S k -> 1 + int_of_nat k
let n = n_of_int
let i_of_n = int_of_n
let z_of_int k = z_of_string (string_of_int k)
let int_of_z = function Z0 -> 0 | Zpos p -> int_of_n (Npos p) | Zneg p -> - (int_of_n (Npos p))

type lev = { k : string; loc : string; id : int; o : int; nw : int; ids : int list }

let pc_name (pc : A.pc) (prog : A.op list) = match pc with
  | A.Idle -> (match prog with
      | A.OAbandon _ :: _ -> "Idle:OAbandon" | A.OFree _ :: _ -> "Idle:OFree" | A.OVisitArena _ :: _ -> "Idle:OVisitArena"
      | A.OVisitOs _ :: _ -> "Idle:OVisitOs" | A.OCursorDone :: _ -> "Idle:OCursorDone" | A.OVisitLock _ :: _ -> "Idle:OVisitLock" | [] -> "Idle")
  | A.Ab1 _ -> "Ab1" | A.Ab2 _ -> "Ab2" | A.Ab3 _ -> "Ab3" | A.Ab4a _ -> "Ab4a" | A.Ab4o _ -> "Ab4o" | A.Ab4p _ -> "Ab4p" | A.Ab5o _ -> "Ab5o"
  | A.Fr1 _ -> "Fr1" | A.Fr2 _ -> "Fr2" | A.Fr3 _ -> "Fr3" | A.Fr3o _ -> "Fr3o" | A.Fr3p _ -> "Fr3p" | A.Fr3q _ -> "Fr3q" | A.Fr5o _ -> "Fr5o"
  | A.Fr4 _ -> "Fr4" | A.Fr4b _ -> "Fr4b" | A.Rc1 (_, A.KFree) -> "Rc1:free" | A.Rc1 (_, A.KVisit) -> "Rc1:visit"
  | A.Rc2 (_, A.KFree) -> "Rc2:free" | A.Rc2 (_, A.KVisit) -> "Rc2:visit" | A.FrR _ -> "FrR" | A.FrL _ -> "FrL" | A.FrP _ -> "FrP"
  | A.Vs0 _ -> "Vs0" | A.Vs1 _ -> "Vs1" | A.VsR _ -> "VsR" | A.Vs2 _ -> "Vs2"
  | A.Hd0 (A.MTry, _, _) -> "Hd0:try" | A.Hd0 (A.MCollect, _, _) -> "Hd0:collect" | A.Hd0 (A.MAll, _, _) -> "Hd0:all"
  | A.Vo1 _ -> "Vo1" | A.Vo2 _ -> "Vo2" | A.Vo2c _ -> "Vo2c" | A.Vo3 _ -> "Vo3"
let all_pc_names = ["Idle:OAbandon"; "Idle:OFree"; "Idle:OVisitArena"; "Idle:OVisitOs"; "Idle:OCursorDone"; "Idle:OVisitLock";
  "Ab1"; "Ab2"; "Ab3"; "Ab4a"; "Ab4o"; "Ab4p"; "Ab5o"; "Fr1"; "Fr2"; "Fr3"; "Fr3o"; "Fr3p"; "Fr3q"; "Fr5o"; "Fr4"; "Fr4b";
  "Rc1:free"; "Rc1:visit"; "Rc2:free"; "Rc2:visit"; "FrR"; "FrL"; "FrP"; "Vs0"; "Vs1"; "VsR"; "Vs2"; "Hd0:try"; "Hd0:collect"; "Hd0:all";
  "Vo1"; "Vo2"; "Vo2c"; "Vo3"]

let spc (pc : A.pc) =
  let s x = string_of_int (int_of_nat x) in
  match pc with
  | A.Idle -> "Idle" | A.Ab1 x -> "Ab1 " ^ s x | A.Ab2 x -> "Ab2 " ^ s x | A.Ab3 x -> "Ab3 " ^ s x | A.Ab4a x -> "Ab4a " ^ s x
  | A.Ab4o x -> "Ab4o " ^ s x | A.Ab4p x -> "Ab4p " ^ s x | A.Ab5o x -> "Ab5o " ^ s x
  | A.Fr1 (x, h) -> Printf.sprintf "Fr1 %s heur=%b" (s x) h | A.Fr2 (x, h) -> Printf.sprintf "Fr2 %s heur=%b" (s x) h
  | A.Fr3 x -> "Fr3 " ^ s x | A.Fr3o x -> "Fr3o " ^ s x | A.Fr3p x -> "Fr3p " ^ s x | A.Fr3q x -> "Fr3q " ^ s x
  | A.Fr5o (x, w) -> Printf.sprintf "Fr5o %s won=%b" (s x) w | A.Fr4 x -> "Fr4 " ^ s x | A.Fr4b x -> "Fr4b " ^ s x
  | A.Rc1 (x, _) -> "Rc1 " ^ s x | A.Rc2 (x, _) -> "Rc2 " ^ s x | A.FrR x -> "FrR " ^ s x | A.FrL x -> "FrL " ^ s x | A.FrP x -> "FrP " ^ s x
  | A.Vs0 (_, x, d) -> Printf.sprintf "Vs0 %s d=%b" (s x) d | A.Vs1 (_, x, _) -> "Vs1 " ^ s x | A.VsR x -> "VsR " ^ s x | A.Vs2 (_, x, _) -> "Vs2 " ^ s x
  | A.Hd0 (_, x, d) -> Printf.sprintf "Hd0 %s d=%b" (s x) d | A.Vo1 _ -> "Vo1" | A.Vo2 _ -> "Vo2" | A.Vo2c (_, x, _) -> "Vo2c " ^ s x
  | A.Vo3 (_, Some x, _) -> "Vo3 " ^ s x | A.Vo3 (_, None, _) -> "Vo3 -"

let sseg (g : A.seg) =
  Printf.sprintf "arena=%b tid=%d bit=%b flag=%d live=%d tfree=%d visits=%d freed=%b holder=%s" g.A.g_arena (i_of_n g.A.g_tid) g.A.g_bit
    (i_of_n g.A.g_flag) (i_of_n g.A.g_live) (i_of_n g.A.g_tfree) (i_of_n g.A.g_visits) g.A.g_freed
    (match g.A.g_holder with None -> "-" | Some t -> string_of_int (int_of_nat t))

let thread (c : A.state) t = L.nth c.A.threads t
let seg_opt (c : A.state) s = L.nth_opt c.A.segs s
let upd_seg (c : A.state) s f = { c with A.segs = A.upd_nth c.A.segs (nat_of_int s) f }
let upd_thr (c : A.state) t f = { c with A.threads = A.upd_nth c.A.threads (nat_of_int t) f }
let set_prog c t prog = upd_thr c t (fun th -> { th with A.t_prog = prog })

(* ---- per-log data ---- *)
type ctx = { mutable call : string; mutable cseg : int; mutable started : bool; mutable heap_empty : bool }
type gsum = { u : int; tf : int; nv : bool; lv : int; v : int }

let lockstep records mismatches =
  let cands : (A.state * string list) list ref = ref [] in      (* model state, pcs of the transitions taken so far (latest first) *)
  let rof = ref false and nthreads = ref 0 in
  let ctxs = Array.init 16 (fun _ -> { call = ""; cseg = -1; started = false; heap_empty = false }) in
  let gtab : (int, gsum) Hashtbl.t = Hashtbl.create 64 in
  let arena_pos : (int, int * int) Hashtbl.t = Hashtbl.create 64 in      (* segment -> (arena, block index) *)
  let dead : (int, unit) Hashtbl.t = Hashtbl.create 64 in
  let fresh : (int, unit) Hashtbl.t = Hashtbl.create 64 in             (* registered, no G record yet *)
  let hist : (string, int) Hashtbl.t = Hashtbl.create 64 in
  let lineno = ref 0 and steps = ref 0 and inv_checked = ref 0 and maxset = ref 1 and reported = ref 0 in
  let skipped_loads = ref 0 and stale_ands = ref 0 and stutter = ref 0 and owner_frees = ref 0 and field_loads = ref 0 and ignored = ref 0 in
  let model_steps = ref 0 and truncated = ref 0 and visits_bad = ref 0 in
  let stopped = ref false in
  let curline = ref "" in
  (* the OS-list part of a cursor, per thread (see the header): c0 = os_list_count at the cursor init, m = max_tries when loaded *)
  let cur_active = Array.make 16 false and cur_c0 = Array.make 16 0 and cur_m = Array.make 16 (-1) and cur_await_m = Array.make 16 false in
  let cur_pops = Array.make 16 0 and cur_ret = Array.make 16 0 and cur_vlock = Array.make 16 false and cur_empty = Array.make 16 false in
  let cur_inpop = Array.make 16 false and cur_popped = Array.make 16 false and cur_unknown = Array.make 16 false in
  let oscount_now : (int, int) Hashtbl.t = Hashtbl.create 4 in
  let cursors_checked = ref 0 and cursor_pops = ref 0 in
  let describe (c : A.state) (segs : int list) =
    let segs = L.sort_uniq compare segs in
    let b = Buffer.create 256 in
    L.iteri (fun t th -> Buffer.add_string b (Printf.sprintf "    T%d pc=%s vlock=%b\n" t (spc th.A.t_pc) th.A.t_vlock)) c.A.threads;
    L.iter (fun s -> match seg_opt c s with Some g -> Buffer.add_string b (Printf.sprintf "    S%d %s marked=%b\n" s (sseg g) (A.marked c (nat_of_int s))) | None -> ()) segs;
    Buffer.add_string b (Printf.sprintf "    os_list=[%s] count=%d locks=%d vlocks=%d\n" (String.concat " " (L.map (fun x -> string_of_int (int_of_nat x)) c.A.os_list))
      (int_of_z (A.get_count c.A.acount N0)) (L.length c.A.os_lock) (L.length c.A.os_vlock));
    Buffer.contents b in
  let fail ?(segs = []) msg =
    incr mismatches; incr reported; stopped := true;
    if !reported <= 5 then begin
      Printf.printf "MISMATCH abandon-lockstep line %d (%s): %s\n" !lineno !curline msg;
      (match !cands with (c, _) :: _ -> Printf.printf "  one model state before the line:\n%s" (describe c segs) | [] -> ())
    end in
  let bump name = Hashtbl.replace hist name (1 + (try Hashtbl.find hist name with Not_found -> 0)) in
  (* candidates carry the list of pcs executed since the last commit *)
  let dedupe (l : (A.state * string list) list) =
    let l = L.sort_uniq (fun (a, _) (b, _) -> compare a b) l in
    if L.length l > 2048 then (incr truncated; L.filteri (fun k _ -> k < 2048) l) else l in
  let commit (l : (A.state * string list) list) =
    (if Sys.getenv_opt "VERIF_AB_SETDBG" <> None && L.length l >= 256 && L.length l > 2 * L.length !cands then begin
       Printf.printf "# set %d -> %d at line %d (%s)\n" (L.length !cands) (L.length l) !lineno !curline;
       (match L.rev !cands with (c, _) :: (c2, _) :: _ ->
          L.iteri (fun t th -> Printf.printf "#   T%d %s | %s\n" t (spc th.A.t_pc) (spc (thread c2 t).A.t_pc)) c.A.threads;
          L.iteri (fun k g -> match seg_opt c2 k with Some g2 when g2 <> g -> Printf.printf "#   S%d %s\n#      %s\n" k (sseg g) (sseg g2) | _ -> ()) c.A.segs;
          if c.A.acount <> c2.A.acount then Printf.printf "#   acount differs\n";
          if c.A.os_list <> c2.A.os_list then Printf.printf "#   os_list differs\n";
          if c.A.threads <> c2.A.threads then Printf.printf "#   threads differ\n"
        | _ -> ()) end);
    cands := l;
    if L.length l > !maxset then maxset := L.length l in
  let mapc f = cands := L.map (fun (c, p) -> (f c, p)) !cands in
  let filterc f = L.filter (fun (c, _) -> f c) !cands in
  let gsync (c : A.state) s (g : gsum) =
    upd_seg c s (fun sg -> { sg with A.g_live = n g.lv; A.g_tfree = n g.tf; A.g_flag = (if g.nv then A.coq_NEVER else A.coq_USE) }) in
  (* before a step that reads the page-level summary *)
  let presync (c : A.state) (pc : A.pc) (prog : A.op list) =
    match pc, prog with
    | (A.Hd0 (_, s, _) | A.Rc2 (s, _)), _ ->
      let s = int_of_nat s in
      (match Hashtbl.find_opt gtab s with Some g -> upd_seg c s (fun sg -> { sg with A.g_live = n g.u; A.g_tfree = N0 }) | None -> c)
    | A.Idle, A.OFree (s, _, _) :: _ ->
      let s = int_of_nat s in
      upd_seg c s (fun sg -> if sg.A.g_live = N0 then { sg with A.g_live = n 1 } else sg)
    | _ -> c in
  let visible (pc : A.pc) (evs : A.event list) =
    L.filter (fun (((_, loc), _), _) -> match loc with
      | A.LTid _ | A.LTidPlain _ | A.LBit _ | A.LCount _ | A.LLock _ | A.LVLock _ -> true
      | A.LTfree _ | A.LFlag _ -> (match pc with A.FrP _ -> true | _ -> false)
      | _ -> false) evs in
  let kind_ok (pc : A.pc) (prog : A.op list) (e : lev) = match e.loc, e.k, pc with
    | "tid", "L", (A.Idle | A.Fr1 _ | A.Fr2 _ | A.FrR _) -> true
    | "tid", "W", (A.Ab2 _ | A.Fr3q _ | A.Fr4b _ | A.Rc1 _) -> true
    | "tid", "P", A.Ab1 _ -> true
    | "bit", "A", (A.Fr3 _ | A.Vs0 _) -> true
    | "bit", "O", (A.Ab3 _ | A.VsR _) -> true
    | "count", "+", (A.Ab4a _ | A.Ab4p _) -> true
    | "count", "-", (A.Fr3p _ | A.Fr4 _ | A.Vs2 _ | A.Vo2c _) -> true
    | "lock", "B", (A.Ab3 _ | A.Vo1 _) -> true
    | "lock", "K", A.Fr3 _ -> true
    | "lock", "U", (A.Ab5o _ | A.Fr5o _ | A.Vo3 _) -> true
    | "vlock", "K", A.Idle -> (match prog with (A.OVisitLock false | A.OVisitOs (_, _, false)) :: _ -> true | _ -> false)
    | "vlock", "B", A.Idle -> (match prog with (A.OVisitLock true | A.OVisitOs (_, _, true)) :: _ -> true | _ -> false)
    | "vlock", "U", A.Idle -> (match prog with A.OCursorDone :: _ -> true | _ -> false)
    | ("push" | "delayed"), _, A.FrP _ -> true
    | _ -> false in
  let value_ok (mev : A.event) (e : lev) =
    let (((_, loc), o), nw) = mev in
    let o = int_of_z o and nw = int_of_z nw in
    match loc, e.loc with
    | A.LTid s, "tid" -> e.k <> "P" && int_of_nat s = e.id && o = e.o && nw = e.nw
    | A.LTidPlain s, "tid" -> e.k = "P" && int_of_nat s = e.id && o = e.o && nw = e.nw
    | A.LBit s, "bit" -> int_of_nat s = e.id && o = e.o && nw = e.nw
    | A.LCount sp, "count" -> i_of_n sp = e.id && o = e.o && nw = e.nw
    | A.LLock sp, "lock" -> i_of_n sp = e.id && o = e.o && nw = e.nw
    | A.LVLock sp, "vlock" -> i_of_n sp = e.id && o = e.o && nw = e.nw
    | A.LTfree s, "push" -> int_of_nat s = e.id && nw = o + 1
    | A.LFlag s, "delayed" -> int_of_nat s = e.id
    | _ -> false in
  let visit_modes t = match ctxs.(t).call with
    | "malloc" -> [A.MTry] | "collect" -> [A.MAll; A.MCollect] | "done" -> [A.MCollect] | _ -> [] in
  let start_ops (c : A.state) t (e : lev) : A.op list =
    let cx = ctxs.(t) in
    match e.loc, e.k with
    | "tid", "L" when cx.call = "free" && cx.cseg = e.id && not cx.started ->
      [A.OFree (nat_of_int e.id, !rof, true); A.OFree (nat_of_int e.id, !rof, false)]
    | "tid", "P" -> [A.OAbandon (nat_of_int e.id)]
    | "bit", "A" -> L.concat_map (fun m -> [A.OVisitArena (m, nat_of_int e.id, true); A.OVisitArena (m, nat_of_int e.id, false)]) (visit_modes t)
    | "vlock", "K" when visit_modes t <> [] -> [A.OVisitLock false]
    | "vlock", "B" when visit_modes t <> [] -> [A.OVisitLock true]
    | "vlock", "U" -> [A.OCursorDone]
    | "lock", "B" when (thread c t).A.t_vlock -> L.concat_map (fun m -> [A.OVisitOs (m, true, false); A.OVisitOs (m, false, false)]) (visit_modes t)
    | _ -> [] in
  (* run thread t: thread-private steps, then one step whose event is the logged access *)
  let rec fire depth (c : A.state) (path : string list) t (e : lev) : (A.state * string list) list =
    if depth > 24 then [] else
    let th = thread c t in
    match th.A.t_pc, th.A.t_prog with
    | A.Idle, [] -> L.concat_map (fun op -> fire_step depth (set_prog c t [op]) path t e) (start_ops c t e)
    | _ -> fire_step depth c path t e
  and fire_step depth c path t e =
    let th = thread c t in
    let pc = th.A.t_pc and prog = th.A.t_prog in
    let c = presync c pc prog in
    let c = match pc, e.loc with
      | A.FrP s, "push" when int_of_nat s = e.id -> upd_seg c e.id (fun sg -> { sg with A.g_flag = n e.o })
      | A.FrP s, "delayed" when int_of_nat s = e.id -> upd_seg c e.id (fun sg -> { sg with A.g_flag = A.coq_USE })
      | _ -> c in
    let th = thread c t in
    (* segment->abandoned_visits is private to the holder: compared when the holder stores thread_id *)
    let visits_ok = match pc with
      | A.Ab2 s | A.Rc1 (s, _) | A.Fr4b s | A.Fr3q s when e.loc = "tid" && e.k = "W" ->
        (match seg_opt c (int_of_nat s), Hashtbl.find_opt gtab (int_of_nat s) with
         | Some sg, Some g -> if i_of_n sg.A.g_visits = g.v then true else (incr visits_bad; false)
         | _ -> true)
      | _ -> true in
    if not visits_ok then [] else
    match A.exec c (nat_of_int t) th with
    | None -> []
    | Some o ->
      let c' = A.apply_outcome c (nat_of_int t) o in
      let path' = pc_name pc prog :: path in
      (match pc, prog with
       | A.Idle, A.OVisitArena (_, s, _) :: _ ->
         (* the bit pre-check: the C code uses the field value loaded before; see the header *)
         (match o.A.o_pc with
          | A.Vs0 _ -> fire (depth + 1) c' path' t e
          | _ -> if e.loc = "bit" && e.k = "A" && e.id = int_of_nat s && e.o = 0 && e.nw = 0 then (incr stale_ands; [(c', path')]) else [])
       | _ ->
         (match visible pc o.A.o_ev with
          | [] -> fire (depth + 1) c' path' t e
          | [mev] ->
            if kind_ok pc prog e && value_ok mev e then [(c', path')]
            else (match pc with
                | A.Fr2 (_, false) when ctxs.(t).heap_empty -> incr stutter; fire (depth + 1) c' path' t e
                | _ -> [])
          | _ -> [])) in
  (* run thread t to the end of its call without any logged access *)
  let rec settle depth (c : A.state) (path : string list) t : (A.state * string list) list =
    let th = thread c t in
    match th.A.t_pc, th.A.t_prog with
    | A.Idle, [] -> [(c, path)]
    | pc, prog ->
      if depth > 24 then [] else
      let c = presync c pc prog in
      let th = thread c t in
      (match A.exec c (nat_of_int t) th with
       | None -> []
       | Some o ->
         let vis = visible pc o.A.o_ev in
         let c' = A.apply_outcome c (nat_of_int t) o in
         if vis = [] then settle (depth + 1) c' (pc_name pc prog :: path) t
         else (match pc with
             | A.Fr2 (_, false) when ctxs.(t).heap_empty -> incr stutter; settle (depth + 1) c' (pc_name pc prog :: path) t
             | _ -> [])) in
  let check_inv what segs =
    incr inv_checked;
    let good = filterc A.inv_b in
    if good = [] then begin
      (match !cands with
       | (c, _) :: _ ->
         let bad_s = L.filteri (fun _ x -> x) (L.mapi (fun k g -> not (A.seg_inv_b c (nat_of_int k) g)) c.A.segs) |> L.length in
         let bs = L.concat (L.mapi (fun k g -> if A.seg_inv_b c (nat_of_int k) g then [] else [k]) c.A.segs) in
         let bt = L.concat (L.mapi (fun k th -> if A.thr_inv_b c (nat_of_int k) th then [] else [k]) c.A.threads) in
         ignore bad_s;
         fail ~segs:(bs @ segs) (Printf.sprintf "inv_b fails after %s in every candidate state (segment clauses: [%s], thread clauses: [%s], list clause: %b)" what
                 (String.concat " " (L.map string_of_int bs)) (String.concat " " (L.map string_of_int bt)) (A.list_inv_b c))
       | [] -> ())
    end else cands := good in
  let freed_ok (c : A.state) = L.for_all (fun x -> x) (L.mapi (fun k g -> (not g.A.g_freed) || Hashtbl.mem dead k) c.A.segs) in
  let parse_ids l = L.map (fun x -> if x = "?" then -1 else int_of_string x) l in
  let cursor_end t =
    if t < 16 && cur_active.(t) then begin
      cur_active.(t) <- false;
      let call = ctxs.(t).call in
      if (call = "collect" || call = "done") && cur_vlock.(t) && not cur_unknown.(t) then begin
        incr cursors_checked; cursor_pops := !cursor_pops + cur_pops.(t);
        let tries_left = cur_m.(t) < 0 || cur_ret.(t) < cur_m.(t) in
        if cur_pops.(t) < cur_c0.(t) && (not cur_empty.(t)) && tries_left then
          fail (Printf.sprintf "the cursor of thread %d (call: %s) stopped after %d of %d visits of the abandoned OS list (abandoned_os_list_count at the cursor init) although no pop found the list empty and %s"
                  t call cur_pops.(t) cur_c0.(t)
                  (if cur_m.(t) < 0 then "the loop has no try limit" else Printf.sprintf "only %d of max_tries = %d segments had been returned" cur_ret.(t) cur_m.(t)))
      end
    end in
  (* called for every S record BEFORE the model moves *)
  let cursor_track t k loc id o nw ids =
    if t < 16 then begin
      let was_await = cur_await_m.(t) in
      cur_await_m.(t) <- false;
      (match loc, k with
       | "oscount", "L" ->
         cursor_end t;
         cur_active.(t) <- true; cur_c0.(t) <- o; cur_m.(t) <- (-1); cur_await_m.(t) <- true; cur_pops.(t) <- 0; cur_ret.(t) <- 0;
         cur_vlock.(t) <- false; cur_empty.(t) <- false; cur_inpop.(t) <- false; cur_popped.(t) <- false; cur_unknown.(t) <- false
       | "count", "L" when was_await && cur_active.(t) -> cur_m.(t) <- o
       | "count", "-" when cur_active.(t) -> cur_ret.(t) <- cur_ret.(t) + 1
       | "vlock", ("K" | "B") when cur_active.(t) && o = 0 -> cur_vlock.(t) <- true
       | "vlock", "U" -> cursor_end t
       | "lock", "B" when cur_active.(t) && cur_vlock.(t) ->
         (* a pop of the cursor (Vo1 / a new OVisitOs) or the push of _mi_arena_segment_mark_abandoned (Ab3)? *)
         let kinds = L.sort_uniq compare (L.map (fun ((c : A.state), _) ->
             let th = thread c t in
             match th.A.t_pc, th.A.t_prog with
             | A.Vo1 _, _ | A.Idle, [] -> 1
             | A.Ab3 _, _ -> 2
             | _ -> 3) !cands) in
         (match kinds with
          | [1] -> cur_pops.(t) <- cur_pops.(t) + 1; cur_inpop.(t) <- true; cur_popped.(t) <- false
          | [2] -> ()
          | _ -> cur_unknown.(t) <- true)
       | "oscount", "-" when cur_inpop.(t) -> cur_popped.(t) <- true
       | "lock", "U" when cur_inpop.(t) -> if not cur_popped.(t) then cur_empty.(t) <- true; cur_inpop.(t) <- false
       | _ -> ());
      (* the counter itself *)
      (match loc, k with
       | "oscount", ("+" | "-") -> Hashtbl.replace oscount_now id nw
       | "oscount", "L" -> Hashtbl.replace oscount_now id o
       | "lock", "U" ->
         (match Hashtbl.find_opt oscount_now id with
          | Some v when v <> L.length ids ->
            fail (Printf.sprintf "abandoned_os_list_count of sub-process %d is %d but the abandoned OS list has %d entries at the release of abandoned_os_lock" id v (L.length ids))
          | _ -> ())
       | _ -> ())
    end in
  (try
    while true do
      let line = input_line stdin in
      incr lineno; curline := line;
      if not !stopped then
      match split_ws line with
      | "H" :: r :: nt :: sps ->
        incr records;
        rof := (r <> "0"); nthreads := int_of_string nt;
        let sp_of t = match L.nth_opt sps t with Some x -> n (int_of_string x) | None -> N0 in
        cands := [(A.mk_state [] [] [] (L.init !nthreads (fun t -> (sp_of t, []))), [])]
      | "N" :: s :: arena :: tid :: marked :: rest ->
        incr records;
        let s = int_of_string s and arena = arena = "1" and tid = int_of_string tid and marked = marked = "1" in
        let sp = match rest with [_; _; sp] -> int_of_string sp | _ -> 0 in
        (match rest with a :: b :: _ -> Hashtbl.replace arena_pos s (int_of_string a, int_of_string b) | _ -> ());
        Hashtbl.replace fresh s ();
        let g = { A.g_arena = arena; g_subproc = n sp; g_tid = n tid; g_bit = arena && marked; g_flag = (if tid = 0 then A.coq_NEVER else A.coq_USE);
                  g_live = n 1; g_tfree = N0; g_delayed = N0; g_visits = (if tid = 0 then n 1 else N0); g_freed = false; g_holder = None } in
        if L.exists (fun (c, _) -> L.length c.A.segs <> s) !cands then fail "segment numbers are not consecutive"
        else begin
          mapc (fun c -> { c with A.segs = c.A.segs @ [g]; A.os_list = (if (not arena) && marked then c.A.os_list @ [nat_of_int s] else c.A.os_list) });
          check_inv "the registration of a segment" [s]
        end
      | ["G"; s; u; tf; nv; lv; v] ->
        let s = int_of_string s in
        let g = { u = int_of_string u; tf = int_of_string tf; nv = (nv = "1"); lv = int_of_string lv; v = int_of_string v } in
        Hashtbl.replace gtab s g;
        if Hashtbl.mem fresh s then begin
          Hashtbl.remove fresh s;
          mapc (fun c -> upd_seg c s (fun sg -> { sg with A.g_visits = n g.v }))
        end;
        mapc (fun c -> gsync c s g)
      | "A" :: t :: call :: rest ->
        incr records;
        let t = int_of_string t in
        let cx = ctxs.(t) in
        cx.call <- call; cx.started <- false; cx.cseg <- -1; cx.heap_empty <- false;
        (match call, rest with
         | "free", s :: he -> cx.cseg <- int_of_string s; cx.heap_empty <- (he = ["1"])
         | _ -> ());
        let next = dedupe (L.concat_map (fun (c, p) -> settle 0 c p t) !cands) in
        if next = [] then fail (Printf.sprintf "thread %d starts a call but the model thread is not idle" t) else commit next
      | ["R"; t] ->
        incr records;
        let t = int_of_string t in
        cursor_end t;
        let cx = ctxs.(t) in
        if cx.call = "free" && not cx.started then fail (Printf.sprintf "mi_free of thread %d returned without a load of thread_id" t)
        else begin
          let next = dedupe (L.concat_map (fun (c, p) -> settle 0 c p t) !cands) in
          if next = [] then fail (Printf.sprintf "the call of thread %d returned but the model thread still has shared accesses to perform" t)
          else begin
            let ok = L.filter (fun (c, _) -> freed_ok c) next in
            if ok = [] then begin
              let c = fst (L.hd next) in
              let bs = L.concat (L.mapi (fun k g -> if g.A.g_freed && not (Hashtbl.mem dead k) then [k] else []) c.A.segs) in
              cands := [(c, [])];
              fail ~segs:bs (Printf.sprintf "the model frees segment %s in mi_segment_reclaim (no used page left) but the implementation has not freed it when the call returns"
                               (String.concat "," (L.map string_of_int bs)))
            end else begin commit ok; check_inv "the return of a call" [] end
          end
        end;
        cx.call <- ""
      | ["D"; t; s] ->
        incr records;
        let t = int_of_string t and s = int_of_string s in
        Hashtbl.replace dead s ();
        let one ((c, p0) : A.state * string list) : (A.state * string list) list =
          let th = thread c t in
          match th.A.t_pc with
          | A.Rc2 (s', _) when int_of_nat s' = s ->
            let c0 = upd_seg c s (fun sg -> { sg with A.g_live = N0; A.g_tfree = N0 }) in
            (match A.exec c0 (nat_of_int t) (thread c0 t) with
             | Some o -> let c' = A.apply_outcome c0 (nat_of_int t) o in
               (match seg_opt c' s with Some g when g.A.g_freed -> [(c', pc_name th.A.t_pc th.A.t_prog :: p0)] | _ -> [])
             | None -> [])
          | _ ->
            (* thread-private steps first (a pending local free), then: already freed by the model, or an owner-private free *)
            L.concat_map (fun (c1, path) ->
              match seg_opt c1 s with
              | Some g when g.A.g_freed -> [(c1, path)]
              | Some g when i_of_n g.A.g_tid = t + 1 && g.A.g_holder = None ->
                incr owner_frees;
                [(upd_seg c1 s (fun sg -> { sg with A.g_freed = true }), path)]
              | _ -> [])
              ((c, p0) :: (match th.A.t_pc with A.FrL _ | A.Rc2 _ -> settle 0 c p0 t | _ -> [])) in
        (* the page-level summary of a freed segment is dead data: canonical values, so that candidates do not differ in it *)
        let canon ((c, p) : A.state * string list) =
          (upd_seg c s (fun sg -> if sg.A.g_freed && sg.A.g_tid <> N0 then { sg with A.g_live = N0; A.g_tfree = N0; A.g_delayed = N0; A.g_visits = N0; A.g_flag = A.coq_USE } else sg), p) in
        let next = dedupe (L.map canon (L.concat_map one !cands)) in
        if next = [] then fail ~segs:[s] (Printf.sprintf "segment %d is freed by thread %d, but in the model it is neither owned by that thread nor being reclaimed by it" s t)
        else begin commit next; check_inv "the free of a segment" [s] end
      | "X" :: _ -> incr records; fail "the harness could not attribute an access to a modelled location"
      | "T" :: t :: what :: s :: rest ->
        incr records; incr steps;
        let t = int_of_string t and s = int_of_string s in
        let flag = match rest with f :: _ -> int_of_string f | [] -> 0 in
        let e = { k = "C"; loc = what; id = s; o = flag; nw = flag; ids = [] } in
        let next = dedupe (L.concat_map (fun (c, p) -> fire 0 c p t e) !cands) in
        if next = [] then fail ~segs:[s] (Printf.sprintf "the model thread %d cannot put a block of segment %d on the %s at this point" t s (if what = "push" then "page thread-free list" else "heap delayed list (DELAYED_FREEING)"))
        else begin commit next; check_inv "a block push" [s] end
      | "S" :: t :: k :: loc :: id :: o :: "->" :: nw :: rest ->
        incr records; incr steps;
        let t = int_of_string t in
        let ids = match rest with ":" :: l -> parse_ids l | _ -> [] in
        (match int_of_string_opt id, int_of_string_opt o, int_of_string_opt nw with
         | Some idn, Some on, Some nwn -> cursor_track t k loc idn on nwn ids
         | _ -> ());
        if not !stopped then
        (match loc with
         | "oscount" | "alock" -> incr ignored
         | "field" ->
           incr field_loads;
           (* a cursor between two visits; the set bits are the marked arena segments of that field *)
           let (a, f) = match String.split_on_char '.' id with [a; f] -> (int_of_string a, int_of_string f) | _ -> (0, 0) in
           if visit_modes t = [] then fail (Printf.sprintf "thread %d loads a blocks_abandoned field outside a cursor (call: %s)" t ctxs.(t).call)
           else begin
             let next = dedupe (L.concat_map (fun (c, p) -> settle 0 c p t) !cands) in
             let next = L.filter (fun (c, _) ->
                 let model = L.concat (L.mapi (fun s g ->
                     match Hashtbl.find_opt arena_pos s with
                     | Some (a', b) when a' = a && b / 64 = f && g.A.g_arena && g.A.g_bit && not g.A.g_freed -> [s]
                     | _ -> []) c.A.segs) in
                 L.sort compare model = L.sort compare ids) next in
             if next = [] then fail ~segs:(L.filter (fun x -> x >= 0) ids) (Printf.sprintf "field load by thread %d: the thread is not between two cursor visits, or the set bits [%s] differ from the model's marked segments of that field"
                                      t (String.concat " " (L.map string_of_int ids)))
             else commit next
           end
         | "count" when k = "L" ->
           let v = int_of_string o in
           if visit_modes t = [] then fail (Printf.sprintf "thread %d loads abandoned_count outside a cursor (call: %s)" t ctxs.(t).call)
           else begin
             let sp = n (int_of_string id) in
             let next = filterc (fun c -> int_of_z (A.get_count c.A.acount sp) = v) in
             if next = [] then fail (Printf.sprintf "abandoned_count is %d in the implementation and %s in the model" v
                                       (match !cands with (c, _) :: _ -> string_of_int (int_of_z (A.get_count c.A.acount sp)) | [] -> "?"))
             else cands := next
           end
         | _ ->
           let e = { k; loc; id = (if loc = "tid" || loc = "bit" then int_of_string id else int_of_string id); o = int_of_string o; nw = int_of_string nw; ids } in
           let fired = L.concat_map (fun (c, p) -> fire 0 c p t e) !cands in
           (* a load of thread_id by the owner / holder that the model does not make *)
           let first_of_free = ctxs.(t).call = "free" && ctxs.(t).cseg = e.id && not ctxs.(t).started in
           let skipped =
             if loc = "tid" && k = "L" && not first_of_free then
               L.concat_map (fun (c, p) -> match seg_opt c e.id with
                   | Some g when (not g.A.g_freed) && i_of_n g.A.g_tid = e.o && (i_of_n g.A.g_tid = t + 1 || g.A.g_holder = Some (nat_of_int t)) -> [(c, p)]
                   | _ -> []) !cands
             else [] in
           if fired = [] && skipped <> [] then incr skipped_loads;
           if loc = "tid" && k = "L" && ctxs.(t).call = "free" && ctxs.(t).cseg = e.id && fired <> [] then ctxs.(t).started <- true;
           let next = dedupe (fired @ skipped) in
           if next = [] then fail ~segs:[e.id] (Printf.sprintf "the model thread %d (call: %s) cannot perform this access%s" t ctxs.(t).call
                                                  (if !visits_bad > 0 then " (or segment->abandoned_visits differs from the model's g_visits)" else ""))
           else begin
             commit next;
             (match loc, k, rest with
              | "lock", "U", _ ->
                (* the abandoned OS list at the release *)
                let mine (c : A.state) = L.filter (fun x -> i_of_n (A.subproc_of c (nat_of_int x)) = e.id) (L.map int_of_nat c.A.os_list) in
                let ok = filterc (fun c -> mine c = ids) in
                if ok = [] then fail (Printf.sprintf "abandoned_os_list is [%s] in the implementation and [%s] in the model" (String.concat " " (L.map string_of_int ids))
                                        (match !cands with (c, _) :: _ -> String.concat " " (L.map (fun x -> string_of_int (int_of_nat x)) c.A.os_list) | [] -> "?"))
                else cands := ok
              | _ -> ());
             if not !stopped then check_inv "the access" [e.id]
           end)
      | _ -> ()
    done
  with End_of_file -> ());
  if not !stopped && !cands <> [] then begin
    (* end of the scheduled part: every thread is between calls *)
    curline := "end of log";
    let fin = filterc (fun c -> A.quiescent c && L.for_all (fun th -> th.A.t_prog = []) c.A.threads) in
    if fin = [] then fail "at the end of the log a model thread is inside a call or holds a lock"
    else begin
      let ok = L.filter (fun (c, _) -> A.count_ok_b c [N0; n 1]) fin in
      if ok = [] then fail (Printf.sprintf "at quiescence abandoned_count (%d) differs from the number of marked segments"
                              (int_of_z (A.get_count (fst (L.hd fin)).A.acount N0)));
      if not (L.exists (fun (c, _) -> freed_ok c) fin) then fail "a segment freed in the model is still allocated in the implementation"
    end
  end;
  (if Sys.getenv_opt "VERIF_AB_SETDBG" <> None then match !cands with
     | (c, _) :: rest ->
       L.iteri (fun j (c2, _) -> if j < 6 then begin
         L.iteri (fun k g -> match seg_opt c2 k with Some g2 when g2 <> g -> Printf.printf "# final cand %d: S%d %s\n#      %s\n" (j + 1) k (sseg g) (sseg g2) | _ -> ()) c.A.segs;
         if c.A.threads <> c2.A.threads then Printf.printf "# final cand %d: threads differ\n" (j + 1) end) rest
     | [] -> ());
  (match !cands with (_, path) :: _ -> L.iter (fun p -> bump p; incr model_steps) path | [] -> ());
  Printf.printf "STAT abandon-lockstep lines=%d atomic_steps=%d inv_b_checks=%d model_steps=%d max_state_set=%d final_state_set=%d segments=%d freed=%d skipped_owner_loads=%d stale_ands=%d stutter_loads=%d owner_frees=%d field_loads=%d ignored=%d truncated=%d collect_cursors_checked=%d os_list_pops=%d\n"
    !lineno !steps !inv_checked !model_steps !maxset (L.length !cands) (match !cands with (c, _) :: _ -> L.length c.A.segs | [] -> 0) (Hashtbl.length dead)
    !skipped_loads !stale_ands !stutter !owner_frees !field_loads !ignored !truncated !cursors_checked !cursor_pops;
  Printf.printf "HIST %s\n" (String.concat " " (L.map (fun nm -> Printf.sprintf "%s=%d" nm (try Hashtbl.find hist nm with Not_found -> 0)) all_pc_names))

let () = Modes.register "abandon-lockstep" lockstep
