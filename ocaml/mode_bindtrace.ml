(* Mode `bind-trace`: op-level trace tie of coq/Model/Bind.v (property C15) with the real allocator.

   Input: the output of harness/t_bind.c.  After every API call the harness dumps the projection of the real state that the
   model has (arenas; per live thread the list tld->heaps; per segment memid, owner, abandoned_visits, its pages with heap /
   tag / live blocks / slice count and its free spans).  For every call the driver
     (a) abstracts the dump to a Bind.state (`alpha`) and evaluates the model's boolean invariants bound_inv_b and placed_inv_b
         and the slice accounting on it;
     (b) explains the transition: starting from alpha(previous dump) it applies Bind.step operations that the API call is
         allowed to perform (the heap arguments are those of the call; the choices -- visit lists, oracle of the arena claim,
         which spans coalesce -- are reconstructed from the two dumps) and compares the resulting Bind.state with
         alpha(this dump): arenas, per-thread heap lists, and per segment (keyed by address) memid, size, owner, visits,
         huge, the multiset of pages (heap, tag, live?, slices) and the multiset of free-span sizes must all be equal;
     (c) prints `MISMATCH trace <scenario> step=<n> ...` for the first call of a scenario that no sequence of model
         operations explains (and counts the others), `INV <scenario> step=<n> <which> ...` when an invariant is false on a
         dumped state, `KNOWN <scenario> step=<n> reclaim-by-tag ...` when bound_inv_b is broken by a transition that the model
         explains with an adopting heap that is not tag_safe_b (known finding impl:reclaim-by-tag-exclusive: the model
         reproduces it), and `RET ...` when a returned pointer does not lie in a live page of the heap that was asked.
   One `STAT trace ...` line per scenario. *)
open BinNums
open Util
module L = Stdlib.List
module IM = Map.Make(Int)
module B = Bind

type rspan = RH of int | RP of int * int * int * int * int * int (* idx cnt heap tag live bsize *) | RF of int * int
type rseg = { addr : int; isarena : bool; aid : int; excl : bool; size : int; owner : int; visits : int; huge : bool;
              total : int; spans : rspan list }
type rheap = { ptr : int; harena : int; htag : int; backing : bool; norecl : bool }
type rarena = { id : int; aexcl : bool; start : int; blocks : int; large : bool; numa : int }
type rstate = { arenas : rarena list; heaps : rheap list IM.t; segs : rseg IM.t }
let empty_state = { arenas = []; heaps = IM.empty; segs = IM.empty }

exception Explain_fail of string
let failf fmt = Printf.ksprintf (fun s -> raise (Explain_fail s)) fmt

let n_i = n_of_int
let z_i (i : int) : coq_Z = z_of_string (string_of_int i)
let i_n = int_of_n
let i_z (z : coq_Z) : int = int_of_string (string_of_z z)
let big_int = 2305843009213693952                        (* 2^61: above every address / pointer *)
let big_id : coq_N = n_i big_int
let is_fresh_id (n : coq_N) = i_n n >= big_int

(* ------------------------------------------------------------------ parsing *)
let ios = int_of_string
let parse_span (s : string) : rspan =
  match String.split_on_char ':' s with
  | ["h"; c] -> RH (ios c)
  | ["p"; i; c; h; t; l; b] -> RP (ios i, ios c, ios h, ios t, ios l, ios b)
  | ["f"; i; c] -> RF (ios i, ios c)
  | _ -> failwith ("bad span " ^ s)
let parse_seg (f : string list) : rseg =
  match f with
  | addr :: kind :: aid :: excl :: size :: owner :: visits :: huge :: total :: _n :: spans ->
    { addr = ios addr; isarena = (kind = "a"); aid = ios aid; excl = (excl = "1"); size = ios size; owner = ios owner;
      visits = ios visits; huge = (huge = "1"); total = ios total; spans = L.map parse_span spans }
  | _ -> failwith "bad S record"
let parse_heap (s : string) : rheap =
  match String.split_on_char ':' s with
  | [p; a; t; b; n] -> { ptr = ios p; harena = ios a; htag = ios t; backing = (b = "1"); norecl = (n = "1") }
  | _ -> failwith ("bad heap " ^ s)

(* ------------------------------------------------------------------ abstraction *)
let pages_of (s : rseg) = L.filter_map (function RP (i, c, h, t, l, b) -> Some (i, c, h, t, l, b) | _ -> None) s.spans
let frees_of (s : rseg) = L.filter_map (function RF (i, c) -> Some (i, c) | _ -> None) s.spans
let header_of (s : rseg) = L.fold_left (fun acc sp -> match sp with RH c -> acc + c | _ -> acc) 0 s.spans

let heap_rec tid (h : rheap) : B.heap =
  { B.h_id = n_i h.ptr; h_thread = n_i tid; h_arena = z_i h.harena; h_tag = n_i h.htag; h_backing = h.backing }
let find_rheap (st : rstate) (ptr : int) : (int * rheap) option =
  IM.fold (fun tid hs acc -> match acc with Some _ -> acc | None ->
    (match L.find_opt (fun h -> h.ptr = ptr) hs with Some h -> Some (tid, h) | None -> None)) st.heaps None
let memid_of (s : rseg) : B.memid = if s.isarena then B.MemArena (z_i s.aid, s.excl) else B.MemOther

(* alpha is computed per segment and cached: a segment that did not change between two dumps is the same OCaml value in
   both abstract states (and, when no operation touches it, in the model state after the operations) *)
let seg_cache : (int, rseg * rheap list IM.t * B.segment) Hashtbl.t = Hashtbl.create 256
let heaps_cache : (rheap list IM.t * B.heap list) option ref = ref None
let arenas_cache : (rarena list * B.arena list) option ref = ref None
let alpha (st : rstate) : B.state =
  let arenas = (match !arenas_cache with
      | Some (k, v) when k == st.arenas -> v
      | _ -> let v = L.map (fun a -> { B.a_id = z_i a.id; a_excl = a.aexcl; a_start = n_i a.start; a_blocks = n_i a.blocks;
                                       a_large = a.large; a_numa = z_i a.numa }) st.arenas in
        arenas_cache := Some (st.arenas, v); v) in
  let heaps = (match !heaps_cache with
      | Some (k, v) when k == st.heaps -> v
      | _ -> let v = IM.fold (fun tid hs acc -> acc @ L.map (heap_rec tid) hs) st.heaps [] in heaps_cache := Some (st.heaps, v); v) in
  let seg0 (s : rseg) : B.segment =
    let page (_, c, h, t, l, _) : B.page =
      let ph = if h = 0 then None else
          (match find_rheap st h with Some (tid, r) -> Some (heap_rec tid r)
                                    | None -> failf "segment %d: a page belongs to heap %d which is not a live heap" s.addr h) in
      { B.p_heap = ph; p_tag = n_i t; p_used = (l > 0); p_slices = n_i c } in
    { B.s_id = n_i s.addr; s_memid = memid_of s; s_addr = n_i s.addr; s_size = n_i s.size; s_owner = n_i s.owner;
      s_visits = n_i s.visits; s_huge = s.huge; s_pages = L.map page (pages_of s); s_free = L.map (fun (_, c) -> n_i c) (frees_of s) } in
  let seg (s : rseg) : B.segment =
    match Hashtbl.find_opt seg_cache s.addr with
    | Some (k, hk, v) when k == s && hk == st.heaps -> v
    | _ -> let v = seg0 s in Hashtbl.replace seg_cache s.addr (s, st.heaps, v); v in
  { B.st_arenas = arenas; st_heaps = heaps; st_segs = L.map (fun (_, s) -> seg s) (IM.bindings st.segs); st_next = big_id }

(* canonical form: what is compared *)
type cpage = int * int * bool * int
type cseg = { c_addr : int; c_memid : string; c_size : int; c_owner : int; c_visits : int; c_huge : bool; c_pages : cpage list; c_free : int list }
type canon = { k_arenas : (int * bool * int * int * bool * int) list; k_heaps : (int * (int * int * int * bool) list) list; k_segs : cseg list }
let string_of_memid = function B.MemOther -> "other" | B.MemArena (id, ex) -> Printf.sprintf "arena %s%s" (string_of_z id) (if ex then " exclusive" else "")
let canon (m : B.state) : canon =
  let arenas = L.map (fun a -> (i_z a.B.a_id, a.B.a_excl, i_n a.B.a_start, i_n a.B.a_blocks, a.B.a_large, i_z a.B.a_numa)) m.B.st_arenas in
  let tids = L.sort_uniq compare (L.map (fun h -> i_n h.B.h_thread) m.B.st_heaps) in
  let heaps = L.map (fun t -> (t, L.filter_map (fun h -> if i_n h.B.h_thread = t then Some (i_n h.B.h_id, i_z h.B.h_arena, i_n h.B.h_tag, h.B.h_backing) else None) m.B.st_heaps)) tids in
  let seg (s : B.segment) =
    { c_addr = i_n s.B.s_addr; c_memid = string_of_memid s.B.s_memid; c_size = i_n s.B.s_size; c_owner = i_n s.B.s_owner; c_visits = i_n s.B.s_visits;
      c_huge = s.B.s_huge;
      c_pages = L.sort compare (L.map (fun p -> ((match p.B.p_heap with Some h -> i_n h.B.h_id | None -> 0), i_n p.B.p_tag, p.B.p_used, i_n p.B.p_slices)) s.B.s_pages);
      c_free = L.sort compare (L.map i_n s.B.s_free) } in
  { k_arenas = arenas; k_heaps = heaps; k_segs = L.sort (fun x y -> compare x.c_addr y.c_addr) (L.map seg m.B.st_segs) }

let string_of_cseg (s : cseg) =
  Printf.sprintf "seg %d %s size=%d owner=%d visits=%d huge=%b pages=[%s] free=[%s]" s.c_addr s.c_memid s.c_size s.c_owner s.c_visits s.c_huge
    (String.concat ";" (L.map (fun (h, t, u, c) -> Printf.sprintf "(heap %d tag %d %s %d)" h t (if u then "live" else "dead") c) s.c_pages))
    (String.concat ";" (L.map string_of_int s.c_free))

let cseg_of (s : B.segment) : cseg =
  { c_addr = i_n s.B.s_addr; c_memid = string_of_memid s.B.s_memid; c_size = i_n s.B.s_size; c_owner = i_n s.B.s_owner; c_visits = i_n s.B.s_visits;
    c_huge = s.B.s_huge;
    c_pages = L.sort compare (L.map (fun p -> ((match p.B.p_heap with Some h -> i_n h.B.h_id | None -> 0), i_n p.B.p_tag, p.B.p_used, i_n p.B.p_slices)) s.B.s_pages);
    c_free = L.sort compare (L.map i_n s.B.s_free) }

(* the states without their segments, and the segments that are not physically shared *)
let diff_states (model : B.state) (real : B.state) : (canon * canon) =
  let tbl = Hashtbl.create 64 in
  L.iter (fun s -> Hashtbl.replace tbl (i_n s.B.s_addr) s) real.B.st_segs;
  let ms = ref [] and rs = ref [] in
  L.iter (fun s -> let a = i_n s.B.s_addr in
           match Hashtbl.find_opt tbl a with
           | Some r when r == s -> Hashtbl.remove tbl a
           | Some r -> Hashtbl.remove tbl a; ms := s :: !ms; rs := r :: !rs
           | None -> ms := s :: !ms) model.B.st_segs;
  Hashtbl.iter (fun _ r -> rs := r :: !rs) tbl;
  (canon { model with B.st_segs = !ms }, canon { real with B.st_segs = !rs })

let diff_canon (model : canon) (real : canon) : string option =
  if model = real then None else
  if model.k_arenas <> real.k_arenas then Some (Printf.sprintf "arena tables differ (model %d arenas, real %d)" (L.length model.k_arenas) (L.length real.k_arenas)) else
  if model.k_heaps <> real.k_heaps then
    Some (Printf.sprintf "heap lists differ: model {%s} real {%s}"
            (String.concat " | " (L.map (fun (t, hs) -> Printf.sprintf "t%d:%s" t (String.concat "," (L.map (fun (i, a, g, b) -> Printf.sprintf "%d/a%d/t%d%s" i a g (if b then "/B" else "")) hs))) model.k_heaps))
            (String.concat " | " (L.map (fun (t, hs) -> Printf.sprintf "t%d:%s" t (String.concat "," (L.map (fun (i, a, g, b) -> Printf.sprintf "%d/a%d/t%d%s" i a g (if b then "/B" else "")) hs))) real.k_heaps)))
  else begin
    let find l a = L.find_opt (fun s -> s.c_addr = a) l in
    let addrs = L.sort_uniq compare (L.map (fun s -> s.c_addr) (model.k_segs @ real.k_segs)) in
    let rec go = function
      | [] -> Some "states differ"
      | a :: rest ->
        (match find model.k_segs a, find real.k_segs a with
         | Some x, Some y when x = y -> go rest
         | Some x, Some y ->
           let rec msub l1 l2 = (match l1 with [] -> [] | e :: t -> if L.mem e l2 then msub t (let rec rm = function [] -> [] | z :: r -> if z = e then r else z :: rm r in rm l2) else e :: msub t l2) in
           let sp l = String.concat ";" (L.map (fun (h, t, u, c) -> Printf.sprintf "(heap %d tag %d %s %d)" h t (if u then "live" else "dead") c) l) in
           let si l = String.concat ";" (L.map string_of_int l) in
           Some (Printf.sprintf "segment %d (%s, real owner %d visits %d): model owner=%d visits=%d size=%d huge=%b / real owner=%d visits=%d size=%d huge=%b; pages only in the model [%s] only in the dump [%s]; free spans only in the model [%s] only in the dump [%s]"
                   x.c_addr y.c_memid y.c_owner y.c_visits x.c_owner x.c_visits x.c_size x.c_huge y.c_owner y.c_visits y.c_size y.c_huge
                   (sp (msub x.c_pages y.c_pages)) (sp (msub y.c_pages x.c_pages)) (si (msub x.c_free y.c_free)) (si (msub y.c_free x.c_free)))
         | Some x, None -> Some (Printf.sprintf "model keeps %s ;; real: the segment is gone" (string_of_cseg x))
         | None, Some y -> Some (Printf.sprintf "model has no segment at %d ;; real: %s" a (string_of_cseg y))
         | None, None -> go rest) in
    go addrs
  end

(* ------------------------------------------------------------------ the explainer *)
type call = { step : int; tid : int; name : string; args : string list; res : string list }

type ctx = { mutable m : B.state; mutable ops : string list; a : rstate; b : rstate; c : call;
             mutable adopters : int list (* heaps that adopted in this call *);
             changed : int list (* addresses of the segments that differ between the two dumps *);
             mutable fresh : (int * (int * int * int * int * int * int)) list (* (segment, page of this dump) created by span reuse in this call *);
             mutable fresh_segs : int list (* segments allocated in this call (their address may have been that of a segment freed in the same call) *) }

let changed_addrs (a : rstate) (b : rstate) : int list =
  let l = ref [] in
  ignore (IM.merge (fun addr x y -> (match x, y with
      | Some sx, Some sy when sx == sy -> ()
      | _ -> l := addr :: !l); None) a.segs b.segs);
  L.rev !l
let iter_changed_a (x : ctx) (f : int -> rseg -> unit) : unit =
  L.iter (fun addr -> match IM.find_opt addr x.a.segs with Some s -> f addr s | None -> ()) x.changed
let iter_changed_b (x : ctx) (f : int -> rseg -> unit) : unit =
  L.iter (fun addr -> match IM.find_opt addr x.b.segs with Some s -> f addr s | None -> ()) x.changed

let string_of_op (o : B.op) : string =
  let n = string_of_n and z = string_of_z in
  match o with
  | B.OManage (s, sz, ex, lg, nu) -> Printf.sprintf "OManage %s %s %b %b %s" (n s) (n sz) ex lg (z nu)
  | B.OHeapNew (t, a, g) -> Printf.sprintf "OHeapNew %s %s %s" (n t) (z a) (n g)
  | B.OHeapDelete (h, v) -> Printf.sprintf "OHeapDelete %s [%s]" (n h) (String.concat ";" (L.map n v))
  | B.OSpanReuse (h, need, s, k) -> Printf.sprintf "OSpanReuse %s %s %s %s" (n h) (n need) (n s) (n k)
  | B.OSegmentAlloc (_, h, huge, size, _, _, slices, _, _) -> Printf.sprintf "OSegmentAlloc %s huge=%b size=%s slices=%s" (n h) huge (n size) (n slices)
  | B.OPageFree (s, k) -> Printf.sprintf "OPageFree %s %s" (n s) (n k)
  | B.OPageAbandon (s, k) -> Printf.sprintf "OPageAbandon %s %s" (n s) (n k)
  | B.OAbandon s -> "OAbandon " ^ n s
  | B.OBlockFree (s, k) -> Printf.sprintf "OBlockFree %s %s" (n s) (n k)
  | B.OThreadDone (t, v) -> Printf.sprintf "OThreadDone %s [%s]" (n t) (String.concat ";" (L.map n v))
  | B.OAttemptReclaim (h, s, a, b) -> Printf.sprintf "OAttemptReclaim %s %s %b %b" (n h) (n s) a b
  | B.OTryReclaim (h, v) -> Printf.sprintf "OTryReclaim %s [%s]" (n h) (String.concat ";" (L.map (fun (s, hp) -> Printf.sprintf "%s,%b" (n s) hp) v))
  | B.OReclaimAll h -> "OReclaimAll " ^ n h
  | B.OCollect (h, v) -> Printf.sprintf "OCollect %s [%s]" (n h) (String.concat ";" (L.map n v))
  | B.OCoalesce (s, i, j) -> Printf.sprintf "OCoalesce %s %s %s" (n s) (n i) (n j)
  | B.OBlockAlloc (h, s, k) -> Printf.sprintf "OBlockAlloc %s %s %s" (n h) (n s) (n k)

let apply (x : ctx) (o : B.op) : unit =
  x.ops <- string_of_op o :: x.ops;
  x.m <- B.step x.m o

let mseg (x : ctx) (addr : int) : B.segment option = L.find_opt (fun s -> i_n s.B.s_addr = addr) x.m.B.st_segs
let mseg_exn x addr = match mseg x addr with Some s -> s | None -> failf "the model has no segment at %d" addr
let index_where (p : 'a -> bool) (l : 'a list) : int option =
  let rec go i = function [] -> None | y :: t -> if p y then Some i else go (i + 1) t in go 0 l

(* a model page that looks like the real page (heap, tag, live?, slices) *)
let page_pred (h, t, live, c) (p : B.page) : bool =
  (match p.B.p_heap with Some hp -> i_n hp.B.h_id = h | None -> h = 0) && i_n p.B.p_tag = t && p.B.p_used = live && i_n p.B.p_slices = c

let rpage_key (_, c, h, t, l, _) = (h, t, l > 0, c)
let same_pos (i, c, _, _, _, _) (i', c', _, _, _, _) = i = i' && c = c'
let aseg (x : ctx) addr = if L.mem addr x.fresh_segs then None else IM.find_opt addr x.a.segs
let bseg (x : ctx) addr = IM.find_opt addr x.b.segs
let counterpart (so : rseg option) pg = match so with None -> None | Some s -> L.find_opt (same_pos pg) (pages_of s)

let heaps_of_tid (st : rstate) tid = match IM.find_opt tid st.heaps with Some l -> l | None -> []
let backing_of (st : rstate) tid = L.find_opt (fun h -> h.backing) (heaps_of_tid st tid)

(* OPageFree of the real page `pg` (a page of the previous dump) of segment addr, when the model still has such a page *)
let free_page (x : ctx) (addr : int) (key : int * int * bool * int) : bool =
  match mseg x addr with
  | None -> false
  | Some s ->
    if i_n s.B.s_owner = 0 then false else
    (match index_where (page_pred key) s.B.s_pages with
     | Some k -> apply x (B.OPageFree (s.B.s_id, n_i k)); true
     | None -> false)

(* pages of the previous dump in segments owned by `tid` that are gone (no page at the same position) in this dump and
   satisfy `ok`: OPageFree each.  `live_now` tells the liveness the model page has at this point. *)
let free_gone_pages (x : ctx) (tid : int) (ok : int * int * int * int * int * int -> bool) (live_of : int * int * int * int * int * int -> bool) : unit =
  iter_changed_a x (fun addr (sa : rseg) ->
    match mseg x addr with
    | Some ms when i_n ms.B.s_owner = tid ->
      L.iter (fun pg ->
        if counterpart (bseg x addr) pg = None && ok pg then begin
          let (_, c, h, t, _, _) = pg in
          ignore (free_page x addr (h, t, live_of pg, c))
        end) (pages_of sa)
    | _ -> ())

(* pages at the same position in both dumps whose liveness changed *)
let block_changes (x : ctx) (want_free : bool) (ok : int -> int * int * int * int * int * int -> bool) (f : B.segment -> int -> int * int * int * int * int * int -> unit) : unit =
  iter_changed_a x (fun addr (sa : rseg) ->
    L.iter (fun pg ->
      let (_, c, _, _, l, _) = pg in
      match counterpart (bseg x addr) pg with
      | Some (_, _, hb, tb, lb, _) when (if want_free then l > 0 && lb = 0 else l = 0 && lb > 0) && ok addr pg ->
        (match mseg x addr with
         | Some ms ->
           (* the model page: its heap may have changed by an adoption / absorb in this call: look for the new heap first *)
           let keys = [(hb, tb, l > 0, c); (let (_, _, h, t, _, _) = pg in (h, t, l > 0, c))] in
           let rec try_keys = function
             | [] -> ()
             | k :: rest -> (match index_where (page_pred k) ms.B.s_pages with Some i -> f ms i pg | None -> try_keys rest) in
           try_keys keys
         | None -> ())
      | _ -> ()) (pages_of sa))

(* ---- coalescing (geometry of the two dumps decides which entries merge) ---- *)
let merge_values (x : ctx) (addr : int) (vals : int list) : unit =
  match vals with
  | [] | [_] -> ()
  | v0 :: rest ->
    ignore (L.fold_left (fun acc v ->
      let s = mseg_exn x addr in
      let fr = L.map i_n s.B.s_free in
      let i = (match index_where (fun y -> y = acc) fr with Some i -> i | None -> failf "coalesce in %d: the model has no free span of %d slices (free: %s)" addr acc (String.concat "," (L.map string_of_int fr))) in
      let j = (let rec go k = function [] -> None | y :: t -> if y = v && k <> i then Some k else go (k + 1) t in go 0 fr) in
      (match j with
       | Some j -> apply x (B.OCoalesce (s.B.s_id, n_i i, n_i j))
       | None -> failf "coalesce in %d: the model has no second free span of %d slices (free: %s)" addr v (String.concat "," (L.map string_of_int fr)));
      acc + v) v0 rest)

(* the items of the previous dump (free spans, pages) that tile the region [lo, hi) of segment addr *)
let items_inside (sa : rseg) (lo : int) (hi : int) : int list =
  L.filter_map (function
    | RF (i, c) when i >= lo && i + c <= hi -> Some c
    | RP (i, c, _, _, _, _) when i >= lo && i + c <= hi -> Some c
    | _ -> None) sa.spans

let new_pages_of (x : ctx) (addr : int) : (int * int * int * int * int * int) list =
  L.filter_map (fun (a, pg) -> if a = addr then Some pg else None) x.fresh

let rec msub l1 l2 = (match l1 with [] -> [] | e :: t -> if L.mem e l2 then msub t (let rec rm = function [] -> [] | z :: r -> if z = e then r else z :: rm r in rm l2) else e :: msub t l2)
let mkeys (ms : B.segment) = L.map (fun (p : B.page) -> ((match p.B.p_heap with Some h -> i_n h.B.h_id | None -> 0), i_n p.B.p_tag, p.B.p_used, i_n p.B.p_slices)) ms.B.s_pages

(* after the frees and adoptions of an allocating call: the pages of this dump that the model does not have yet.  A live page
   (heap, tag, slices) for which the model has an all-free page of the same heap / tag / slices is that page with a block
   allocated from it (OBlockAlloc); every other one is a fresh page made by span reuse. *)
let find_fresh (x : ctx) (hp : int) : unit =
  iter_changed_b x (fun addr (sb : rseg) ->
    match mseg x addr with
    | Some ms when not sb.huge ->
      let bk = L.map rpage_key (pages_of sb) and mk = mkeys ms in
      let surplus = msub bk mk and lack = ref (msub mk bk) in
      let used = ref [] in
      L.iter (fun (h, t, live, c) ->
        if live && L.mem (h, t, false, c) !lack then begin
          lack := msub !lack [(h, t, false, c)];
          (match index_where (page_pred (h, t, false, c)) (mseg_exn x addr).B.s_pages with
           | Some i -> apply x (B.OBlockAlloc (n_i hp, ms.B.s_id, n_i i))
           | None -> ())
        end else begin
          (* the page of this dump with that key: first one without a page at the same position in the previous dump, then one
             whose predecessor at that position was another page *)
          let cands = L.filter (fun pg -> rpage_key pg = (h, t, live, c) && not (L.memq pg !used)) (pages_of sb) in
          let score pg = (match counterpart (aseg x addr) pg with None -> 0 | Some q -> if rpage_key q = rpage_key pg then 2 else 1) in
          (match L.sort (fun p q -> compare (score p) (score q)) cands with
           | pg :: _ -> used := pg :: !used; x.fresh <- x.fresh @ [(addr, pg)]
           | [] -> ())
        end) surplus
    | _ -> ())

(* the final coalescing of a call: every free span of this dump that is not the remainder of a fresh page *)
let coalesce_all (x : ctx) : unit =
  iter_changed_b x (fun addr (sb : rseg) ->
    match aseg x addr, mseg x addr with
    | Some sa, Some _ when not sb.huge ->
      let fresh = new_pages_of x addr in
      L.iter (fun (i, c) ->
        if not (L.exists (fun (pi, pc, _, _, _, _) -> pi + pc = i) fresh) then
          merge_values x addr (items_inside sa i (i + c))) (frees_of sb)
    | _ -> ())

(* ---- span reuse for the fresh pages of heap `hp` (after the frees / adoptions / fresh segment of the call) ---- *)
let span_reuse_fresh (x : ctx) (hp : int) : unit =
  iter_changed_b x (fun addr (sb : rseg) ->
    if not sb.huge then
      L.iter (fun (pi, pc, h, _, _, _) ->
        if h <> hp then failf "a fresh page at slice %d of segment %d belongs to heap %d, the call allocates for heap %d" pi addr h hp;
        let rem = (match L.find_opt (fun (i, _) -> i = pi + pc) (frees_of sb) with Some (_, c) -> c | None -> 0) in
        let region = pc + rem in
        (match aseg x addr with
         | Some sa -> merge_values x addr (items_inside sa pi (pi + region))
         | None -> ());
        let s = mseg_exn x addr in
        (match index_where (fun y -> i_n y = region) s.B.s_free with
         | Some k -> apply x (B.OSpanReuse (n_i hp, n_i pc, s.B.s_id, n_i k))
         | None -> failf "span reuse in %d: the model has no free span of %d slices" addr region)) (new_pages_of x addr))

(* ---- fresh segments ---- *)
let opts_of (k : (string * int) list) : B.alloc_opts =
  let g n = (try L.assoc n k <> 0 with Not_found -> false) in
  { B.opt_disallow_arena_alloc = g "disallow_arena_alloc"; opt_disallow_os_alloc = g "disallow_os_alloc" }

let fresh_segments (x : ctx) (consts : (string * int) list) (hp : int) : unit =
  iter_changed_b x (fun addr (sb : rseg) ->
    if mseg x addr = None then begin
      x.fresh_segs <- addr :: x.fresh_segs;
      let narenas_before = L.length x.m.B.st_arenas in
      let new_arenas = L.filteri (fun i _ -> i >= narenas_before) x.b.arenas in
      let room, os =
        if sb.isarena then begin
          match L.find_opt (fun a -> a.id = sb.aid) x.b.arenas with
          | Some ar ->
            let bidx = (sb.addr - ar.start) / 33554432 in
            let idx = sb.aid - 1 in
            ((fun (i : coq_N) -> if i_n i = idx then Some (n_i bidx) else None), None)
          | None -> failf "fresh segment %d: its arena %d is not in the arena table" addr sb.aid
        end else ((fun _ -> None), Some (n_i sb.addr)) in
      let reserve = (match new_arenas with
          | [] -> None
          | ar :: _ -> Some ((n_i ar.start, n_i (ar.blocks * 33554432)), ar.large)) in
      let o = { B.o_room = room; o_reserve = reserve; o_os = os; o_numa = z_i 0 } in
      let hdr = header_of sb in
      let slices = (if sb.huge then (match pages_of sb with [(_, c, _, _, _, _)] -> c | _ -> failf "huge segment %d without exactly one page" addr) else sb.total - hdr) in
      apply x (B.OSegmentAlloc (opts_of consts, n_i hp, sb.huge, n_i sb.size, n_i 33554432, n_i 0, n_i slices, false, o));
      (* the fresh model segment carries the id st_next: give it the address as id, as alpha does *)
      x.m <- { x.m with B.st_segs = L.map (fun s -> if is_fresh_id s.B.s_id then { s with B.s_id = n_i addr } else s) x.m.B.st_segs }
    end)

(* ---- adoption ---- *)
type fate = Freed | Reclaimed | Left of int | Other
let fate_of (x : ctx) (ms : B.segment) : fate =
  match bseg x (i_n ms.B.s_addr) with
  | None -> Freed
  | Some sb -> if sb.owner = x.c.tid then Reclaimed else if sb.owner = 0 then Left (sb.visits - i_n ms.B.s_visits) else Other

let seg_changed (x : ctx) (ms : B.segment) : bool =
  match bseg x (i_n ms.B.s_addr) with
  | None -> true
  | Some sb ->
    let cm = L.sort compare (L.map (fun p -> ((match p.B.p_heap with Some h -> i_n h.B.h_id | None -> 0), i_n p.B.p_tag, p.B.p_used, i_n p.B.p_slices)) ms.B.s_pages) in
    let cb = L.sort compare (L.map rpage_key (pages_of sb)) in
    cm <> cb

let try_reclaim_rounds (x : ctx) (hp : int) : unit =
  let rounds = ref 0 in
  let continue = ref true in
  while !continue && !rounds < 4 do
    incr rounds;
    let abandoned = L.filter (fun s -> i_n s.B.s_owner = 0) x.m.B.st_segs in
    let left = L.filter (fun s -> match fate_of x s with Left d -> d > 0 | _ -> false) abandoned in
    let freed = L.filter (fun s -> fate_of x s = Freed) abandoned in
    let recl = L.filter (fun s -> fate_of x s = Reclaimed) abandoned in
    let by_visits, by_page = L.partition (fun s -> i_n s.B.s_visits + 1 > 3) recl in
    let last = (match by_page with [] -> [] | s :: _ -> [(s.B.s_id, true)]) in
    let visits = L.map (fun s -> (s.B.s_id, false)) (freed @ left @ by_visits) @ last in
    if visits = [] then continue := false
    else begin
      x.adopters <- hp :: x.adopters;
      apply x (B.OTryReclaim (n_i hp, visits))
    end
  done

let collect_candidates (x : ctx) : coq_N list =
  let abandoned = L.filter (fun s -> i_n s.B.s_owner = 0) x.m.B.st_segs in
  L.map (fun s -> s.B.s_id) (L.filter (fun s -> match fate_of x s with Freed -> true | Left 0 -> seg_changed x s | _ -> false) abandoned)
let collect_visits (x : ctx) (hp : int) : unit =
  let v = collect_candidates x in
  if v <> [] then apply x (B.OCollect (n_i hp, v))

(* ---- the scripts ---- *)
let rename_new_heap (x : ctx) (ptr : int) : unit =
  x.m <- { x.m with B.st_heaps = L.map (fun h -> if is_fresh_id h.B.h_id then { h with B.h_id = n_i ptr } else h) x.m.B.st_heaps }

let malloc_script (x : ctx) consts (hp : int) : unit =
  let tid = x.c.tid in
  (* retired / delayed-free pages of the heap that are freed on the way (and on the out-of-memory path: mi_heap_collect) *)
  free_gone_pages x tid (fun (_, _, h, _, l, _) -> h = hp && l = 0) (fun _ -> false);
  (* a huge segment whose block was freed by another thread is freed on the way (delayed free), and the fresh huge segment of
     this call may get the same address *)
  iter_changed_a x (fun addr (sa : rseg) ->
    if sa.huge && sa.owner = tid then
      match pages_of sa, bseg x addr with
      | [(_, c, h, t, 0, _)], Some sb when h = hp && sb.huge && L.exists (fun (_, _, _, _, lb, _) -> lb > 0) (pages_of sb) ->
        ignore (free_page x addr (h, t, false, c))
      | _ -> ());
  try_reclaim_rounds x hp;
  collect_visits x hp;
  fresh_segments x consts hp;
  find_fresh x hp;
  span_reuse_fresh x hp;
  coalesce_all x

(* the block `(seg, slice)` is freed by thread tid: its page loses a live block, may be freed *)
let local_free_effects (x : ctx) (seg : int) (slice : int) : unit =
  let tid = x.c.tid in
  let at (i, c, _, _, _, _) = i <= slice && slice < i + c in
  (match aseg x seg with
   | Some sa ->
     (match L.find_opt at (pages_of sa) with
      | Some pg ->
        let (_, c, h, t, l, _) = pg in
        let cp = counterpart (bseg x seg) pg in
        let dies = (match cp with Some (_, _, _, _, lb, _) -> l > 0 && lb = 0 | None -> l > 0) in
        if dies then
          (match mseg x seg with
           | Some ms ->
             (* after an adoption in this call the page has its new heap: find it by tag / slices / liveness *)
             let heap_is hb (p : B.page) = (match p.B.p_heap with Some hp -> i_n hp.B.h_id = hb | None -> hb = 0) in
             let base (p : B.page) = i_n p.B.p_tag = t && p.B.p_used && i_n p.B.p_slices = c in
             let cands = (match cp with
                 | Some (_, _, hb, tb, _, _) -> [(fun p -> base p && heap_is hb p);
                                                 (* an adopted page takes the tag of the heap it goes to *)
                                                 (fun p -> i_n p.B.p_tag = tb && p.B.p_used && i_n p.B.p_slices = c && heap_is hb p)]
                 | None -> if h <> 0 then [(fun p -> base p && heap_is h p)]
                   else [(fun p -> base p && heap_is 0 p); base;
                         (* an adopted page without a heap of its tag takes the tag of the adopting heap *)
                         (fun p -> p.B.p_used && i_n p.B.p_slices = c)]) in
             let rec first = function
               | [] -> ()
               | f :: rest -> (match index_where f ms.B.s_pages with Some i -> apply x (B.OBlockFree (ms.B.s_id, n_i i)) | None -> first rest) in
             first cands
           | None -> ());
        if cp = None then
          (match mseg x seg with
           | Some ms when i_n ms.B.s_owner = tid ->
             let f1 = (fun (p : B.page) -> i_n p.B.p_tag = t && not p.B.p_used && i_n p.B.p_slices = c &&
                                           (h = 0 || (match p.B.p_heap with Some hp -> i_n hp.B.h_id = h | None -> false))) in
             let f2 = (fun (p : B.page) -> h = 0 && not p.B.p_used && i_n p.B.p_slices = c) in
             (match index_where f1 ms.B.s_pages with
              | Some i -> apply x (B.OPageFree (ms.B.s_id, n_i i))
              | None -> (match index_where f2 ms.B.s_pages with Some i -> apply x (B.OPageFree (ms.B.s_id, n_i i)) | None -> ()))
           | _ -> ())
      | None -> ())
   | None -> ())

let free_script (x : ctx) (seg : int) (slice : int) (def : int) (rof : bool) : unit =
  let tid = x.c.tid in
  (match mseg x seg with
   | Some ms when i_n ms.B.s_owner = 0 && rof ->      (* mi_option_abandoned_reclaim_on_free *)
     (match bseg x seg with
      | None -> x.adopters <- def :: x.adopters; apply x (B.OAttemptReclaim (n_i def, ms.B.s_id, true, true))
      | Some sb when sb.owner = tid -> x.adopters <- def :: x.adopters; apply x (B.OAttemptReclaim (n_i def, ms.B.s_id, true, true))
      | _ -> ())
   | _ -> ());
  local_free_effects x seg slice;
  coalesce_all x

let is_main tid = (tid = 1)

let collect_script (x : ctx) (force : bool) (def : int) : unit =
  let tid = x.c.tid in
  (match find_rheap x.a def with
   | Some (_, h) -> if force && is_main tid && h.backing && not h.norecl then begin x.adopters <- def :: x.adopters; apply x (B.OReclaimAll (n_i def)) end
   | None -> failf "collect: the default heap %d is not live" def);
  (* all-free pages of the default heap are freed (a page reclaimed above belongs to the heap now: look at the model) *)
  iter_changed_a x (fun addr (sa : rseg) ->
    L.iter (fun pg ->
      let (_, c, h, t, l, _) = pg in
      if counterpart (bseg x addr) pg = None && l = 0 && h = def then ignore (free_page x addr (h, t, false, c))) (pages_of sa));
  collect_visits x def;
  coalesce_all x

let compatible (b : rheap) (h : rheap) = b.ptr <> h.ptr && b.htag = h.htag && b.harena = h.harena

let delete_script (x : ctx) (hp : int) (hseg : int) (hslice : int) (destroy : bool) : unit =
  let tid = x.c.tid in
  let h = (match find_rheap x.a hp with Some (t, h) when t = tid -> h | _ -> failf "heap_delete: %d is not a live heap of thread %d" hp tid) in
  let b = (match backing_of x.a tid with Some b -> b | None -> failf "thread %d has no backing heap" tid) in
  if destroy && h.norecl then begin
    (* mi_heap_destroy: every page of the heap is freed *)
    iter_changed_a x (fun addr (sa : rseg) ->
      L.iter (fun (_, c, ph, t, l, _) -> if ph = hp then ignore (free_page x addr (ph, t, l > 0, c))) (pages_of sa))
  end else if compatible b h then
    free_gone_pages x tid (fun (_, _, ph, _, l, _) -> ph = hp && l = 0) (fun _ -> false)
  else ();
  let visits = (if compatible b h then [] else begin
      let saved = x.m in
      x.m <- B.step x.m (B.OHeapDelete (n_i hp, []));
      let v = collect_candidates x in
      x.m <- saved; v end) in
  apply x (B.OHeapDelete (n_i hp, visits));
  (* mi_heap_free: mi_free(heap), a local free in a page of the backing heap *)
  local_free_effects x hseg hslice;
  coalesce_all x

let exit_script (x : ctx) consts : unit =
  let tid = x.c.tid in
  let b = (match backing_of x.a tid with Some b -> b | None -> failf "thread %d has no backing heap" tid) in
  let hb = (try L.assoc "heap_bsize" consts with Not_found -> 0) in
  let nheaps = L.length (heaps_of_tid x.a tid) in
  (* the heap structures of the deleted heaps are freed: pages of the backing heap of that size class may die *)
  if nheaps > 1 then
    iter_changed_a x (fun addr (sa : rseg) ->
      L.iter (fun pg ->
        let (_, c, h, t, l, bs) = pg in
        if h = b.ptr && l > 0 && l < nheaps && bs = hb && counterpart (bseg x addr) pg = None then
          (match mseg x addr with
           | Some ms -> (match index_where (page_pred (h, t, true, c)) ms.B.s_pages with
               | Some i -> apply x (B.OBlockFree (ms.B.s_id, n_i i)) | None -> ())
           | None -> ())) (pages_of sa));
  let visits = (let saved = x.m in
                x.m <- B.step x.m (B.OThreadDone (n_i tid, []));
                let v = collect_candidates x in
                x.m <- saved; v) in
  apply x (B.OThreadDone (n_i tid, visits));
  coalesce_all x

let explain (x : ctx) consts : unit =
  let c = x.c in
  match c.name, c.args, c.res with
  | "thread_start", _, _ ->
    apply x (B.OHeapNew (n_i c.tid, z_i 0, n_i 0));
    (match backing_of x.b c.tid with Some b -> rename_new_heap x b.ptr | None -> failf "thread_start: thread %d has no backing heap in the dump" c.tid)
  | "manage", [start; size; excl; large; numa], _ ->
    apply x (B.OManage (n_of_string start, n_of_string size, excl = "1", large = "1", z_of_string numa))
  | "reserve", _, _ -> ()
  | "option", _, _ -> ()
  | "heap_new", [arena; tag; _], [ptr; _; _] ->
    let b = (match backing_of x.a c.tid with Some b -> b | None -> failf "thread %d has no backing heap" c.tid) in
    malloc_script x consts b.ptr;
    if ios ptr <> 0 then begin
      apply x (B.OHeapNew (n_i c.tid, z_of_string arena, n_of_string tag));
      rename_new_heap x (ios ptr)
    end
  | "malloc", [heap; _], _ -> malloc_script x consts (ios heap)
  | "free", [_; seg; slice; def; rof], _ -> free_script x (ios seg) (ios slice) (ios def) (rof <> "0")
  | "collect", [force; def], _ -> collect_script x (force = "1") (ios def)
  | "heap_delete", [h; s; sl], _ -> delete_script x (ios h) (ios s) (ios sl) false
  | "heap_destroy", [h; s; sl], _ -> delete_script x (ios h) (ios s) (ios sl) true
  | "thread_exit", _, _ -> exit_script x consts
  | n, _, _ -> failf "unknown call %s" n

(* ------------------------------------------------------------------ invariants on a dumped state *)
(* the pages that break bound_inv_b, identified by (segment, slice index): Bind.page_ok on the abstraction of each page *)
let off_cache : (int, rseg * rheap list IM.t * (int * int * int) list) Hashtbl.t = Hashtbl.create 256
let offenders (st : rstate) : (int * int * int) list =
  IM.fold (fun addr (s : rseg) acc ->
    let v = (match Hashtbl.find_opt off_cache addr with
        | Some (k, hk, v) when k == s && hk == st.heaps -> v
        | _ ->
          let ms = { B.s_id = n_i addr; s_memid = memid_of s; s_addr = n_i addr; s_size = n_i s.size; s_owner = n_i s.owner; s_visits = n_i s.visits;
                     s_huge = s.huge; s_pages = []; s_free = [] } in
          let v = L.filter_map (fun (i, c, h, t, l, _) ->
              if h = 0 then None else
                match find_rheap st h with
                | Some (tid, r) ->
                  let p = { B.p_heap = Some (heap_rec tid r); p_tag = n_i t; p_used = (l > 0); p_slices = n_i c } in
                  if B.page_ok ms p then None else Some (addr, i, h)
                | None -> None) (pages_of s) in
          Hashtbl.replace off_cache addr (s, st.heaps, v); v) in
    v @ acc) st.segs []

let slices_ok (s : rseg) : bool =
  s.huge || (header_of s + L.fold_left (fun a (_, c, _, _, _, _) -> a + c) 0 (pages_of s) + L.fold_left (fun a (_, c) -> a + c) 0 (frees_of s) = s.total)

(* ------------------------------------------------------------------ driver *)
let () = Modes.register "bind-trace" (fun records mismatches ->
  let scn = ref "?" in
  let cur = ref empty_state in            (* state being assembled from the dump lines *)
  let prev = ref empty_state in           (* state after the previous call *)
  let consts = ref [] in
  let call = ref None in
  let first_mismatch = ref true in
  let prev_off = ref [] in
  let n_calls = ref 0 and n_ops = ref 0 and n_unexpl = ref 0 and n_inv = ref 0 and n_known = ref 0 and n_changed = ref 0 in
  let kinds : (string, int) Hashtbl.t = Hashtbl.create 16 in
  let opkinds : (string, int) Hashtbl.t = Hashtbl.create 16 in
  let bump t k = Hashtbl.replace t k (1 + (try Hashtbl.find t k with Not_found -> 0)) in
  let stat () =
    if !scn <> "?" then
      Printf.printf "STAT trace %s calls=%d changed=%d ops=%d unexplained=%d inv=%d known=%d kinds=%s opkinds=%s\n" !scn !n_calls !n_changed !n_ops !n_unexpl !n_inv !n_known
        (String.concat "," (Hashtbl.fold (fun k v acc -> Printf.sprintf "%s:%d" k v :: acc) kinds []))
        (String.concat "," (Hashtbl.fold (fun k v acc -> Printf.sprintf "%s:%d" k v :: acc) opkinds [])) in
  let finish_step () =
    match !call with
    | None -> ()
    | Some c ->
      incr records; incr n_calls; bump kinds c.name;
      let a = !prev and b = !cur in
      if a != b then incr n_changed;
      let report msg ops =
        incr n_unexpl; incr mismatches;
        if !first_mismatch then begin
          first_mismatch := false;
          Printf.printf "MISMATCH trace %s step=%d thread=%d call=%s %s : %s ;; model ops tried: %s\n" !scn c.step c.tid c.name
            (String.concat " " c.args) msg (String.concat " , " (L.rev ops))
        end in
      (* (b) explain the transition *)
      let explained = ref false and adopters = ref [] in
      (try
        let x = { m = alpha a; ops = []; a; b; c; adopters = []; changed = changed_addrs a b; fresh = []; fresh_segs = [] } in
        let target = (try Some (alpha b) with Explain_fail msg -> report ("dump: " ^ msg) []; None) in
        (match target with
         | None -> ()
         | Some tgt ->
           (try
             explain x !consts;
             L.iter (fun o -> bump opkinds (L.hd (String.split_on_char ' ' o))) x.ops;
             n_ops := !n_ops + L.length x.ops;
             adopters := x.adopters;
             (match (let (cm, cr) = diff_states x.m tgt in diff_canon cm cr) with
              | None -> explained := true
              | Some d -> report d x.ops)
           with Explain_fail msg -> report msg x.ops))
      with Explain_fail msg -> report ("previous dump: " ^ msg) []);
      (* the returned pointer lies in a live page of the heap that was asked *)
      (match c.name, c.args, c.res with
       | "malloc", [heap; _], [ptr; seg; slice; _] when ptr <> "0" ->
         let ok = (match IM.find_opt (ios seg) b.segs with
             | Some sb -> L.exists (fun (i, _, h, _, l, _) -> i = ios slice && h = ios heap && l > 0) (pages_of sb)
             | None -> false) in
         if not ok then begin incr mismatches; Printf.printf "RET %s step=%d malloc heap=%s returned %s: no live page of that heap at segment %s slice %s in the dump\n" !scn c.step heap ptr seg slice end
       | _ -> ());
      (* (a) the invariants of the model on the dumped state *)
      (try
        let mb = alpha b in
        let off = offenders b in
        let fresh = L.filter (fun (sa, i, _) -> not (L.exists (fun (sa', i', _) -> sa = sa' && i = i') !prev_off)) off in
        if fresh <> [] then begin
          let ma = (try Some (alpha a) with Explain_fail _ -> None) in
          let unsafe = (match ma with
              | Some ma -> L.exists (fun hp -> match B.find_heap ma (n_i hp) with Some h -> not (B.tag_safe_b ma.B.st_heaps h) | None -> false) !adopters
              | None -> false) in
          let (sa, _, hp) = L.hd fresh in
          if !explained && unsafe then begin
            incr n_known;
            Printf.printf "KNOWN %s step=%d reclaim-by-tag: bound_inv_b false, segment %d has a page of heap %d (not suitable); the model explains the call with an adopting heap that is not tag_safe\n" !scn c.step sa hp
          end else begin
            incr n_inv; incr mismatches;
            Printf.printf "INV %s step=%d bound_inv_b: segment %d has a page of heap %d whose arena is not suitable for the segment (explained=%b)\n" !scn c.step sa hp !explained
          end
        end;
        prev_off := off;
        if not (B.placed_inv_b mb) then begin incr n_inv; incr mismatches; Printf.printf "INV %s step=%d placed_inv_b: a segment with an arena memid lies outside the area of that arena\n" !scn c.step end;
        L.iter (fun addr -> match IM.find_opt addr b.segs with
            | Some s when not (slices_ok s) -> incr n_inv; incr mismatches;
              Printf.printf "INV %s step=%d slices: header + pages + free spans of segment %d do not add up to %d\n" !scn c.step s.addr s.total
            | _ -> ()) (changed_addrs a b)
      with Explain_fail msg -> ());
      prev := b;
      call := None in
  (try
    while true do
      let line = input_line stdin in
      match split_ws line with
      | "T" :: "scenario" :: name :: _ ->
        stat ();
        scn := name; cur := empty_state; prev := empty_state; consts := []; call := None; first_mismatch := true; prev_off := [];
        n_calls := 0; n_ops := 0; n_unexpl := 0; n_inv := 0; n_known := 0; n_changed := 0; Hashtbl.reset kinds; Hashtbl.reset opkinds
      | "K" :: name :: v :: _ -> consts := (name, ios v) :: !consts
      | "C" :: step :: tid :: name :: rest ->
        let rec split acc = function "=" :: r -> (L.rev acc, r) | y :: r -> split (y :: acc) r | [] -> (L.rev acc, []) in
        let (args, res) = split [] rest in
        call := Some { step = ios step; tid = ios tid; name; args; res }
      | "A" :: id :: ex :: start :: blocks :: large :: numa :: _ ->
        cur := { !cur with arenas = !cur.arenas @ [{ id = ios id; aexcl = (ex = "1"); start = ios start; blocks = ios blocks; large = (large = "1"); numa = ios numa }] }
      | "H" :: tid :: _def :: _n :: hs ->
        let l = L.map parse_heap hs in
        cur := { !cur with heaps = (if l = [] then IM.remove (ios tid) !cur.heaps else IM.add (ios tid) l !cur.heaps) }
      | "S" :: rest -> let s = parse_seg rest in cur := { !cur with segs = IM.add s.addr s !cur.segs }
      | "X" :: addr :: _ -> cur := { !cur with segs = IM.remove (ios addr) !cur.segs }
      | "E" :: rest -> incr mismatches; Printf.printf "DUMP %s %s\n" !scn (String.concat " " rest)
      | "D" :: _ -> finish_step ()
      | _ -> ()
    done
  with End_of_file -> ());
  stat ())
