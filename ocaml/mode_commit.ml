(* mode "commit": replay of harness/f_commit.c against the Coq commit-bookkeeping model (Model/Commit.v, C07).
   One block of records per API call (O, L*, A, S*, K, T*, E).  For every block:
     * commit_inv_b on the DUMPED real state (arena bitmaps, the masks and used spans of every live segment, the
       shim ledger as the ghost kernel): a committed bit / commit-mask bit over an inaccessible slice, a live page
       over an uncommitted slice, a purge bit on a live slice ... -> MISMATCH inv
     * transition: the model is stepped from ITS previous state with the same operation and with the answers
       the shim gave to the mprotect calls of that API call as the failure oracle.  The decisions of the real
       allocator that the model takes as arguments (which span / which arena blocks, where the first attempt of
       _mi_malloc_generic ended) are read off the shim log and the dump; every split of the attempt list into
       "before the forced collect" and "after" is tried.  The model must consume exactly the answers given and end in
       the dumped arena words, segment masks, live pages and ledger -> otherwise MISMATCH step
   The drain at the end of a run (property C11, Model/GiveBack.v, Properties/C11back.v): `f` frees a small/medium block
   (a page-level OpFree iff its page is gone from the dump), `D` is the final mi_collect(true) (the pages without a used
   block are freed in the order the harness read off the heap, then OpCollect), and the `G` record makes the driver
   evaluate the boolean conclusion of C11_all_freed_gives_back / C11_all_freed_collect_purged (all_freed_b, gave_back_b,
   no_purge_scheduled_b, inuse_owned_b) on the model state that is in lockstep, and compare it with what the harness
   found on the real allocator -> MISMATCH giveback *)
open BinNums
open Util
module L = Stdlib.List
module C = Commit
module GB = GiveBack

let nint = n_of_int
let u64 s = Int64.of_string ("0u" ^ s)
let bit_of_words (w : int64 array) (i : int) : bool =
  i >= 0 && i < 64 * Array.length w && Int64.logand (Int64.shift_right_logical w.(i / 64) (i mod 64)) 1L = 1L
let bits_of_words ?(limit = max_int) (w : int64 array) : coq_N -> bool =
  fun x -> let i = int_of_n x in i < limit && bit_of_words w i
let bits_of_array (lo : int) (a : bool array) : coq_N -> bool =
  fun x -> let i = int_of_n x - lo in i >= 0 && i < Array.length a && a.(i)
let array_of_bits (f : coq_N -> bool) (lo : int) (n : int) : bool array = Array.init n (fun i -> f (nint (lo + i)))
let words_of_array (a : bool array) (nwords : int) : int64 array =
  Array.init nwords (fun w ->
    let r = ref 0L in
    for b = 0 to 63 do let i = 64 * w + b in if i < Array.length a && a.(i) then r := Int64.logor !r (Int64.shift_left 1L b) done; !r)
let show_words w = String.concat "," (L.map (fun x -> Printf.sprintf "%Lx" x) (Array.to_list w))

type call = { kind : int; addr : int; len : int; arg : int; ok : bool }
type segd = { base : int; huge : bool; nsl : int; info : int; blk : int; nblk : int; cw : int64 array; pw : int64 array; used : (int * int) list }
type block = { mutable o : string list; mutable calls : call list; mutable a : string list; mutable segs : segd list; mutable k : string list }

let slice = 65536

let run records mismatches =
  let cfg = ref { C.c_decommits = false; c_purge_now = false; c_arena_purge_now = false; c_allow_purge = true } in
  let eager = ref false and a_start = ref 0 and a_nblocks = ref 0 and bsl = ref 512 in
  let model : C.state option ref = ref None in
  let invs = ref 0 and steps = ref 0 and exact = ref 0 and refused = ref 0 and failed_ops = ref 0 and cands = ref 0
  and two_attempts = ref 0 and oscalls = ref 0 and resync = ref 0 and transients = ref 0 and givebacks = ref 0 and drain_frees = ref 0 in
  let mism fmt = Printf.ksprintf (fun s -> incr mismatches; if !mismatches <= 40 then print_endline ("MISMATCH " ^ s)) fmt in
  let cur = { o = []; calls = []; a = []; segs = []; k = [] } in
  let nfields () = (!a_nblocks + 63) / 64 in

  (* normalise a model state: every bit function becomes a table over the range that matters *)
  let normalise (st : C.state) : C.state =
    let a = st.C.st_arena in
    let nb = !a_nblocks in
    let tab f n = bits_of_array 0 (array_of_bits f 0 n) in
    let a' = { a with C.a_inuse = tab a.C.a_inuse nb; a_committed = tab a.C.a_committed nb; a_dirty = tab a.C.a_dirty nb; a_purge = tab a.C.a_purge nb } in
    let segs' = L.map (fun (s : C.segment) -> { s with C.sg_commit = tab s.C.sg_commit 512; sg_purge = tab s.C.sg_purge 512 }) st.C.st_segs in
    let lo = !a_start and n = !a_nblocks * !bsl in
    C.mk a' segs' st.C.st_live st.C.st_raw (bits_of_array lo (array_of_bits st.C.st_acc lo n)) in

  let state_of_dump () : C.state =
    let f = nfields () in
    let words off = Array.init f (fun i -> u64 (L.nth cur.a (4 + off * f + i))) in
    let nb = !a_nblocks in
    let a = { C.a_start = nint !a_start; a_nblocks = nint nb; a_zero = true;
              a_inuse = bits_of_words ~limit:nb (words 0); a_committed = bits_of_words ~limit:nb (words 1);
              a_dirty = bits_of_words ~limit:nb (words 2); a_purge = bits_of_words ~limit:nb (words 3) } in
    let segs = L.map (fun d -> { C.sg_base = nint d.base; sg_nslices = nint d.nsl; sg_kind = (if d.huge then C.Huge else C.Normal);
                                 sg_info = nint d.info; sg_commit = bits_of_words d.cw; sg_purge = bits_of_words d.pw;
                                 sg_mem = C.MemArena (nint d.blk, nint d.nblk) }) cur.segs in
    let live = L.concat (L.map (fun d -> L.map (fun (lo, n) -> { C.pg_seg = nint d.base; pg_lo = nint lo; pg_n = nint n }) d.used) cur.segs) in
    let acc =
      match cur.k with
      | lo :: n :: runs ->
        let lo = int_of_string lo and n = int_of_string n in
        let arr = Array.make n false in
        let pos = ref 0 and v = ref false in
        L.iter (fun r -> let r = int_of_string r in for i = !pos to !pos + r - 1 do if i < n then arr.(i) <- !v done; pos := !pos + r; v := not !v) runs;
        bits_of_array lo arr
      | _ -> (fun _ -> false) in
    C.mk a segs live [] acc in

  let which_clause (st : C.state) : string =
    let a = st.C.st_arena and segs = st.C.st_segs and live = st.C.st_live and acc = st.C.st_acc in
    let bad = ref [] in
    let add s = bad := s :: !bad in
    L.iter (fun (s : C.segment) ->
      let b = string_of_n s.C.sg_base in
      if not (C.seg_wf_b a s) then add ("segment " ^ b ^ " not well-formed / its blocks not in use");
      if not (C.seg_mask_b acc s) then add ("(S) commit-mask bit of segment " ^ b ^ " over an inaccessible slice");
      if not (C.seg_used_b live s) then add ("(L/P) segment " ^ b ^ ": used slice not committed, or purge bit on a used/uncommitted slice")) segs;
    if not (C.pairwise C.owner_disjoint (C.owners st)) then add "owners overlap";
    if not (C.arena_acc_b a segs acc) then add "(A) arena committed bit over an inaccessible slice";
    if not (L.for_all (C.page_wf_b segs) live) then add "(D) live page outside its segment";
    if not (C.pairwise C.pages_disjoint live) then add "(D) live pages overlap";
    String.concat "; " (L.rev !bad) in

  (* compare a model state with the dump; None = equal *)
  let diff (m : C.state) (d : C.state) : string option =
    let nb = !a_nblocks and f = nfields () in
    let w g = words_of_array (array_of_bits g 0 nb) f in
    let ma = m.C.st_arena and da = d.C.st_arena in
    let chk name g1 g2 = if w g1 <> w g2 then Some (Printf.sprintf "arena %s model=%s impl=%s" name (show_words (w g1)) (show_words (w g2))) else None in
    let first l = L.fold_left (fun acc x -> match acc with Some _ -> acc | None -> x ()) None l in
    let key (s : C.segment) = int_of_n s.C.sg_base in
    let sort l = L.sort (fun x y -> compare (key x) (key y)) l in
    let ms = sort m.C.st_segs and ds = sort d.C.st_segs in
    let pkey (p : C.page) = (int_of_n p.C.pg_seg, int_of_n p.C.pg_lo, int_of_n p.C.pg_n) in
    let show_pages l = String.concat " " (L.map (fun (a, b, c) -> Printf.sprintf "%d+%d:%d" a b c) l) in
    first [
      (fun () -> chk "inuse" ma.C.a_inuse da.C.a_inuse);
      (fun () -> chk "committed" ma.C.a_committed da.C.a_committed);
      (fun () -> chk "dirty" ma.C.a_dirty da.C.a_dirty);
      (fun () -> chk "purge" ma.C.a_purge da.C.a_purge);
      (fun () -> if L.map key ms <> L.map key ds then
          Some (Printf.sprintf "segments model=[%s] impl=[%s]" (String.concat " " (L.map (fun s -> string_of_int (key s)) ms))
                  (String.concat " " (L.map (fun s -> string_of_int (key s)) ds))) else None);
      (fun () -> first (L.map2 (fun (x : C.segment) (y : C.segment) () ->
          let wm g = words_of_array (array_of_bits g 0 512) 8 in
          if x.C.sg_kind <> y.C.sg_kind || x.C.sg_nslices <> y.C.sg_nslices || x.C.sg_info <> y.C.sg_info || x.C.sg_mem <> y.C.sg_mem then
            Some (Printf.sprintf "segment %d shape (kind/slices/info/memid) model=%s/%s impl=%s/%s" (key x) (string_of_n x.C.sg_nslices) (string_of_n x.C.sg_info)
                    (string_of_n y.C.sg_nslices) (string_of_n y.C.sg_info))
          else if wm x.C.sg_commit <> wm y.C.sg_commit then
            Some (Printf.sprintf "segment %d commit_mask model=%s impl=%s" (key x) (show_words (wm x.C.sg_commit)) (show_words (wm y.C.sg_commit)))
          else if wm x.C.sg_purge <> wm y.C.sg_purge then
            Some (Printf.sprintf "segment %d purge_mask model=%s impl=%s" (key x) (show_words (wm x.C.sg_purge)) (show_words (wm y.C.sg_purge)))
          else None) ms ds));
      (fun () -> let lm = L.sort compare (L.map pkey m.C.st_live) and ld = L.sort compare (L.map pkey d.C.st_live) in
        if lm <> ld then Some (Printf.sprintf "live pages model=[%s] impl=[%s]" (show_pages lm) (show_pages ld)) else None);
      (fun () -> let lo = !a_start and n = !a_nblocks * !bsl in
        let am = array_of_bits m.C.st_acc lo n and ad = array_of_bits d.C.st_acc lo n in
        if am = ad then None else begin
          let i = ref 0 in while am.(!i) = ad.(!i) do incr i done;
          Some (Printf.sprintf "kernel: slice %d (block %d slice %d) model accessible=%b ledger=%b" (lo + !i) (!i / !bsl) (!i mod !bsl) am.(!i) ad.(!i)) end) ] in

  let process () =
    incr records;
    let d = state_of_dump () in
    let opno = match cur.o with _ :: n :: _ -> n | _ -> "?" in
    incr invs;
    if not (C.commit_inv_b d) then mism "inv op %s: commit_inv_b fails on the dumped state: %s" opno (which_clause d);
    oscalls := !oscalls + L.length cur.calls;
    let m = match !model with Some m -> m | None -> C.state_init (nint !a_start) (nint !a_nblocks) false true in
    let prot = L.filter (fun c -> c.kind = 2) cur.calls in
    let answers = L.map (fun c -> c.ok) prot in
    refused := !refused + L.length (L.filter (fun b -> not b) answers);
    let pad = [false; false; false; false; false] in
    let oracle = answers @ pad in
    (* mi_heap_collect_ex visits the segments of the heap's pages: a cached segment without a used page is not visited *)
    let all_bases = L.filter_map (fun (s : C.segment) -> if L.exists (fun (p : C.page) -> p.C.pg_seg = s.C.sg_base) m.C.st_live then Some s.C.sg_base else None) m.C.st_segs in
    (* the order in which a forced collect visits segments: the ones that made OS calls first, in that order *)
    let page_of sb lo cnt = { C.pg_seg = nint (int_of_string sb); pg_lo = nint (int_of_string lo); pg_n = nint (int_of_string cnt) } in
    (* _mi_segment_page_free of page p in state st: the coalesced span extends over the neighbouring free slices *)
    let free_op (st : C.state) (p : C.page) : C.op =
      let sb = int_of_n p.C.pg_seg and lo = int_of_n p.C.pg_lo and cnt = int_of_n p.C.pg_n in
      let (clo, cn) =
        match L.find_opt (fun (s : C.segment) -> int_of_n s.C.sg_base = sb) st.C.st_segs with
        | Some s when s.C.sg_kind = C.Normal ->
          let live' = L.filter (fun (q : C.page) -> q <> p) st.C.st_live in
          let used i = C.slice_used s live' (nint i) in
          let l = ref lo in while !l > 0 && not (used (!l - 1)) do decr l done;
          let h = ref (lo + cnt) in while !h < int_of_n s.C.sg_nslices && not (used !h) do incr h done;
          (!l, !h - !l)
        | _ -> (lo, cnt) in
      let unmap_ok = not (L.exists (fun c -> c.kind = 1 && not c.ok) cur.calls) in
      C.OpFree (p, nint clo, nint cn, false, unmap_ok) in
    let order_of (st : C.state) =
      let bases = L.filter_map (fun (s : C.segment) -> if L.exists (fun (p : C.page) -> p.C.pg_seg = s.C.sg_base) st.C.st_live then Some s.C.sg_base else None) st.C.st_segs in
      let seen = ref [] in
      L.iter (fun c -> if (c.kind = 2 && c.arg = 0) || c.kind = 3 then begin
          let x = c.addr / slice in
          L.iter (fun (s : C.segment) -> let b = int_of_n s.C.sg_base in
                   if x >= b && x < b + int_of_n s.C.sg_nslices && L.mem s.C.sg_base bases && not (L.mem s.C.sg_base !seen) then seen := s.C.sg_base :: !seen) st.C.st_segs end) cur.calls;
      L.rev !seen @ L.filter (fun b -> not (L.mem b !seen)) bases in
    let order =
      let seen = ref [] in
      L.iter (fun c -> if (c.kind = 2 && c.arg = 0) || c.kind = 3 then begin
          let x = c.addr / slice in
          L.iter (fun (s : C.segment) -> let b = int_of_n s.C.sg_base in
                   if x >= b && x < b + int_of_n s.C.sg_nslices && not (L.mem s.C.sg_base !seen) then seen := s.C.sg_base :: !seen) m.C.st_segs end) cur.calls;
      L.rev !seen @ L.filter (fun b -> not (L.mem b !seen)) all_bases in
    let try_step (op : C.op) (expect : C.result -> bool) : (C.state, string) result =
      match C.step !cfg m op oracle with
      | None -> Error "the model rejects the operation (not a legal choice in the model state)"
      | Some ((st', r), o') ->
        if not (expect r) then Error "result differs (model/implementation disagree on success or on the page handed out)"
        else if o' <> pad then Error (Printf.sprintf "oracle: the implementation made %d mprotect calls, the model consumed %d" (L.length answers) (L.length oracle - L.length o'))
        else (match diff st' d with None -> Ok st' | Some s -> Error s) in
    let finish (r : (C.state, string) result) what =
      incr steps;
      match r with
      | Ok st' -> incr exact; model := Some (normalise st')
      | Error s -> mism "step op %s (%s): %s" opno what s; incr resync; model := Some (normalise d) in
    (match cur.o with
     | _ :: _ :: "C" :: _ -> finish (try_step (C.OpCollect order) (fun r -> r = C.RUnit)) "mi_collect(true)"
     | _ :: _ :: "F" :: _ :: _ :: sb :: lo :: cnt :: _ ->
       let p = page_of sb lo cnt in
       finish (try_step (free_op m p) (fun r -> r = C.RUnit)) "mi_free of a one-block page"
     | _ :: _ :: "f" :: _ :: _ :: sb :: lo :: cnt :: _ ->
       (* drain: mi_free of a small/medium block; the page is freed by this call iff it is no longer a used span *)
       let p = page_of sb lo cnt in
       if L.mem p d.C.st_live then
         finish (if cur.calls <> [] then Error "OS calls during a mi_free that keeps its page" else
                 match diff m d with None -> Ok m | Some s -> Error s) "mi_free of a block whose page stays (used or retired)"
       else begin
         incr drain_frees;
         finish (try_step (free_op m p) (fun r -> r = C.RUnit)) "mi_free of the last block of a page"
       end
     | _ :: _ :: "D" :: _ :: pages ->
       (* drain: the final mi_collect(true): _mi_heap_collect_retired / mi_heap_visit_pages free the pages without a used
          block in the order given, then the segments that still have pages are purged and the arena is collected *)
       let ps = L.map (fun t -> match String.split_on_char ':' t with [a; b; c] -> page_of a b c | _ -> failwith "bad page") pages in
       let key (p : C.page) = (int_of_n p.C.pg_seg, int_of_n p.C.pg_lo, int_of_n p.C.pg_n) in
       let gone = L.sort compare (L.map key (L.filter (fun q -> not (L.mem q d.C.st_live)) m.C.st_live)) in
       let r =
         if gone <> L.sort compare (L.map key ps) then
           Error (Printf.sprintf "the pages that left the dump [%s] are not the pages without a used block before the collect [%s]"
                    (String.concat " " (L.map (fun (a, b, c) -> Printf.sprintf "%d+%d:%d" a b c) gone))
                    (String.concat " " (L.map (fun p -> let (a, b, c) = key p in Printf.sprintf "%d+%d:%d" a b c) ps)))
         else begin
           let rec frees (st : C.state) o = function
             | [] -> Ok (st, o)
             | p :: rest ->
               (match C.step !cfg st (free_op st p) o with
                | None -> Error "the model rejects the page free of the forced collect"
                | Some ((st', _), o') -> incr drain_frees; frees st' o' rest) in
           match frees m oracle ps with
           | Error s -> Error s
           | Ok (st1, o1) ->
             (match C.step !cfg st1 (C.OpCollect (order_of st1)) o1 with
              | None -> Error "the model rejects the collect"
              | Some ((st', _), o') ->
                if o' <> pad then Error (Printf.sprintf "oracle: the implementation made %d mprotect calls, the model consumed %d" (L.length answers) (L.length oracle - L.length o'))
                else (match diff st' d with None -> Ok st' | Some s -> Error s))
         end in
       finish r (Printf.sprintf "final mi_collect(true) freeing %d pages" (L.length ps))
     | _ :: _ :: "M" :: _ :: _ :: hg :: n :: "=" :: ptr :: sb :: lo :: cnt :: _ ->
       let huge = hg = "1" and n = int_of_string n and ok = ptr <> "0" in
       let sb = int_of_string sb and lo = int_of_string lo and cnt = int_of_string cnt in
       let before = L.sort compare (L.map (fun (p : C.page) -> (int_of_n p.C.pg_seg, int_of_n p.C.pg_lo, int_of_n p.C.pg_n)) m.C.st_live)
       and after = L.sort compare (L.map (fun (p : C.page) -> (int_of_n p.C.pg_seg, int_of_n p.C.pg_lo, int_of_n p.C.pg_n)) d.C.st_live) in
       let fresh = L.filter (fun x -> not (L.mem x before)) after in
       if not ok then incr failed_ops;
       if ok && fresh = [] && before = after && cur.calls = [] then
         (* a block of an existing page: no page-level operation *)
         finish (match diff m d with None -> Ok m | Some s -> Error s) "mi_malloc served from an existing page"
       else begin
         if ok && (fresh <> [(sb, lo, cnt)] || cnt <> n) then
           mism "step op %s: the call needed a fresh page of %d slices, the dump shows fresh pages [%s] and the block lies in %d+%d:%d" opno n
             (String.concat " " (L.map (fun (a, b, c) -> Printf.sprintf "%d+%d:%d" a b c) fresh)) sb lo cnt;
         (* the attempt list from the commit calls *)
         (* the coalesced free span around [lo, lo+n) of segment b (a fresh segment: everything after the header) *)
         let mk_span (b : int) (l : int) : C.where_ =
           match L.find_opt (fun (s : C.segment) -> int_of_n s.C.sg_base = b) m.C.st_segs with
           | Some s ->
             let used i = C.slice_used s m.C.st_live (nint i) in
             let lo' = ref l in while !lo' > 0 && not (used (!lo' - 1)) do decr lo' done;
             let h = ref (l + n) in while !h < int_of_n s.C.sg_nslices && not (used !h) do incr h done;
             C.WSpan (nint b, nint l, nint !lo', nint (!h - !lo'))
           | None -> let i = int_of_n C.coq_INFO_SLICES in C.WSpan (nint b, nint l, nint i, nint (!bsl - i)) in
         let ws = ref [] in               (* reversed *)
         let newbases = ref [] in
         let cur_new = ref None in        (* (block, seen_info) of the WNewArena being built *)
         let blocks_needed = if huge then (int_of_n C.coq_INFO_SLICES + n + !bsl - 1) / !bsl else 1 in
         L.iter (fun c ->
           if c.arg <> 0 then begin
             if c.addr mod slice <> 0 || c.len mod slice <> 0 then mism "step op %s: commit call not slice aligned (%d,%d)" opno c.addr c.len;
             let x = c.addr / slice and len = c.len / slice in
             let inseg = L.find_opt (fun (s : C.segment) -> let b = int_of_n s.C.sg_base in x >= b && x < b + int_of_n s.C.sg_nslices) m.C.st_segs in
             let innew = L.find_opt (fun b -> x >= b && x < b + !bsl) !newbases in
             match inseg, innew with
             | Some s, _ when x <> int_of_n s.C.sg_base -> ws := mk_span (int_of_n s.C.sg_base) (x - int_of_n s.C.sg_base) :: !ws; cur_new := None
             | None, Some b when x <> b && not huge -> ws := mk_span b (x - b) :: !ws; cur_new := None
             | _ ->
               let rel = x - !a_start in
               if rel < 0 || rel mod !bsl <> 0 then mism "step op %s: commit call at slice %d is neither in a segment nor at a block start" opno x
               else begin
                 let b = rel / !bsl in
                 let arena_level = (len = blocks_needed * !bsl) in
                 match !cur_new with
                 | Some (b', false) when b' = b && not arena_level -> cur_new := Some (b, true)
                 | Some (b', false) when b' = b && arena_level && (match !ws with C.WNewArena _ :: _ -> false | _ -> true) -> ()
                 | _ ->
                   ws := C.WNewArena (nint b) :: !ws; newbases := x :: !newbases;
                   cur_new := Some (b, not arena_level)
               end
           end) prot;
         let ws = L.rev !ws in
         let final_ws =
           if not ok || huge then ws
           else (match L.rev ws with
               | C.WSpan (b, l, _, _) :: _ when int_of_n b = sb && int_of_n l = lo -> ws
               | _ -> ws @ [mk_span sb lo])    (* the span that succeeded needed no commit call *)
         in
         (* new segments that made no OS call (their arena blocks were already committed): visible only in the dump;
            they were created at some point between two attempts -- every position is tried *)
         let silent =
           L.filter (fun dsg -> not (L.exists (fun (s : C.segment) -> int_of_n s.C.sg_base = dsg.base) m.C.st_segs)
                                && not (L.mem (C.WNewArena (nint dsg.blk)) final_ws)) cur.segs in
         let rec insert_all (ws : C.where_ list) = function
           | [] -> [ws]
           | dsg :: more ->
             let rec ins pre post acc = match post with
               | [] -> L.rev ((L.rev_append pre [C.WNewArena (nint dsg.blk)]) :: acc)
               | w :: r -> ins (w :: pre) r ((L.rev_append pre (C.WNewArena (nint dsg.blk) :: post)) :: acc) in
             (* a span of the new segment can only come after it *)
             let refers w = (match w with C.WSpan (b, _, _, _) -> int_of_n b = dsg.base | _ -> false) in
             let ok_pos l = let rec chk seen = function [] -> true | w :: r -> if w = C.WNewArena (nint dsg.blk) then true else if refers w then false else chk seen r in chk false l in
             L.concat (L.map (fun l -> insert_all l more) (L.filter ok_pos (ins [] ws [])))
         in
         let ws_candidates = insert_all final_ws silent in
         let expect r = if ok then r = C.RPage { C.pg_seg = nint sb; pg_lo = nint lo; pg_n = nint cnt } else r = C.RNone in
         let commit = !eager || huge in
         (* every way to cut the attempt list into the attempts of mi_find_page before the forced collect and after it:
            one attempt each for large/huge pages, up to two each for the small and medium size classes *)
         (* (a fresh segment that the retry of mi_segments_page_alloc left unused is freed again: see go_transient) *)
         let rec cuts k l : C.where_ list list list =     (* l as k consecutive, possibly empty, groups *)
           if k = 1 then [[l]]
           else begin
             let rec prefixes pre post acc = match post with
               | [] -> L.rev ((L.rev pre, []) :: acc)
               | w :: r -> prefixes (w :: pre) r ((L.rev pre, post) :: acc) in
             L.concat (L.map (fun (p, rest) -> L.map (fun gs -> p :: gs) (cuts (k - 1) rest)) (L.rev (prefixes [] l [])))
           end in
         let per = if hg = "2" then 2 else 1 in
         let candidates = L.map (fun gs -> let rec take k l = if k = 0 then ([], l) else (match l with x :: r -> let (a, b) = take (k - 1) r in (x :: a, b) | [] -> ([], [])) in
                                  take per gs) (L.concat (L.map (cuts (2 * per)) ws_candidates)) in
         let nonempty gs = L.filter (fun g -> g <> []) gs in
         let rec go last = function
           | [] -> Error last
           | (t1, t2) :: rest ->
             incr cands;
             (match try_step (C.OpAlloc (nint n, huge, commit, t1, order, t2)) expect with
              | Ok st' -> if nonempty t2 <> [] then incr two_attempts; Ok st'
              | Error s -> go (if last = "" then s else last) rest) in
         (* TRANSIENT segments.  mi_segments_page_alloc frees the segment it obtained from mi_segment_reclaim_or_alloc when
            its retry left it without a page (`if (segment->used == 0) mi_segment_free(...)`).  Such a segment is not in
            the dump, and it made no OS call when its arena block was already committed.  It can only have been obtained
            right after a refused span commit that is followed by another span attempt of the same mi_find_page attempt.
            When no candidate explains the dump, every assignment of free arena blocks (committed ones first, distinct
            within one attempt) to these gaps is tried; an illegal choice is rejected by the model. *)
         let free_blocks =
           let a = m.C.st_arena in
           let fr = L.filter (fun b -> not (a.C.a_inuse (nint b))) (L.init !a_nblocks (fun i -> i)) in
           L.filter (fun b -> a.C.a_committed (nint b)) fr @ L.filter (fun b -> not (a.C.a_committed (nint b))) fr in
         let rec expand_group (used : int list) (g : C.where_ list) : C.where_ list list =
           match g with
           | (C.WSpan _ as w1) :: ((C.WSpan _ :: _) as rest) ->
             let some = L.concat (L.map (fun b -> if L.mem b used then [] else
                                            L.map (fun t -> C.WNewArena (nint b) :: t) (expand_group (b :: used) rest)) free_blocks) in
             L.map (fun t -> w1 :: t) (some @ expand_group used rest)
           | w :: rest -> L.map (fun t -> w :: t) (expand_group used rest)
           | [] -> [[]] in
         let expand_groups (gs : C.where_ list list) : C.where_ list list list =
           L.fold_right (fun g acc ->
               let used = L.filter_map (function C.WNewArena b -> Some (int_of_n b) | _ -> None) g in
               let eg = expand_group used g in
               L.concat (L.map (fun g' -> L.map (fun r -> g' :: r) acc) eg)) gs [[]] in
         let budget = ref 6000 in
         let rec go_transient last = function
           | [] -> Error last
           | (t1, t2) :: rest ->
             let k1 = L.length t1 in
             let rec take k l = if k = 0 then ([], l) else (match l with x :: r -> let (a, b) = take (k - 1) r in (x :: a, b) | [] -> ([], [])) in
             let variants = L.filter (fun gs -> gs <> t1 @ t2) (expand_groups (t1 @ t2)) in
             let rec tryv = function
               | [] -> None
               | gs :: more ->
                 if !budget <= 0 then None else begin
                   decr budget; incr cands;
                   let (u1, u2) = take k1 gs in
                   match try_step (C.OpAlloc (nint n, huge, commit, u1, order, u2)) expect with
                   | Ok st' -> incr transients; if nonempty u2 <> [] then incr two_attempts; Some st'
                   | Error _ -> tryv more end in
             (match tryv variants with Some st' -> Ok st' | None -> if !budget <= 0 then Error last else go_transient last rest) in
         (* first pass, cheap: for every cut of the attempt list the GREEDY assignment only -- every gap gets the next free block in
            the order the real bitmap search takes them (committed blocks are the ones whose claim makes no OS call); nested retries
            of mi_segments_page_alloc take one fresh segment per refused span attempt, so several gaps in a row are common when
            every commit is refused.  Only when no greedy assignment explains the dump the full enumeration above is tried. *)
         let greedy_group (g : C.where_ list) : C.where_ list =
           let rec gg used = function
             | (C.WSpan _ as w1) :: ((C.WSpan _ :: _) as rest) ->
               (match L.find_opt (fun b -> not (L.mem b used)) free_blocks with
                | Some b -> w1 :: C.WNewArena (nint b) :: gg (b :: used) rest
                | None -> w1 :: gg used rest)
             | w :: rest -> w :: gg used rest
             | [] -> [] in
           gg (L.filter_map (function C.WNewArena b -> Some (int_of_n b) | _ -> None) g) g in
         let rec go_greedy = function
           | [] -> None
           | (t1, t2) :: rest ->
             let u1 = L.map greedy_group t1 and u2 = L.map greedy_group t2 in
             if u1 = t1 && u2 = t2 then go_greedy rest else begin
               incr cands;
               match try_step (C.OpAlloc (nint n, huge, commit, u1, order, u2)) expect with
               | Ok st' -> incr transients; if nonempty u2 <> [] then incr two_attempts; Some st'
               | Error _ -> go_greedy rest end in
         let go_all cs = match go "" cs with Ok s -> Ok s | Error s -> if huge then Error s else
             (match go_greedy cs with Some st' -> Ok st' | None -> go_transient s cs) in
         let show_w = function C.WSpan (b, l, _, _) -> Printf.sprintf "span %s+%s" (string_of_n b) (string_of_n l)
                             | C.WNewArena b -> "new-segment@block " ^ string_of_n b | C.WNewOs _ -> "new-os-segment" in
         finish (match go_all candidates with Ok s -> Ok s
                                           | Error s -> Error (Printf.sprintf "%s [attempts: %s; answers: %s]" s (String.concat ", " (L.map show_w final_ws))
                                                                 (String.concat "" (L.map (fun b -> if b then "1" else "0") answers))))
           (Printf.sprintf "mi_malloc needing a fresh %s page of %d slices, result %s" (if huge then "huge" else "normal") n (if ok then "ok" else "NULL"))
       end
     | _ -> ());
    cur.o <- []; cur.calls <- []; cur.a <- []; cur.segs <- []; cur.k <- [] in
  (try
    while true do
      let line = input_line stdin in
      match split_ws line with
      | "CFG" :: dc :: pn :: apn :: ap :: eg :: st :: nb :: bs :: _ ->
        cfg := { C.c_decommits = dc = "1"; c_purge_now = pn = "1"; c_arena_purge_now = apn = "1"; c_allow_purge = ap = "1" };
        eager := eg = "1"; a_start := int_of_string st; a_nblocks := int_of_string nb; bsl := int_of_string bs;
        if nint !bsl <> C.coq_BLOCK_SLICES then mism "cfg: an arena block is %d slices, the model says %s" !bsl (string_of_n C.coq_BLOCK_SLICES)
      | "O" :: _ as t -> cur.o <- t
      | "L" :: k :: a :: l :: g :: ok :: _ ->
        cur.calls <- cur.calls @ [{ kind = int_of_string k; addr = int_of_string a; len = int_of_string l; arg = int_of_string g; ok = ok = "1" }]
      | "A" :: _ as t -> cur.a <- t
      | "S" :: b :: h :: ns :: info :: blk :: nblk :: rest ->
        let arr = Array.of_list rest in
        let cw = Array.init 8 (fun i -> u64 arr.(i)) and pw = Array.init 8 (fun i -> u64 arr.(8 + i)) in
        let k = int_of_string arr.(16) in
        let used = L.init k (fun i -> match String.split_on_char ':' arr.(17 + i) with [x; y] -> (int_of_string x, int_of_string y) | _ -> failwith "bad span") in
        cur.segs <- cur.segs @ [{ base = int_of_string b; huge = h = "1"; nsl = int_of_string ns; info = int_of_string info; blk = int_of_string blk;
                                  nblk = int_of_string nblk; cw; pw; used }]
      | "K" :: rest -> cur.k <- rest
      | "E" :: _ -> process ()
      | "G" :: isegs :: iinuse :: isched :: ioutside :: _ ->
        (* C11: the conclusion of C11_all_freed_gives_back / C11_all_freed_collect_purged on the model state in lockstep *)
        incr givebacks;
        (match !model with
         | None -> mism "giveback: no model state"
         | Some m ->
           let af = GB.all_freed_b m and gb = GB.gave_back_b m and np = GB.no_purge_scheduled_b m.C.st_arena and ow = GB.inuse_owned_b m in
           let lo = !a_start - 1024 and n = !a_nblocks * !bsl + 2048 in
           let out = GB.outside_inaccessible_b m (nint (max lo 0)) (nint n) in
           let impl_ok = isegs = "0" && iinuse = "0" && isched = "0" && ioutside = "0" in
           let model_ok = af && gb && np && out in
           Printf.printf "GIVEBACK model all_freed=%b gave_back=%b purged=%b owned=%b outside_inaccessible=%b segments=%d live=%d ; impl segments=%s inuse=%s scheduled=%s outside=%s\n"
             af gb np ow out (L.length m.C.st_segs) (L.length m.C.st_live) isegs iinuse isched ioutside;
           if af && not (gb && np) then
             mism "giveback: the model state has no live page and no raw allocation but gave_back_b=%b no_purge_scheduled_b=%b (a state that no history from state_init reaches: C11_reachable_checks)" gb np;
           if not ow then mism "giveback: an in-use block of the model state has no owner (inuse_owned_b)";
           if model_ok <> impl_ok then
             mism "giveback: model says %s (all_freed=%b gave_back=%b purged=%b), the real allocator %s (segments=%s blocks in use=%s scheduled=%s outside=%s)"
               (if model_ok then "everything was given back" else "NOT everything was given back") af gb np
               (if impl_ok then "gave everything back" else "did NOT give everything back") isegs iinuse isched ioutside)
      | _ -> ()
    done
  with End_of_file -> ());
  Printf.printf "STATS commit invariants=%d steps=%d steps_exact=%d resynced=%d refused_mprotect=%d failed_api_calls=%d candidates=%d two_attempts=%d oscalls=%d transient_segments=%d giveback_checks=%d drain_page_frees=%d\n"
    !invs !steps !exact !resync !refused !failed_ops !cands !two_attempts !oscalls !transients !givebacks !drain_frees

let () = Modes.register "commit" run
