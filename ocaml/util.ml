(* hand-written glue for the replay drivers: decimal strings <-> Coq binary numbers *)
open BinNums
module L = Stdlib.List

let rec pos_of_u64 (x : int64) : positive =
  (* x <> 0, interpreted unsigned *)
  if Int64.equal x 1L then Coq_xH
  else
    let half = Int64.shift_right_logical x 1 in
    if Int64.equal (Int64.logand x 1L) 0L then Coq_xO (pos_of_u64 half) else Coq_xI (pos_of_u64 half)

let n_of_u64 (x : int64) : coq_N = if Int64.equal x 0L then N0 else Npos (pos_of_u64 x)

let n_of_string (s : string) : coq_N =
  (* decimal, 0 .. 2^64-1 *)
  n_of_u64 (Int64.of_string ("0u" ^ s))

let n_of_int (i : int) : coq_N = n_of_u64 (Int64.of_int i)

exception Too_big
let rec u64_of_pos (p : positive) (depth : int) : int64 =
  if depth > 64 then raise Too_big else
  match p with
  | Coq_xH -> 1L
  | Coq_xO q -> Int64.shift_left (u64_of_pos q (depth+1)) 1
  | Coq_xI q -> Int64.logor (Int64.shift_left (u64_of_pos q (depth+1)) 1) 1L

let rec pos_bits p = match p with Coq_xH -> 1 | Coq_xO q | Coq_xI q -> 1 + pos_bits q

let string_of_n (x : coq_N) : string =
  match x with
  | N0 -> "0"
  | Npos p -> if pos_bits p > 64 then "BIG" else Printf.sprintf "%Lu" (u64_of_pos p 0)

let int_of_n (x : coq_N) : int = match x with N0 -> 0 | Npos p -> Int64.to_int (u64_of_pos p 0)

let z_of_string (s : string) : coq_Z =
  if String.length s > 0 && s.[0] = '-' then
    (match n_of_string (String.sub s 1 (String.length s - 1)) with N0 -> Z0 | Npos p -> Zneg p)
  else (match n_of_string s with N0 -> Z0 | Npos p -> Zpos p)

let string_of_z (x : coq_Z) : string =
  match x with Z0 -> "0" | Zpos p -> string_of_n (Npos p) | Zneg p -> "-" ^ string_of_n (Npos p)

let string_of_bool b = if b then "1" else "0"

let split_ws (s : string) : string list =
  L.filter (fun x -> x <> "") (String.split_on_char ' ' s)
