(* mode "heap": replay of the heap dumps of harness/t_api.c against the Coq model of first-class heaps
   (Model/Heap.v, property C10 sequential part).

   Input lines (everything else is ignored):
     HQ <op#> <b|a> <k> <page_count> <is_default> [<descpage>] | <bin>:<page>/<xheap_ok>[/<in_full>/<pbin>/<used>],<page>/... <bin>:...
        one line per live heap of the thread; heap 0 is the backing heap; queues from `first`.
        The bracketed fields are the EXTENDED format (descriptor page of heap k = the page that holds the
        mi_heap_t, 0 for the backing heap; per page the in_full flag, mi_bin(block_size) resp. MI_BIN_HUGE for
        huge pages, and page->used).  Without them the missing parts of the model state are synthesised.
     HOP <op#> <HD|HX> <k>      mi_heap_delete / mi_heap_destroy of heap k (a mi_heap_new heap: no_reclaim)
   Checks:
     * on every dump (all HQ lines of one op and one side): Heap.heap_inv_b of the state built from the
       dump -- every page in exactly one queue of exactly one heap, its heap back pointer is that heap
       (`/1`), page_count = number of pages listed, a default heap exists; extended format: also
       in_full <-> full queue, pbin = queue index, descriptors live in pages of the backing heap;
     * on every HOP: the after-dump must be EXACTLY Heap.heap_delete / Heap.heap_destroy of the
       before-dump: every queue of every surviving heap (order included), page_count, default flag.
       The free of the descriptor block (mi_free of a sizeof(mi_heap_t) block of the backing heap) is part
       of both operations.  Extended format: the descriptor's page and its `used` are known, one model
       successor.  Legacy format: the page is not known; the model is run for every possible placement
         (n) the descriptor's page does not move (used > 1, not in the full queue),
         (r) a page P of backing[desc_bin] held only the descriptor (it is retired or freed by the model's
             _mi_page_retire rule),
         (u) a page P of backing[MI_BIN_FULL] of that size class held the descriptor and another block
             (it is unfulled to the END of backing[desc_bin]),
       and the after-dump must equal one of these successors. *)
open BinNums
open Util
module L = Stdlib.List

type pent = { pg : string; ok : bool; ext : (bool * int * int) option }   (* in_full, pbin, used *)
type hline = { k : int; pc : int; isdef : bool; desc : string option; qs : (int * pent list) list }

let nbins = L.length Heap.all_bins
let bin_full = nbins - 1
let desc_bin = int_of_n Heap.desc_bin
let ghost_bin = desc_bin + 1
let ghost_pid = n_of_int 1

let pid_of (s : string) : coq_N = n_of_u64 (Int64.of_string s)

let parse_hq (toks : string list) : (int * string * hline) option =
  try
    match toks with
    | "HQ" :: op :: wh :: k :: pc :: isdef :: rest ->
      let (desc, groups) =
        match rest with
        | "|" :: g -> (None, g)
        | d :: "|" :: g -> (Some d, g)
        | _ -> raise Exit in
      let qs = L.map (fun g ->
        match String.split_on_char ':' g with
        | [b; pages] ->
          (int_of_string b,
           L.map (fun e ->
             match String.split_on_char '/' e with
             | [p; f] -> { pg = p; ok = (f = "1"); ext = None }
             | [p; f; inf; pb; u] -> { pg = p; ok = (f = "1"); ext = Some (inf = "1", int_of_string pb, int_of_string u) }
             | _ -> raise Exit) (String.split_on_char ',' pages))
        | _ -> raise Exit) groups in
      Some (int_of_string op, wh, { k = int_of_string k; pc = int_of_string pc; isdef = (isdef = "1"); desc; qs })
    | _ -> None
  with _ -> None

(* where the descriptor of the heap under delete/destroy lives (legacy format) *)
type placement = Ghost | Alone of string | InFull of string

let extent = 16777216
(* build the model state of one dump.  `victim`/`place`: legacy-format placement of the victim's descriptor *)
let build (hl : hline list) (victim : int) (place : placement) : Heap.state * bool =
  let extended = L.for_all (fun h -> L.for_all (fun (_, ps) -> L.for_all (fun e -> e.ext <> None) ps) h.qs) hl
                 && L.for_all (fun h -> h.desc <> None) hl in
  let index : (string, int) Hashtbl.t = Hashtbl.create 64 in
  let next = ref 1 in
  let idx p = match Hashtbl.find_opt index p with Some i -> i | None -> let i = !next in incr next; Hashtbl.add index p i; i in
  let blocks_of p n = let base = idx p * extent in L.init n (fun t -> n_of_int (base + 8 * t)) in
  (* descriptors per page (extended) *)
  let desc_pages : (string, int list) Hashtbl.t = Hashtbl.create 8 in
  if extended then
    L.iter (fun h -> match h.desc with
      | Some d when h.k <> 0 -> Hashtbl.replace desc_pages d (h.k :: (try Hashtbl.find desc_pages d with Not_found -> []))
      | _ -> ()) hl;
  let pages = ref [] and descs = ref [] and home = ref [] in
  let add_page p (pi : Heap.pinfo) = pages := (pid_of p, pi) :: !pages;
    L.iter (fun b -> home := (b, pi.Heap.pheap) :: !home) pi.Heap.blocks in
  let heaps = L.map (fun h ->
    let q = Array.make nbins [] in
    L.iter (fun (b, ps) ->
      if b >= 0 && b < nbins then q.(b) <- q.(b) @ L.map (fun e -> pid_of e.pg) ps;
      L.iter (fun e ->
        let (inf, pb, used) =
          match e.ext with
          | Some x when extended -> x
          | _ ->
            (match place with
             | Alone p when p = e.pg && h.k = 0 -> (b = bin_full, b, 1)
             | InFull p when p = e.pg && h.k = 0 -> (true, desc_bin, 2)
             | _ -> (b = bin_full, (if b = bin_full then 0 else b), 2)) in
        let used = if extended then max used (L.length (try Hashtbl.find desc_pages e.pg with Not_found -> [])) else used in
        let bl = blocks_of e.pg used in
        (* descriptors: the first blocks of their page *)
        (if extended then
           L.iteri (fun i hk -> descs := (n_of_int hk, L.nth bl i) :: !descs) (try Hashtbl.find desc_pages e.pg with Not_found -> [])
         else match place with
           | (Alone p | InFull p) when p = e.pg && h.k = 0 -> descs := (n_of_int victim, L.hd bl) :: !descs
           | _ -> ());
        if extended then Hashtbl.remove desc_pages e.pg;
        add_page e.pg { Heap.pheap = (if e.ok then Some (n_of_int h.k) else None); pbin = n_of_int pb; in_full = inf;
                        blocks = bl; pstart = n_of_int (idx e.pg * extent); pcapb = n_of_int extent; psize = n_of_int extent }) ps) h.qs;
    (h.k, q, h.pc)) hl in
  (* legacy format: the descriptors whose page is not known live in a ghost page at the end of backing[ghost_bin] *)
  let ghost_descs = if extended then [] else
    L.filter (fun hk -> hk <> 0 && not (L.exists (fun (k, _) -> int_of_n k = hk) !descs)) (L.map (fun h -> h.k) hl) in
  let use_ghost = not extended in
  if use_ghost then begin
    let bl = n_of_int 8000 :: L.map (fun hk -> n_of_int (8 * hk)) ghost_descs in
    L.iter (fun hk -> descs := (n_of_int hk, n_of_int (8 * hk)) :: !descs) ghost_descs;
    pages := (ghost_pid, { Heap.pheap = Some N0; pbin = n_of_int ghost_bin; in_full = false; blocks = bl;
                           pstart = N0; pcapb = n_of_int extent; psize = n_of_int extent }) :: !pages;
    L.iter (fun b -> home := (b, Some N0) :: !home) bl
  end;
  let heaps = L.map (fun (k, q, pc) ->
    if k = 0 && use_ghost then q.(ghost_bin) <- q.(ghost_bin) @ [ghost_pid];
    { Heap.h_id = n_of_int k; queues = Array.to_list q; page_count = n_of_int (pc + (if k = 0 && use_ghost then 1 else 0));
      no_reclaim = (k <> 0); tag = N0; arena_id = N0 }) heaps in
  let default = match L.filter (fun h -> h.isdef) hl with [h] -> n_of_int h.k | _ -> n_of_int 999999 in
  ({ Heap.heaps = heaps; pages = !pages; default = default; backing = N0; descs = !descs; home = !home }, extended)

(* comparable projection of a model state: per heap (k, queues as strings without the ghost page, page_count, is_default) *)
let project (s : Heap.state) =
  L.sort compare (L.map (fun (h : Heap.heap) ->
    let k = int_of_n h.Heap.h_id in
    let ghost = ref 0 in
    let qs = L.mapi (fun i q -> (i, L.filter_map (fun p -> if p = ghost_pid then (incr ghost; None) else Some (string_of_n p)) q)) h.Heap.queues in
    (k, L.filter (fun (_, q) -> q <> []) qs, int_of_n h.Heap.page_count - !ghost, h.Heap.h_id = s.Heap.default)) s.Heap.heaps)

let project_dump (hl : hline list) =
  L.sort compare (L.map (fun h ->
    (h.k, L.filter (fun (_, q) -> q <> []) (L.map (fun (b, ps) -> (b, L.map (fun e -> string_of_n (pid_of e.pg)) ps)) (L.sort compare h.qs)), h.pc, h.isdef)) hl)

let show_heap (k, qs, pc, d) =
  Printf.sprintf "heap %d count=%d default=%b %s" k pc d
    (String.concat " " (L.map (fun (b, q) -> Printf.sprintf "%d:[%s]" b (String.concat "," (L.map (fun p -> Printf.sprintf "%x" (int_of_string p)) q))) qs))

let first_diff model real =
  let rec go m r = match m, r with
    | [], [] -> "identical"
    | x :: m', y :: r' -> if x = y then go m' r' else Printf.sprintf "model { %s } impl { %s }" (show_heap x) (show_heap y)
    | x :: _, [] -> Printf.sprintf "model has { %s }, impl has no such heap" (show_heap x)
    | [], y :: _ -> Printf.sprintf "impl has { %s }, model has no such heap" (show_heap y) in
  go model real

(* plain-OCaml diagnosis of a failed invariant (message only; the verdict is Heap.heap_inv_b) *)
let diagnose (hl : hline list) : string =
  let seen = Hashtbl.create 64 in
  let msgs = ref [] in
  L.iter (fun h ->
    let n = ref 0 in
    L.iter (fun (b, ps) -> L.iter (fun e ->
      incr n;
      (match Hashtbl.find_opt seen e.pg with
       | Some (k', b') -> msgs := Printf.sprintf "page %s is in queue %d of heap %d and in queue %d of heap %d" e.pg b' k' b h.k :: !msgs
       | None -> Hashtbl.add seen e.pg (h.k, b));
      if not e.ok then msgs := Printf.sprintf "page %s in queue %d of heap %d has a different heap back pointer" e.pg b h.k :: !msgs;
      (match e.ext with
       | Some (inf, pb, _) ->
         if inf <> (b = bin_full) then msgs := Printf.sprintf "page %s in queue %d of heap %d has in_full=%b" e.pg b h.k inf :: !msgs;
         if b <> bin_full && pb <> b then msgs := Printf.sprintf "page %s of size class %d is in queue %d of heap %d" e.pg pb b h.k :: !msgs
       | None -> ())) ps) h.qs;
    if !n <> h.pc then msgs := Printf.sprintf "heap %d: page_count=%d but %d pages are queued" h.k h.pc !n :: !msgs) hl;
  if L.length (L.filter (fun h -> h.isdef) hl) <> 1 then msgs := "not exactly one live heap is the default heap" :: !msgs;
  if not (L.exists (fun h -> h.k = 0) hl) then msgs := "backing heap missing" :: !msgs;
  match !msgs with [] -> "(clause not identified)" | l -> String.concat "; " (L.rev l)

let () = Modes.register "heap" (fun records mismatches ->
  let mism fmt = Printf.ksprintf (fun s -> incr mismatches; if !mismatches <= 30 then print_endline ("MISMATCH " ^ s)) fmt in
  let groups : (int * string, hline list) Hashtbl.t = Hashtbl.create 64 in
  let order = ref [] in
  let hops = ref [] in
  (try
    while true do
      let line = input_line stdin in
      if String.length line > 2 && line.[0] = 'H' then begin
        let toks = split_ws line in
        match toks with
        | "HQ" :: _ ->
          (match parse_hq toks with
           | None -> mism "unparsable heap dump: %s" line
           | Some (op, wh, h) ->
             incr records;
             let key = (op, wh) in
             (match Hashtbl.find_opt groups key with
              | Some l -> Hashtbl.replace groups key (l @ [h])
              | None -> Hashtbl.add groups key [h]; order := key :: !order))
        | "HOP" :: op :: kind :: k :: [] -> hops := (int_of_string op, kind, int_of_string k) :: !hops
        | _ -> ()
      end
    done
  with End_of_file -> ());
  let dumps = ref 0 and invs = ref 0 and extended_dumps = ref 0 in
  L.iter (fun key ->
    let hl = Hashtbl.find groups key in
    incr dumps;
    let (s, ext) = build hl (-1) Ghost in
    if ext then incr extended_dumps;
    incr invs;
    if not (Heap.heap_inv_b s) then mism "op %d (%s): heap invariant violated: %s" (fst key) (snd key) (diagnose hl)
    else if ext && not (Heap.desc_inv_b s) then mism "op %d (%s): a heap descriptor is not a live block of a page of the backing heap" (fst key) (snd key))
    (L.rev !order);
  let ndel = ref 0 and ndes = ref 0 and exact = ref 0 and pn = ref 0 and pr = ref 0 and pu = ref 0 in
  let moved = ref 0 and fullmoved = ref 0 and destroyed = ref 0 and fallback = ref 0 and nonempty = ref 0 in
  L.iter (fun (op, kind, k) ->
    match Hashtbl.find_opt groups (op, "b"), Hashtbl.find_opt groups (op, "a") with
    | Some before, Some after ->
      (match L.filter (fun h -> h.k = k) before, L.filter (fun h -> h.k = 0) before with
       | [victim], [back] ->
         if kind = "HD" then incr ndel else incr ndes;
         let npages = L.fold_left (fun a (_, ps) -> a + L.length ps) 0 victim.qs in
         if npages > 0 then incr nonempty;
         if kind = "HD" then begin
           moved := !moved + npages;
           fullmoved := !fullmoved + L.fold_left (fun a (b, ps) -> if b = bin_full then a + L.length ps else a) 0 victim.qs
         end else destroyed := !destroyed + npages;
         if victim.isdef then incr fallback;
         let real = project_dump after in
         let run place =
           let (s, ext) = build before k place in
           let r = if kind = "HD" then Heap.heap_delete s (n_of_int k) else Heap.heap_destroy s (n_of_int k) in
           (ext, match r with Some s' -> Some (project s') | None -> None) in
         let (ext, main) = run Ghost in
         if ext then begin
           (match main with
            | Some m when m = real -> incr exact
            | Some m -> mism "op %d %s %d: after-state differs from the model's heap_%s: %s" op kind k (if kind = "HD" then "delete" else "destroy") (first_diff m real)
            | None -> mism "op %d %s %d: the model's heap_%s faults (descriptor not freeable)" op kind k (if kind = "HD" then "delete" else "destroy"))
         end else begin
           let cands_r = L.concat_map (fun (b, ps) -> if b = desc_bin then L.map (fun e -> Alone e.pg) ps else []) back.qs in
           let cands_u = L.concat_map (fun (b, ps) -> if b = bin_full then L.map (fun e -> InFull e.pg) ps else []) back.qs in
           if main = Some real then begin incr exact; incr pn end
           else if L.exists (fun c -> snd (run c) = Some real) cands_r then begin incr exact; incr pr end
           else if L.exists (fun c -> snd (run c) = Some real) cands_u then begin incr exact; incr pu end
           else
             mism "op %d %s %d: after-state is none of the %d successors the model allows; without descriptor effect: %s" op kind k
               (1 + L.length cands_r + L.length cands_u)
               (match main with Some m -> first_diff m real | None -> "model faults")
         end
       | _ -> mism "op %d %s %d: heap %d or the backing heap is missing from the before-dump" op kind k k)
    | _ -> mism "op %d %s %d: before/after dump missing" op kind k)
    (L.rev !hops);
  Printf.printf "STATS heap dumps=%d invariants=%d extended_dumps=%d hops=%d delete=%d destroy=%d exact=%d nonempty_victims=%d desc_none=%d desc_retired=%d desc_unfull=%d pages_migrated=%d full_pages_migrated=%d pages_destroyed=%d default_fallbacks=%d\n"
    !dumps !invs !extended_dumps (L.length !hops) !ndel !ndes !exact !nonempty !pn !pr !pu !moved !fullmoved !destroyed !fallback)
