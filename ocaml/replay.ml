(* Replay driver: runs the extracted Coq model on records produced by the C harnesses.
   usage: replay <mode> < records ; prints one line per disagreement "MISMATCH ..." and a final
   "DONE <records> <mismatches>" line. *)
open BinNums
open Util
module L = Stdlib.List

let mismatches = ref 0
let records = ref 0

(* ---- mode F: function-level records  "F <fn> <args...> = <results...>" ---- *)
let f_eval (fn : string) (a : coq_N list) : coq_N list =
  let b x = if x then n_of_int 1 else n_of_int 0 in
  match fn, a with
  | "align_up", [x; y] -> [Arith.align_up x y]
  | "align_down", [x; y] -> [Arith.align_down x y]
  | "divide_up", [x; y] -> [Arith.divide_up x y]
  | "wsize", [x] -> [Arith.wsize_from_size x]
  | "clz", [x] -> [Arith.clz x]
  | "ctz", [x] -> [Arith.ctz x]
  | "bsr", [x] -> [Arith.bsr x]
  | "mul_overflow", [x; y] -> let (o, t) = Arith.mul_overflow x y in [b o; t]
  | "count_size_overflow", [x; y] -> let (o, t) = Arith.count_size_overflow x y in [b o; t]
  | "bin", [x] -> [Arith.mi_bin x]
  | "bin_size", [x] -> [Arith.bin_size x]
  | "good_size", [x] -> [Arith.good_size x]
  | "os_good_alloc_size", [x] -> [Arith.os_good_alloc_size x]
  | "slice_bin", [x] -> [Arith.slice_bin8 x]
  | "fast_divisor", [x] -> let (m, s) = Arith.fast_divisor x in [m; s]
  | "fast_divide", [n; m; s] -> [Arith.fast_divide n m s]
  | "block_size_shift", [x] -> [Arith.block_size_shift x]
  | "unalign", [ps; bs; p] -> [Arith.ptr_unalign ps bs p]
  | "ptr_segment", [p] -> [Arith.ptr_segment p]
  | "slice_index_of", [s; p] -> [Arith.slice_index_of s p]
  | "page_start", [seg; idx; cnt; bs] -> let (s, ps) = Arith.page_start_from_slice seg idx cnt bs in [s; ps]
  | "is_pow2", [x] -> [b (Arith.is_power_of_two x)]
  | _ -> failwith ("unknown function record: " ^ fn)

let mode_f () =
  (try
    while true do
      let line = input_line stdin in
      match split_ws line with
      | "F" :: fn :: rest ->
        incr records;
        let rec split acc = function
          | "=" :: r -> (L.rev acc, r)
          | x :: r -> split (x :: acc) r
          | [] -> (L.rev acc, []) in
        let (args, res) = split [] rest in
        let got = L.map string_of_n (f_eval fn (L.map n_of_string args)) in
        if got <> res then begin
          incr mismatches;
          if !mismatches <= 50 then
            Printf.printf "MISMATCH F %s %s : impl=%s model=%s\n" fn (String.concat " " args)
              (String.concat " " res) (String.concat " " got)
        end
      | _ -> ()
    done
  with End_of_file -> ())

let () =
  let mode = if Array.length Sys.argv > 1 then Sys.argv.(1) else "F" in
  (match mode with
   | "F" -> mode_f ()
   | m ->
     (match L.assoc_opt m !Modes.table with
      | Some f -> f records mismatches
      | None -> failwith ("unknown mode " ^ m)));
  Printf.printf "DONE %d %d\n" !records !mismatches
