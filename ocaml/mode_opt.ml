(* Replay mode "opt" (C20): runs the extracted model Opt on the F records of harness/f_opt.c.
   Byte strings are hex ("-" = empty).  One MISMATCH line per disagreement. *)
open BinNums
open Util
module L = Stdlib.List
module S = Stdlib.String

let unhex (s : string) : coq_N list =
  if s = "-" then [] else begin
    let n = S.length s / 2 in
    L.init n (fun i -> n_of_int (int_of_string ("0x" ^ S.sub s (2 * i) 2)))
  end

let hex (l : coq_N list) : string =
  if l = [] then "-" else S.concat "" (L.map (fun c -> Printf.sprintf "%02x" (int_of_n c land 255)) l)

let rec nat_of_int (i : int) : Datatypes.nat = if i <= 0 then Datatypes.O else Datatypes.S (nat_of_int (i - 1))

let mkbuf (l : coq_N list) : Opt.buf = { Opt.bdata = l; Opt.fault = false }
let fill n = L.init n (fun _ -> n_of_int 0xAA)
let b01 b = if b then "1" else "0"

let rec take n l = if n <= 0 then [] else match l with [] -> [] | x :: r -> x :: take (n - 1) r
let rec drop n l = if n <= 0 then l else match l with [] -> [] | _ :: r -> drop (n - 1) r

let parse_arg (s : string) : Opt.arg =
  match s.[0] with
  | 's' -> Opt.AStr (unhex (S.sub s 1 (S.length s - 1)))
  | 'n' -> Opt.ANull
  | 'i' -> Opt.AInt (n_of_string (S.sub s 1 (S.length s - 1)))
  | _ -> failwith ("bad arg " ^ s)

let eval (fn : string) (a : string list) : string list =
  let i = int_of_string in
  match fn, a with
  | "toupper", [c] -> [string_of_n (Opt.toupper (n_of_string c))]
  | "strnicmp", [s; t; n] -> [string_of_z (Opt.strnicmp (unhex s) (unhex t) (n_of_string n))]
  | "strlen", [s] -> [string_of_n (Opt.strlen (unhex s))]
  | "strnlen", [s; m] -> [string_of_n (Opt.strnlen (unhex s) (n_of_string m))]
  | "strlcpy", [size; init; src] ->
    let b = Opt.strlcpy (mkbuf (unhex init)) N0 (unhex src) (n_of_string size) in
    [hex b.Opt.bdata; b01 b.Opt.fault]
  | "strlcat", [size; init; src] ->
    let b = Opt.strlcat (mkbuf (unhex init)) N0 (unhex src) (n_of_string size) in
    [hex b.Opt.bdata; b01 b.Opt.fault]
  | "getenv", size :: name :: _k :: env ->
    let (found, b) = Opt.mi_getenv (L.map unhex env) (unhex name) (mkbuf (fill (i size))) (n_of_string size) in
    [b01 found; hex b.Opt.bdata; b01 b.Opt.fault]
  | "isword", [s; w] -> [b01 (Opt.is_word (unhex s) (unhex w))]
  | "strtol", [s] ->
    let s = unhex s in
    let ((v, rest), conv) = Opt.strtol10 s in
    [string_of_z v; string_of_int (L.length s - L.length rest); b01 conv]
  | "optinit", idx :: _k :: env ->
    let ix = nat_of_int (i idx) in
    (match Opt.option_get Opt.table0 ix (L.map unhex env) false (mkbuf (fill 65)) (mkbuf (fill 65)) with
     | Some ((v, t), f) ->
       let o = Opt.tget t ix in
       [string_of_z v; string_of_n o.Opt.o_init;
        string_of_z (Opt.tget t Options.opt_guarded_min).Opt.o_value;
        string_of_z (Opt.tget t Options.opt_guarded_max).Opt.o_value; b01 f]
     | None -> ["FUEL"])
  | "optseq", _k :: ops ->
    let rec go t ops =
      match ops with
      | op :: ix :: v :: r ->
        let ix = nat_of_int (i ix) and v = z_of_string v in
        let t' =
          (match op with
           | "0" -> (match Opt.option_set t ix v with Some t' -> t' | None -> failwith "FUEL")
           | "1" -> Opt.option_set_default t ix v
           | _ -> (match Opt.option_get t ix [] false (mkbuf (fill 65)) (mkbuf (fill 65)) with
                   | Some ((_, t'), _) -> t' | None -> failwith "FUEL")) in
        go t' r
      | _ -> t in
    let t = go Opt.table0 ops in
    L.concat_map (fun (o : Opt.opt) -> [string_of_z o.Opt.o_value; string_of_n o.Opt.o_init]) t
  | "vsn", base :: bufsize :: fmt :: _k :: args ->
    let n = i bufsize in
    (match Opt.vsnprintf (n_of_string base) (mkbuf (fill n)) (n_of_string bufsize) (unhex fmt) (L.map parse_arg args) with
     | Some (b, ret) -> [string_of_n ret; hex b.Opt.bdata; b01 b.Opt.fault]
     | None -> ["FUEL"])
  | "outbuf", startlen :: _k :: msgs ->
    let maxd = int_of_n Opt.coq_MAX_DELAY in
    let st = L.fold_left (fun st m -> Opt.out_buf_msg st (unhex m)) (mkbuf (fill (maxd + 1)), n_of_string startlen) msgs in
    let (b, len) = st in
    [string_of_n len; hex (drop (maxd - 700) b.Opt.bdata); b01 b.Opt.fault]
  | "outflush", [startlen; nomore] ->
    let maxd = int_of_n Opt.coq_MAX_DELAY in
    let ((b, len), shown) = Opt.out_buf_flush (mkbuf (fill (maxd + 1)), n_of_string startlen) (nomore = "1") in
    [string_of_n len; string_of_int (L.length shown); hex (drop (maxd - 700) b.Opt.bdata); b01 b.Opt.fault]
  | "bufout", count :: _k :: msgs ->
    let c = i count in
    let st = L.fold_left (fun st m -> Opt.buffered_out (unhex m) (n_of_string count) st) ((mkbuf (fill (c + 1)), N0), []) msgs in
    let ((b, used), outl) = st in
    [string_of_n used; b01 b.Opt.fault; string_of_int (L.length outl)] @ L.rev_map hex outl
  | "hbuf", size :: used0 :: _k :: msgs ->
    let h0 = { Opt.h_buf = mkbuf (fill (i size)); Opt.h_size = n_of_string size; Opt.h_used = n_of_string used0; Opt.h_can_realloc = false } in
    let h = L.fold_left (fun h m -> fst (Opt.heap_buf_print h (unhex m) [])) h0 msgs in
    [string_of_n h.Opt.h_used; hex h.Opt.h_buf.Opt.bdata; b01 h.Opt.h_buf.Opt.fault]
  | _ -> failwith ("unknown opt record: " ^ fn)

let () = Modes.register "opt" (fun records mismatches ->
  (try
    while true do
      let line = input_line stdin in
      match split_ws line with
      | "F" :: fn :: rest ->
        incr records;
        let rec split acc = function
          | "=" :: r -> (L.rev acc, r)
          | x :: r -> split (x :: acc) r
          | [] -> (L.rev acc, []) in
        let (args, res) = split [] rest in
        let got = (try eval fn args with Failure m -> ["EXC:" ^ m] | Invalid_argument m -> ["EXC:" ^ m]) in
        if got <> res then begin
          incr mismatches;
          if !mismatches <= 50 then begin
            let cut s = if S.length s > 900 then S.sub s 0 900 ^ "..." else s in
            Printf.printf "MISMATCH F %s %s : impl=%s model=%s\n" fn (cut (S.concat " " args))
              (cut (S.concat " " res)) (cut (S.concat " " got))
          end
        end
      | _ -> ()
    done
  with End_of_file -> ()))
