#include <mimalloc.h>
#include <pthread.h>
#include <stdio.h>
#include <stdint.h>
#include <stdlib.h>
#include <sys/mman.h>
static mi_arena_id_t aid; static char* al; static size_t asize = 128*1024*1024;
static void* keep[100];
static void* thr(void* a){ mi_heap_t* h = mi_heap_new_in_arena(aid); for(int i=0;i<100;i++){ keep[i]=mi_heap_malloc(h,64);} return NULL; }
int main(){
  char* abase = mmap(NULL, asize + 64*1024*1024, PROT_READ|PROT_WRITE, MAP_PRIVATE|MAP_ANONYMOUS, -1, 0);
  al = (char*)(((uintptr_t)abase + 32*1024*1024-1) & ~(uintptr_t)(32*1024*1024-1));
  if(!mi_manage_os_memory_ex(al, asize, true, false, true, -1, true /*exclusive*/, &aid)) { printf("manage failed\n"); return 2; }
  pthread_t t; pthread_create(&t,NULL,thr,NULL); pthread_join(t,NULL);
  mi_heap_t* h2 = mi_heap_new_ex(7, false, aid);
  void* q = mi_heap_malloc(h2, 1000);  // needs a fresh page -> try_reclaim(h2)
  printf("q inside=%d\n", (char*)q>=al && (char*)q<al+asize);
  int inside=0;
  for(int i=0;i<200;i++){ char* p = mi_malloc(64); if (p>=al && p<al+asize) inside++; }
  printf("inside=%d\n", inside);
  return inside>0;
}
