// witness of the known finding impl:destroy-frees-adopted (known_findings.txt): a heap made with mi_heap_new() (no_reclaim: it may be
// destroyed) adopts the abandoned pages of a terminated thread when it needs a fresh page (heap->no_reclaim is tested only in heap.c, not on
// the reclaim paths of segment.c), and mi_heap_destroy then frees live blocks of that thread.  Exit 1 = reproduces.
#include <mimalloc.h>
#include <pthread.h>
#include <stdio.h>
#include <string.h>
static void* blocks[200];
static void* worker(void* a) { (void)a; for (int i = 0; i < 200; i++) { blocks[i] = mi_malloc(64); memset(blocks[i], 0xAB, 64); } return NULL; }
int main(void) {
  mi_heap_t* h = mi_heap_new();                 // a heap that may be destroyed (no_reclaim)
  pthread_t t; pthread_create(&t, NULL, worker, NULL); pthread_join(t, NULL);   // the thread exits with 200 live blocks
  for (int i = 0; i < 4; i++) (void)mi_heap_malloc(h, 10 * 1024 * 1024);       // the 4th: mi_segment_try_reclaim(h, ...)
  int adopted = 0;
  for (int i = 0; i < 200; i++) if (mi_heap_contains_block(h, blocks[i])) adopted++;
  printf("blocks of the exited thread that now belong to the destroyable heap: %d of 200\n", adopted);
  mi_heap_destroy(h);                           // frees every page of h, the adopted ones too
  for (int i = 0; i < 12; i++) { void* q = mi_malloc(10 * 1024 * 1024); if (q) memset(q, 0, 10 * 1024 * 1024); }
  int clobbered = 0;
  for (int k = 0; k < 200; k++) { const unsigned char* b = blocks[k]; for (int j = 0; j < 64; j++) if (b[j] != 0xAB) { clobbered++; break; } }
  printf("live blocks of the exited thread whose contents were overwritten by later allocations: %d of 200\n", clobbered);
  return (adopted > 0 && clobbered > 0) ? 1 : 0;
}
