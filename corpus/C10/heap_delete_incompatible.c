#include <mimalloc.h>
#include <stdio.h>
#include <stdint.h>
#include <sys/mman.h>
int main(){
  size_t asize = 128*1024*1024; mi_arena_id_t aid;
  char* abase = mmap(NULL, asize + 64*1024*1024, PROT_READ|PROT_WRITE, MAP_PRIVATE|MAP_ANONYMOUS, -1, 0);
  char* al = (char*)(((uintptr_t)abase + 32*1024*1024-1) & ~(uintptr_t)(32*1024*1024-1));
  if(!mi_manage_os_memory_ex(al, asize, true, false, true, -1, false /*shared*/, &aid)) return 2;
  void* q = mi_malloc(100);                    // default heap: segment in the shared arena
  mi_heap_t* h = mi_heap_new_in_arena(aid);
  void* p = mi_heap_malloc(h, 5000);           // page in the same segment (cached span, suitable)
  printf("same segment: %d\n", ((uintptr_t)p >> 25) == ((uintptr_t)q >> 25));
  mi_heap_delete(h);                           // not compatible with the backing heap: pages are abandoned, segment stays owned
  printf("deleted\n"); fflush(stdout);
  mi_free(p);                                  // local free of the last block of an abandoned page: _mi_page_retire(heap == NULL)
  printf("survived\n");
  return 0;
}
