(* Extraction of the API-level model for the function-level correspondence (ocaml/mode_api.ml). *)
From Coq Require Import Extraction ExtrOcamlBasic NArith List.
From MiV Require Import Model.Arith.
From MiV Require Import Model.Api.
Extraction Language OCaml.
Cd "extracted".
Separate Extraction
  Api.exec Api.call_failed Api.malloc_is_naturally_aligned Api.aligned_adjust Api.overalloc_size
  Api.realloc_inplace_b Api.realloc_aligned_inplace_b Api.realloc_zero Api.realloc_zero_aligned_at
  Api.heap_malloc_zero_aligned_at Api.posix_memalign Api.pvalloc Api.usable_size Api.lookup Api.byte_at
  Api.bytes_of Api.write Api.free Api.expand Arith.count_size_overflow Arith.align_up.
Cd "..".
