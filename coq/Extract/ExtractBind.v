(* Extraction of the arena-binding model (C15) and of the abandonment small-step model (C09) for
   ocaml/mode_bind.ml.  Same conventions as Extract/Extract.v: ExtrOcamlBasic only; this file is an
   item list that tools/vlib.py merges into Extract/All.v. *)
From Coq Require Import Extraction ExtrOcamlBasic NArith ZArith List.
From MiV Require Import Gen.Consts.
From MiV Require Import Model.Arith.
From MiV Require Import Model.Bind.
From MiV Require Import Model.Abandon.
Extraction Language OCaml.
Cd "extracted".
Separate Extraction
  N.add N.mul N.sub N.div N.modulo N.eqb N.leb N.ltb N.of_nat N.to_nat Z.of_N Z.to_N Z.add Z.mul Z.opp Z.eqb Z.leb Z.ltb
  Bind.arena_id_index Bind.arena_id_create Bind.arena_id_is_suitable Bind.memid_is_suitable Bind.heap_memid_is_suitable
  Bind.manage_os_memory Bind.inuse_init_word Bind.inuse_init Bind.claimable_from Bind.arena_alloc Bind.arena_area Bind.arena_contains
  Bind.manage Bind.step Bind.run Bind.init_state Bind.bound_inv_b Bind.placed_inv_b Bind.tags_uniform_b Bind.exclusive_leak_b
  Bind.find_seg Bind.find_heap Bind.cached_spans Bind.seg_slices Bind.tag_safe_b Bind.heap_by_tag Bind.cursor_yields
  Abandon.tid_of Abandon.stepx Abandon.step Abandon.run_schedule Abandon.run_trace Abandon.adoption_trace Abandon.run_solo
  Abandon.mk_state Abandon.inv_b Abandon.finished Abandon.quiescent Abandon.count_ok_b Abandon.no_dead_abandoned_b
  Abandon.collect_prog Abandon.collect_prog_of Abandon.os_count Abandon.marked Abandon.holds Abandon.NEVER Abandon.USE.
Cd "..".
