(* Extraction of the segment/span model for the slice-array correspondence (ocaml/mode_span.ml). *)
From Coq Require Import Extraction ExtrOcamlBasic NArith List.
From MiV Require Import Model.Arith Model.Span.
Extraction Language OCaml.
Cd "extracted".
Separate Extraction
  Span.get Span.set Span.span_free Span.span_remove_from_queue Span.span_free_coalesce Span.span_allocate
  Span.slice_split Span.find_span Span.page_find_and_allocate Span.set_block_size Span.page_clear
  Span.calculate_slices Span.segment_request Span.empty_queues Span.segment_init Span.segment_free
  Span.segment_page_of Span.page_start Span.huge_aligned_ptr Span.t_find Span.proj_queues
  Span.spans_of Span.span_inv_b Span.used_spans Span.coalesced_b
  Span.span_step Span.span_run.
Cd "..".
