(* Extraction of the boolean give-back checks (C11 on the commit model; ocaml/mode_commit.ml).
   Same conventions as Extract/Extract.v: ExtrOcamlBasic only, no Extract Constant; item list only. *)
From Coq Require Import Extraction ExtrOcamlBasic NArith ZArith List.
From MiV Require Import Gen.Consts Model.Commit Model.GiveBack.
Extraction Language OCaml.
Cd "extracted".
Separate Extraction
  GiveBack.inuse_owned_b GiveBack.all_freed_b GiveBack.no_segment_b GiveBack.no_block_inuse_b GiveBack.no_purge_scheduled_b
  GiveBack.outside_inaccessible_b GiveBack.gave_back_b GiveBack.ops_unmaps_ok.
Cd "..".
