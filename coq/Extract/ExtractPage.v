(* Extraction of the page model for the API-trace correspondence (ocaml/mode_page.ml). *)
From Coq Require Import Extraction ExtrOcamlBasic NArith List.
From MiV Require Import Model.Arith Model.Page Model.Direct.
Extraction Language OCaml.
Cd "extracted".
Separate Extraction
  Page.page_malloc Page.page_free_local Page.page_remote_free Page.page_thread_free_collect
  Page.page_free_collect Page.page_extend Page.page_init Page.page_visit_blocks Page.page_live
  Page.page_inv_b Page.page_step Page.page_run
  Direct.direct_ok_b Direct.first_update Direct.small_page.
Cd "..".
