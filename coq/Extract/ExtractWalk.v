(* Extraction of the heap-walk model for the walk correspondence (ocaml/mode_walk.ml). *)
From Coq Require Import Extraction ExtrOcamlBasic NArith List.
From MiV Require Import Model.Arith Model.Page Model.Walk.
Extraction Language OCaml.
Cd "extracted".
Separate Extraction
  Walk.walk_stop_at Walk.pages_after_stop_at Walk.all_calls Walk.live_calls Walk.area_call.
Cd "..".
