(* Extraction of the composite memory model (C01 composition) for the full-state correspondence
   (ocaml/mode_compose.ml). *)
From Coq Require Import Extraction ExtrOcamlBasic NArith List.
From MiV Require Import Model.Arith Model.Page Model.Span Model.Compose.
Extraction Language OCaml.
Cd "extracted".
Separate Extraction
  Span.proj_queues Span.span_inv_b Span.used_spans
  Compose.find_seg Compose.find_page Compose.seg_slices Compose.seg_size Compose.page_area Compose.block_addr
  Compose.live_blocks Compose.resolve Compose.mmalloc Compose.free_block Compose.retire_page Compose.mstep Compose.mrun
  Compose.ghost_ok_b Compose.page_ok_b Compose.seg_ok_b Compose.apart_b Compose.mem_inv_b Compose.resolvable_b
  Compose.block_size_of Compose.slices_needed.
Cd "..".
