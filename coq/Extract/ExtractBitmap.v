(* Extraction of the bitmap model (sequential layer and small-step machine) for the C14
   correspondence checks.  Same conventions as Extract/Extract.v: ExtrOcamlBasic only.
   (tools/vlib.py merges the item lists of all Extract/Extract*.v into one command.) *)
From Coq Require Import Extraction ExtrOcamlBasic NArith ZArith List.
From MiV Require Import Gen.Consts Model.Arith Model.Bitmap.
Extraction Language OCaml.
Cd "extracted".
Separate Extraction
  N.add N.mul N.sub N.div N.modulo N.eqb N.leb N.ltb N.of_nat N.to_nat
  N.land N.lor N.testbit N.shiftl N.shiftr
  Bitmap.mask_ Bitmap.index_create Bitmap.index_create_from_bit Bitmap.index_field Bitmap.index_bit_in_field
  Bitmap.index_bit Bitmap.popcount
  Bitmap.try_find_claim_field Bitmap.try_find_from_claim Bitmap.try_find_from_claim_pred
  Bitmap.unclaim Bitmap.claim Bitmap.is_claimedx Bitmap.try_claim Bitmap.is_claimed Bitmap.is_any_claimed
  Bitmap.try_find_claim_field_across Bitmap.try_find_from_claim_across Bitmap.mask_across
  Bitmap.unclaim_across Bitmap.claim_across Bitmap.is_claimedx_across Bitmap.is_claimed_across
  Bitmap.is_any_claimed_across Bitmap.arena_fields Bitmap.arena_init Bitmap.zero_run_at Bitmap.zero_bits
  Bitmap.bm_bit Bitmap.ACROSS_TRIES
  Bitmap.stepx Bitmap.step Bitmap.init_state Bitmap.run_schedule Bitmap.run_trace Bitmap.run_solo
  Bitmap.finished Bitmap.inv_b Bitmap.held Bitmap.exec Bitmap.access_field Bitmap.enter.
Cd "..".
