(* Extraction of the abandonment / adoption interleaving model (Model/Abandon.v) for the schedule-lockstep
   replay of the real allocator's step log (ocaml/mode_abandon.ml, mode `abandon-lockstep`).  Same conventions
   as Extract/Extract.v: ExtrOcamlBasic only; this file is an item list that tools/vlib.py merges into Extract/All.v. *)
From Coq Require Import Extraction ExtrOcamlBasic NArith ZArith List.
From MiV Require Import Gen.Consts.
From MiV Require Import Model.Abandon.
Extraction Language OCaml.
Cd "extracted".
Separate Extraction
  N.add N.mul N.sub N.eqb N.leb N.ltb N.of_nat N.to_nat Z.of_N Z.to_N Z.add Z.opp Z.eqb Z.leb Z.ltb
  Abandon.tid_of Abandon.exec Abandon.apply_outcome Abandon.stepx Abandon.step Abandon.mk_state
  Abandon.inv_b Abandon.seg_inv_b Abandon.thr_inv_b Abandon.list_inv_b Abandon.quiescent Abandon.finished
  Abandon.count_ok_b Abandon.marked_count Abandon.get_count Abandon.marked Abandon.holds Abandon.owns Abandon.pc_seg
  Abandon.os_head Abandon.subproc_of Abandon.in_list Abandon.lock_held Abandon.NEVER Abandon.USE Abandon.upd_nth.
Cd "..".
