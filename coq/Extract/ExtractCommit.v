(* Extraction of the commit-bookkeeping model (C07, Coq side; ocaml/mode_commit.ml).
   Same conventions as Extract/Extract.v: ExtrOcamlBasic only, no Extract Constant; item list only. *)
From Coq Require Import Extraction ExtrOcamlBasic NArith ZArith List.
From MiV Require Import Gen.Consts Model.Commit.
Extraction Language OCaml.
Cd "extracted".
Separate Extraction
  N.add N.mul N.sub N.div N.modulo N.eqb N.leb N.ltb N.of_nat N.to_nat
  Commit.BLOCK_SLICES Commit.MASK_BITS Commit.INFO_SLICES Commit.in_range Commit.set_range Commit.all_in Commit.any_in
  Commit.no_bits Commit.mask_full Commit.ask
  Commit.arena_try_alloc_at Commit.arena_purge Commit.arena_free Commit.arenas_try_purge
  Commit.segment_commit Commit.segment_ensure_committed Commit.segment_purge Commit.segment_try_purge
  Commit.span_allocate Commit.span_free Commit.page_find_and_allocate Commit.page_alloc Commit.collect Commit.free_page
  Commit.find_page Commit.malloc_generic Commit.step Commit.run Commit.mk
  Commit.slice_used Commit.governed Commit.seg_wf_b Commit.seg_mask_b Commit.seg_used_b Commit.page_wf_b Commit.pairwise
  Commit.pages_disjoint Commit.owner_disjoint Commit.owners Commit.raw_wf_b Commit.arena_acc_b Commit.commit_inv_b
  Commit.page_accessible Commit.arena_init Commit.state_init Commit.word_of Commit.words_of.
Cd "..".
