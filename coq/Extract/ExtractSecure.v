(* Extraction of the model of the hardening checks (property C17) for ocaml/mode_secure.ml.
   Only ExtrOcamlBasic; no Extract Constant / Extract Inductive directives of our own. *)
From Coq Require Import Extraction ExtrOcamlBasic NArith ZArith List.
From MiV Require Import Gen.Consts Model.Arith Model.Secure.
Extraction Language OCaml.
Cd "extracted".
Separate Extraction
  N.add N.mul N.sub N.div N.modulo N.eqb N.leb N.ltb N.of_nat N.to_nat
  Secure.PAD Secure.DBG_UNINIT Secure.DBG_FREED Secure.DBG_PADDING Secure.min_extend
  Consts.MI_MAX_EXTEND_SIZE Consts.MI_MAX_ALIGN_SIZE Consts.EAGAIN_ Consts.EFAULT_
  Secure.rotl Secure.rotr Secure.ptr_encode Secure.ptr_decode Secure.encode_canary
  Secure.block_next Secure.check_is_double_free Secure.verify_padding Secure.check_padding
  Secure.malloc Secure.free_block_local Secure.remote_free Secure.thread_free_collect
  Secure.free_collect Secure.extend_seq Secure.extend_secure Secure.overflow_write
  Secure.overwrite_link Secure.write_byte Secure.step Secure.run Secure.walk Secure.obs
  Secure.inv_b Secure.geom_b Secure.empty_mem.
Cd "..".
