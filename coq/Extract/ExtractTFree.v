(* Extraction of the cross-thread free protocol model (Model/TFree.v) for the simulator and the
   schedule-lockstep replay (ocaml/mode_tfree.ml).  Same conventions as Extract/Extract.v. *)
From Coq Require Import Extraction ExtrOcamlBasic NArith ZArith List.
From MiV Require Import Model.TFree.
Extraction Language OCaml.
Cd "extracted".
Separate Extraction
  N.add N.mul N.sub N.div N.modulo N.eqb N.leb N.ltb N.of_nat N.to_nat
  TFree.init TFree.tstep TFree.tlog TFree.run TFree.cstep TFree.solo TFree.step_writes
  TFree.inv_b TFree.inv_fail TFree.sinv_b TFree.quiescent TFree.collected_b TFree.live_count
  TFree.pages_of TFree.gett TFree.getp TFree.geth TFree.flag_num TFree.all_blocks TFree.keys
  TFree.wf_b TFree.uniq_b TFree.range_b TFree.count_b TFree.local_b TFree.win_b TFree.nd_b TFree.tfl_b
  TFree.dead_b TFree.pheap_b TFree.heaps_b TFree.del_b TFree.frames_b TFree.hd_b TFree.hown TFree.own.
Cd "..".
