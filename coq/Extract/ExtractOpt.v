(* Extraction items of the option / string / formatted-output model (C20) for the correspondence
   checks.  Only ExtrOcamlBasic; no Extract Constant / Extract Inductive directives of our own.
   (tools/vlib.py merges the item lists of all Extract/Extract*.v into one extraction command.) *)
From Coq Require Import Extraction ExtrOcamlBasic NArith ZArith List.
From MiV Require Import Gen.Consts Gen.Options Model.Arith Model.Opt.
Extraction Language OCaml.
Cd "extracted".
Separate Extraction
  N.add N.mul N.sub N.div N.modulo N.eqb N.leb N.ltb N.of_nat N.to_nat Z.of_N Z.to_N Z.add Z.mul Z.opp
  N.min N.max Z.abs_N Z.ltb Z.leb Z.eqb Z.sub
  Options.opt_guarded_min Options.opt_guarded_max
  Opt.toupper Opt.strnicmp Opt.strlen Opt.strnlen Opt.strlcpy Opt.strlcat Opt.mi_getenv Opt.prim_getenv
  Opt.strtol10 Opt.is_word Opt.parse_value Opt.table0 Opt.option_set Opt.option_set_default
  Opt.option_init Opt.option_get Opt.tget Opt.vsnprintf Opt.out_buf_msg Opt.out_buf_flush Opt.MAX_DELAY
  Opt.buffered_out Opt.heap_buf_print Opt.newbuf Opt.bstr Opt.lenN Opt.has_size_in_kib.
Cd "..".
