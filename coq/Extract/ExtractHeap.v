(* Extraction of the first-class heap model (Model/Heap.v) for the replay of the heap dumps of
   harness/t_api.c (ocaml/mode_heap.ml).  Same conventions as Extract/Extract.v. *)
From Coq Require Import Extraction ExtrOcamlBasic NArith List.
From MiV Require Import Model.Arith Model.Heap.
Extraction Language OCaml.
Cd "extracted".
Separate Extraction
  Heap.all_bins Heap.qget Heap.heap_pages Heap.heap_visit_pages Heap.get_heap Heap.get_page
  Heap.queue_push Heap.queue_remove Heap.enqueue_from Heap.page_to_full Heap.page_unfull Heap.queue_append
  Heap.heap_absorb Heap.heap_collect_abandon Heap.heap_free Heap.heap_delete Heap.heap_destroy
  Heap.heap_set_default Heap.heap_of_block Heap.heap_contains_block Heap.heap_check_owned
  Heap.block_malloc Heap.block_free Heap.free_faults Heap.heap_new Heap.desc_bin Heap.empty_heap
  Heap.heap_step Heap.heap_run Heap.heap_init Heap.heap_inv_b Heap.desc_inv_b Heap.blocks_of_heap
  Heap.live_blocks.
Cd "..".
