(* Extraction of the OS / commit-mask / purge models (C07, C11, C13, C18 correspondence checks).
   Same conventions as Extract/Extract.v: ExtrOcamlBasic only, no Extract Constant.  tools/vlib.py
   merges the item lists of all Extract/Extract*.v into one command (Extract/All.v). *)
From Coq Require Import Extraction ExtrOcamlBasic NArith ZArith List.
From MiV Require Import Gen.Consts Gen.OsConsts Model.Arith Model.Os Model.Mask Model.Purge.
Extraction Language OCaml.
Cd "extracted".
Separate Extraction
  N.add N.mul N.sub N.div N.modulo N.eqb N.leb N.ltb N.of_nat N.to_nat Z.of_N Z.to_N Z.add Z.mul Z.opp
  N.land N.lor N.testbit N.shiftl N.shiftr Z.eqb Z.ltb Z.leb
  Os.PAGE Os.default_cfg Os.kernel0 Os.os0 Os.clear_log Os.set_hint Os.pg0
  Os.sys_mmap Os.sys_munmap Os.sys_mprotect Os.sys_madvise
  Os.os_get_aligned_hint Os.prim_alloc Os.os_prim_free Os.os_free_ex Os.os_free Os.os_prim_alloc
  Os.os_prim_alloc_aligned Os.os_alloc Os.os_alloc_aligned Os.os_alloc_aligned_at_offset
  Os.os_page_align_area Os.os_commit Os.os_decommit_ex Os.os_decommit Os.os_reset Os.os_purge_ex Os.os_purge
  Os.os_protectx Os.memid_none Os.memkind_is_os
  Os.td_cache_empty Os.thread_data_zalloc Os.thread_data_free Os.thread_data_collect
  Os.calls Os.csig Os.munmaps_ok Os.total_mapped Os.accessible Os.resident_possible Os.range_mapped Os.addr_mapped
  Mask.mask_of_fields Mask.fields_of_mask_aux Mask.fields_of_mask Mask.mask_full Mask.mask_empty
  Mask.commit_mask_is_empty Mask.commit_mask_is_full Mask.commit_mask_all_set Mask.commit_mask_any_set
  Mask.commit_mask_create_intersect Mask.commit_mask_clear Mask.commit_mask_set Mask.commit_mask_create
  Mask.popcount Mask.commit_mask_committed_size Mask.commit_mask_next_run Mask.mask_runs Mask.runs_in
  Mask.segment_commit_mask Mask.segment_commit Mask.segment_ensure_committed Mask.segment_purge
  Mask.segment_schedule_purge Mask.segment_try_purge
  Purge.range_mask Purge.bm_all_set Purge.bm_count Purge.bm_set Purge.bm_clear
  Purge.arena_purge_delay Purge.arena_purge Purge.arena_schedule_purge Purge.arena_purge_range
  Purge.arena_try_purge Purge.arenas_try_purge Purge.arenas_collect Purge.arena_free Purge.arena_alloc_at
  Purge.pstep Purge.prun.
Cd "..".
