(* Extraction of the zero-knowledge model (C04, ocaml/mode_zero.ml).
   Same conventions as Extract/Extract.v: ExtrOcamlBasic only, no Extract Constant; item list only. *)
From Coq Require Import Extraction ExtrOcamlBasic NArith ZArith List.
From MiV Require Import Model.Page Model.Zero.
Extraction Language OCaml.
Cd "extracted".
Separate Extraction
  N.add N.mul N.sub N.div N.eqb N.leb N.ltb N.of_nat N.to_nat
  Zero.in_range Zero.set_range Zero.upd Zero.all_in Zero.any_in Zero.no_bits Zero.all_bits
  Zero.aget Zero.aset Zero.adel Zero.lset
  Zero.bg_zero Zero.bg_of Zero.bg_all
  Zero.arena_new Zero.arena_try_alloc_at Zero.arena_free Zero.arena_purge
  Zero.seg_init Zero.span_izi Zero.zp_set Zero.zp_extend Zero.page_alloc Zero.seg_page_clear Zero.seg_purge
  Zero.zp_malloc Zero.zp_free_local Zero.zp_remote_free Zero.zp_collect Zero.zp_write
  Zero.init Zero.step Zero.run
  Zero.page_know_b Zero.arena_know_b Zero.seg_know_b Zero.raw_know_b Zero.know_b Zero.zalloc_ghost_zero.
Cd "..".
