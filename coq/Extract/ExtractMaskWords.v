(* Extraction of the word-level run iteration (Model/MaskWords.v; C18 correspondence: F cm_next_run / cm_runs records are
   compared with the word-level model too).  Item list only, merged into Extract/All.v by tools/vlib.py. *)
From Coq Require Import Extraction ExtrOcamlBasic NArith ZArith List.
From MiV Require Import Model.MaskWords.
Extraction Language OCaml.
Cd "extracted".
Separate Extraction
  MaskWords.next_run_words MaskWords.foreach_words MaskWords.foreach_runs.
Cd "..".
