(* Extraction of the executable models for the correspondence checks.
   Only ExtrOcamlBasic: bool/option/list/prod/unit/sumbool map to OCaml's; N, Z, positive, nat
   stay Coq datatypes.  No Extract Constant / Extract Inductive directives of our own. *)
From Coq Require Import Extraction ExtrOcamlBasic NArith ZArith List.
From MiV Require Import Gen.Consts Gen.Bins Model.Arith.
Extraction Language OCaml.
Cd "extracted".
Separate Extraction
  (* numbers, for the drivers *)
  N.add N.mul N.sub N.div N.modulo N.eqb N.leb N.ltb N.of_nat N.to_nat Z.of_N Z.to_N Z.add Z.mul Z.opp
  (* Gen *)
  Consts.MI_MEDIUM_OBJ_SIZE_MAX Bins.bin_sizes Bins.span_bin_counts
  (* Arith *)
  Arith.align_up Arith.align_down Arith.divide_up Arith.wsize_from_size Arith.clz Arith.ctz Arith.bsr
  Arith.mul_overflow Arith.count_size_overflow Arith.mi_bin Arith.bin_size Arith.good_size
  Arith.os_good_alloc_size Arith.slice_bin8 Arith.fast_divisor Arith.fast_divide
  Arith.block_size_shift Arith.ptr_unalign Arith.ptr_segment Arith.slice_index_of
  Arith.page_start_from_slice Arith.is_power_of_two.
Cd "..".
