(* Model for property C15: which arena / which segment may hand memory to which heap.
   Sequential; every definition follows the C source of /repo line by line.  No proofs in this file.

   C sources modelled:
     src/arena.c   : mi_arena_id_index, mi_arena_id_create, _mi_arena_id_none, mi_arena_id_is_suitable,
                     _mi_arena_memid_is_suitable, mi_block_count_of_size, mi_arena_block_start,
                     mi_arena_try_alloc_at (the claim only: oracle), mi_arena_try_alloc_at_id,
                     mi_arena_try_alloc (specific id vs. all arenas, two numa passes), mi_arena_reserve
                     (oracle), _mi_arena_alloc_aligned (no OS fallback for a specific arena request,
                     disallow_arena_alloc / disallow_os_alloc), mi_arena_area, _mi_arena_contains,
                     mi_arena_add, mi_manage_os_memory_ex2 (alignment of the start, trimming of the size,
                     block_count, field_count, the `post` left-over bits pre-claimed in blocks_inuse)
     src/heap.c    : _mi_heap_init / mi_heap_new_ex / mi_heap_new_in_arena (arena_id, tag, list of the
                     thread's heaps, newest first), _mi_heap_memid_is_suitable, _mi_heap_by_tag,
                     mi_heaps_are_compatible, mi_heap_delete (absorb into the backing heap or abandon)
     src/segment.c : mi_segments_page_find_and_allocate (suitability test on cached free spans),
                     mi_segment_alloc -> mi_segment_os_alloc -> _mi_arena_alloc_aligned with
                     heap->arena_id, _mi_segment_page_free, _mi_segment_page_abandon, mi_segment_abandon,
                     mi_segment_check_free, mi_segment_reclaim, _mi_segment_attempt_reclaim,
                     mi_segment_try_reclaim, _mi_abandoned_reclaim_all (as repaired by 027d323),
                     _mi_abandoned_collect
     src/arena-abandon.c : _mi_arena_field_cursor_init (restriction to the heap's arena, no OS list
                     for a bound heap)
     src/init.c    : _mi_thread_heap_done (net effect on pages and segments)

   Abstractions.  A memid is `MemArena id exclusive` or `MemOther` (every memkind other than
   MI_MEM_ARENA takes the else-branch of _mi_arena_memid_is_suitable).  A page records the heap
   it belongs to as the (immutable) heap record; `None` is an abandoned page (heap == NULL).  The free
   spans of a segment are kept in the segment (`s_free`, slice counts); the span queues of a thread
   (tld->spans) link exactly the free spans of the non-abandoned segments it owns (mi_segment_abandon
   unlinks them all, mi_segment_reclaim links them all), so `cached_spans` is that view.  Queue order,
   numa node, reclaim heuristics, which bit the arena claim finds, the OS: oracle arguments.

   Slices.  A page records its slice count (`p_slices`); `s_free` is the multiset of the slice counts of the
   free spans.  The positions of the spans inside the segment are not modelled: which free spans are
   neighbours (mi_segment_span_free_coalesce) is a choice, made explicit by the operation `OCoalesce`.
   Every operation but `OSegmentAlloc` conserves, per segment, the sum of the page slices and the free
   slices (a page that is freed -- by _mi_segment_page_free, mi_segment_check_free, mi_segment_reclaim,
   the abandon paths -- adds its slices to `s_free` as one more entry).  With these conventions the
   projection (arenas, heaps, segments with memid / owner / visits, pages with heap / tag / live / slices,
   free-span sizes) of the real allocator is replayed op by op (harness/t_bind.c, ocaml/mode_bindtrace.ml
   mode bind-trace). *)
From Coq Require Import NArith ZArith List Bool.
From MiV Require Import Gen.Consts Gen.OsConsts Model.Arith.
Import ListNotations.
Local Open Scope N_scope.
Local Open Scope bool_scope.

(* ---------------------------------------------------------------------------------------------- *)
(* arena ids and suitability (arena.c l.75-100)                                                      *)
(* ---------------------------------------------------------------------------------------------- *)

(* mi_arena_id_t is `int` *)
Definition arena_id_none : Z := 0%Z.                                   (* _mi_arena_id_none *)
Definition arena_id_index (id : Z) : N :=                              (* mi_arena_id_index *)
  if (id <=? 0)%Z then MI_MAX_ARENAS else Z.to_N (id - 1).
Definition arena_id_create (idx : N) : Z := (Z.of_N idx + 1)%Z.        (* mi_arena_id_create *)

Definition arena_id_is_suitable (aid : Z) (arena_is_exclusive : bool) (req : Z) : bool :=
  (negb arena_is_exclusive && (req =? arena_id_none)%Z) || (aid =? req)%Z.

Inductive memid : Type :=
| MemOther                                   (* memkind <> MI_MEM_ARENA: OS, external, static, none *)
| MemArena (id : Z) (is_exclusive : bool).   (* memkind = MI_MEM_ARENA: mem.arena.id, .is_exclusive *)

Definition memid_is_suitable (m : memid) (req : Z) : bool :=           (* _mi_arena_memid_is_suitable *)
  match m with
  | MemArena id ex => arena_id_is_suitable id ex req
  | MemOther => arena_id_is_suitable arena_id_none false req
  end.

Record heap : Type := mkHeap {
  h_id : N;            (* identity of the heap object *)
  h_thread : N;        (* heap->thread_id (never 0) *)
  h_arena : Z;         (* heap->arena_id, 0 = none *)
  h_tag : N;           (* heap->tag *)
  h_backing : bool     (* heap == tld->heap_backing *)
}.

Definition heap_memid_is_suitable (h : heap) (m : memid) : bool :=    (* _mi_heap_memid_is_suitable *)
  memid_is_suitable m (h_arena h).

(* ---------------------------------------------------------------------------------------------- *)
(* arenas                                                                                           *)
(* ---------------------------------------------------------------------------------------------- *)

Record arena : Type := mkArena {
  a_id : Z;            (* arena->id = index + 1 *)
  a_excl : bool;       (* arena->exclusive *)
  a_start : N;         (* arena->start *)
  a_blocks : N;        (* arena->block_count, blocks of MI_ARENA_BLOCK_SIZE *)
  a_large : bool;      (* arena->is_large *)
  a_numa : Z           (* arena->numa_node *)
}.

Fixpoint nthN {A : Type} (l : list A) (i : N) : option A :=
  match l with
  | [] => None
  | x :: t => if i =? 0 then Some x else nthN t (i - 1)
  end.

Definition lengthN {A : Type} (l : list A) : N := N.of_nat (length l).

Definition arena_size (a : arena) : N := a_blocks a * MI_ARENA_BLOCK_SIZE.   (* mi_arena_size *)

(* mi_arena_area: (start, size) or (0,0) *)
Definition arena_area (arenas : list arena) (id : Z) : N * N :=
  let idx := arena_id_index id in
  if MI_MAX_ARENAS <=? idx then (0, 0)
  else match nthN arenas idx with
       | None => (0, 0)
       | Some a => (a_start a, arena_size a)
       end.

(* _mi_arena_contains *)
Definition arena_contains (arenas : list arena) (p : N) : bool :=
  existsb (fun a => (a_start a <=? p) && (p <? a_start a + arena_size a)) arenas.

(* the address range [lo, hi) lies inside arena a *)
Definition inside_arena (a : arena) (lo hi : N) : bool :=
  (a_start a <=? lo) && (hi <=? a_start a + arena_size a).

(* ---------------------------------------------------------------------------------------------- *)
(* mi_manage_os_memory_ex2: pure arithmetic (arena.c l.814-877)                                      *)
(* ---------------------------------------------------------------------------------------------- *)

Definition MI_SEGMENT_ALIGN : N := MI_SEGMENT_ALIGN_.
Definition is_aligned (p alignment : N) : bool := p mod alignment =? 0.     (* _mi_is_aligned *)

Record managed : Type := mkManaged {
  m_start : N;      (* arena->start after alignment *)
  m_bcount : N;     (* arena->block_count = size / MI_ARENA_BLOCK_SIZE *)
  m_fields : N;     (* arena->field_count = _mi_divide_up(bcount, MI_BITMAP_FIELD_BITS) *)
  m_post : N;       (* left-over bits of the last field *)
  m_postidx : N     (* mi_bitmap_index_create(fields-1, MI_BITMAP_FIELD_BITS - post): first pre-claimed bit *)
}.

Definition manage_os_memory (start size : N) : option managed :=
  if size <? MI_ARENA_BLOCK_SIZE then None
  else
    let adjusted :=
      if is_aligned start MI_SEGMENT_ALIGN then Some (start, size)
      else
        let aligned_start := align_up start MI_SEGMENT_ALIGN in       (* mi_align_up_ptr *)
        let diff := wsub aligned_start start in
        if (size <=? diff) || (size - diff <? MI_ARENA_BLOCK_SIZE) then None
        else Some (aligned_start, size - diff) in
    match adjusted with
    | None => None
    | Some (start', size') =>
      let bcount := size' / MI_ARENA_BLOCK_SIZE in
      let fields := divide_up bcount MI_BITMAP_FIELD_BITS in
      let post := fields * MI_BITMAP_FIELD_BITS - bcount in
      Some (mkManaged start' bcount fields post
              ((fields - 1) * MI_BITMAP_FIELD_BITS + (MI_BITMAP_FIELD_BITS - post)))
    end.

(* mi_bitmap_mask_(count, bitidx) for count < 64 *)
Definition bit_mask (count bitidx : N) : N :=
  if count =? 0 then 0 else wrap (N.shiftl (N.ones count) bitidx).

(* blocks_inuse right after mi_manage_os_memory_ex2: zeroed by the zalloc, then
   `_mi_bitmap_claim(blocks_inuse, fields, post, postidx)` when post > 0.  Field `f` of the bitmap,
   and the same as a predicate on flat bit positions. *)
Definition inuse_init_word (m : managed) (f : N) : N :=
  if (0 <? m_post m) && (f =? m_postidx m / MI_BITMAP_FIELD_BITS)
  then bit_mask (m_post m) (m_postidx m mod MI_BITMAP_FIELD_BITS) else 0.
Definition inuse_init (m : managed) (bit : N) : bool :=
  N.testbit (inuse_init_word m (bit / MI_BITMAP_FIELD_BITS)) (bit mod MI_BITMAP_FIELD_BITS).

(* a claim of n blocks at bit index bi can succeed on the initial bitmap: every bit is inside the
   field_count fields and zero (what _mi_bitmap_try_find_from_claim_across requires, C14) *)
Fixpoint claimable_from (m : managed) (bi : N) (n : nat) : bool :=
  match n with
  | O => true
  | S k => (bi <? m_fields m * MI_BITMAP_FIELD_BITS) && negb (inuse_init m bi) && claimable_from m (bi + 1) k
  end.

(* ---------------------------------------------------------------------------------------------- *)
(* _mi_arena_alloc_aligned as a decision (arena.c l.305-445)                                         *)
(* ---------------------------------------------------------------------------------------------- *)

Record alloc_oracle : Type := mkOracle {
  o_room : N -> option N;            (* arena index -> bitmap index found by mi_arena_try_claim; None: no room *)
  o_reserve : option (N * N * bool); (* mi_arena_reserve succeeded: (start, size, is_large) of the fresh region *)
  o_os : option N;                   (* address from _mi_os_alloc_aligned(_at_offset); None: refused *)
  o_numa : Z                         (* _mi_os_numa_node() *)
}.

Record alloc_opts : Type := mkOpts {
  opt_disallow_arena_alloc : bool;   (* mi_option_disallow_arena_alloc *)
  opt_disallow_os_alloc : bool       (* mi_option_disallow_os_alloc *)
}.

Inductive alloc_result : Type :=
| RNull                              (* NULL (errno = ENOMEM) *)
| ROs (addr : N)                     (* served by the OS *)
| RArena (a : arena) (bidx : N).     (* served by arena a at bitmap index bidx *)

Definition block_count_of_size (size : N) : N := divide_up size MI_ARENA_BLOCK_SIZE.
Definition arena_block_start (a : arena) (bidx : N) : N := a_start a + bidx * MI_ARENA_BLOCK_SIZE.

Definition result_memid (r : alloc_result) : memid :=
  match r with
  | RArena a _ => MemArena (a_id a) (a_excl a)         (* mi_memid_create_arena(arena->id, arena->exclusive, ..) *)
  | _ => MemOther
  end.
Definition result_addr (r : alloc_result) : N :=
  match r with
  | RArena a bi => arena_block_start a bi
  | ROs p => p
  | RNull => 0
  end.

Definition numa_suitable (numa_node a_numa_node : Z) : bool :=
  (numa_node <? 0)%Z || (a_numa_node <? 0)%Z || (a_numa_node =? numa_node)%Z.

(* mi_arena_try_alloc_at_id.  The claim: the oracle names the bitmap index; the bits from
   block_count up are pre-claimed for ever (manage_os_memory, never unclaimed) and a claim only takes
   zero bits inside the fields, hence `bidx + bcount <= block_count` for every successful claim. *)
Definition try_alloc_at_id (arenas : list arena) (aid : Z) (match_numa_node : bool) (numa_node : Z)
    (size : N) (allow_large : bool) (req : Z) (room : N -> option N) : alloc_result :=
  let bcount := block_count_of_size size in
  let idx := arena_id_index aid in
  match nthN arenas idx with
  | None => RNull
  | Some a =>
    if negb allow_large && a_large a then RNull
    else if negb (arena_id_is_suitable (a_id a) (a_excl a) req) then RNull
    else if (req =? arena_id_none)%Z && negb (Bool.eqb match_numa_node (numa_suitable numa_node (a_numa a))) then RNull
    else match room idx with
         | Some bidx => if bidx + bcount <=? a_blocks a then RArena a bidx else RNull
         | None => RNull
         end
  end.

Fixpoint try_loop {A : Type} (rest : list A) (i : N) (f : N -> alloc_result) : alloc_result :=
  match rest with
  | [] => RNull
  | _ :: t => match f i with RNull => try_loop t (i + 1) f | r => r end
  end.

(* mi_arena_try_alloc *)
Definition try_alloc (arenas : list arena) (numa_node : Z) (size : N) (allow_large : bool) (req : Z)
    (room : N -> option N) : alloc_result :=
  let max_arena := lengthN arenas in
  if max_arena =? 0 then RNull
  else if negb (req =? arena_id_none)%Z then
    if arena_id_index req <? max_arena
    then try_alloc_at_id arenas req true numa_node size allow_large req room
    else RNull
  else
    match try_loop arenas 0 (fun i => try_alloc_at_id arenas (arena_id_create i) true numa_node size allow_large req room) with
    | RNull =>
      if (0 <=? numa_node)%Z
      then try_loop arenas 0 (fun i => try_alloc_at_id arenas (arena_id_create i) false numa_node size allow_large req room)
      else RNull
    | r => r
    end.

(* mi_arena_add: the new arena gets id = old count + 1; refused when the table is full *)
Definition arena_add (arenas : list arena) (m : managed) (excl large : bool) (numa : Z) : option (list arena * arena) :=
  let i := lengthN arenas in
  if MI_MAX_ARENAS <=? i then None
  else let a := mkArena (arena_id_create i) excl (m_start m) (m_bcount m) large numa in
       Some (arenas ++ [a], a).

(* mi_manage_os_memory_ex on the arena table *)
Definition manage (arenas : list arena) (start size : N) (excl large : bool) (numa : Z) : option (list arena * arena) :=
  match manage_os_memory start size with
  | None => None
  | Some m => arena_add arenas m excl large numa
  end.

(* _mi_arena_alloc_aligned *)
Definition arena_alloc (arenas : list arena) (opts : alloc_opts) (size alignment align_offset : N)
    (allow_large : bool) (req : Z) (o : alloc_oracle) : list arena * alloc_result :=
  let os_part (ars : list arena) :=
    if opt_disallow_os_alloc opts || negb (req =? arena_id_none)%Z then (ars, RNull)
    else match o_os o with Some p => (ars, ROs p) | None => (ars, RNull) end in
  if negb (opt_disallow_arena_alloc opts) &&
     (MI_ARENA_MIN_OBJ_SIZE <=? size) && (alignment <=? MI_SEGMENT_ALIGN) && (align_offset =? 0)
  then
    match try_alloc arenas (o_numa o) size allow_large req (o_room o) with
    | RNull =>
      if (req =? arena_id_none)%Z then
        match o_reserve o with
        | Some (rstart, rsize, rlarge) =>
          (* mi_reserve_os_memory_ex(arena_reserve, commit, allow_large, false (* exclusive *), &arena_id) *)
          match manage arenas rstart rsize false rlarge (-1)%Z with
          | Some (ars, a) =>
            match try_alloc_at_id ars (a_id a) true (o_numa o) size allow_large req (o_room o) with
            | RNull => os_part ars
            | r => (ars, r)
            end
          | None => os_part arenas
          end
        | None => os_part arenas
        end
      else os_part arenas
    | r => (arenas, r)
    end
  else os_part arenas.

(* ---------------------------------------------------------------------------------------------- *)
(* segments, pages, heaps of all threads                                                            *)
(* ---------------------------------------------------------------------------------------------- *)

Record page : Type := mkPage {
  p_heap : option heap;   (* mi_page_heap(page); None = abandoned page *)
  p_tag : N;              (* page->heap_tag *)
  p_used : bool;          (* page has live blocks (not mi_page_all_free after collecting) *)
  p_slices : N            (* page->slice_count *)
}.

Record segment : Type := mkSeg {
  s_id : N;
  s_memid : memid;        (* segment->memid *)
  s_addr : N;             (* address of the segment *)
  s_size : N;             (* mi_segment_size *)
  s_owner : N;            (* segment->thread_id; 0 = abandoned *)
  s_visits : N;           (* segment->abandoned_visits *)
  s_huge : bool;          (* segment->kind == MI_SEGMENT_HUGE *)
  s_pages : list page;    (* the used pages (segment->used = length) *)
  s_free : list N         (* slice counts of the free spans *)
}.

Record state : Type := mkState {
  st_arenas : list arena;
  st_heaps : list heap;        (* all live heaps; per thread this is tld->heaps, newest first *)
  st_segs : list segment;
  st_next : N                  (* fresh ids *)
}.

Definition init_state : state := mkState [] [] [] 1.

Definition find_seg (st : state) (sid : N) : option segment :=
  find (fun s => s_id s =? sid) (st_segs st).
Definition find_heap (st : state) (hid : N) : option heap :=
  find (fun h => h_id h =? hid) (st_heaps st).

Definition set_segs (st : state) (segs : list segment) : state :=
  mkState (st_arenas st) (st_heaps st) segs (st_next st).

(* replace the segment sid (the one find_seg returns) by (f s); f returning None removes it
   (mi_segment_free) *)
Fixpoint update_segs (segs : list segment) (sid : N) (f : segment -> option segment) : list segment :=
  match segs with
  | [] => []
  | s :: t =>
    if s_id s =? sid
    then match f s with Some s' => s' :: t | None => t end
    else s :: update_segs t sid f
  end.
Definition update_seg (st : state) (sid : N) (f : segment -> option segment) : state :=
  set_segs st (update_segs (st_segs st) sid f).

Definition set_pages (s : segment) (pages : list page) (free : list N) : segment :=
  mkSeg (s_id s) (s_memid s) (s_addr s) (s_size s) (s_owner s) (s_visits s) (s_huge s) pages free.
Definition set_owner (s : segment) (owner visits : N) : segment :=
  mkSeg (s_id s) (s_memid s) (s_addr s) (s_size s) owner visits (s_huge s) (s_pages s) (s_free s).

Definition page_abandoned (p : page) : bool := match p_heap p with None => true | Some _ => false end.

(* the slice counts of the all-free pages among those selected by `sel`: what mi_segment_page_clear
   gives back to the free spans when these pages are freed *)
Definition dead_slices (sel : page -> bool) (pages : list page) : list N :=
  map p_slices (filter (fun p => sel p && negb (p_used p)) pages).

(* what _mi_segment_page_free / _mi_segment_page_abandon do after changing a page of an owned segment:
   used == 0: mi_segment_free;  used == abandoned: mi_segment_abandon (thread_id := 0,
   abandoned_visits := 1, the free spans leave the thread's queues);  otherwise unchanged *)
Definition settle (s : segment) : option segment :=
  match s_pages s with
  | [] => None
  | _ => if (negb (s_owner s =? 0)) && forallb page_abandoned (s_pages s)
         then Some (set_owner s 0 1) else Some s
  end.

(* the span queues of thread tid: (segment id, index in s_free, slice count) *)
Fixpoint index_from {A : Type} (l : list A) (i : N) : list (N * A) :=
  match l with [] => [] | x :: t => (i, x) :: index_from t (i + 1) end.
Definition cached_spans (st : state) (tid : N) : list (N * N * N) :=
  flat_map (fun s => if (s_owner s =? tid) && negb (s_huge s)
                     then map (fun kn => (s_id s, fst kn, snd kn)) (index_from (s_free s) 0) else [])
           (st_segs st).

Fixpoint replace_nth (l : list N) (k : N) (v : option N) : list N :=
  match l with
  | [] => []
  | x :: t => if k =? 0 then match v with Some y => y :: t | None => t end
              else x :: replace_nth t (k - 1) v
  end.

(* ---------------------------------------------------------------------------------------------- *)
(* heaps (heap.c)                                                                                   *)
(* ---------------------------------------------------------------------------------------------- *)

(* _mi_heap_init: push on tld->heaps.  The first heap of a thread is its backing heap
   (_mi_thread_heap_init: arena none, tag 0). *)
Definition thread_heaps (st : state) (tid : N) : list heap :=
  filter (fun c => h_thread c =? tid) (st_heaps st).
Definition heap_new (st : state) (tid : N) (arena_id : Z) (tag : N) : state * heap :=
  let first := match thread_heaps st tid with [] => true | _ => false end in
  let h := if first then mkHeap (st_next st) tid arena_id_none 0 true
           else mkHeap (st_next st) tid arena_id tag false in
  (mkState (st_arenas st) (h :: st_heaps st) (st_segs st) (st_next st + 1), h).

(* _mi_heap_by_tag *)
Definition heap_by_tag (heaps : list heap) (h : heap) (tag : N) : option heap :=
  if h_tag h =? tag then Some h
  else find (fun c => (h_thread c =? h_thread h) && (h_tag c =? tag)) heaps.

Definition heap_backing (st : state) (tid : N) : option heap :=
  find (fun c => (h_thread c =? tid) && h_backing c) (st_heaps st).

(* mi_heaps_are_compatible *)
Definition heaps_are_compatible (h1 h2 : heap) : bool :=
  (h_tag h1 =? h_tag h2) && (h_arena h1 =? h_arena h2)%Z.

Definition heap_eqb (h1 h2 : heap) : bool :=
  (h_id h1 =? h_id h2) && (h_thread h1 =? h_thread h2) && (h_arena h1 =? h_arena h2)%Z &&
  (h_tag h1 =? h_tag h2) && Bool.eqb (h_backing h1) (h_backing h2).
Definition page_of_heap (h : heap) (p : page) : bool :=
  match p_heap p with Some c => heap_eqb c h | None => false end.

(* _mi_heap_collect_abandon(h): free the all-free pages of h, abandon the others; segments settle *)
Definition heap_abandon_pages (st : state) (h : heap) : state :=
  let on_seg (s : segment) : option segment :=
    let pages := flat_map (fun p => if page_of_heap h p
                                    then (if p_used p then [mkPage None (p_tag p) true (p_slices p)] else [])
                                    else [p]) (s_pages s) in
    settle (set_pages s pages (dead_slices (page_of_heap h) (s_pages s) ++ s_free s)) in
  set_segs st (flat_map (fun s => if existsb (page_of_heap h) (s_pages s)
                                  then match on_seg s with Some s' => [s'] | None => [] end
                                  else [s]) (st_segs st)).

(* the test of mi_heap_delete: the pages go to the backing heap *)
Definition heap_absorbs (st : state) (h : heap) : bool :=
  match heap_backing st (h_thread h) with
  | Some b => negb (heap_eqb b h) && heaps_are_compatible b h
  | None => false
  end.

(* mi_heap_delete *)
Definition heap_delete (st : state) (h : heap) : state :=
  let st1 :=
    match heap_backing st (h_thread h) with
    | Some b =>
      if negb (heap_eqb b h) && heaps_are_compatible b h then
        (* mi_heap_absorb(bheap, heap): the pages get the backing heap *)
        set_segs st (map (fun s => set_pages s (map (fun p => if page_of_heap h p then mkPage (Some b) (p_tag p) (p_used p) (p_slices p) else p)
                                                     (s_pages s)) (s_free s)) (st_segs st))
      else heap_abandon_pages st h
    | None => heap_abandon_pages st h
    end in
  if h_backing h then st1      (* mi_heap_free: the backing heap is not freed *)
  else mkState (st_arenas st1) (filter (fun c => negb (heap_eqb c h)) (st_heaps st1)) (st_segs st1) (st_next st1).

(* ---------------------------------------------------------------------------------------------- *)
(* the paths that hand memory of a segment to a heap (segment.c)                                    *)
(* ---------------------------------------------------------------------------------------------- *)

(* mi_segments_page_find_and_allocate(need, h.arena_id, tld of h's thread): the loop takes the first
   queue entry with slice_count >= need whose segment memid is suitable.  The queue order is not
   modelled: the entry reached is the argument (sid, k); it is taken only if it passes the tests of
   the loop; the page goes to heap h (mi_page_init sets the heap and its tag). *)
Definition span_test (st : state) (h : heap) (need sid k : N) : option (segment * N) :=
  match find_seg st sid with
  | None => None
  | Some s =>
    if (s_owner s =? h_thread h) && negb (s_huge s) then       (* the entry is in this thread's queues *)
      match nthN (s_free s) k with
      | Some n =>
        if (need <=? n) && memid_is_suitable (s_memid s) (h_arena h) then Some (s, n) else None
      | None => None
      end
    else None
  end.
Definition span_reuse (st : state) (h : heap) (need sid k : N) : state :=
  match span_test st h need sid k with
  | Some (s, n) =>
    update_seg st sid (fun s =>
      Some (set_pages s (s_pages s ++ [mkPage (Some h) (h_tag h) true need])
                      (replace_nth (s_free s) k (if need <? n then Some (n - need) else None))))   (* mi_segment_slice_split *)
  | None => st
  end.

(* mi_segment_alloc(required, page_alignment, h.arena_id, tld, huge_page): a fresh segment from
   _mi_arena_alloc_aligned with req_arena_id = heap->arena_id.  Normal segment: one free span;
   huge segment: its single page goes to h directly. *)
Definition segment_alloc (st : state) (opts : alloc_opts) (h : heap) (huge : bool)
    (size alignment align_offset slices : N) (allow_large : bool) (o : alloc_oracle) : state * alloc_result :=
  let '(ars, r) := arena_alloc (st_arenas st) opts size alignment align_offset allow_large (h_arena h) o in
  match r with
  | RNull => (mkState ars (st_heaps st) (st_segs st) (st_next st), RNull)
  | _ =>
    let s := mkSeg (st_next st) (result_memid r) (result_addr r) size (h_thread h) 0 huge
                   (if huge then [mkPage (Some h) (h_tag h) true slices] else [])
                   (if huge then [] else [slices]) in
    (mkState ars (st_heaps st) (s :: st_segs st) (st_next st + 1), r)
  end.

(* _mi_segment_page_free of the k-th page of an owned segment: its slices become a free span (the
   coalescing with the neighbour spans is OCoalesce) *)
Fixpoint remove_nth {A : Type} (l : list A) (k : N) : list A :=
  match l with [] => [] | x :: t => if k =? 0 then t else x :: remove_nth t (k - 1) end.
Definition page_free (st : state) (sid k : N) : state :=
  update_seg st sid (fun s =>
    if s_owner s =? 0 then Some s
    else match nthN (s_pages s) k with
         | Some p => settle (set_pages s (remove_nth (s_pages s) k) (p_slices p :: s_free s))
         | None => Some s
         end).

(* mi_segment_span_free_coalesce: two free spans of a segment that are neighbours become one *)
Definition coalesce (st : state) (sid i j : N) : state :=
  update_seg st sid (fun s =>
    match nthN (s_free s) i, nthN (s_free s) j with
    | Some a, Some b =>
      if i =? j then Some s
      else Some (set_pages s (s_pages s)
                   ((a + b) :: remove_nth (remove_nth (s_free s) (N.max i j)) (N.min i j)))
    | _, _ => Some s
    end).

(* _mi_segment_page_abandon of the k-th page (heap := NULL before the call, _mi_page_abandon) *)
Fixpoint map_nth {A : Type} (l : list A) (k : N) (f : A -> A) : list A :=
  match l with [] => [] | x :: t => if k =? 0 then f x :: t else x :: map_nth t (k - 1) f end.
Definition page_abandon (st : state) (sid k : N) : state :=
  update_seg st sid (fun s =>
    if s_owner s =? 0 then Some s
    else settle (set_pages s (map_nth (s_pages s) k (fun p => mkPage None (p_tag p) (p_used p) (p_slices p))) (s_free s))).

(* mi_segment_force_abandon: every page of the owned segment is abandoned (or freed when empty) *)
Definition abandon (st : state) (sid : N) : state :=
  update_seg st sid (fun s =>
    if s_owner s =? 0 then Some s
    else settle (set_pages s (flat_map (fun p => if p_used p then [mkPage None (p_tag p) true (p_slices p)] else []) (s_pages s))
                           (dead_slices (fun _ => true) (s_pages s) ++ s_free s))).

(* the last live block of the k-th page is freed (by anybody): the page becomes all-free *)
Definition block_free (st : state) (sid k : N) : state :=
  update_seg st sid (fun s => Some (set_pages s (map_nth (s_pages s) k (fun p => mkPage (p_heap p) (p_tag p) false (p_slices p))) (s_free s))).

(* _mi_page_malloc from the k-th page of segment sid on behalf of heap h: a page of h that was all
   free (retired, or kept as the only page of its queue) has a live block again *)
Definition block_alloc (st : state) (h : heap) (sid k : N) : state :=
  update_seg st sid (fun s =>
    Some (set_pages s (map_nth (s_pages s) k (fun p => if page_of_heap h p then mkPage (p_heap p) (p_tag p) true (p_slices p) else p))
                    (s_free s))).

(* _mi_thread_heap_done: non-backing heaps are deleted (absorbed or abandoned), then the backing heap
   is collected with MI_ABANDON: every page of a heap of the thread is freed or abandoned *)
Definition thread_done (st : state) (tid : N) : state :=
  let mine (p : page) := match p_heap p with Some c => h_thread c =? tid | None => false end in
  let on_seg (s : segment) : list segment :=
    if s_owner s =? tid then
      match settle (set_pages s (flat_map (fun p => if mine p then (if p_used p then [mkPage None (p_tag p) true (p_slices p)] else []) else [p])
                                          (s_pages s)) (dead_slices mine (s_pages s) ++ s_free s)) with
      | Some s' => [s'] | None => []
      end
    else [s] in
  mkState (st_arenas st) (filter (fun c => negb (h_thread c =? tid)) (st_heaps st))
          (flat_map on_seg (st_segs st)) (st_next st).

(* mi_segment_check_free on an abandoned segment in the visitor's hand: all-free pages are cleared *)
Definition check_free_seg (s : segment) : segment :=
  set_pages s (filter p_used (s_pages s)) (dead_slices (fun _ => true) (s_pages s) ++ s_free s).

(* mi_segment_reclaim(segment, heap): thread_id := heap's thread, abandoned_visits := 0; every used
   page goes to `_mi_heap_by_tag(heap, page->heap_tag)` (or `heap` when there is none) and
   mi_page_set_heap gives it the tag of that heap; all-free pages are cleared; used == 0 afterwards:
   mi_segment_free *)
Definition reclaim_page (heaps : list heap) (h : heap) (p : page) : list page :=
  if p_used p then
    let target := match heap_by_tag heaps h (p_tag p) with Some t => t | None => h end in
    [mkPage (Some target) (h_tag target) true (p_slices p)]
  else [].
Definition reclaim_seg (heaps : list heap) (h : heap) (s : segment) : option segment :=
  match flat_map (reclaim_page heaps h) (s_pages s) with
  | [] => None
  | pages => Some (set_owner (set_pages s pages (dead_slices (fun _ => true) (s_pages s) ++ s_free s)) (h_thread h) 0)
  end.
Definition reclaim (st : state) (h : heap) (sid : N) : state :=
  update_seg st sid (reclaim_seg (st_heaps st) h).

(* _mi_segment_attempt_reclaim(heap, segment) from mi_free_block_mt; heur = the target-count and
   reclaim_count tests, won = _mi_arena_segment_clear_abandoned returned true *)
Definition attempt_reclaim (st : state) (h : heap) (sid : N) (heur won : bool) : state :=
  match find_seg st sid with
  | None => st
  | Some s =>
    if negb (s_owner s =? 0) then st                                   (* it is not abandoned *)
    else if negb (heap_memid_is_suitable h (s_memid s)) then st        (* don't reclaim between exclusive and non-exclusive arenas *)
    else if negb heur then st
    else if negb won then st
    else reclaim st h sid
  end.

(* _mi_arena_field_cursor_init + _mi_arena_segment_clear_abandoned_next: which abandoned segments a
   cursor of heap h can yield.  Bound heap: only the bitmap of arena index(h.arena_id) (wrapped
   modulo the arena count as in the loop), no OS list.  Unbound heap: every arena and the OS list. *)
Definition cursor_yields (st : state) (h : heap) (s : segment) : bool :=
  (s_owner s =? 0) &&
  (if (h_arena h =? arena_id_none)%Z then true
   else match s_memid s with
        | MemArena id _ =>
          let max_arena := lengthN (st_arenas st) in
          let start := arena_id_index (h_arena h) in
          if max_arena =? 0 then false
          else arena_id_index id =? (if max_arena <=? start then start mod max_arena else start)
        | MemOther => false
        end).

(* mi_segment_try_reclaim: visits = the segments the cursor yields, in order, each with the result
   `has_page` of mi_segment_check_free; the list also plays the role of max_tries *)
Fixpoint try_reclaim (st : state) (h : heap) (visits : list (N * bool)) : state :=
  match visits with
  | [] => st
  | (sid, has_page) :: rest =>
    match find_seg st sid with
    | None => try_reclaim st h rest
    | Some s0 =>
      if negb (cursor_yields st h s0) then try_reclaim st h rest
      else
        let s := check_free_seg (set_owner s0 0 (s_visits s0 + 1)) in      (* abandoned_visits++ ; check_free *)
        let st1 := update_seg st sid (fun _ => Some s) in
        let is_suitable := heap_memid_is_suitable h (s_memid s) in
        match s_pages s with
        | [] => try_reclaim (reclaim st1 h sid) h rest                   (* used == 0: reclaim frees it *)
        | _ =>
          if has_page && is_suitable then reclaim st1 h sid               (* break *)
          else if (3 <? s_visits s) && is_suitable then try_reclaim (reclaim st1 h sid) h rest
          else try_reclaim st1 h rest                                    (* _mi_arena_segment_mark_abandoned *)
        end
    end
  end.

(* _mi_abandoned_reclaim_all (repaired): every segment the cursor yields is reclaimed when suitable
   for `heap`, otherwise marked abandoned again *)
Definition reclaim_all (st : state) (h : heap) : state :=
  fold_left (fun acc sid =>
    match find_seg acc sid with
    | Some s => if cursor_yields acc h s && heap_memid_is_suitable h (s_memid s) then reclaim acc h sid else acc
    | None => acc
    end) (map s_id (st_segs st)) st.

(* _mi_abandoned_collect: check_free; only a segment with used == 0 is reclaimed (= freed), the others
   are marked abandoned again *)
Fixpoint abandoned_collect (st : state) (h : heap) (visits : list N) : state :=
  match visits with
  | [] => st
  | sid :: rest =>
    match find_seg st sid with
    | None => abandoned_collect st h rest
    | Some s0 =>
      if negb (cursor_yields st h s0) then abandoned_collect st h rest
      else
        let s := check_free_seg s0 in
        let st1 := update_seg st sid (fun _ => Some s) in
        match s_pages s with
        | [] => abandoned_collect (reclaim st1 h sid) h rest
        | _ => abandoned_collect st1 h rest
        end
    end
  end.

(* ---------------------------------------------------------------------------------------------- *)
(* histories                                                                                        *)
(* ---------------------------------------------------------------------------------------------- *)

Inductive op : Type :=
| OManage (start size : N) (excl large : bool) (numa : Z)      (* mi_manage_os_memory_ex / mi_reserve_os_memory_ex *)
| OHeapNew (tid : N) (arena_id : Z) (tag : N)                  (* thread init (first heap of tid) / mi_heap_new_ex *)
| OHeapDelete (hid : N) (visits : list N)                       (* mi_heap_delete; visits: of the _mi_abandoned_collect in _mi_heap_collect_abandon *)
| OSpanReuse (hid need sid k : N)
| OSegmentAlloc (opts : alloc_opts) (hid : N) (huge : bool) (size alignment align_offset slices : N)
                (allow_large : bool) (o : alloc_oracle)
| OPageFree (sid k : N)
| OPageAbandon (sid k : N)
| OAbandon (sid : N)
| OBlockFree (sid k : N)
| OThreadDone (tid : N) (visits : list N)                       (* _mi_thread_heap_done; visits: of the _mi_abandoned_collect of the backing heap *)
| OAttemptReclaim (hid sid : N) (heur won : bool)
| OTryReclaim (hid : N) (visits : list (N * bool))
| OReclaimAll (hid : N)
| OCollect (hid : N) (visits : list N)
| OCoalesce (sid i j : N)                                       (* mi_segment_span_free_coalesce *)
| OBlockAlloc (hid sid k : N).                                  (* _mi_page_malloc from an all-free page *)

Definition with_heap (st : state) (hid : N) (f : heap -> state) : state :=
  match find_heap st hid with Some h => f h | None => st end.

Definition step (st : state) (o : op) : state :=
  match o with
  | OManage start size excl large numa =>
    match manage (st_arenas st) start size excl large numa with
    | Some (ars, _) => mkState ars (st_heaps st) (st_segs st) (st_next st)
    | None => st
    end
  | OHeapNew tid arena_id tag => if tid =? 0 then st else fst (heap_new st tid arena_id tag)
  | OHeapDelete hid visits =>
    (* mi_heap_delete: absorb, or _mi_heap_collect_abandon = abandon the pages, then _mi_abandoned_collect with this heap's
       cursor; then mi_heap_free (the collect does not look at the heap list) *)
    with_heap st hid (fun h => if heap_absorbs st h then heap_delete st h else abandoned_collect (heap_delete st h) h visits)
  | OSpanReuse hid need sid k => with_heap st hid (fun h => span_reuse st h need sid k)
  | OSegmentAlloc opts hid huge size alignment align_offset slices allow_large o =>
    with_heap st hid (fun h => fst (segment_alloc st opts h huge size alignment align_offset slices allow_large o))
  | OPageFree sid k => page_free st sid k
  | OPageAbandon sid k => page_abandon st sid k
  | OAbandon sid => abandon st sid
  | OBlockFree sid k => block_free st sid k
  | OThreadDone tid visits =>
    (* _mi_thread_heap_done: the last step is _mi_heap_collect_abandon(backing heap), whose _mi_abandoned_collect also sees
       the segments this exit has just abandoned *)
    match heap_backing st tid with
    | Some b => abandoned_collect (thread_done st tid) b visits
    | None => thread_done st tid
    end
  | OAttemptReclaim hid sid heur won => with_heap st hid (fun h => attempt_reclaim st h sid heur won)
  | OTryReclaim hid visits => with_heap st hid (fun h => try_reclaim st h visits)
  | OReclaimAll hid => with_heap st hid (reclaim_all st)
  | OCollect hid visits => with_heap st hid (fun h => abandoned_collect st h visits)
  | OCoalesce sid i j => coalesce st sid i j
  | OBlockAlloc hid sid k => with_heap st hid (fun h => block_alloc st h sid k)
  end.

Definition run (st : state) (ops : list op) : state := fold_left step ops st.

(* ---------------------------------------------------------------------------------------------- *)
(* observations (executable forms of the invariants)                                                *)
(* ---------------------------------------------------------------------------------------------- *)

(* the pages a heap can hand blocks from: every page whose heap it is *)
Definition page_ok (s : segment) (p : page) : bool :=
  match p_heap p with
  | Some h => memid_is_suitable (s_memid s) (h_arena h)
  | None => true
  end.
Definition bound_inv_b (st : state) : bool :=
  forallb (fun s => forallb (page_ok s) (s_pages s)) (st_segs st).

(* a segment taken from an arena lies inside that arena's area (its claimed blocks do; the bytes
   of the segment are the first s_size of them) *)
Definition seg_placed (arenas : list arena) (s : segment) : bool :=
  match s_memid s with
  | MemArena id ex =>
    match nthN arenas (arena_id_index id) with
    | Some a => (a_id a =? id)%Z && Bool.eqb (a_excl a) ex && inside_arena a (s_addr s) (s_addr s + block_count_of_size (s_size s) * MI_ARENA_BLOCK_SIZE)
    | None => false
    end
  | MemOther => true
  end.
Definition placed_inv_b (st : state) : bool := forallb (seg_placed (st_arenas st)) (st_segs st).

(* slice accounting of a segment: what its pages and free spans add up to *)
Fixpoint sumN (l : list N) : N := match l with [] => 0 | x :: t => x + sumN t end.
Definition seg_slices (s : segment) : N := sumN (map p_slices (s_pages s)) + sumN (s_free s).

(* every heap and page carries tag 0: what thread init, mi_heap_new and mi_heap_new_in_arena produce *)
Definition tags_uniform_b (st : state) : bool :=
  forallb (fun h => h_tag h =? 0) (st_heaps st) &&
  forallb (fun s => forallb (fun p => p_tag p =? 0) (s_pages s)) (st_segs st).
Definition op_untagged (o : op) : bool :=
  match o with OHeapNew _ _ tag => tag =? 0 | _ => true end.

(* memory of exclusive arena `aid` in the hands of a heap that is not bound to it *)
Definition exclusive_leak_b (st : state) (aid : Z) : bool :=
  existsb (fun s => match s_memid s with
                    | MemArena id true => (id =? aid)%Z &&
                        existsb (fun p => match p_heap p with Some h => negb (h_arena h =? aid)%Z | None => false end) (s_pages s)
                    | _ => false
                    end) (st_segs st).

(* tag_safe of the adopting heap, as a boolean (for the trace replay): the heaps _mi_heap_by_tag can
   reach from h are the heaps of h's thread *)
Definition tag_safe_b (heaps : list heap) (h : heap) : bool :=
  forallb (fun c => negb (h_thread c =? h_thread h) || (h_arena c =? h_arena h)%Z ||
                    match heap_by_tag heaps h (h_tag c) with
                    | Some t => (h_arena t =? h_arena h)%Z
                    | None => true
                    end) heaps.
