(* Interleaving model of mimalloc's cross-thread free protocol (release configuration).
   One transition per ATOMIC memory access of the real code (plus "tau" transitions for the
   owner-private, non-atomic work between two atomic accesses).  No proofs in this file.

   C sources modelled (pinned tree /repo), statement by statement:
     src/free.c  : mi_free (is_local test), mi_free_generic_mt/mi_free_block_mt (non-huge path),
                   mi_free_block_delayed_mt (frames RF1..RF7), _mi_free_delayed_block (inlined in the
                   partial-drain frames DP3..DP6), mi_free_block_local (free_local)
     src/page.c  : _mi_page_try_use_delayed_free incl. the yield_count>=4 give-up (TU1/TU2; spin=true is
                   the enclosing loop of _mi_page_use_delayed_free), _mi_page_thread_free_collect
                   (TC1..TC3), _mi_page_free_collect (FC1/FC2), _mi_heap_delayed_free_partial (DP1..DP6),
                   _mi_heap_delayed_free_all (DA), mi_page_to_full (OpToFull: in_full:=true, then
                   _mi_page_free_collect(page,false); NOTE: in this tree mi_page_to_full does NOT touch the
                   delayed flag - fresh pages start with xthread_free = 0 = MI_USE_DELAYED_FREE and only
                   _mi_free_delayed_block / _mi_page_queue_append / reclaim set USE again),
                   _mi_page_unfull (in_full:=false in free_local), _mi_page_retire / _mi_page_free (PF),
                   _mi_heap_collect_retired (OpPageFree), mi_page_extend_free (OpExtend),
                   mi_page_fresh_alloc/mi_page_init (OpFresh), the pop of _mi_page_malloc_zero (OpPop)
     src/page-queue.c : _mi_page_queue_append (HD3: xheap store, then _mi_page_use_delayed_free(USE,false))
     src/heap.c  : mi_heap_collect_ex NORMAL/FORCE (HC2..HC4), mi_heap_page_never_delayed_free (OpNever),
                   mi_heap_absorb / mi_heap_delete / mi_heap_free (HD2..HD4), mi_heap_new (OpHeapNew)
     include/mimalloc/internal.h : mi_tf_xxx helpers (flag = low 2 bits), mi_page_set_heap (xheap store)
   Every CAS of these functions is a *weak* CAS in the C source (mi_atomic_cas_weak_release /
   _acq_rel / cas_ptr_weak_release / cas_ptr_weak_acq_rel), so every CAS transition accepts the choice CAlt = spurious failure.

   The internal heuristics of malloc (which page of a queue is inspected, when a page is retired,
   every-100th generic allocation) are not fixed: the sub-operations of _mi_malloc_generic are
   separate operations an idle owner may start in any order (OpPartial, OpCollect, OpToFull, OpExtend,
   OpFresh, OpPageFree, OpPop); a real malloc is one particular sequence of them, the theorems
   quantify over all sequences. *)
From Coq Require Import NArith List Bool.
Import ListNotations.
Local Open Scope N_scope.
Local Open Scope bool_scope.

(* ------------------------------------------------------------------------------------------ *)
(* basic types                                                                                *)
(* ------------------------------------------------------------------------------------------ *)
Definition bid := (N * N)%type.                 (* block = (page id, index) *)

Inductive flag := UseD | Freeing | NoD | NeverD.  (* MI_USE_DELAYED_FREE=0, MI_DELAYED_FREEING=1,
                                                     MI_NO_DELAYED_FREE=2, MI_NEVER_DELAYED_FREE=3 *)
Definition flag_num (f : flag) : N :=
  match f with UseD => 0 | Freeing => 1 | NoD => 2 | NeverD => 3 end.
Definition flag_eqb (a b : flag) : bool :=
  match a, b with
  | UseD, UseD | Freeing, Freeing | NoD, NoD | NeverD, NeverD => true
  | _, _ => false
  end.

Definition bid_eqb (a b : bid) : bool := (fst a =? fst b) && (snd a =? snd b).
Definition obid_eqb (a b : option bid) : bool :=
  match a, b with
  | None, None => true
  | Some x, Some y => bid_eqb x y
  | _, _ => false
  end.
Definition oN_eqb (a b : option N) : bool :=
  match a, b with
  | None, None => true
  | Some x, Some y => x =? y
  | _, _ => false
  end.
Definition hdo (l : list bid) : option bid := match l with [] => None | b :: _ => Some b end.
Definition isnil {A} (l : list A) : bool := match l with [] => true | _ => false end.
Definition lenN {A} (l : list A) : N := N.of_nat (length l).

(* uint16 arithmetic of page->used *)
Definition inc16 (u : N) : N := (u + 1) mod 65536.
Definition sub16 (u c : N) : N := (u + 65536 - c mod 65536) mod 65536.

Fixpoint mkblocks (p start : N) (n : nat) : list bid :=
  match n with O => [] | S k => (p, start) :: mkblocks p (start + 1) k end.

Fixpoint mem_bid (b : bid) (l : list bid) : bool :=
  match l with [] => false | x :: r => bid_eqb b x || mem_bid b r end.
Fixpoint remove_bid (b : bid) (l : list bid) : list bid :=
  match l with [] => [] | x :: r => if bid_eqb b x then r else x :: remove_bid b r end.

(* ------------------------------------------------------------------------------------------ *)
(* finite maps with a default: association lists with unique keys                             *)
(* ------------------------------------------------------------------------------------------ *)
Fixpoint fget {V} (d : V) (m : list (N * V)) (k : N) : V :=
  match m with
  | [] => d
  | (k', v) :: r => if k =? k' then v else fget d r k
  end.
Fixpoint fset {V} (m : list (N * V)) (k : N) (v : V) : list (N * V) :=
  match m with
  | [] => [(k, v)]
  | (k', v') :: r => if k =? k' then (k, v) :: r else (k', v') :: fset r k v
  end.
Fixpoint fkeys_nodup {V} (m : list (N * V)) : bool :=
  match m with
  | [] => true
  | (k, _) :: r => negb (existsb (fun kv => fst kv =? k) r) && fkeys_nodup r
  end.

(* ------------------------------------------------------------------------------------------ *)
(* state                                                                                      *)
(* ------------------------------------------------------------------------------------------ *)
Record page := mkPg {
  pg_alive : bool;          (* ghost: page is in use (between mi_page_init and mi_segment_page_clear) *)
  pg_tid   : N;             (* segment->thread_id of the page's segment: the owner thread *)
  pg_flag  : flag;          (* xthread_free & 3 *)
  pg_tf    : list bid;      (* xthread_free & ~3 : the linked list hanging off the atomic word *)
  pg_heap  : option N;      (* xheap *)
  pg_free  : list bid;
  pg_lfree : list bid;
  pg_used  : N;
  pg_cap   : N;
  pg_res   : N;
  pg_full  : bool
}.
Definition pg0 : page := mkPg false 0 UseD [] None [] [] 0 0 0 false.   (* a cleared page *)

Inductive hstate := HVirgin | HAlive | HDead.
Definition hstate_alive (s : hstate) : bool := match s with HAlive => true | _ => false end.
Record heap := mkHp {
  hp_st      : hstate;      (* ghost: HDead after mi_heap_free *)
  hp_owner   : N;
  hp_backing : bool;
  hp_del     : list bid     (* thread_delayed_free *)
}.
Definition hp0 : heap := mkHp HVirgin 0 false [].

(* program counters with their locals.  (f, hd) is the local copy of an xthread_free word: flag and
   head pointer; dhd is a local copy of heap->thread_delayed_free (head pointer). *)
Inductive frame :=
  (* mi_free_block_delayed_mt(page of b, b), executed by a non-owner *)
  | RF1 (b : bid)                                   (* free.c:215 load xthread_free *)
  | RF2 (b : bid) (f : flag) (hd : option bid)      (* free.c:216-227 compute tfreex; weak CAS *)
  | RF3 (b : bid)                                   (* free.c:232 acquire-load xheap *)
  | RF4 (b : bid) (h : N)                           (* free.c:236 load heap->thread_delayed_free *)
  | RF5 (b : bid) (h : N) (dhd : option bid)        (* free.c:237-239 set next (heap->keys); weak CAS push *)
  | RF6 (p : N)                                     (* free.c:243 load xthread_free *)
  | RF7 (p : N) (f : flag) (hd : option bid)        (* free.c:244-248 weak CAS to MI_NO_DELAYED_FREE *)
  (* _mi_page_try_use_delayed_free(p, d, ovr); spin = called from _mi_page_use_delayed_free *)
  | TU1 (p : N) (d : flag) (ovr spin : bool) (yc : N)                              (* page.c:152 load-acquire *)
  | TU2 (p : N) (d : flag) (ovr spin : bool) (yc : N) (f : flag) (hd : option bid) (* page.c:168 weak CAS *)
  (* _mi_page_thread_free_collect(p) *)
  | TC1 (p : N)                                     (* page.c:185 load *)
  | TC2 (p : N) (f : flag) (hd : option bid)        (* page.c:186-189 weak CAS list := NULL *)
  | TC3 (p : N) (tl : list bid)                     (* page.c:192-214 private walk, local_free, used *)
  (* _mi_page_free_collect(p, force) *)
  | FC1 (p : N) (force : bool)                      (* page.c:221 quick test load (or TC1's load if force) *)
  | FC2 (p : N) (force : bool)                      (* page.c:226-245 local_free -> free *)
  (* _mi_heap_delayed_free_partial(h) with _mi_free_delayed_block inlined *)
  | DP1 (h : N)                                     (* page.c:323 load *)
  | DP2 (h : N) (dhd : option bid)                  (* page.c:324 weak CAS take-over *)
  | DP3 (h : N) (pend : list bid) (af : bool)       (* page.c:328 loop head; reads block->next with heap->keys *)
  | DP4 (h : N) (b : bid) (rest : list bid) (af : bool)   (* after try_use_delayed_free; page.c:336 load on failure *)
  | DP5 (h : N) (b : bid) (rest : list bid) (dhd : option bid) (* page.c:337-339 re-push weak CAS *)
  | DP6 (h : N) (b : bid) (rest : list bid) (af : bool)   (* free.c:198 mi_free_block_local after the collect *)
  (* _mi_heap_delayed_free_all(h): after a partial *)
  | DA (h : N)
  (* _mi_page_free(p): mi_page_set_heap(page,NULL) store + mi_segment_page_clear *)
  | PF (p : N)
  (* mi_heap_collect_ex(h, NORMAL/FORCE) *)
  | HC2 (h : N) (force : bool)                      (* after _mi_heap_delayed_free_all: start of mi_heap_visit_pages *)
  | HC3 (h : N) (force : bool) (ps : list N)        (* next page *)
  | HC4 (h : N) (force : bool) (p : N) (ps : list N)(* heap.c:103 after the collect: free the page if all free *)
  (* mi_heap_delete(h) = mi_heap_absorb(bk, h); mi_heap_free(h) *)
  | HD2 (h bk : N)                                  (* heap.c:446 after the first partial *)
  | HD3 (h bk : N) (ps : list N)                    (* page-queue.c:363-371 next page: xheap store, spin *)
  | HD4 (h : N).                                    (* heap.c:492 mi_heap_free *)

Record thread := mkTh {
  th_stk     : list frame;     (* [] = idle (between API calls); head = innermost active function *)
  th_held    : list bid;       (* ghost: blocks this thread's program holds (live blocks) *)
  th_ret     : bool;           (* return register of the last returned bool function *)
  th_backing : option N        (* tld->heap_backing *)
}.
Definition th0 : thread := mkTh [] [] false None.

Record cfg := mkCfg {
  c_th : list (N * thread);
  c_pg : list (N * page);
  c_hp : list (N * heap)
}.

Definition gett (c : cfg) (t : N) : thread := fget th0 (c_th c) t.
Definition getp (c : cfg) (p : N) : page := fget pg0 (c_pg c) p.
Definition geth (c : cfg) (h : N) : heap := fget hp0 (c_hp c) h.
Definition sett (c : cfg) (t : N) (th : thread) : cfg := mkCfg (fset (c_th c) t th) (c_pg c) (c_hp c).
Definition setp (c : cfg) (p : N) (pg : page) : cfg := mkCfg (c_th c) (fset (c_pg c) p pg) (c_hp c).
Definition seth (c : cfg) (h : N) (hp : heap) : cfg := mkCfg (c_th c) (c_pg c) (fset (c_hp c) h hp).

(* field updates *)
Definition pg_set_word (pg : page) (f : flag) (tf : list bid) : page :=
  mkPg (pg_alive pg) (pg_tid pg) f tf (pg_heap pg) (pg_free pg) (pg_lfree pg) (pg_used pg) (pg_cap pg)
       (pg_res pg) (pg_full pg).
Definition pg_set_heap (pg : page) (h : option N) : page :=
  mkPg (pg_alive pg) (pg_tid pg) (pg_flag pg) (pg_tf pg) h (pg_free pg) (pg_lfree pg) (pg_used pg)
       (pg_cap pg) (pg_res pg) (pg_full pg).
Definition pg_set_lists (pg : page) (fr lf : list bid) (used : N) : page :=
  mkPg (pg_alive pg) (pg_tid pg) (pg_flag pg) (pg_tf pg) (pg_heap pg) fr lf used (pg_cap pg)
       (pg_res pg) (pg_full pg).
Definition pg_set_cap (pg : page) (cap : N) : page :=
  mkPg (pg_alive pg) (pg_tid pg) (pg_flag pg) (pg_tf pg) (pg_heap pg) (pg_free pg) (pg_lfree pg)
       (pg_used pg) cap (pg_res pg) (pg_full pg).
Definition pg_set_full (pg : page) (b : bool) : page :=
  mkPg (pg_alive pg) (pg_tid pg) (pg_flag pg) (pg_tf pg) (pg_heap pg) (pg_free pg) (pg_lfree pg)
       (pg_used pg) (pg_cap pg) (pg_res pg) b.
Definition hp_set_del (hp : heap) (l : list bid) : heap :=
  mkHp (hp_st hp) (hp_owner hp) (hp_backing hp) l.
Definition hp_set_st (hp : heap) (s : hstate) : heap :=
  mkHp s (hp_owner hp) (hp_backing hp) (hp_del hp).
Definition th_set (th : thread) (stk : list frame) (ret : bool) : thread :=
  mkTh stk (th_held th) ret (th_backing th).
Definition th_set_held (th : thread) (stk : list frame) (held : list bid) : thread :=
  mkTh stk held (th_ret th) (th_backing th).

(* ------------------------------------------------------------------------------------------ *)
(* observable events                                                                          *)
(* ------------------------------------------------------------------------------------------ *)
Inductive loc := LTF (p : N) | LHeap (p : N) | LDel (h : N).
Inductive aval := AvTF (f : flag) (l : list bid) | AvHeap (h : option N) | AvDel (l : list bid).
Inductive ekind := EvLoad | EvCasOk | EvCasFail | EvStore.
Record event := mkEv { ev_kind : ekind; ev_loc : loc; ev_old : aval; ev_new : aval }.

Definition av_tf (pg : page) : aval := AvTF (pg_flag pg) (pg_tf pg).
Definition ev_load_tf (p : N) (pg : page) : option event :=
  Some (mkEv EvLoad (LTF p) (av_tf pg) (av_tf pg)).
Definition ev_casfail_tf (p : N) (pg : page) : option event :=
  Some (mkEv EvCasFail (LTF p) (av_tf pg) (av_tf pg)).
Definition ev_casok_tf (p : N) (pg pg' : page) : option event :=
  Some (mkEv EvCasOk (LTF p) (av_tf pg) (av_tf pg')).
Definition ev_load_del (h : N) (hp : heap) : option event :=
  Some (mkEv EvLoad (LDel h) (AvDel (hp_del hp)) (AvDel (hp_del hp))).
Definition ev_casfail_del (h : N) (hp : heap) : option event :=
  Some (mkEv EvCasFail (LDel h) (AvDel (hp_del hp)) (AvDel (hp_del hp))).
Definition ev_casok_del (h : N) (hp hp' : heap) : option event :=
  Some (mkEv EvCasOk (LDel h) (AvDel (hp_del hp)) (AvDel (hp_del hp'))).

(* ------------------------------------------------------------------------------------------ *)
(* results, errors, choices, operations                                                       *)
(* ------------------------------------------------------------------------------------------ *)
(* error codes (all are ownership / lifetime violations or lost memory) *)
Definition E_DEAD_PAGE    : N := 1.  (* access to the fields of a page that has been freed *)
Definition E_DEAD_HEAP    : N := 2.  (* access to thread_delayed_free / keys of a freed heap *)
Definition E_NOT_OWNER    : N := 3.  (* non-atomic access to free/local_free/used of a page of another thread *)
Definition E_LOST_BLOCK   : N := 4.  (* a block is dropped (heap == NULL in the delayed path, tf list at page free) *)
Definition E_CORRUPT      : N := 5.  (* thread-free list longer than capacity (EFAULT path) *)
Definition E_FREE_USED    : N := 6.  (* _mi_page_free of a page with used != 0 *)
Definition E_FREE_FREEING : N := 7.  (* _mi_page_free while a thread is in the DELAYED_FREEING window *)
Definition E_LOST_DELAYED : N := 8.  (* mi_heap_free of a heap whose delayed list is not empty *)

Inductive result :=
  | RNone                                   (* transition not enabled *)
  | RErr (e : N)
  | ROk (c : cfg) (ev : option event).

Inductive op :=
  | OpHeapNew (h : N)                       (* mi_heap_new / first heap of a thread = backing heap *)
  | OpFresh (p h res n : N)                 (* mi_page_fresh_alloc + mi_page_init (+ first extend by n) *)
  | OpExtend (p n : N)                      (* mi_page_extend_free by n blocks *)
  | OpPop (p : N)                           (* _mi_page_malloc_zero: pop page->free *)
  | OpFree (b : bid) (keep : bool)          (* mi_free; keep = a local free that empties the page retires it instead of freeing *)
  | OpGive (b : bid) (t' : N)               (* the program hands a live block to another thread *)
  | OpCollect (p : N) (force : bool)        (* _mi_page_free_collect *)
  | OpToFull (p : N)                        (* mi_page_to_full *)
  | OpPartial (h : N)                       (* _mi_heap_delayed_free_partial *)
  | OpDelayedAll (h : N)                    (* _mi_heap_delayed_free_all *)
  | OpPageFree (p : N)                      (* _mi_heap_collect_retired: _mi_page_free if all free *)
  | OpHeapCollect (h : N) (force : bool)    (* mi_heap_collect *)
  | OpHeapDelete (h : N)                    (* mi_heap_delete of a non-backing heap *)
  | OpNever (p : N).                        (* _mi_page_use_delayed_free(p, MI_NEVER_DELAYED_FREE, false) *)

Inductive choice :=
  | CGo                                     (* default *)
  | CAlt                                    (* weak CAS: spurious failure; retire: keep the page *)
  | COp (o : op).                           (* idle thread: the API call / sub-operation it starts *)

(* ------------------------------------------------------------------------------------------ *)
(* helpers                                                                                    *)
(* ------------------------------------------------------------------------------------------ *)
Definition own (pg : page) (t : N) : bool := pg_alive pg && (pg_tid pg =? t).
Definition hp_alive (hp : heap) : bool := hstate_alive (hp_st hp).
Definition hown (hp : heap) (t : N) : bool := hp_alive hp && (hp_owner hp =? t).
Definition word_eq (f : flag) (hd : option bid) (pg : page) : bool :=
  flag_eqb f (pg_flag pg) && obid_eqb hd (hdo (pg_tf pg)).

Definition ok_t (c : cfg) (t : N) (th : thread) (stk : list frame) (ret : bool) (ev : option event) : result :=
  ROk (sett c t (th_set th stk ret)) ev.
Definition ok_s (c : cfg) (t : N) (th : thread) (stk : list frame) (ev : option event) : result :=
  ok_t c t th stk (th_ret th) ev.

(* pages of heap h owned by t, in map order (the page queues of the heap) *)
Definition pages_of (c : cfg) (t h : N) : list N :=
  map fst (filter (fun kv => own (snd kv) t && oN_eqb (pg_heap (snd kv)) (Some h)) (c_pg c)).

(* free.c:mi_free_block_local(page, b, _, check_full = in_full) by the owner; rest = the frames to continue
   with.  alt = keep the page retired (only possible when it is not in the full queue) *)
Definition free_local (c : cfg) (t : N) (th : thread) (b : bid) (rest : list frame) (alt : bool) : result :=
  let p := fst b in
  let pg := getp c p in
  if negb (own pg t) then RErr E_NOT_OWNER else
  let used' := sub16 (pg_used pg) 1 in
  let pg1 := pg_set_lists pg (pg_free pg) (b :: pg_lfree pg) used' in
  if used' =? 0 then
    if alt && negb (pg_full pg) then ok_s (setp c p pg1) t th rest None
    else ok_s (setp c p pg1) t th (PF p :: rest) None
  else if pg_full pg then ok_s (setp c p (pg_set_full pg1 false)) t th rest None
  else ok_s (setp c p pg1) t th rest None.

(* ------------------------------------------------------------------------------------------ *)
(* an idle thread starts an operation                                                         *)
(* ------------------------------------------------------------------------------------------ *)
Definition start (c : cfg) (t : N) (th : thread) (o : op) : result :=
  match o with
  | OpHeapNew h =>
    let hp := geth c h in
    match hp_st hp with
    | HVirgin =>
      match th_backing th with
      | None => ROk (sett (seth c h (mkHp HAlive t true [])) t
                          (mkTh [] (th_held th) (th_ret th) (Some h))) None
      | Some _ => ROk (seth c h (mkHp HAlive t false [])) None
      end
    | _ => RNone
    end
  | OpFresh p h res n =>
    let pg := getp c p in
    if pg_alive pg || negb (hown (geth c h) t) || (n =? 0) || (res <? n) || (65536 <=? res) then RNone
    else ROk (setp c p (mkPg true t UseD [] (Some h) (mkblocks p 0 (N.to_nat n)) [] 0 n res false))
             (Some (mkEv EvStore (LHeap p) (AvHeap (pg_heap pg)) (AvHeap (Some h))))
  | OpExtend p n =>
    let pg := getp c p in
    if negb (own pg t) || negb (isnil (pg_free pg)) || (n =? 0) || (pg_res pg <? pg_cap pg + n) then RNone
    else ROk (setp c p (pg_set_cap (pg_set_lists pg (mkblocks p (pg_cap pg) (N.to_nat n)) (pg_lfree pg) (pg_used pg))
                                   (pg_cap pg + n))) None
  | OpPop p =>
    let pg := getp c p in
    if negb (own pg t) || pg_full pg then RNone else
    match pg_free pg with
    | [] => RNone
    | b :: r =>
      ROk (sett (setp c p (pg_set_lists pg r (pg_lfree pg) (inc16 (pg_used pg)))) t
                (th_set_held th [] (b :: th_held th))) None
    end
  | OpFree b keep =>
    if negb (mem_bid b (th_held th)) then RNone else
    let th1 := th_set_held th [] (remove_bid b (th_held th)) in
    let pg := getp c (fst b) in
    if negb (pg_alive pg) then RErr E_DEAD_PAGE else
    if pg_tid pg =? t then free_local c t th1 b [] keep          (* is_local *)
    else ROk (sett c t (th_set_held th [RF1 b] (remove_bid b (th_held th)))) None
  | OpGive b t' =>
    if negb (mem_bid b (th_held th)) || (t' =? t) then RNone else
    let c1 := sett c t (th_set_held th [] (remove_bid b (th_held th))) in
    let th' := gett c1 t' in
    ROk (sett c1 t' (mkTh (th_stk th') (b :: th_held th') (th_ret th') (th_backing th'))) None
  | OpCollect p force =>
    if negb (own (getp c p) t) then RNone else ok_s c t th [FC1 p force] None
  | OpToFull p =>
    let pg := getp c p in
    if negb (own pg t) || pg_full pg then RNone
    else ok_s (setp c p (pg_set_full pg true)) t th [FC1 p false] None
  | OpPartial h =>
    if negb (hown (geth c h) t) then RNone else ok_s c t th [DP1 h] None
  | OpDelayedAll h =>
    if negb (hown (geth c h) t) then RNone else ok_s c t th [DP1 h; DA h] None
  | OpPageFree p =>
    let pg := getp c p in
    if negb (own pg t) || negb (pg_used pg =? 0) then RNone else ok_s c t th [PF p] None
  | OpHeapCollect h force =>
    if negb (hown (geth c h) t) then RNone else ok_s c t th [DP1 h; DA h; HC2 h force] None
  | OpHeapDelete h =>
    let hp := geth c h in
    if negb (hown hp t) || hp_backing hp then RNone else
    match th_backing th with
    | None => RNone
    | Some bk =>
      if isnil (pages_of c t h) then ok_s c t th [HD4 h] None      (* heap.c:437 page_count == 0 *)
      else ok_s c t th [DP1 h; HD2 h bk] None
    end
  | OpNever p =>
    if negb (own (getp c p) t) then RNone else ok_s c t th [TU1 p NeverD false true 0] None
  end.

(* ------------------------------------------------------------------------------------------ *)
(* one step of the innermost frame.  alt = CAlt was chosen                                    *)
(* ------------------------------------------------------------------------------------------ *)
Definition fstep (c : cfg) (t : N) (th : thread) (fr : frame) (rest : list frame) (alt : bool) : result :=
  match fr with
  (* ---- mi_free_block_delayed_mt ---- *)
  | RF1 b =>
    let p := fst b in let pg := getp c p in
    if negb (pg_alive pg) then RErr E_DEAD_PAGE else
    ok_s c t th (RF2 b (pg_flag pg) (hdo (pg_tf pg)) :: rest) (ev_load_tf p pg)
  | RF2 b f hd =>
    let p := fst b in let pg := getp c p in
    if negb (pg_alive pg) then RErr E_DEAD_PAGE else
    if alt || negb (word_eq f hd pg) then
      ok_s c t th (RF2 b (pg_flag pg) (hdo (pg_tf pg)) :: rest) (ev_casfail_tf p pg)
    else if flag_eqb f UseD then
      let pg' := pg_set_word pg Freeing (pg_tf pg) in
      ok_s (setp c p pg') t th (RF3 b :: rest) (ev_casok_tf p pg pg')
    else
      let pg' := pg_set_word pg (pg_flag pg) (b :: pg_tf pg) in     (* block->next := head; push *)
      ok_s (setp c p pg') t th rest (ev_casok_tf p pg pg')
  | RF3 b =>
    let p := fst b in let pg := getp c p in
    if negb (pg_alive pg) then RErr E_DEAD_PAGE else
    match pg_heap pg with
    | None => RErr E_LOST_BLOCK          (* heap == NULL: the block would be pushed nowhere *)
    | Some h => ok_s c t th (RF4 b h :: rest)
                     (Some (mkEv EvLoad (LHeap p) (AvHeap (Some h)) (AvHeap (Some h))))
    end
  | RF4 b h =>
    let hp := geth c h in
    if negb (hp_alive hp) then RErr E_DEAD_HEAP else
    ok_s c t th (RF5 b h (hdo (hp_del hp)) :: rest) (ev_load_del h hp)
  | RF5 b h dhd =>
    let hp := geth c h in
    if negb (hp_alive hp) then RErr E_DEAD_HEAP else       (* reads heap->keys, CAS on the heap field *)
    if alt || negb (obid_eqb dhd (hdo (hp_del hp))) then
      ok_s c t th (RF5 b h (hdo (hp_del hp)) :: rest) (ev_casfail_del h hp)
    else
      let hp' := hp_set_del hp (b :: hp_del hp) in
      ok_s (seth c h hp') t th (RF6 (fst b) :: rest) (ev_casok_del h hp hp')
  | RF6 p =>
    let pg := getp c p in
    if negb (pg_alive pg) then RErr E_DEAD_PAGE else
    ok_s c t th (RF7 p (pg_flag pg) (hdo (pg_tf pg)) :: rest) (ev_load_tf p pg)
  | RF7 p f hd =>
    let pg := getp c p in
    if negb (pg_alive pg) then RErr E_DEAD_PAGE else
    if alt || negb (word_eq f hd pg) then
      ok_s c t th (RF7 p (pg_flag pg) (hdo (pg_tf pg)) :: rest) (ev_casfail_tf p pg)
    else
      let pg' := pg_set_word pg NoD (pg_tf pg) in
      ok_s (setp c p pg') t th rest (ev_casok_tf p pg pg')
  (* ---- _mi_page_try_use_delayed_free / _mi_page_use_delayed_free ---- *)
  | TU1 p d ovr spin yc =>
    let pg := getp c p in
    if negb (pg_alive pg) then RErr E_DEAD_PAGE else
    let f := pg_flag pg in
    if flag_eqb f Freeing then
      if 4 <=? yc then
        if spin then ok_s c t th (TU1 p d ovr spin 0 :: rest) (ev_load_tf p pg)   (* return false; yield; call again *)
        else ok_t c t th rest false (ev_load_tf p pg)                             (* give up *)
      else ok_s c t th (TU1 p d ovr spin (yc + 1) :: rest) (ev_load_tf p pg)      (* yield; retry *)
    else if flag_eqb d f then ok_t c t th rest true (ev_load_tf p pg)
    else if negb ovr && flag_eqb f NeverD then ok_t c t th rest true (ev_load_tf p pg)
    else ok_s c t th (TU2 p d ovr spin yc f (hdo (pg_tf pg)) :: rest) (ev_load_tf p pg)
  | TU2 p d ovr spin yc f hd =>
    let pg := getp c p in
    if negb (pg_alive pg) then RErr E_DEAD_PAGE else
    if alt || negb (word_eq f hd pg) then
      ok_s c t th (TU1 p d ovr spin yc :: rest) (ev_casfail_tf p pg)
    else
      let pg' := pg_set_word pg d (pg_tf pg) in
      ok_t (setp c p pg') t th rest true (ev_casok_tf p pg pg')
  (* ---- _mi_page_thread_free_collect ---- *)
  | TC1 p =>
    let pg := getp c p in
    if negb (pg_alive pg) then RErr E_DEAD_PAGE else
    ok_s c t th (TC2 p (pg_flag pg) (hdo (pg_tf pg)) :: rest) (ev_load_tf p pg)
  | TC2 p f hd =>
    let pg := getp c p in
    if negb (pg_alive pg) then RErr E_DEAD_PAGE else
    if alt || negb (word_eq f hd pg) then
      ok_s c t th (TC2 p (pg_flag pg) (hdo (pg_tf pg)) :: rest) (ev_casfail_tf p pg)
    else
      let pg' := pg_set_word pg (pg_flag pg) [] in
      ok_s (setp c p pg') t th (TC3 p (pg_tf pg) :: rest) (ev_casok_tf p pg pg')
  | TC3 p tl =>
    match tl with
    | [] => ok_s c t th rest None
    | _ =>
      let pg := getp c p in
      if negb (own pg t) then RErr E_NOT_OWNER else
      if pg_cap pg <? lenN tl then RErr E_CORRUPT else
      ok_s (setp c p (pg_set_lists pg (pg_free pg) (tl ++ pg_lfree pg) (sub16 (pg_used pg) (lenN tl))))
           t th rest None
    end
  (* ---- _mi_page_free_collect ---- *)
  | FC1 p force =>
    let pg := getp c p in
    if negb (pg_alive pg) then RErr E_DEAD_PAGE else
    if force then ok_s c t th (TC2 p (pg_flag pg) (hdo (pg_tf pg)) :: FC2 p force :: rest) (ev_load_tf p pg)
    else if isnil (pg_tf pg) then ok_s c t th (FC2 p force :: rest) (ev_load_tf p pg)
    else ok_s c t th (TC1 p :: FC2 p force :: rest) (ev_load_tf p pg)
  | FC2 p force =>
    let pg := getp c p in
    if negb (own pg t) then RErr E_NOT_OWNER else
    match pg_lfree pg with
    | [] => ok_s c t th rest None
    | lf =>
      match pg_free pg with
      | [] => ok_s (setp c p (pg_set_lists pg lf [] (pg_used pg))) t th rest None
      | fr => if force then ok_s (setp c p (pg_set_lists pg (lf ++ fr) [] (pg_used pg))) t th rest None
              else ok_s c t th rest None
      end
    end
  (* ---- _mi_heap_delayed_free_partial ---- *)
  | DP1 h =>
    let hp := geth c h in
    if negb (hp_alive hp) then RErr E_DEAD_HEAP else
    match hp_del hp with
    | [] => ok_t c t th rest true (ev_load_del h hp)
    | b :: _ => ok_s c t th (DP2 h (Some b) :: rest) (ev_load_del h hp)
    end
  | DP2 h dhd =>
    let hp := geth c h in
    if negb (hp_alive hp) then RErr E_DEAD_HEAP else
    if alt || negb (obid_eqb dhd (hdo (hp_del hp))) then
      match hp_del hp with
      | [] => ok_t c t th rest true (ev_casfail_del h hp)           (* block == NULL: loop exits *)
      | b :: _ => ok_s c t th (DP2 h (Some b) :: rest) (ev_casfail_del h hp)
      end
    else
      let hp' := hp_set_del hp [] in
      ok_s (seth c h hp') t th (DP3 h (hp_del hp) true :: rest) (ev_casok_del h hp hp')
  | DP3 h pend af =>
    match pend with
    | [] => ok_t c t th rest af None
    | b :: r =>
      if negb (hp_alive (geth c h)) then RErr E_DEAD_HEAP else      (* mi_block_nextx reads heap->keys *)
      ok_s c t th (TU1 (fst b) UseD false false 0 :: DP4 h b r af :: rest) None
    end
  | DP4 h b r af =>
    if th_ret th then ok_s c t th (FC1 (fst b) false :: DP6 h b r af :: rest) None
    else
      let hp := geth c h in
      if negb (hp_alive hp) then RErr E_DEAD_HEAP else
      ok_s c t th (DP5 h b r (hdo (hp_del hp)) :: rest) (ev_load_del h hp)
  | DP5 h b r dhd =>
    let hp := geth c h in
    if negb (hp_alive hp) then RErr E_DEAD_HEAP else
    if alt || negb (obid_eqb dhd (hdo (hp_del hp))) then
      ok_s c t th (DP5 h b r (hdo (hp_del hp)) :: rest) (ev_casfail_del h hp)
    else
      let hp' := hp_set_del hp (b :: hp_del hp) in
      ok_s (seth c h hp') t th (DP3 h r false :: rest) (ev_casok_del h hp hp')
  | DP6 h b r af => free_local c t th b (DP3 h r af :: rest) alt
  (* ---- _mi_heap_delayed_free_all ---- *)
  | DA h =>
    if th_ret th then ok_s c t th rest None
    else ok_s c t th (DP1 h :: DA h :: rest) None                   (* mi_atomic_yield; again *)
  (* ---- _mi_page_free ---- *)
  | PF p =>
    let pg := getp c p in
    if negb (own pg t) then RErr E_NOT_OWNER else
    if negb (pg_used pg =? 0) then RErr E_FREE_USED else
    if flag_eqb (pg_flag pg) Freeing then RErr E_FREE_FREEING else
    if negb (isnil (pg_tf pg)) then RErr E_LOST_BLOCK else
    ok_s (setp c p pg0) t th rest (Some (mkEv EvStore (LHeap p) (AvHeap (pg_heap pg)) (AvHeap None)))
  (* ---- mi_heap_collect_ex ---- *)
  | HC2 h force => ok_s c t th (HC3 h force (pages_of c t h) :: rest) None
  | HC3 h force ps =>
    match ps with
    | [] => ok_s c t th rest None
    | p :: ps' =>
      (* the order in which mi_heap_visit_pages meets the pages (bin by bin, queue order) is not fixed by the
         model: alt = another page first *)
      if alt then ok_s c t th (HC3 h force (ps' ++ [p]) :: rest) None else
      let pg := getp c p in
      if own pg t && oN_eqb (pg_heap pg) (Some h)
      then ok_s c t th (FC1 p force :: HC4 h force p ps' :: rest) None
      else ok_s c t th (HC3 h force ps' :: rest) None
    end
  | HC4 h force p ps =>
    let pg := getp c p in
    if negb (own pg t) then RErr E_NOT_OWNER else
    if pg_used pg =? 0 then ok_s c t th (PF p :: HC3 h force ps :: rest) None
    else ok_s c t th (HC3 h force ps :: rest) None
  (* ---- mi_heap_delete ---- *)
  | HD2 h bk => ok_s c t th (HD3 h bk (pages_of c t h) :: rest) None
  | HD3 h bk ps =>
    match ps with
    | [] => ok_s c t th (DP1 h :: DA h :: HD4 h :: rest) None
    | p :: ps' =>
      (* the order of the 75 queue appends of mi_heap_absorb (bin by bin, queue order) is not fixed by the
         model: alt = another page first *)
      if alt then ok_s c t th (HD3 h bk (ps' ++ [p]) :: rest) None else
      let pg := getp c p in
      if negb (own pg t) then RErr E_NOT_OWNER else
      let pg' := pg_set_heap pg (Some bk) in
      ok_s (setp c p pg') t th (TU1 p UseD false true 0 :: HD3 h bk ps' :: rest)
           (Some (mkEv EvStore (LHeap p) (AvHeap (pg_heap pg)) (AvHeap (Some bk))))
    end
  | HD4 h =>
    let hp := geth c h in
    if negb (hp_alive hp) then RErr E_DEAD_HEAP else
    if negb (isnil (hp_del hp)) then RErr E_LOST_DELAYED else
    ok_s (seth c h (hp_set_st hp HDead)) t th rest None
  end.

Definition cstep (c : cfg) (t : N) (ch : choice) : result :=
  let th := gett c t in
  match th_stk th with
  | [] => match ch with COp o => start c t th o | _ => RNone end
  | fr :: rest =>
    match ch with
    | COp _ => RNone
    | CGo => fstep c t th fr rest false
    | CAlt => fstep c t th fr rest true
    end
  end.

(* ------------------------------------------------------------------------------------------ *)
(* the interface                                                                              *)
(* ------------------------------------------------------------------------------------------ *)
Inductive state := Err (e : N) | Ok (c : cfg).

Definition init : state := Ok (mkCfg [] [] []).

Definition tstep (s : state) (t : N) (ch : choice) : option state :=
  match s with
  | Err _ => None
  | Ok c => match cstep c t ch with
            | RNone => None
            | RErr e => Some (Err e)
            | ROk c' _ => Some (Ok c')
            end
  end.

(* the observable log: the atomic access performed by the step (None = tau or not enabled) *)
Definition tlog (s : state) (t : N) (ch : choice) : option event :=
  match s with
  | Err _ => None
  | Ok c => match cstep c t ch with ROk _ ev => ev | _ => None end
  end.

Fixpoint run (s : state) (sched : list (N * choice)) : option state :=
  match sched with
  | [] => Some s
  | (t, ch) :: r => match tstep s t ch with None => None | Some s' => run s' r end
  end.

(* blocks whose memory (the `next` field) the step writes non-atomically *)
Definition lasto (l : list bid) : list bid := match rev l with [] => [] | x :: _ => [x] end.
Definition step_writes (c : cfg) (t : N) (ch : choice) : list bid :=
  let th := gett c t in
  match th_stk th, ch with
  | [], COp (OpFree b _) => if pg_tid (getp c (fst b)) =? t then [b] else []
  | [], COp (OpFresh p _ _ n) => mkblocks p 0 (N.to_nat n)
  | [], COp (OpExtend p n) => mkblocks p (pg_cap (getp c p)) (N.to_nat n)
  | RF2 b f _ :: _, _ => if flag_eqb f UseD then [] else [b]
  | RF5 b _ _ :: _, _ => [b]
  | DP5 _ b _ _ :: _, _ => [b]
  | DP6 _ b _ _ :: _, _ => [b]
  | TC3 _ tl :: _, _ => lasto tl
  | FC2 p true :: _, _ => match pg_free (getp c p) with [] => [] | _ => lasto (pg_lfree (getp c p)) end
  | _, _ => []
  end.

(* solo execution of thread t with the default choice until it is idle (fuel steps at most) *)
Fixpoint solo (fuel : nat) (c : cfg) (t : N) : option cfg :=
  match th_stk (gett c t) with
  | [] => Some c
  | _ => match fuel with
         | O => None
         | S k => match cstep c t CGo with ROk c' _ => solo k c' t | _ => None end
         end
  end.

(* ------------------------------------------------------------------------------------------ *)
(* measures (used by the invariants; all computable)                                          *)
(* ------------------------------------------------------------------------------------------ *)
Definition cnt (P : bid -> bool) (l : list bid) : nat := length (filter P l).
Definition onp (p : N) (b : bid) : bool := fst b =? p.

(* blocks a frame holds ("in the hand of a thread inside a free" / owner's private pending list) *)
Definition fr_blocks (fr : frame) : list bid :=
  match fr with
  | RF1 b | RF2 b _ _ | RF3 b | RF4 b _ | RF5 b _ _ => [b]
  | TC3 _ tl => tl
  | DP3 _ pend _ => pend
  | DP4 _ b r _ | DP5 _ b r _ | DP6 _ b r _ => b :: r
  | _ => []
  end.
Definition stk_blocks (stk : list frame) : list bid := flat_map fr_blocks stk.

(* blocks that still have to pass _mi_free_delayed_block's flag reset (the "will be processed" part of
   the owner's pending list).  skip = the try_use_delayed_free of DP4's block has returned true *)
Definition d1_fr (skip : bool) (fr : frame) : list bid :=
  match fr with
  | DP3 _ pend _ => pend
  | DP4 _ b r _ => if skip then r else b :: r
  | DP5 _ b r _ => b :: r
  | DP6 _ _ r _ => r
  | _ => []
  end.
Definition d1_stk (ret : bool) (stk : list frame) : list bid :=
  match stk with
  | [] => []
  | f :: r => d1_fr ret f ++ flat_map (d1_fr false) r
  end.

(* is the frame inside the DELAYED_FREEING window of page p (between the first successful CAS and the last) *)
Definition win_fr (p : N) (fr : frame) : nat :=
  match fr with
  | RF3 b | RF4 b _ | RF5 b _ _ => if fst b =? p then 1 else 0
  | RF6 q | RF7 q _ _ => if q =? p then 1 else 0
  | _ => 0
  end%nat.
(* ... and has already pushed its block on the heap list *)
Definition pw_fr (p : N) (fr : frame) : nat :=
  match fr with
  | RF6 q | RF7 q _ _ => if q =? p then 1 else 0
  | _ => 0
  end%nat.
Fixpoint sum_fr (f : frame -> nat) (stk : list frame) : nat :=
  match stk with [] => 0 | x :: r => f x + sum_fr f r end%nat.

Fixpoint ftot {V} (f : V -> nat) (m : list (N * V)) : nat :=
  match m with [] => 0 | (_, v) :: r => f v + ftot f r end%nat.

Definition th_W (P : bid -> bool) (th : thread) : nat :=
  (cnt P (th_held th) + cnt P (stk_blocks (th_stk th)))%nat.
Definition mW (c : cfg) (P : bid -> bool) : nat :=
  (ftot (th_W P) (c_th c) + ftot (fun pg => cnt P (pg_tf pg)) (c_pg c)
   + ftot (fun hp => cnt P (hp_del hp)) (c_hp c))%nat.
Definition mF (c : cfg) (P : bid -> bool) : nat :=
  ftot (fun pg => cnt P (pg_free pg) + cnt P (pg_lfree pg))%nat (c_pg c).
Definition mD (c : cfg) (P : bid -> bool) : nat :=
  (ftot (fun th => cnt P (d1_stk (th_ret th) (th_stk th))) (c_th c)
   + ftot (fun hp => cnt P (hp_del hp)) (c_hp c))%nat.
Definition mWin (c : cfg) (p : N) : nat := ftot (fun th => sum_fr (win_fr p) (th_stk th)) (c_th c).
Definition mPw (c : cfg) (p : N) : nat := ftot (fun th => sum_fr (pw_fr p) (th_stk th)) (c_th c).

(* the owner is between the flag reset of _mi_free_delayed_block and the take-over of the thread list *)
Definition below_dp6 (r : list frame) : bool := match r with DP6 _ _ _ _ :: _ => true | _ => false end.
Definition below_fc2_dp6 (r : list frame) : bool := match r with FC2 _ false :: r' => below_dp6 r' | _ => false end.
Definition ph_stk (p : N) (ret : bool) (stk : list frame) : nat :=
  match stk with
  | DP4 _ b _ _ :: _ => if ret && (fst b =? p) then 1 else 0
  | FC1 q false :: r => if (q =? p) && below_dp6 r then 1 else 0
  | TC1 q :: r | TC2 q _ _ :: r => if (q =? p) && below_fc2_dp6 r then 1 else 0
  | _ => 0
  end%nat.
Definition mPh (c : cfg) (p : N) : nat := ftot (fun th => ph_stk p (th_ret th) (th_stk th)) (c_th c).

(* ------------------------------------------------------------------------------------------ *)
(* stack shapes                                                                               *)
(* ------------------------------------------------------------------------------------------ *)
(* which frame may sit directly on which (None = bottom of the stack) *)
Definition above_ok (f : frame) (g : option frame) : bool :=
  match f, g with
  | (RF1 _ | RF2 _ _ _ | RF3 _ | RF4 _ _ | RF5 _ _ _ | RF6 _ | RF7 _ _ _), None => true
  | (TU1 p _ _ false _ | TU2 p _ _ false _ _ _), Some (DP4 _ b _ _) => p =? fst b
  | (TU1 _ _ _ true _ | TU2 _ _ _ true _ _ _), (None | Some (HD3 _ _ _)) => true
  | (TC1 p | TC2 p _ _ | TC3 p _), Some (FC2 q _) => p =? q
  | (FC1 p false | FC2 p false), Some (DP6 _ b _ _) => p =? fst b
  | (FC1 p _ | FC2 p _), Some (HC4 _ _ q _) => p =? q
  | (FC1 _ _ | FC2 _ _), None => true
  | PF _, (None | Some (DP3 _ _ _) | Some (HC3 _ _ _)) => true
  | (DP1 h | DP2 h _ | DP3 h _ _ | DP4 h _ _ _ | DP5 h _ _ _ | DP6 h _ _ _), Some (DA h') => h =? h'
  | (DP1 h | DP2 h _ | DP3 h _ _ | DP4 h _ _ _ | DP5 h _ _ _ | DP6 h _ _ _), Some (HD2 h' _) => h =? h'
  | (DP1 _ | DP2 _ _ | DP3 _ _ _ | DP4 _ _ _ _ | DP5 _ _ _ _ | DP6 _ _ _ _), None => true
  | DA h, Some (HC2 h' _) => h =? h'
  | DA h, Some (HD4 h') => h =? h'
  | DA _, None => true
  | (HC2 _ _ | HC3 _ _ _ | HC4 _ _ _ _ | HD2 _ _ | HD3 _ _ _ | HD4 _), None => true
  | _, _ => false
  end.
Fixpoint stk_ok (stk : list frame) : bool :=
  match stk with
  | [] => true
  | f :: r => above_ok f (match r with [] => None | g :: _ => Some g end) && stk_ok r
  end.

(* HD frames only occur at the bottom of a stack (stk_ok); the thread is inside mi_heap_delete(h) *)
Definition is_hd_of (h : N) (fr : frame) : bool :=
  match fr with
  | HD2 h' _ | HD3 h' _ _ | HD4 h' => h' =? h
  | _ => false
  end.
Definition hd_bottom (stk : list frame) (h : N) : bool := existsb (is_hd_of h) stk.
(* the owner is inside _mi_page_queue_append for page p of heap h (xheap stored, spinning on the flag) *)
Definition absorbing (stk : list frame) (p h : N) : bool :=
  match stk with
  | (TU1 q _ _ true _ | TU2 q _ _ true _ _ _) :: HD3 h' _ _ :: _ => (q =? p) && (h' =? h)
  | _ => false
  end.

(* ------------------------------------------------------------------------------------------ *)
(* boolean invariant checkers                                                                 *)
(* ------------------------------------------------------------------------------------------ *)
Definition keys {V} (m : list (N * V)) : list N := map fst m.
Fixpoint nodup_b (l : list bid) : bool :=
  match l with [] => true | x :: r => negb (mem_bid x r) && nodup_b r end.
Definition memN (x : N) (l : list N) : bool := existsb (N.eqb x) l.

Definition th_blocks (th : thread) : list bid := th_held th ++ stk_blocks (th_stk th).
Definition pg_blocks (pg : page) : list bid := pg_tf pg ++ pg_free pg ++ pg_lfree pg.
Definition all_blocks (c : cfg) : list bid :=
  flat_map (fun kv => th_blocks (snd kv)) (c_th c) ++ flat_map (fun kv => pg_blocks (snd kv)) (c_pg c)
  ++ flat_map (fun kv => hp_del (snd kv)) (c_hp c).
(* pages mentioned anywhere *)
Definition fr_page (fr : frame) : list N :=
  match fr with
  | RF6 p | RF7 p _ _ | TU1 p _ _ _ _ | TU2 p _ _ _ _ _ _ | TC1 p | TC2 p _ _ | TC3 p _ | FC1 p _ | FC2 p _
  | PF p | HC4 _ _ p _ => [p]
  | _ => []
  end.
Definition all_pages (c : cfg) : list N :=
  keys (c_pg c) ++ map fst (all_blocks c) ++ flat_map (fun kv => flat_map fr_page (th_stk (snd kv))) (c_th c).

Definition wf_b (c : cfg) : bool := fkeys_nodup (c_th c) && fkeys_nodup (c_pg c) && fkeys_nodup (c_hp c).
(* I_uniq: every block is in at most one place *)
Definition uniq_b (c : cfg) : bool := nodup_b (all_blocks c).
(* I_range: a block in a place belongs to a live page and is below its capacity *)
Definition range_b (c : cfg) : bool :=
  forallb (fun b => pg_alive (getp c (fst b)) && (snd b <? pg_cap (getp c (fst b)))) (all_blocks c).
(* I_count: used = blocks in non-free places; capacity = all blocks of the page *)
Definition count_b (c : cfg) : bool :=
  forallb (fun p => let pg := getp c p in
             (pg_used pg =? N.of_nat (mW c (onp p)))
             && (pg_cap pg =? N.of_nat (mW c (onp p) + mF c (onp p)))
             && (pg_cap pg <=? pg_res pg) && (pg_res pg <? 65536)) (all_pages c).
(* I_local: the lists of a page contain blocks of that page only *)
Definition local_b (c : cfg) : bool :=
  forallb (fun kv => forallb (onp (fst kv)) (pg_blocks (snd kv))) (c_pg c)
  && forallb (fun kv => forallb (fun fr => match fr with TC3 p tl => forallb (onp p) tl | _ => true end)
                                (th_stk (snd kv))) (c_th c).
(* I_win: flag DELAYED_FREEING <-> exactly one thread in the window *)
Definition win_b (c : cfg) : bool :=
  forallb (fun p => Nat.eqb (mWin c p) (if flag_eqb (pg_flag (getp c p)) Freeing then 1 else 0)%nat) (all_pages c).
(* I_nd: types.h:313-319 *)
Definition nd_b (c : cfg) : bool :=
  forallb (fun p => negb (flag_eqb (pg_flag (getp c p)) NoD || Nat.leb 1 (mPw c p))
                    || Nat.leb 1 (mD c (onp p))) (all_pages c).
(* I_tfl: a non-empty thread list under USE_DELAYED_FREE is about to be noticed *)
Definition tfl_b (c : cfg) : bool :=
  forallb (fun p => negb (negb (isnil (pg_tf (getp c p))) && flag_eqb (pg_flag (getp c p)) UseD)
                    || Nat.leb 1 (mD c (onp p) + mPh c p)) (all_pages c).
Definition page_eqb0 (pg : page) : bool :=
  negb (pg_alive pg) && (pg_tid pg =? 0) && flag_eqb (pg_flag pg) UseD && isnil (pg_tf pg)
  && oN_eqb (pg_heap pg) None && isnil (pg_free pg) && isnil (pg_lfree pg) && (pg_used pg =? 0)
  && (pg_cap pg =? 0) && (pg_res pg =? 0) && negb (pg_full pg).
Definition dead_b (c : cfg) : bool :=
  forallb (fun kv => pg_alive (snd kv) || page_eqb0 (snd kv)) (c_pg c).
Definition pheap_b (c : cfg) : bool :=
  forallb (fun kv => negb (pg_alive (snd kv)) ||
             match pg_heap (snd kv) with Some h => hown (geth c h) (pg_tid (snd kv)) | None => false end) (c_pg c).
Definition heaps_b (c : cfg) : bool :=
  forallb (fun kv => match th_backing (snd kv) with
                     | Some bk => hown (geth c bk) (fst kv) && hp_backing (geth c bk)
                     | None => true end) (c_th c)
  && forallb (fun kv => let hp := snd kv in
                (negb (hp_alive hp && hp_backing hp) || oN_eqb (th_backing (gett c (hp_owner hp))) (Some (fst kv)))
                && (hp_alive hp || isnil (hp_del hp))) (c_hp c).
(* a delayed / pending block belongs to a page of the heap's owner, and to that heap unless it is being absorbed *)
Definition del_ok (c : cfg) (h : N) (b : bid) : bool :=
  let hp := geth c h in let pg := getp c (fst b) in
  hp_alive hp && pg_alive pg && (pg_tid pg =? hp_owner hp)
  && (oN_eqb (pg_heap pg) (Some h) || hd_bottom (th_stk (gett c (hp_owner hp))) h).
Definition del_b (c : cfg) : bool :=
  forallb (fun kv => forallb (del_ok c (fst kv)) (hp_del (snd kv))) (c_hp c).
Definition fr_ok (c : cfg) (t : N) (th : thread) (fr : frame) : bool :=
  match fr with
  | TC1 p | TC2 p _ _ | FC1 p _ | FC2 p _ => own (getp c p) t
  | HC4 h _ p _ => own (getp c p) t && hown (geth c h) t
  | TU1 p d ovr _ _ => own (getp c p) t && negb (flag_eqb d Freeing) && negb (flag_eqb d NoD) && negb ovr
  | TU2 p d ovr _ _ f _ => own (getp c p) t && negb (flag_eqb d Freeing) && negb (flag_eqb d NoD) && negb ovr
                          && negb (flag_eqb f Freeing) && negb (flag_eqb d f) && negb (flag_eqb f NeverD)
  | TC3 p tl => own (getp c p) t && forallb (onp p) tl
  | PF p => own (getp c p) t && (pg_used (getp c p) =? 0)
  | DP1 h | DP2 h _ | DA h | HC2 h _ | HC3 h _ _ => hown (geth c h) t
  | DP3 h pend _ => hown (geth c h) t && forallb (del_ok c h) pend
  | DP4 h b r _ | DP5 h b r _ | DP6 h b r _ => hown (geth c h) t && forallb (del_ok c h) (b :: r)
  | HD2 h bk => hown (geth c h) t && negb (hp_backing (geth c h)) && oN_eqb (th_backing th) (Some bk)
  | HD3 h bk ps => hown (geth c h) t && negb (hp_backing (geth c h)) && oN_eqb (th_backing th) (Some bk)
                   && forallb (fun p => own (getp c p) t
                                        && (oN_eqb (pg_heap (getp c p)) (Some h) || oN_eqb (pg_heap (getp c p)) (Some bk))) ps
  | HD4 h => hown (geth c h) t && negb (hp_backing (geth c h))
  | RF4 b h | RF5 b h _ =>
    let pg := getp c (fst b) in
    pg_alive pg && hown (geth c h) (pg_tid pg)
    && (oN_eqb (pg_heap pg) (Some h) || absorbing (th_stk (gett c (pg_tid pg))) (fst b) h)
  | _ => true
  end.
Definition frames_b (c : cfg) : bool :=
  forallb (fun kv => stk_ok (th_stk (snd kv)) && forallb (fr_ok c (fst kv) (snd kv)) (th_stk (snd kv))) (c_th c).
(* mi_heap_delete: pages still to be moved; nothing is left behind when the heap is freed *)
Definition has_af (stk : list frame) : bool :=
  existsb (fun fr => match fr with DP3 _ _ af | DP4 _ _ _ af | DP6 _ _ _ af => af | _ => false end) stk.
(* under mi_heap_delete's final _mi_heap_delayed_free_all: nothing has been (re-)pushed since the last take-over *)
Definition hd4_quiet (stk : list frame) (ret : bool) : bool :=
  match stk with
  | HD4 _ :: _ => true
  | DA _ :: _ => ret
  | _ => has_af stk
  end.
Definition hd_fr_ok (c : cfg) (th : thread) (fr : frame) : bool :=
  match fr with
  | HD3 h _ ps =>
    forallb (fun kv => negb (pg_alive (snd kv) && oN_eqb (pg_heap (snd kv)) (Some h)) || memN (fst kv) ps) (c_pg c)
  | HD4 h =>
    forallb (fun kv => negb (pg_alive (snd kv) && oN_eqb (pg_heap (snd kv)) (Some h))) (c_pg c)
    && (negb (hd4_quiet (th_stk th) (th_ret th)) || isnil (hp_del (geth c h)))
  | _ => true
  end.
Definition hd_ok (c : cfg) (th : thread) : bool := forallb (hd_fr_ok c th) (th_stk th).
Definition hd_b (c : cfg) : bool := forallb (fun kv => hd_ok c (snd kv)) (c_th c).

Definition inv_b (c : cfg) : bool :=
  wf_b c && uniq_b c && range_b c && count_b c && local_b c && win_b c && nd_b c && tfl_b c && dead_b c
  && pheap_b c && heaps_b c && del_b c && frames_b c && hd_b c.
(* which part fails (0 = none), for diagnostics *)
Definition inv_fail (c : cfg) : N :=
  if negb (wf_b c) then 1 else if negb (uniq_b c) then 2 else if negb (range_b c) then 3
  else if negb (count_b c) then 4 else if negb (local_b c) then 5 else if negb (win_b c) then 6
  else if negb (nd_b c) then 7 else if negb (tfl_b c) then 8 else if negb (dead_b c) then 9
  else if negb (pheap_b c) then 10 else if negb (heaps_b c) then 11 else if negb (del_b c) then 12
  else if negb (frames_b c) then 13 else if negb (hd_b c) then 14 else 0.
Definition sinv_b (s : state) : bool := match s with Err _ => false | Ok c => inv_b c end.

(* quiescence: every thread idle *)
Definition quiescent (c : cfg) : bool := forallb (fun kv => isnil (th_stk (snd kv))) (c_th c).
(* blocks of page p held by programs *)
Definition live_count (c : cfg) (p : N) : nat := ftot (fun th => cnt (onp p) (th_held th)) (c_th c).
(* the result C08 promises after a forced collect of heap h at quiescence *)
Definition collected_b (c0 c : cfg) (h : N) : bool :=
  isnil (hp_del (geth c h))
  && forallb (fun kv =>
       let p := fst kv in let pg := getp c p in
       negb (oN_eqb (pg_heap (snd kv)) (Some h)) ||
       (if Nat.eqb (live_count c0 p) 0 then negb (pg_alive pg)
        else pg_alive pg && isnil (pg_tf pg) && (pg_used pg =? N.of_nat (live_count c0 p))))
     (c_pg c0).

(* ------------------------------------------------------------------------------------------ *)
(* the places of DESIGN.md A.6, as counts per page (for the statement of tfree_used_count)     *)
(* ------------------------------------------------------------------------------------------ *)
(* owner's private pending list (taken over by _mi_heap_delayed_free_partial, not yet processed) *)
Definition fr_pending (fr : frame) : list bid :=
  match fr with
  | DP3 _ pend _ => pend
  | DP4 _ b r _ | DP5 _ b r _ | DP6 _ b r _ => b :: r
  | _ => []
  end.
(* in the hand of a thread inside a free operation (remote free; the owner's taken-over thread list) *)
Definition fr_hand (fr : frame) : list bid :=
  match fr with
  | RF1 b | RF2 b _ _ | RF3 b | RF4 b _ | RF5 b _ _ => [b]
  | TC3 _ tl => tl
  | _ => []
  end.
Definition tf_count (c : cfg) (p : N) : nat := length (pg_tf (getp c p)).
Definition del_count (c : cfg) (p : N) : nat := ftot (fun hp => cnt (onp p) (hp_del hp)) (c_hp c).
Definition pend_count (c : cfg) (p : N) : nat :=
  ftot (fun th => cnt (onp p) (flat_map fr_pending (th_stk th))) (c_th c).
Definition hand_count (c : cfg) (p : N) : nat :=
  ftot (fun th => cnt (onp p) (flat_map fr_hand (th_stk th))) (c_th c).
(* thread t is between its first successful CAS on xthread_free p and its last *)
Definition in_window (c : cfg) (t p : N) : bool := Nat.leb 1 (sum_fr (win_fr p) (th_stk (gett c t))).
