(* Sequential model of first-class heaps (property C10, sequential part): the heaps of ONE thread,
   their 75 page queues, the page -> heap back pointer, the default / backing heap and the heap
   descriptors (each descriptor of a non-backing heap is a block of the backing heap).
   Pages are ids; a page carries its live blocks (block id = address of the block), the byte range
   that `_mi_segment_page_of` resolves to it (pstart, psize) and the range that `mi_heap_check_owned`
   tests (pstart, pcapb = capacity * block_size).  Block contents, free lists and the segment layer
   are NOT modelled here (Model/Page.v, Model/Span.v).  No proofs in this file.

   C sources modelled (release configuration, one thread; the lock-free part of delete is Model/TFree.v):
     src/page-queue.c : mi_page_queue_push, mi_page_queue_remove, mi_page_queue_enqueue_from_ex
                        (enqueue_at_end = true, the only value the two callers pass),
                        mi_page_queue_move_to_front, _mi_page_queue_append, mi_page_bin / mi_page_queue_of
     src/page.c       : mi_page_to_full, _mi_page_unfull, _mi_page_free, _mi_page_retire (queue part),
                        _mi_page_abandon (queue part), mi_page_fresh_alloc (queue part)
     src/heap.c       : mi_heap_visit_pages, mi_heap_new_ex / _mi_heap_init, mi_heap_reset_pages,
                        mi_heap_free, _mi_heap_page_destroy, _mi_heap_destroy_pages, mi_heap_destroy,
                        mi_heap_absorb, mi_heaps_are_compatible, mi_heap_delete,
                        mi_heap_page_collect (collect = MI_ABANDON) / _mi_heap_collect_abandon,
                        mi_heap_set_default, mi_heap_of_block, mi_heap_contains_block,
                        mi_heap_page_check_owned, mi_heap_check_owned
     src/free.c       : mi_free_block_local (used-- ; retire / unfull), as far as pages move
   Oracles (arguments, never axioms): which page of the queue serves an allocation or whether a fresh
   page is taken, the address of the new block, the extent of a fresh page, the new capacity after an
   extend, and whether the segment of a heap-less (abandoned) page is still owned by this thread.
   A step returns None when the operation is not enabled (a choice that contradicts what the lower
   layers guarantee -- C01: a new block is not live, page extents are disjoint) or when the C code
   faults; `free_faults` tells the two apart for mi_free. *)
From Coq Require Import NArith List Bool.
From MiV Require Import Gen.Consts Model.Arith.
Import ListNotations.
Local Open Scope N_scope.
Local Open Scope bool_scope.

Definition hid := N.     (* heap id (the address of the mi_heap_t) *)
Definition pid := N.     (* page id (the address of the mi_page_t) *)
Definition bid := N.     (* block id = address of the block *)

(* MI_BIN_FULL + 1 queues per heap *)
Definition NBINS : nat := S (N.to_nat MI_BIN_FULL).
Definition all_bins : list N := map N.of_nat (seq 0 NBINS).     (* 0 .. MI_BIN_FULL *)

Record heap := mkHeap {
  h_id       : hid;
  queues     : list (list pid);    (* pages[0..MI_BIN_FULL]; head of a queue = `first` *)
  page_count : N;
  no_reclaim : bool;
  tag        : N;
  arena_id   : N
}.

Record pinfo := mkPinfo {
  pheap   : option hid;   (* mi_page_heap(page): xheap; None = NULL (abandoned) *)
  pbin    : N;            (* size-class queue: mi_bin(block_size), MI_BIN_HUGE for large/huge pages *)
  in_full : bool;         (* mi_page_is_in_full *)
  blocks  : list bid;     (* live blocks of the page *)
  pstart  : N;            (* mi_page_start *)
  pcapb   : N;            (* capacity * block_size *)
  psize   : N             (* bytes of the page: addresses in [pstart, pstart+psize) resolve to this page *)
}.

Record state := mkState {
  heaps   : list heap;                   (* tld->heaps, most recently created first *)
  pages   : list (pid * pinfo);
  default : hid;                         (* _mi_heap_default of the thread *)
  backing : hid;                         (* tld->heap_backing *)
  descs   : list (hid * bid);            (* descriptor block of every non-backing heap *)
  home    : list (bid * option hid)      (* GHOST: the heap a live block was allocated in, or migrated
                                            to by mi_heap_delete; None after its page was abandoned *)
}.

(* ---- small helpers -------------------------------------------------------------------------- *)
Definition inb (x : N) (l : list N) : bool := existsb (N.eqb x) l.
Definition qremove (x : N) (l : list N) : list N := filter (fun y => negb (y =? x)) l.
Fixpoint nodupb (l : list N) : bool :=
  match l with [] => true | x :: r => negb (inb x r) && nodupb r end.
Definition opt_eqb (a b : option N) : bool :=
  match a, b with Some x, Some y => x =? y | None, None => true | _, _ => false end.
Definition is_nil {A} (l : list A) : bool := match l with [] => true | _ => false end.

Definition qget (qs : list (list pid)) (i : N) : list pid := nth (N.to_nat i) qs [].
Fixpoint set_nth {A} (n : nat) (x : A) (l : list A) : list A :=
  match l, n with
  | [], _ => []
  | _ :: r, O => x :: r
  | y :: r, S k => y :: set_nth k x r
  end.
Definition qset (qs : list (list pid)) (i : N) (q : list pid) : list (list pid) := set_nth (N.to_nat i) q qs.

Definition set_queues (hp : heap) (qs : list (list pid)) (pc : N) : heap :=
  mkHeap (h_id hp) qs pc (no_reclaim hp) (tag hp) (arena_id hp).
Definition set_count (hp : heap) (pc : N) : heap := set_queues hp (queues hp) pc.

Definition set_pheap (oh : option hid) (pi : pinfo) : pinfo :=
  mkPinfo oh (pbin pi) (in_full pi) (blocks pi) (pstart pi) (pcapb pi) (psize pi).
Definition set_in_full (f : bool) (pi : pinfo) : pinfo :=
  mkPinfo (pheap pi) (pbin pi) f (blocks pi) (pstart pi) (pcapb pi) (psize pi).
Definition set_blocks (bl : list bid) (capb : N) (pi : pinfo) : pinfo :=
  mkPinfo (pheap pi) (pbin pi) (in_full pi) bl (pstart pi) capb (psize pi).

Definition set_heaps (s : state) (hs : list heap) : state :=
  mkState hs (pages s) (default s) (backing s) (descs s) (home s).
Definition set_pages (s : state) (ps : list (pid * pinfo)) : state :=
  mkState (heaps s) ps (default s) (backing s) (descs s) (home s).
Definition set_default (s : state) (h : hid) : state :=
  mkState (heaps s) (pages s) h (backing s) (descs s) (home s).
Definition set_descs (s : state) (ds : list (hid * bid)) : state :=
  mkState (heaps s) (pages s) (default s) (backing s) ds (home s).
Definition set_home (s : state) (hm : list (bid * option hid)) : state :=
  mkState (heaps s) (pages s) (default s) (backing s) (descs s) hm.

Fixpoint find_heap (hs : list heap) (h : hid) : option heap :=
  match hs with [] => None | hp :: r => if h_id hp =? h then Some hp else find_heap r h end.
Definition get_heap (s : state) (h : hid) : option heap := find_heap (heaps s) h.

Fixpoint find_page (ps : list (pid * pinfo)) (p : pid) : option pinfo :=
  match ps with [] => None | kv :: r => if fst kv =? p then Some (snd kv) else find_page r p end.
Definition get_page (s : state) (p : pid) : option pinfo := find_page (pages s) p.

Fixpoint find_desc (ds : list (hid * bid)) (h : hid) : option bid :=
  match ds with [] => None | kv :: r => if fst kv =? h then Some (snd kv) else find_desc r h end.
Fixpoint find_home (hm : list (bid * option hid)) (b : bid) : option (option hid) :=
  match hm with [] => None | kv :: r => if fst kv =? b then Some (snd kv) else find_home r b end.

Definition upd_heap (s : state) (h : hid) (f : heap -> heap) : state :=
  set_heaps s (map (fun hp => if h_id hp =? h then f hp else hp) (heaps s)).
Definition upd_page (s : state) (p : pid) (f : pinfo -> pinfo) : state :=
  set_pages s (map (fun kv => if fst kv =? p then (fst kv, f (snd kv)) else kv) (pages s)).
Definition del_page (s : state) (p : pid) : state :=
  set_pages s (filter (fun kv => negb (fst kv =? p)) (pages s)).
Definition add_page (s : state) (p : pid) (pi : pinfo) : state :=
  set_pages s ((p, pi) :: pages s).

Definition heap_ids (s : state) : list hid := map h_id (heaps s).
Definition page_ids (s : state) : list pid := map fst (pages s).
Definition live_blocks (s : state) : list bid := flat_map (fun kv => blocks (snd kv)) (pages s).

(* ghost updates *)
Definition home_add (s : state) (b : bid) (oh : option hid) : state := set_home s ((b, oh) :: home s).
Definition home_del (s : state) (bl : list bid) : state :=
  set_home s (filter (fun kv => negb (inb (fst kv) bl)) (home s)).
Definition home_set (s : state) (bl : list bid) (oh : option hid) : state :=
  set_home s (map (fun kv => if inb (fst kv) bl then (fst kv, oh) else kv) (home s)).
(* mi_heap_delete of a compatible heap: everything that lived in `from` now lives in `h` *)
Definition home_move (s : state) (from h : hid) : state :=
  set_home s (map (fun kv => if opt_eqb (snd kv) (Some from) then (fst kv, Some h) else kv) (home s)).

(* ---- page-queue.c --------------------------------------------------------------------------- *)

(* mi_page_bin: the index of the queue a page is in *)
Definition page_qbin (pi : pinfo) : N := if in_full pi then MI_BIN_FULL else pbin pi.

(* mi_page_queue_push(heap, &heap->pages[bin], page): in_full := (queue is the full queue); link at
   the head; page_count++  (a heap cannot hold 2^64 pages: the increment does not wrap) *)
Definition queue_push (s : state) (h : hid) (bin : N) (p : pid) : state :=
  let s1 := upd_page s p (set_in_full (bin =? MI_BIN_FULL)) in
  upd_heap s1 h (fun hp => set_queues hp (qset (queues hp) bin (p :: qget (queues hp) bin)) (page_count hp + 1)).

(* mi_page_queue_remove(&heap->pages[bin], page), heap = mi_page_heap(page): unlink; page_count--
   (size_t: wraps); in_full := false *)
Definition queue_remove (s : state) (h : hid) (bin : N) (p : pid) : state :=
  let s1 := upd_heap s h (fun hp => set_queues hp (qset (queues hp) bin (qremove p (qget (queues hp) bin)))
                                               (wsub (page_count hp) 1)) in
  upd_page s1 p (set_in_full false).

(* mi_page_queue_enqueue_from_ex(to, from, true, page): unlink from `from`, link at the END of `to`,
   in_full := (to is the full queue); page_count is not touched *)
Definition enqueue_from (s : state) (h : hid) (to from : N) (p : pid) : state :=
  let s1 := upd_heap s h (fun hp =>
              let qs1 := qset (queues hp) from (qremove p (qget (queues hp) from)) in
              set_queues hp (qset qs1 to (qget qs1 to ++ [p])) (page_count hp)) in
  upd_page s1 p (set_in_full (to =? MI_BIN_FULL)).

(* mi_page_queue_move_to_front *)
Definition move_to_front (s : state) (h : hid) (bin : N) (p : pid) : state :=
  match get_heap s h with
  | Some hp => match qget (queues hp) bin with
               | q :: _ => if q =? p then s else queue_push (queue_remove s h bin p) h bin p
               | [] => queue_push (queue_remove s h bin p) h bin p
               end
  | None => s
  end.

(* page.c:mi_page_to_full(page, pq = mi_page_queue_of(page)) *)
Definition page_to_full (s : state) (p : pid) : state :=
  match get_page s p with
  | Some pi => match pheap pi with
               | Some h => if in_full pi then s else enqueue_from s h MI_BIN_FULL (pbin pi) p
               | None => s
               end
  | None => s
  end.

(* page.c:_mi_page_unfull *)
Definition page_unfull (s : state) (p : pid) : state :=
  match get_page s p with
  | Some pi => match pheap pi with
               | Some h => if in_full pi then enqueue_from s h (pbin pi) MI_BIN_FULL p else s
               | None => s
               end
  | None => s
  end.

(* _mi_page_queue_append(heap, &heap->pages[i], &from->pages[i]): first the heap field of every page
   of `append` is set, then `append` is linked behind `pq`; returns the number of pages.  The
   `append` queue itself is not cleared here (mi_heap_reset_pages does that at the end of absorb). *)
Definition queue_append (s : state) (h from : hid) (i : N) : state * N :=
  match get_heap s from with
  | None => (s, 0)
  | Some fp =>
    match qget (queues fp) i with
    | [] => (s, 0)
    | app =>
      let s1 := fold_left (fun st p => upd_page st p (set_pheap (Some h))) app s in
      (upd_heap s1 h (fun hp => set_queues hp (qset (queues hp) i (qget (queues hp) i ++ app)) (page_count hp)),
       N.of_nat (length app))
    end
  end.

(* ---- heap.c --------------------------------------------------------------------------------- *)

(* the pages in the order mi_heap_visit_pages calls the visitor: queues 0 .. MI_BIN_FULL, each from
   `first`; nothing is visited when page_count == 0 *)
Definition heap_pages (hp : heap) : list pid := flat_map (qget (queues hp)) all_bins.
Definition heap_visit_pages (s : state) (h : hid) : list pid :=
  match get_heap s h with
  | Some hp => if page_count hp =? 0 then [] else heap_pages hp
  | None => []
  end.

(* mi_heap_reset_pages *)
Definition heap_reset_pages (s : state) (h : hid) : state :=
  upd_heap s h (fun hp => set_queues hp (repeat [] NBINS) 0).

(* one iteration of the loop of mi_heap_absorb *)
Definition absorb_bin (h from : hid) (st : state) (i : N) : state :=
  let '(s1, c) := queue_append st h from i in
  upd_heap (upd_heap s1 h (fun hp => set_count hp (page_count hp + c)))
           from (fun fp => set_count fp (wsub (page_count fp) c)).

(* mi_heap_absorb(heap, from) *)
Definition heap_absorb (s : state) (h from : hid) : state :=
  match get_heap s from with
  | None => s
  | Some fp =>
    if page_count fp =? 0 then s
    else heap_reset_pages (fold_left (absorb_bin h from) all_bins s) from
  end.

(* mi_heaps_are_compatible *)
Definition heaps_compatible (a b : heap) : bool := (tag a =? tag b) && (arena_id a =? arena_id b).

(* _mi_page_free: remove from its queue, give the page back to the segment layer *)
Definition page_free (s : state) (h : hid) (pi : pinfo) (p : pid) : state :=
  del_page (queue_remove s h (page_qbin pi) p) p.

(* mi_heap_page_collect with collect = MI_ABANDON: an empty page is freed, a page with live blocks
   is unlinked and loses its heap (_mi_page_abandon); the ghost home of its blocks becomes None *)
Definition page_collect_abandon (s : state) (p : pid) : state :=
  match get_page s p with
  | Some pi =>
    match pheap pi with
    | Some h =>
      if is_nil (blocks pi) then page_free s h pi p
      else home_set (upd_page (queue_remove s h (page_qbin pi) p) p (set_pheap None)) (blocks pi) None
    | None => s
    end
  | None => s
  end.

(* _mi_heap_collect_abandon, as far as queues and pages are concerned *)
Definition heap_collect_abandon (s : state) (h : hid) : state :=
  fold_left page_collect_abandon (heap_visit_pages s h) s.

(* page.c:_mi_page_retire: the only page of a size-class queue (not huge, not full) is kept *)
Definition page_retire (s : state) (h : hid) (pi : pinfo) (p : pid) : state :=
  let bin := page_qbin pi in
  let only := match get_heap s h with
              | Some hp => match qget (queues hp) bin with [q] => q =? p | _ => false end
              | None => false
              end in
  if (bin <? MI_BIN_HUGE) && only then s else page_free s h pi p.

(* _mi_segment_page_of(_mi_ptr_segment(b), b): the page an address belongs to *)
Definition in_extent (pi : pinfo) (b : N) : bool := (pstart pi <=? b) && (b <? pstart pi + psize pi).
Definition page_of_block (s : state) (b : bid) : option (pid * pinfo) :=
  find (fun kv => in_extent (snd kv) b) (pages s).

(* mi_free of a live block on the owning thread (mi_free_block_local): the block leaves the page;
   used == 0 -> _mi_page_retire, else a page in the full queue goes back to its size-class queue.
   A page without heap (abandoned by mi_heap_delete of an incompatible heap) whose segment is still
   owned by this thread (seg_local) takes the same path and dereferences the NULL heap in
   _mi_page_retire / _mi_page_unfull: that is the fault.  With seg_local = false the free takes the
   multi-threaded path (Model/TFree.v, Model/Abandon.v); here only the block disappears. *)
Definition free_faults (s : state) (b : bid) (seg_local : bool) : bool :=
  match page_of_block s b with
  | Some (p, pi) =>
    match pheap pi with
    | None => inb b (blocks pi) && seg_local && (is_nil (qremove b (blocks pi)) || in_full pi)
    | Some _ => false
    end
  | None => false
  end.

Definition block_free (s : state) (b : bid) (seg_local : bool) : option state :=
  match page_of_block s b with
  | None => None
  | Some (p, pi) =>
    if negb (inb b (blocks pi)) then None          (* not a live block: outside the contract *)
    else
      let rest := qremove b (blocks pi) in
      let pi1 := set_blocks rest (pcapb pi) pi in
      let s1 := home_del (upd_page s p (set_blocks rest (pcapb pi))) [b] in
      match pheap pi with
      | Some h =>
        if is_nil rest then Some (page_retire s1 h pi1 p)
        else if in_full pi then Some (page_unfull s1 p) else Some s1
      | None =>
        if seg_local && (is_nil rest || in_full pi) then None     (* fault, see free_faults *)
        else Some s1
      end
  end.

(* mi_heap_free(heap): the backing heap is never freed; otherwise the default falls back, the heap
   is unlinked from tld->heaps and its descriptor is freed with mi_free (a local free: the
   descriptor was allocated by this thread in its backing heap) *)
Definition heap_free (s : state) (h : hid) : option state :=
  if h =? backing s then Some s
  else
    match get_heap s h with
    | None => Some s
    | Some _ =>
      let s1 := if default s =? h then set_default s (backing s) else s in
      let s2 := set_heaps s1 (filter (fun hp => negb (h_id hp =? h)) (heaps s1)) in
      match find_desc (descs s2) h with
      | Some d => block_free (set_descs s2 (filter (fun kv => negb (fst kv =? h)) (descs s2))) d true
      | None => Some s2
      end
    end.

(* mi_heap_delete *)
Definition heap_delete (s : state) (h : hid) : option state :=
  match get_heap s h, get_heap s (backing s) with
  | Some hp, Some bp =>
    if negb (h =? backing s) && heaps_compatible bp hp
    then heap_free (home_move (heap_absorb s (backing s) h) h (backing s)) h
    else heap_free (heap_collect_abandon s h) h
  | _, _ => Some s          (* `if (heap==NULL || !mi_heap_is_initialized(heap)) return;` *)
  end.

(* _mi_heap_page_destroy: used := 0 and the page goes back to the segment layer; its blocks vanish *)
Definition page_destroy (s : state) (p : pid) : state :=
  match get_page s p with
  | Some pi => home_del (del_page s p) (blocks pi)
  | None => s
  end.

(* _mi_heap_destroy_pages *)
Definition heap_destroy_pages (s : state) (h : hid) : state :=
  heap_reset_pages (fold_left page_destroy (heap_visit_pages s h) s) h.

(* mi_heap_destroy: only a no_reclaim heap (mi_heap_new) is destroyed, any other heap is deleted *)
Definition heap_destroy (s : state) (h : hid) : option state :=
  match get_heap s h with
  | Some hp => if no_reclaim hp then heap_free (heap_destroy_pages s h) h else heap_delete s h
  | None => Some s
  end.

(* mi_heap_set_default *)
Definition heap_set_default (s : state) (h : hid) : state :=
  match get_heap s h with Some _ => set_default s h | None => s end.

(* mi_heap_of_block / mi_heap_contains_block *)
Definition heap_of_block (s : state) (b : bid) : option hid :=
  match page_of_block s b with Some (_, pi) => pheap pi | None => None end.
Definition heap_contains_block (s : state) (h : hid) (b : bid) : bool :=
  match get_heap s h with
  | Some _ => opt_eqb (heap_of_block s b) (Some h)
  | None => false
  end.

(* mi_heap_page_check_owned / mi_heap_check_owned: only (MI_INTPTR_SIZE-)aligned pointers; walk over
   ALL queues 0 .. MI_BIN_FULL; range test against [start, start + capacity*block_size) *)
Definition page_check_owned (s : state) (b : N) (p : pid) : bool :=
  match get_page s p with
  | Some pi => (pstart pi <=? b) && (b <? pstart pi + pcapb pi)
  | None => false
  end.
Definition heap_check_owned (s : state) (h : hid) (b : N) : bool :=
  match get_heap s h with
  | Some _ =>
    if negb (N.land b (MI_INTPTR_SIZE - 1) =? 0) then false
    else existsb (page_check_owned s b) (heap_visit_pages s h)
  | None => false
  end.

(* ---- allocation, as far as pages and queues are concerned ---------------------------------- *)
Inductive malloc_choice :=
| MUse (p : pid) (capb : N)                 (* a page of the size-class queue (after a possible extend to capb) *)
| MFresh (p : pid) (start size capb : N).   (* mi_page_fresh_alloc: a new page [start, start+size) *)

Definition extent_disjoint (a b : pinfo) : bool :=
  (pstart a + psize a <=? pstart b) || (pstart b + psize b <=? pstart a).

(* allocation of block b from heap h, size-class queue `bin` (< MI_BIN_FULL).  The block comes from
   the first page of the queue: a page found by mi_page_queue_find_free_ex is moved to the front, a
   fresh page is pushed at the front. *)
Definition block_malloc (s : state) (h : hid) (bin : N) (b : bid) (c : malloc_choice) : option state :=
  match get_heap s h with
  | None => None
  | Some hp =>
    if negb (bin <? MI_BIN_FULL) then None
    else if inb b (live_blocks s) then None
    else
      match c with
      | MUse p capb =>
        match get_page s p with
        | Some pi =>
          if inb p (qget (queues hp) bin) && (pcapb pi <=? capb) && (capb <=? psize pi)
             && (pstart pi <=? b) && (b <? pstart pi + capb)
          then Some (home_add (upd_page (move_to_front s h bin p) p (set_blocks (b :: blocks pi) capb)) b (Some h))
          else None
        | None => None
        end
      | MFresh p start size capb =>
        let pi := mkPinfo (Some h) bin false [b] start capb size in
        match get_page s p with
        | Some _ => None
        | None =>
          if (capb <=? size) && (start <=? b) && (b <? start + capb)
             && forallb (fun kv => extent_disjoint pi (snd kv)) (pages s)
          then Some (home_add (queue_push (add_page s p pi) h bin p) b (Some h))
          else None
        end
      end
  end.

(* mi_heap_new_ex: the descriptor d is a block of the backing heap (size class of sizeof(mi_heap_t));
   _mi_heap_init pushes the heap on tld->heaps *)
Definition desc_bin : N := mi_bin sizeof_mi_heap_t.
Definition empty_heap (k : hid) (nr : bool) (tg ar : N) : heap := mkHeap k (repeat [] NBINS) 0 nr tg ar.
Definition heap_new (s : state) (k : hid) (nr : bool) (tg ar : N) (d : bid) (c : malloc_choice) : option state :=
  if inb k (heap_ids s) then None
  else
    match block_malloc s (backing s) desc_bin d c with
    | Some s1 => Some (set_descs (set_heaps s1 (empty_heap k nr tg ar :: heaps s1)) ((k, d) :: descs s1))
    | None => None         (* mi_heap_malloc failed: mi_heap_new_ex returns NULL *)
    end.

(* an empty page of a heap is freed (_mi_heap_collect_retired, mi_heap_collect -> _mi_page_free) *)
Definition empty_page_free (s : state) (p : pid) : option state :=
  match get_page s p with
  | Some pi =>
    match pheap pi with
    | Some h => if is_nil (blocks pi) then Some (page_free s h pi p) else None
    | None => None
    end
  | None => None
  end.

(* a page of a size-class queue is moved to the full queue (mi_page_queue_find_free_ex found it
   without available blocks) *)
Definition to_full_op (s : state) (p : pid) : option state :=
  match get_page s p with
  | Some pi => match pheap pi with
               | Some _ => if in_full pi then None else Some (page_to_full s p)
               | None => None
               end
  | None => None
  end.

(* ---- the thread's heaps as a state machine -------------------------------------------------- *)
Inductive heap_op :=
| OpNew (k : hid) (nr : bool) (tg ar : N) (d : bid) (c : malloc_choice)   (* mi_heap_new_ex *)
| OpMalloc (h : hid) (bin : N) (b : bid) (c : malloc_choice)              (* mi_heap_malloc *)
| OpFree (b : bid) (seg_local : bool)                                     (* mi_free *)
| OpToFull (p : pid)
| OpPageFree (p : pid)
| OpDelete (h : hid)                                                      (* mi_heap_delete *)
| OpDestroy (h : hid)                                                     (* mi_heap_destroy *)
| OpSetDefault (h : hid).                                                 (* mi_heap_set_default *)

Definition heap_step (s : state) (o : heap_op) : option state :=
  match o with
  | OpNew k nr tg ar d c => heap_new s k nr tg ar d c
  | OpMalloc h bin b c => block_malloc s h bin b c
  | OpFree b sl => block_free s b sl
  | OpToFull p => to_full_op s p
  | OpPageFree p => empty_page_free s p
  | OpDelete h => heap_delete s h
  | OpDestroy h => heap_destroy s h
  | OpSetDefault h => Some (heap_set_default s h)
  end.

Fixpoint heap_run (s : state) (ops : list heap_op) : option state :=
  match ops with
  | [] => Some s
  | o :: r => match heap_step s o with Some s' => heap_run s' r | None => None end
  end.

(* a thread with its backing heap (id k, no pages); the backing heap is the default *)
Definition heap_init (k : hid) (tg ar : N) : state :=
  mkState [empty_heap k false tg ar] [] k k [] [].

(* ---- boolean invariant (Appendix A.2 for all heaps of the thread), evaluated on dumped states -- *)
Definition queue_ok_b (s : state) (h : hid) (i : N) (q : list pid) : bool :=
  nodupb q &&
  forallb (fun p => match get_page s p with
                    | Some pi => opt_eqb (pheap pi) (Some h) && Bool.eqb (in_full pi) (i =? MI_BIN_FULL)
                                 && ((i =? MI_BIN_FULL) || (pbin pi =? i))
                    | None => false
                    end) q.

Definition heap_ok_b (s : state) (hp : heap) : bool :=
  (N.of_nat (length (queues hp)) =? N.of_nat NBINS)
  && forallb (fun i => queue_ok_b s (h_id hp) i (qget (queues hp) i)) all_bins
  && (page_count hp =? N.of_nat (length (heap_pages hp))).

Definition page_ok_b (s : state) (kv : pid * pinfo) : bool :=
  let pi := snd kv in
  (pbin pi <? MI_BIN_FULL) && (pcapb pi <=? psize pi)
  && forallb (fun b => (pstart pi <=? b) && (b <? pstart pi + pcapb pi)) (blocks pi)
  && match pheap pi with
     | Some h => match get_heap s h with
                 | Some hp => inb (fst kv) (qget (queues hp) (page_qbin pi))
                 | None => false
                 end
     | None => negb (in_full pi)
     end
  && forallb (fun kv2 => (fst kv2 =? fst kv) || extent_disjoint pi (snd kv2)) (pages s)
  && forallb (fun b => match find_home (home s) b with Some oh => opt_eqb oh (pheap pi) | None => false end) (blocks pi).

Definition heap_inv_b (s : state) : bool :=
  nodupb (heap_ids s) && nodupb (page_ids s)
  && inb (backing s) (heap_ids s) && inb (default s) (heap_ids s)
  && forallb (heap_ok_b s) (heaps s)
  && forallb (page_ok_b s) (pages s)
  && nodupb (live_blocks s)
  && nodupb (map fst (descs s))
  && forallb (fun kv => inb (fst kv) (heap_ids s) && negb (fst kv =? backing s)) (descs s)
  && forallb (fun h => (h =? backing s) || inb h (map fst (descs s))) (heap_ids s)
  && nodupb (map fst (home s))
  && forallb (fun kv => inb (fst kv) (live_blocks s)) (home s).

(* every descriptor is a live block of a page of the backing heap *)
Definition desc_inv_b (s : state) : bool :=
  forallb (fun kd => existsb (fun kv => inb (snd kd) (blocks (snd kv)) && opt_eqb (pheap (snd kv)) (Some (backing s)))
                             (pages s)) (descs s).

(* the blocks attributed to heap h *)
Definition blocks_of_heap (s : state) (h : hid) : list bid :=
  flat_map (fun kv => if opt_eqb (pheap (snd kv)) (Some h) then blocks (snd kv) else []) (pages s).
