(* The heap walk with a caller-supplied visitor and early exit.  No proofs in this file.

   C sources modelled (src/heap.c):
     mi_heap_visit_blocks      -> heap_visit_blocks
     mi_heap_visit_areas / mi_heap_visit_pages (queue order, `return false` as soon as the page
                                  function refuses; `page_count == 0` returns 0)  -> visit_pages
     mi_heap_visit_areas_page + _mi_heap_area_init + mi_heap_area_visitor       -> area_visitor
     _mi_heap_area_visit_blocks (its three loops each `return false` at the first refusal; which
                                  indices are visited is Model/Page.v:page_visit_blocks)  -> area_visit_blocks

   The visitor is an ARGUMENT: a state machine `S -> vcall -> S * bool` (the C callback with its `arg`);
   its result `false` stops the walk.  The heap is the list of its pages in the order of
   mi_heap_visit_pages (bins 0..MI_BIN_FULL, each queue first..last; that this order lists every page
   once is C10_visit_all_queues_once over Model/Heap.v), each with an identifier (the descriptor address).
   Every function returns (final visitor state, the calls made in order, result). *)
From Coq Require Import NArith List Bool.
From MiV Require Import Gen.Consts Model.Arith Model.Page.
Import ListNotations.
Local Open Scope N_scope.

(* what the visitor is called with: the area record of a page (block == NULL), or one block *)
Inductive vcall :=
| VArea  (pg used reserved committed full_block_size : N)   (* _mi_heap_area_init: used = page->used BEFORE the forced collect *)
| VBlock (pg idx : N).

Definition area_call (pg : N) (p : page) : vcall :=
  VArea pg (used p) (reserved p * bsize p) (capacity p * bsize p) (bsize p).

Section Walk.
  Variable S : Type.
  Variable visitor : S -> vcall -> S * bool.

  (* the loops of _mi_heap_area_visit_blocks: `if (!visitor(...)) return false;` per block *)
  Fixpoint visit_indices (pg : N) (s : S) (idxs : list N) : S * list vcall * bool :=
    match idxs with
    | [] => (s, [], true)
    | i :: r =>
      let '(s1, ok) := visitor s (VBlock pg i) in
      if ok then let '(s2, tr, res) := visit_indices pg s1 r in (s2, VBlock pg i :: tr, res)
      else (s1, [VBlock pg i], false)
    end.

  Definition area_visit_blocks (pg : N) (p : page) (s : S) : S * list vcall * bool :=
    visit_indices pg s (page_visit_blocks p).

  (* mi_heap_visit_areas_page + mi_heap_area_visitor *)
  Definition area_visitor (visit_blocks : bool) (pg : N) (p : page) (s : S) : S * list vcall * bool :=
    let c := area_call pg p in
    let '(s1, ok) := visitor s c in
    if negb ok then (s1, [c], false)
    else if visit_blocks then
      let '(s2, tr, res) := area_visit_blocks pg p s1 in (s2, c :: tr, res)
    else (s1, [c], true).

  (* mi_heap_visit_pages over the pages in queue order *)
  Fixpoint visit_pages (visit_blocks : bool) (pages : list (N * page)) (s : S) : S * list vcall * bool :=
    match pages with
    | [] => (s, [], true)
    | (pg, p) :: r =>
      let '(s1, tr1, ok) := area_visitor visit_blocks pg p s in
      if ok then let '(s2, tr2, res) := visit_pages visit_blocks r s1 in (s2, tr1 ++ tr2, res)
      else (s1, tr1, false)
    end.

  (* mi_heap_visit_blocks; `heap->page_count == 0` returns 0 (false) without any call *)
  Definition heap_visit_blocks (visit_blocks : bool) (pages : list (N * page)) (s : S) : S * list vcall * bool :=
    match pages with
    | [] => (s, [], false)
    | _ => visit_pages visit_blocks pages s
    end.

  (* the pages after the walk: _mi_heap_area_visit_blocks force-collects (`_mi_page_free_collect(page,true)`) every page whose
     area call was accepted when visit_blocks is set -- also when a later block call stops the walk; pages behind the stop
     and every page of an areas-only walk are untouched *)
  Fixpoint walk_pages_after (visit_blocks : bool) (pages : list (N * page)) (s : S) : list (N * page) :=
    match pages with
    | [] => []
    | (pg, p) :: r =>
      let '(s1, ok) := visitor s (area_call pg p) in
      if negb ok then (pg, p) :: r
      else if visit_blocks then
        let '(s2, _, res) := area_visit_blocks pg p s1 in
        (pg, fst (page_free_collect p true)) :: (if res then walk_pages_after visit_blocks r s2 else r)
      else (pg, p) :: walk_pages_after visit_blocks r s1
    end.

  (* ---- specification side: one flat call sequence cut at the first refusal ---- *)
  Fixpoint run_calls (s : S) (cs : list vcall) : S * list vcall * bool :=
    match cs with
    | [] => (s, [], true)
    | c :: r =>
      let '(s1, ok) := visitor s c in
      if ok then let '(s2, tr, res) := run_calls s1 r in (s2, c :: tr, res)
      else (s1, [c], false)
    end.
End Walk.

Definition page_calls (visit_blocks : bool) (x : N * page) : list vcall :=
  area_call (fst x) (snd x) :: (if visit_blocks then map (VBlock (fst x)) (page_visit_blocks (snd x)) else []).

Definition all_calls (visit_blocks : bool) (pages : list (N * page)) : list vcall :=
  concat (map (page_calls visit_blocks) pages).

(* what a faithful walk must report: per page its area record and its live blocks in address order *)
Definition live_calls (pages : list (N * page)) : list vcall :=
  concat (map (fun x => area_call (fst x) (snd x) :: map (VBlock (fst x)) (page_live (snd x))) pages).

(* the visitor of harness/t_walk.c: counts its calls and refuses the k-th one (k = 0: never) *)
Definition stop_at_visitor (k : N) (n : N) (c : vcall) : N * bool := (n + 1, negb (n + 1 =? k)).

Definition walk_stop_at (visit_blocks : bool) (k : N) (pages : list (N * page)) : list vcall * bool :=
  let '(_, tr, res) := heap_visit_blocks N (stop_at_visitor k) visit_blocks pages 0 in (tr, res).

Definition pages_after_stop_at (visit_blocks : bool) (k : N) (pages : list (N * page)) : list (N * page) :=
  walk_pages_after N (stop_at_visitor k) visit_blocks pages 0.
