(* API-level model of mimalloc: the allocation entry points on top of an abstract map of live
   blocks (64-bit release configuration).  Every definition follows the C source line by line;
   `size_t`/`uintptr_t` are `N` with the wrap-around written explicitly (Model/Arith.v).
   No proofs in this file.

   The page/segment/OS layers are NOT re-modelled here: every allocation takes the answer of the
   underlying allocator as an ORACLE argument `ans : option (address, usable size, initial bytes)`
   (`None` = the lower layers could not provide memory).  The theorems quantify over all answers that
   satisfy the layer contract `answer_ok` (Proofs/ApiProofs.v): a fresh block, disjoint from every
   live block, with usable size >= the size asked for -- which is what C01/C03 provide.

   Abstract state: association list   user pointer q  |->  block record
       b_usable : what mi_usable_size(q) returns (= usable size of the block minus b_adjust)
       b_bytes  : the b_usable bytes from q on
       b_heap   : owning heap (ghost)
       b_req    : last requested size (ghost)
       b_zero   : ghost "zero family": bytes [b_req, b_usable) are known to be zero
       b_adjust : q - (start of the block in its page); non-zero for interior (over-aligned) pointers,
                  the page then has the has_aligned flag; the implementation maps q back to the block
                  with _mi_page_ptr_unalign (Arith.ptr_unalign), see Properties/C03.v.
   NULL is the address 0.  Results are `option N` (None = NULL).

   C sources modelled:
     src/alloc.c         : mi_heap_malloc_small_zero, _mi_heap_malloc_zero_ex, _mi_heap_malloc_zero,
                           mi_heap_malloc/zalloc/calloc/mallocn, mi_expand, _mi_heap_realloc_zero,
                           mi_heap_realloc/reallocn/reallocf/rezalloc/recalloc
     src/page.c          : mi_find_page (size check), _mi_malloc_generic (retry after the forced collect,
                           zeroing of huge blocks)          -- the page it finds is the oracle answer
     src/alloc.c         : _mi_page_malloc_zero (zeroing of the full block)
     src/free.c          : mi_free (abstractly), _mi_usable_size, mi_page_usable_aligned_size_of
     src/alloc-aligned.c : mi_malloc_is_naturally_aligned, mi_heap_malloc_zero_aligned_at_overalloc,
                           mi_heap_malloc_zero_aligned_at_generic, mi_heap_malloc_zero_aligned_at,
                           mi_heap_calloc_aligned_at, mi_heap_realloc_zero_aligned_at,
                           mi_heap_realloc_zero_aligned, mi_heap_recalloc_aligned_at
     src/alloc-posix.c   : mi_posix_memalign, mi_memalign, mi_valloc, mi_pvalloc, mi_aligned_alloc,
                           mi_reallocarray, mi_reallocarr *)
From Coq Require Import NArith List Bool.
From MiV Require Import Gen.Consts Gen.Bins Model.Arith.
Import ListNotations.
Local Open Scope N_scope.
Local Open Scope bool_scope.

(* ------------------------------------------------------------------------------------- *)
(* block contents: lists of bytes indexed by N (no unary numbers)                          *)
(* ------------------------------------------------------------------------------------- *)

Fixpoint blen (l : list N) : N := match l with [] => 0 | _ :: r => N.succ (blen r) end.

Fixpoint byte_at (l : list N) (i : N) : N :=
  match l with [] => 0 | x :: r => if i =? 0 then x else byte_at r (N.pred i) end.

Fixpoint drop (n : N) (l : list N) : list N :=
  match l with [] => [] | _ :: r => if n =? 0 then l else drop (N.pred n) r end.

Fixpoint mapi_from (f : N -> N -> N) (i : N) (l : list N) : list N :=
  match l with [] => [] | x :: r => f i x :: mapi_from f (N.succ i) r end.
Definition mapi (f : N -> N -> N) (l : list N) : list N := mapi_from f 0 l.

(* _mi_memzero(l, len l) *)
Definition zero_all (l : list N) : list N := mapi (fun _ _ => 0) l.
(* _mi_memzero(l + a, b - a) *)
Definition zero_range (a b : N) (l : list N) : list N :=
  mapi (fun i x => if (a <=? i) && (i <? b) then 0 else x) l.
(* _mi_memcpy(l, src, n) *)
Definition copy_prefix (src : list N) (n : N) (l : list N) : list N :=
  mapi (fun i x => if i <? n then byte_at src i else x) l.
(* l[off] = v *)
Definition set_byte (off v : N) (l : list N) : list N :=
  mapi (fun i x => if i =? off then v else x) l.

(* ------------------------------------------------------------------------------------- *)
(* the abstract state                                                                       *)
(* ------------------------------------------------------------------------------------- *)

Record block := mkBlock {
  b_usable : N; b_bytes : list N; b_heap : N; b_req : N; b_zero : bool; b_adjust : N }.

Definition state := list (N * block).
Definition answer := option (N * N * list N).      (* address, usable size, initial bytes *)

Definition NULL : N := 0.

Fixpoint lookup (st : state) (p : N) : option block :=
  match st with [] => None | (q, b) :: r => if q =? p then Some b else lookup r p end.
Definition add (st : state) (p : N) (b : block) : state := (p, b) :: st.
Definition remove (st : state) (p : N) : state := filter (fun e => negb (fst e =? p)) st.
Definition update (st : state) (p : N) (f : block -> block) : state :=
  map (fun e => if fst e =? p then (fst e, f (snd e)) else e) st.

Definition set_bytes (g : list N -> list N) (b : block) : block :=
  mkBlock (b_usable b) (g (b_bytes b)) (b_heap b) (b_req b) (b_zero b) (b_adjust b).

(* start of the block in its page (what _mi_page_ptr_unalign computes) and its full usable size *)
Definition block_start (q : N) (b : block) : N := q - b_adjust b.
Definition block_usable (b : block) : N := b_usable b + b_adjust b.

(* mi_free: NULL is ignored; an (interior) user pointer releases its block *)
Definition free (st : state) (p : N) : state := if p =? NULL then st else remove st p.

(* _mi_usable_size: 0 for NULL; for a page with has_aligned the size from the user pointer on
   (mi_page_usable_aligned_size_of: block size - adjust, which is what b_usable stores) *)
Definition usable_size (st : state) (p : N) : N :=
  if p =? NULL then 0 else match lookup st p with Some b => b_usable b | None => 0 end.

Definition bytes_of (st : state) (p : N) : list N :=
  match lookup st p with Some b => b_bytes b | None => [] end.

(* what a program may do with a live block: store a byte inside the requested size of a
   zero-family block (writing the slack would forfeit the zero guarantee of a later growth), or
   anywhere inside the usable size of another block.  Other stores are not issued: ignored. *)
Definition write_allowed (b : block) (off : N) : bool :=
  if b_zero b then off <? b_req b else off <? b_usable b.
Definition write (st : state) (p off v : N) : state :=
  match lookup st p with
  | Some b => if write_allowed b off then update st p (set_bytes (set_byte off v)) else st
  | None => st
  end.

(* ------------------------------------------------------------------------------------- *)
(* plain allocation                                                                         *)
(* ------------------------------------------------------------------------------------- *)

(* _mi_page_malloc_zero on the page found by the lower layers: pops the block of the answer and,
   when zeroing, clears the FULL block (page->block_size bytes; for a huge block _mi_malloc_generic
   clears mi_page_usable_block_size(page) bytes afterwards) *)
Definition page_malloc_zero (zero : bool) (ans : answer) : answer :=
  match ans with
  | None => None
  | Some (p, u, bytes) => Some (p, u, if zero then zero_all bytes else bytes)
  end.

(* _mi_heap_malloc_zero_ex without the map update: small sizes go straight to the page of their
   size class; otherwise _mi_malloc_generic / mi_find_page, which refuses requests above
   MI_MAX_ALLOC_SIZE (twice: before and after the forced collect, which leaves the abstract state
   alone) *)
Definition alloc_block (size : N) (zero : bool) (huge_alignment : N) (ans : answer) : answer :=
  if size <=? MI_SMALL_SIZE_MAX then page_malloc_zero zero ans
  else
    let gsize := wadd size MI_PADDING_SIZE in              (* can wrap; detected below *)
    let req_size := wsub gsize MI_PADDING_SIZE in
    if ((MI_MEDIUM_OBJ_SIZE_MAX - MI_PADDING_SIZE <? req_size) || (0 <? huge_alignment))
       && (MI_MAX_ALLOC_SIZE <? req_size)
    then None
    else page_malloc_zero zero ans.

(* _mi_heap_malloc_zero (mi_heap_malloc: zero = false, mi_heap_zalloc: zero = true) *)
Definition heap_malloc_zero (st : state) (heap size : N) (zero : bool) (ans : answer) : state * option N :=
  match alloc_block size zero 0 ans with
  | None => (st, None)
  | Some (p, u, bytes) => (add st p (mkBlock u bytes heap size zero 0), Some p)
  end.

Definition heap_malloc st heap size ans := heap_malloc_zero st heap size false ans.
Definition heap_zalloc st heap size ans := heap_malloc_zero st heap size true ans.

Definition heap_calloc (st : state) (heap count size : N) (ans : answer) : state * option N :=
  let '(o, total) := count_size_overflow count size in
  if o then (st, None) else heap_zalloc st heap total ans.

Definition heap_mallocn (st : state) (heap count size : N) (ans : answer) : state * option N :=
  let '(o, total) := count_size_overflow count size in
  if o then (st, None) else heap_malloc st heap total ans.

(* mi_expand (release build, MI_PADDING = 0): never touches anything *)
Definition expand (st : state) (p newsize : N) : option N :=
  if p =? NULL then None
  else if usable_size st p <? newsize then None
  else Some p.

(* ------------------------------------------------------------------------------------- *)
(* re-allocation                                                                            *)
(* ------------------------------------------------------------------------------------- *)

Definition realloc_inplace_b (size newsize : N) : bool :=
  (newsize <=? size) && (size / 2 <=? newsize) && (0 <? newsize).

(* ghost bookkeeping of an in-place re-allocation: the requested size changes; the block stays in
   the zero family only if it did not shrink below its old requested size (the bytes between the new
   and the old requested size may hold program data) *)
Definition set_req (newsize : N) (b : block) : block :=
  mkBlock (b_usable b) (b_bytes b) (b_heap b) newsize (b_zero b && (b_req b <=? newsize)) (b_adjust b).

(* the part of _mi_heap_realloc_zero / mi_heap_realloc_zero_aligned_at after a successful
   allocation of `newp`: zero the grown part, the newsize = 0 rule (first_byte_rule: only in the
   unaligned variant), copy, free the old block *)
Definition realloc_finish (st1 : state) (p newp size newsize : N) (zero first_byte_rule : bool)
                          (old_bytes : list N) : state :=
  let st2 :=
    if zero && (size <? newsize) then
      let start := if MI_INTPTR_SIZE <=? size then size - MI_INTPTR_SIZE else 0 in
      update st1 newp (set_bytes (zero_range start newsize))
    else if first_byte_rule && (newsize =? 0) then update st1 newp (set_bytes (set_byte 0 0))
    else st1 in
  if p =? NULL then st2
  else
    let copysize := if size <? newsize then size else newsize in
    let st3 := update st2 newp (set_bytes (copy_prefix old_bytes copysize)) in
    free st3 p.

(* _mi_heap_realloc_zero *)
Definition realloc_zero (st : state) (heap p newsize : N) (zero : bool) (ans : answer) : state * option N :=
  let size := usable_size st p in
  if realloc_inplace_b size newsize then (update st p (set_req newsize), Some p)
  else
    match heap_malloc_zero st heap newsize zero ans with
    | (_, None) => (st, None)
    | (st1, Some newp) =>
        (realloc_finish st1 p newp size newsize zero true (bytes_of st p), Some newp)
    end.

Definition heap_realloc st heap p newsize ans := realloc_zero st heap p newsize false ans.
Definition heap_rezalloc st heap p newsize ans := realloc_zero st heap p newsize true ans.

Definition heap_reallocn (st : state) (heap p count size : N) (ans : answer) : state * option N :=
  let '(o, total) := count_size_overflow count size in
  if o then (st, None) else heap_realloc st heap p total ans.

Definition heap_reallocf (st : state) (heap p newsize : N) (ans : answer) : state * option N :=
  match heap_realloc st heap p newsize ans with
  | (st1, None) => if negb (p =? NULL) then (free st1 p, None) else (st1, None)
  | r => r
  end.

Definition heap_recalloc (st : state) (heap p count size : N) (ans : answer) : state * option N :=
  let '(o, total) := count_size_overflow count size in
  if o then (st, None) else heap_rezalloc st heap p total ans.

(* mi_reallocarray: (state, result, errno written?) *)
Definition reallocarray (st : state) (p count size : N) (ans : answer) : state * option N * option N :=
  match heap_reallocn st 0 p count size ans with
  | (st1, None) => (st1, None, Some ENOMEM_)
  | (st1, r) => (st1, r, None)
  end.

(* mi_reallocarr(void* p, count, size): `p_null` = (p == NULL), `op` = *(void** )p.
   Result: (state, return code, new value of *p, errno written?) *)
Definition reallocarr (st : state) (p_null : bool) (op count size : N) (ans : answer)
  : state * N * N * option N :=
  if p_null then (st, EINVAL_, op, Some EINVAL_)
  else
    match reallocarray st op count size ans with
    | (st1, None, e) => (st1, match e with Some c => c | None => 0 end, op, e)
    | (st1, Some newp, e) => (st1, 0, newp, e)
    end.

(* ------------------------------------------------------------------------------------- *)
(* aligned allocation                                                                       *)
(* ------------------------------------------------------------------------------------- *)

Definition malloc_is_naturally_aligned (size alignment : N) : bool :=
  if size <? alignment then false
  else if alignment <=? MI_MAX_ALIGN_SIZE then true
  else
    let bsize := good_size size in
    (bsize <=? MI_MAX_ALIGN_GUARANTEE) && (N.land bsize (wsub alignment 1) =? 0).

(* mi_heap_malloc_zero_aligned_at_overalloc: the distance from the block start to the user pointer *)
Definition aligned_adjust (p alignment offset : N) : N :=
  let align_mask := wsub alignment 1 in
  let poffset := N.land (wadd p offset) align_mask in
  if poffset =? 0 then 0 else alignment - poffset.

(* the size asked from the plain allocator *)
Definition overalloc_size (size alignment : N) : N :=
  if MI_BLOCK_ALIGNMENT_MAX <? alignment
  then (if size <=? MI_SMALL_SIZE_MAX then MI_SMALL_SIZE_MAX + 1 else size)
  else wsub (wadd (if size <? MI_MAX_ALIGN_SIZE then MI_MAX_ALIGN_SIZE else size) alignment) 1.

Inductive apath := PathError | PathFastSmall | PathNatural | PathOveralloc | PathHuge.

(* the lower layers as seen by an aligned allocation:
     o_page_free : page->free of the small page of the size class (None = NULL / not applicable)
     o_ans       : answer to the allocation request that is made
     o_ans2      : answer to the second request in the "cannot happen" branch of the natural path *)
Record oracles := mkOracles { o_page_free : option N; o_ans : answer; o_ans2 : answer }.

(* mi_heap_malloc_zero_aligned_at_overalloc *)
Definition malloc_zero_aligned_at_overalloc (st : state) (heap size alignment offset : N) (zero : bool)
                                            (ans : answer) : state * option N * apath :=
  if MI_BLOCK_ALIGNMENT_MAX <? alignment then
    if negb (offset =? 0) then (st, None, PathError)
    else
      (* dedicated huge segment; not zeroed by the allocation: only the part from the aligned
         pointer on may be committed, it is zeroed afterwards *)
      match alloc_block (overalloc_size size alignment) false alignment ans with
      | None => (st, None, PathHuge)
      | Some (p, u, bytes) =>
          let adjust := aligned_adjust p alignment offset in
          let aligned_p := wadd p adjust in
          let view := drop adjust bytes in
          let view := if zero then zero_all view else view in     (* memzero(aligned_p, mi_usable_size(aligned_p)) *)
          (add st aligned_p (mkBlock (u - adjust) view heap size zero adjust), Some aligned_p, PathHuge)
      end
  else
    match alloc_block (overalloc_size size alignment) zero 0 ans with
    | None => (st, None, PathOveralloc)
    | Some (p, u, bytes) =>
        let adjust := aligned_adjust p alignment offset in
        let aligned_p := wadd p adjust in
        (add st aligned_p (mkBlock (u - adjust) (drop adjust bytes) heap size zero adjust),
         Some aligned_p, PathOveralloc)
    end.

(* mi_heap_malloc_zero_aligned_at_generic *)
Definition malloc_zero_aligned_at_generic (st : state) (heap size alignment offset : N) (zero : bool)
                                          (o : oracles) : state * option N * apath :=
  if MI_MAX_ALLOC_SIZE - MI_PADDING_SIZE <? size then (st, None, PathError)
  else if (offset =? 0) && malloc_is_naturally_aligned size alignment then
    match heap_malloc_zero st heap size zero (o_ans o) with
    | (st1, None) => (st1, None, PathNatural)          (* is_aligned_or_null *)
    | (st1, Some p) =>
        if N.land p (wsub alignment 1) =? 0 then (st1, Some p, PathNatural)
        else (* "this should never happen": mi_free(p) and fall back to over-allocation *)
          malloc_zero_aligned_at_overalloc (free st1 p) heap size alignment offset zero (o_ans2 o)
    end
  else malloc_zero_aligned_at_overalloc st heap size alignment offset zero (o_ans o).

(* mi_heap_malloc_zero_aligned_at *)
Definition heap_malloc_zero_aligned_at (st : state) (heap size alignment offset : N) (zero : bool)
                                       (o : oracles) : state * option N * apath :=
  if (alignment =? 0) || negb (is_power_of_two alignment) then (st, None, PathError)
  else
    let fast :=
      if (size <=? MI_SMALL_SIZE_MAX) && (alignment <=? size) then
        match o_page_free o with
        | Some f => N.land (wadd f offset) (wsub alignment 1) =? 0
        | None => false
        end
      else false in
    if fast then
      (* _mi_page_malloc / _mi_page_malloc_zeroed on that page: pops page->free *)
      match page_malloc_zero zero (o_ans o) with
      | Some (p, u, bytes) => (add st p (mkBlock u bytes heap size zero 0), Some p, PathFastSmall)
      | None => (st, None, PathFastSmall)
      end
    else malloc_zero_aligned_at_generic st heap size alignment offset zero o.

Definition heap_calloc_aligned_at (st : state) (heap count size alignment offset : N) (o : oracles)
  : state * option N * apath :=
  let '(ov, total) := count_size_overflow count size in
  if ov then (st, None, PathError) else heap_malloc_zero_aligned_at st heap total alignment offset true o.

Definition realloc_aligned_inplace_b (size newsize p alignment offset : N) : bool :=
  (newsize <=? size) && (size - size / 2 <=? newsize) && ((wadd p offset) mod alignment =? 0).

(* mi_heap_realloc_zero_aligned_at *)
Definition realloc_zero_aligned_at (st : state) (heap p newsize alignment offset : N) (zero : bool)
                                   (o : oracles) : state * option N :=
  if alignment <=? MI_INTPTR_SIZE then realloc_zero st heap p newsize zero (o_ans o)
  else if p =? NULL then fst (heap_malloc_zero_aligned_at st heap newsize alignment offset zero o)
  else
    let size := usable_size st p in
    if realloc_aligned_inplace_b size newsize p alignment offset then (update st p (set_req newsize), Some p)
    else
      match fst (heap_malloc_zero_aligned_at st heap newsize alignment offset zero o) with
      | (_, None) => (st, None)
      | (st1, Some newp) =>
          (realloc_finish st1 p newp size newsize zero false (bytes_of st p), Some newp)
      end.

(* mi_heap_realloc_zero_aligned: keeps the offset of the previous allocation *)
Definition realloc_zero_aligned (st : state) (heap p newsize alignment : N) (zero : bool) (o : oracles)
  : state * option N :=
  if alignment <=? MI_INTPTR_SIZE then realloc_zero st heap p newsize zero (o_ans o)
  else realloc_zero_aligned_at st heap p newsize alignment (p mod alignment) zero o.

Definition heap_recalloc_aligned_at (st : state) (heap p count size alignment offset : N) (o : oracles)
  : state * option N :=
  let '(ov, total) := count_size_overflow count size in
  if ov then (st, None) else realloc_zero_aligned_at st heap p total alignment offset true o.

(* ------------------------------------------------------------------------------------- *)
(* posix / BSD entry points (default heap = 0)                                             *)
(* ------------------------------------------------------------------------------------- *)

Definition malloc_aligned (st : state) (size alignment : N) (o : oracles) : state * option N :=
  fst (heap_malloc_zero_aligned_at st 0 size alignment 0 false o).

(* mi_posix_memalign(void** p, alignment, size): `p_null` = (p == NULL).
   Result: (state, return code, what was stored in *p (None = not written; Some r = r stored)) *)
Definition posix_memalign (st : state) (p_null : bool) (alignment size : N) (o : oracles)
  : state * N * option (option N) :=
  if p_null then (st, EINVAL_, None)
  else if negb (alignment mod MI_INTPTR_SIZE =? 0) then (st, EINVAL_, None)
  else if (alignment =? 0) || negb (is_power_of_two alignment) then (st, EINVAL_, None)
  else
    match malloc_aligned st size alignment o with
    | (st1, None) => if negb (size =? 0) then (st1, ENOMEM_, None) else (st1, 0, Some None)
    | (st1, Some q) => (st1, 0, Some (Some q))
    end.

Definition memalign (st : state) (alignment size : N) (o : oracles) := malloc_aligned st size alignment o.
Definition valloc (st : state) (size : N) (o : oracles) := memalign st os_page_size_default size o.
Definition pvalloc (st : state) (size : N) (o : oracles) : state * option N :=
  let psize := os_page_size_default in
  if SIZE_MAX_ - psize <=? size then (st, None)
  else malloc_aligned st (align_up size psize) psize o.
Definition aligned_alloc (st : state) (alignment size : N) (o : oracles) := malloc_aligned st size alignment o.

(* ------------------------------------------------------------------------------------- *)
(* all entry points as one transition function                                             *)
(* ------------------------------------------------------------------------------------- *)

Inductive call :=
| CMalloc (heap size : N) | CZalloc (heap size : N)
| CCalloc (heap count size : N) | CMallocn (heap count size : N)
| CRealloc (heap p newsize : N) | CReallocn (heap p count size : N) | CReallocf (heap p newsize : N)
| CRezalloc (heap p newsize : N) | CRecalloc (heap p count size : N)
| CExpand (p newsize : N)
| CMallocAlignedAt (heap size alignment offset : N) | CZallocAlignedAt (heap size alignment offset : N)
| CCallocAlignedAt (heap count size alignment offset : N)
| CReallocAlignedAt (heap p newsize alignment offset : N) | CRezallocAlignedAt (heap p newsize alignment offset : N)
| CRecallocAlignedAt (heap p count size alignment offset : N)
| CReallocAligned (heap p newsize alignment : N) | CRezallocAligned (heap p newsize alignment : N)
| CPosixMemalign (p_null : bool) (alignment size : N)
| CMemalign (alignment size : N) | CValloc (size : N) | CPvalloc (size : N) | CAlignedAlloc (alignment size : N)
| CReallocarray (p count size : N) | CReallocarr (p_null : bool) (op count size : N)
| CFree (p : N) | CWrite (p off v : N).

(* r_ptr: returned pointer (for mi_reallocarr: the new *p when it was stored); r_rc: integer result;
   r_errno: value stored in errno, if any; r_out: value stored through the out-parameter, if any *)
Record result := mkResult { r_ptr : option N; r_rc : N; r_errno : option N; r_out : option (option N) }.
Definition res_ptr (r : option N) : result := mkResult r 0 None None.

Definition exec (st : state) (c : call) (o : oracles) : state * result :=
  let ptr (x : state * option N) := (fst x, res_ptr (snd x)) in
  let ptr3 (x : state * option N * apath) := (fst (fst x), res_ptr (snd (fst x))) in
  match c with
  | CMalloc h s => ptr (heap_malloc st h s (o_ans o))
  | CZalloc h s => ptr (heap_zalloc st h s (o_ans o))
  | CCalloc h c s => ptr (heap_calloc st h c s (o_ans o))
  | CMallocn h c s => ptr (heap_mallocn st h c s (o_ans o))
  | CRealloc h p n => ptr (heap_realloc st h p n (o_ans o))
  | CReallocn h p c s => ptr (heap_reallocn st h p c s (o_ans o))
  | CReallocf h p n => ptr (heap_reallocf st h p n (o_ans o))
  | CRezalloc h p n => ptr (heap_rezalloc st h p n (o_ans o))
  | CRecalloc h p c s => ptr (heap_recalloc st h p c s (o_ans o))
  | CExpand p n => (st, res_ptr (expand st p n))
  | CMallocAlignedAt h s a off => ptr3 (heap_malloc_zero_aligned_at st h s a off false o)
  | CZallocAlignedAt h s a off => ptr3 (heap_malloc_zero_aligned_at st h s a off true o)
  | CCallocAlignedAt h c s a off => ptr3 (heap_calloc_aligned_at st h c s a off o)
  | CReallocAlignedAt h p n a off => ptr (realloc_zero_aligned_at st h p n a off false o)
  | CRezallocAlignedAt h p n a off => ptr (realloc_zero_aligned_at st h p n a off true o)
  | CRecallocAlignedAt h p c s a off => ptr (heap_recalloc_aligned_at st h p c s a off o)
  | CReallocAligned h p n a => ptr (realloc_zero_aligned st h p n a false o)
  | CRezallocAligned h p n a => ptr (realloc_zero_aligned st h p n a true o)
  | CPosixMemalign pn a s =>
      let '(st1, rc, out) := posix_memalign st pn a s o in
      (st1, mkResult (match out with Some r => r | None => None end) rc None out)
  | CMemalign a s => ptr (memalign st a s o)
  | CValloc s => ptr (valloc st s o)
  | CPvalloc s => ptr (pvalloc st s o)
  | CAlignedAlloc a s => ptr (aligned_alloc st a s o)
  | CReallocarray p c s =>
      let '(st1, r, e) := reallocarray st p c s (o_ans o) in (st1, mkResult r 0 e None)
  | CReallocarr pn op c s =>
      let '(st1, rc, op', e) := reallocarr st pn op c s (o_ans o) in
      (st1, mkResult (if rc =? 0 then Some op' else None) rc e (if rc =? 0 then Some (Some op') else None))
  | CFree p => (free st p, res_ptr None)
  | CWrite p off v => (write st p off v, res_ptr None)
  end.

(* does the call report failure?  (free / write cannot fail) *)
Definition call_failed (c : call) (r : result) : bool :=
  match c with
  | CFree _ | CWrite _ _ _ => false
  | CPosixMemalign _ _ _ | CReallocarr _ _ _ _ => negb (r_rc r =? 0)
  | _ => match r_ptr r with None => true | Some _ => false end
  end.
