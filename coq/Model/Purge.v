(* Model of arena purge scheduling, with time as an input.  No proofs in this file.

   C sources modelled (src/arena.c, as repaired by 9676b42, c59c73f and c78a4f5):
     mi_arena_purge_delay, mi_arena_purge, mi_arena_schedule_purge, mi_arena_purge_range,
     mi_arena_try_purge, mi_arenas_try_purge, _mi_arenas_collect, the MI_MEM_ARENA branch of
     _mi_arena_free (decommit accounting, schedule, release of the in-use bits, trailing
     mi_arenas_try_purge(false,false)), and the part of mi_arena_try_alloc_at after the bitmap search
     (the claimed index is an argument: the search itself is Model/Bitmap.v, property C14).

   Representation.  An arena bitmap (`field_count` words of 64 bits) is the number whose bit
   (64*field + bit) is that bit, i.e. bit b is block b (mi_bitmap_index_create(idx,bitidx) = idx*64+bitidx).
   The `_across` operations of bitmap.c used here (_mi_bitmap_claim_across, _unclaim_across,
   _is_claimed_across) are range operations on that index; _mi_bitmap_try_claim/_mi_bitmap_unclaim are
   used by the C only inside one field.  Execution is sequential (every CAS succeeds, the purge guard
   is free); the local copy `purge` of a bitmap word in mi_arena_try_purge differs from the current
   word only in bits below the scan position, which are never read again, so the model reads the
   current word.  The two while-loops over the 64 bit positions of a word are structural scans over
   the positions (`skip` positions are passed over), so they need no fuel.
   `now` is the value returned by _mi_clock_now() (one virtual-clock value per call). *)
From Coq Require Import NArith ZArith List Bool.
From MiV Require Import Gen.Consts Gen.OsConsts Model.Arith Model.Os Model.Mask.
Import ListNotations.
Local Open Scope N_scope.
Local Open Scope bool_scope.

Definition BLOCK : N := MI_ARENA_BLOCK_SIZE.
Definition BFIELD : N := MI_BITMAP_FIELD_BITS.
Definition BFIELD_nat : nat := N.to_nat MI_BITMAP_FIELD_BITS.

Record arena := {
  a_start : N;
  a_block_count : N;
  a_field_count : N;
  a_inuse : N;          (* blocks_inuse *)
  a_committed : N;      (* blocks_committed (unused when pinned: NULL in C) *)
  a_purge : N;          (* blocks_purge     (unused when pinned: NULL in C) *)
  a_expire : Z;         (* purge_expire *)
  a_pinned : bool       (* memid.is_pinned *)
}.
Definition set_inuse (a : arena) (m : N) : arena :=
  {| a_start := a_start a; a_block_count := a_block_count a; a_field_count := a_field_count a; a_inuse := m;
     a_committed := a_committed a; a_purge := a_purge a; a_expire := a_expire a; a_pinned := a_pinned a |}.
Definition set_committed (a : arena) (m : N) : arena :=
  {| a_start := a_start a; a_block_count := a_block_count a; a_field_count := a_field_count a; a_inuse := a_inuse a;
     a_committed := m; a_purge := a_purge a; a_expire := a_expire a; a_pinned := a_pinned a |}.
Definition set_apurge (a : arena) (m : N) : arena :=
  {| a_start := a_start a; a_block_count := a_block_count a; a_field_count := a_field_count a; a_inuse := a_inuse a;
     a_committed := a_committed a; a_purge := m; a_expire := a_expire a; a_pinned := a_pinned a |}.
Definition set_aexpire (a : arena) (e : Z) : arena :=
  {| a_start := a_start a; a_block_count := a_block_count a; a_field_count := a_field_count a; a_inuse := a_inuse a;
     a_committed := a_committed a; a_purge := a_purge a; a_expire := e; a_pinned := a_pinned a |}.

(* bit ranges *)
Definition range_mask (idx count : N) : N := N.shiftl (N.ones count) idx.
Definition bm_all_set (bm idx count : N) : bool := N.land bm (range_mask idx count) =? range_mask idx count.
Definition bm_none_set (bm idx count : N) : bool := N.land bm (range_mask idx count) =? 0.
Definition bm_count (bm idx count : N) : N := popcount (N.land bm (range_mask idx count)).
Definition bm_set (bm idx count : N) : N := N.lor bm (range_mask idx count).
Definition bm_clear (bm idx count : N) : N := N.ldiff bm (range_mask idx count).
(* consecutive clear bits of bm starting at bit i, at most n *)
Fixpoint zeros_run (n : nat) (bm i : N) : N :=
  match n with
  | O => 0
  | S n' => if N.testbit bm i then 0 else 1 + zeros_run n' bm (i + 1)
  end.

Section WithOracle.
Variable cfg : oscfg.
Variable oracle : nat -> answer.

(* mi_arena_purge_delay *)
Definition arena_purge_delay : Z := (purge_delay cfg * arena_purge_mult cfg)%Z.

Definition arena_block_start (a : arena) (idx : N) : N := wadd (a_start a) (wmul idx BLOCK).

(* mi_arena_purge: reset or decommit and update the committed/purge bitmaps *)
Definition arena_purge (o : os) (a : arena) (idx blocks : N) : os * arena :=
  let size := wmul blocks BLOCK in
  let p := arena_block_start a idx in
  let '(o1, needs_recommit) :=
    if bm_all_set (a_committed a) idx blocks
    then os_purge cfg oracle o p size                  (* all blocks are committed, we can purge freely *)
    else os_purge_ex cfg oracle o p size false in      (* some blocks are not committed: never reset *)
  (* clear the purged blocks *)
  let a1 := set_apurge a (bm_clear (a_purge a) idx blocks) in
  (* update committed bitmap *)
  (o1, if needs_recommit then set_committed a1 (bm_clear (a_committed a1) idx blocks) else a1).

(* mi_arena_schedule_purge; g is mi_arenas_purge_expire *)
Definition arena_schedule_purge (o : os) (g : Z) (a : arena) (idx blocks : N) (now : Z) : os * Z * arena :=
  let delay := arena_purge_delay in
  if (delay <? 0)%Z then (o, g, a)                      (* is purging allowed at all? *)
  else if (delay =? 0)%Z then
    let '(o1, a1) := arena_purge o a idx blocks in (o1, g, a1)   (* decommit directly *)
  else
    let expire := (now + delay)%Z in
    let '(a1, g1) :=
      if (a_expire a =? 0)%Z
      then (set_aexpire a expire, if (g =? 0)%Z then expire else g)   (* expiration was not yet set *)
      else (a, g) in
    (o, g1, set_apurge a1 (bm_set (a_purge a1) idx blocks)).

(* mi_arena_purge_range: purge the runs of `purge` inside [startidx, startidx+bitlen) (bit indices of
   the whole bitmap); true if one run covers the full range *)
Definition arena_purge_range (o : os) (a : arena) (startidx bitlen purge : N) : os * arena * bool :=
  let runs := runs_in purge startidx (N.to_nat bitlen) in
  let '(o1, a1) := fold_left (fun (st : os * arena) (r : N * N) => arena_purge (fst st) (snd st) (fst r) (snd r)) runs (o, a) in
  (o1, a1, existsb (fun r => snd r =? bitlen) runs).

(* the `while (bitidx < MI_BITMAP_FIELD_BITS)` loop of mi_arena_try_purge for the field whose first bit
   is fbase; pos is the position in the field, n the number of positions left, skip the number of
   positions the previous iteration jumped over *)
Fixpoint field_scan (n : nat) (o : os) (a : arena) (fbase pos skip : N) (any full : bool) : os * arena * bool * bool :=
  match n with
  | O => (o, a, any, full)
  | S n' =>
    if 0 <? skip then field_scan n' o a fbase (pos + 1) (skip - 1) any full
    else
      (* find consecutive range of ones in the purge mask *)
      let bitlen := ones_run n (a_purge a) (fbase + pos) in
      (* try to claim the longest range of corresponding in_use bits *)
      let claimed := zeros_run (N.to_nat bitlen) (a_inuse a) (fbase + pos) in
      if 0 <? claimed then
        let a1 := set_inuse a (bm_set (a_inuse a) (fbase + pos) claimed) in
        let '(o2, a2, all_purged) := arena_purge_range o a1 (fbase + pos) claimed (a_purge a1) in
        (* release the claimed `in_use` bits again *)
        let a3 := set_inuse a2 (bm_clear (a_inuse a2) (fbase + pos) claimed) in
        field_scan n' o2 a3 fbase (pos + 1) claimed true (full && all_purged)
      else field_scan n' o a fbase (pos + 1) 0 any full
  end.

(* the `for (i < field_count)` loop *)
Fixpoint fields_loop (n : nat) (o : os) (a : arena) (i : N) (any full : bool) : os * arena * bool * bool :=
  match n with
  | O => (o, a, any, full)
  | S n' =>
    let '(o1, a1, any1, full1) :=
      if N.land (N.shiftr (a_purge a) (i * BFIELD)) (N.ones BFIELD) =? 0 then (o, a, any, full)   (* purge != 0 ? *)
      else field_scan BFIELD_nat o a (i * BFIELD) 0 0 any full in
    fields_loop n' o1 a1 (i + 1) any1 full1
  end.

(* mi_arena_try_purge: returns true if anything was purged *)
Definition arena_try_purge (o : os) (a : arena) (now : Z) (force : bool) : os * arena * bool :=
  if a_pinned a then (o, a, false)
  else
    let expire := a_expire a in
    if negb force && ((expire =? 0)%Z || (now <? expire)%Z) then (o, a, false)
    else
      let a0 := set_aexpire a 0%Z in                       (* reset expire *)
      let '(o1, a1, any_purged, full_purge) := fields_loop (N.to_nat (a_field_count a)) o a0 0 false true in
      (* if not fully purged, make sure to purge again in the future *)
      let a2 := if negb full_purge && (a_expire a1 =? 0)%Z then set_aexpire a1 (now + arena_purge_delay)%Z else a1 in
      (o1, a2, any_purged).

(* the loop over the arenas in mi_arenas_try_purge: (os, arenas, all_visited, any_pending);
   any_pending (repair c59c73f): some visited arena still has purge_expire <> 0 after its visit *)
Fixpoint arenas_loop (o : os) (l : list arena) (now : Z) (force : bool) (max_purge_count : N) : os * list arena * bool * bool :=
  match l with
  | [] => (o, [], true, false)
  | a :: rest =>
    let '(o1, a1, purged) := arena_try_purge o a now force in
    let pending := negb (a_expire a1 =? 0)%Z in
    if purged then
      if max_purge_count <=? 1 then (o1, a1 :: rest, false, pending)
      else let '(o2, rest', v, p) := arenas_loop o1 rest now force (max_purge_count - 1) in (o2, a1 :: rest', v, pending || p)
    else let '(o2, rest', v, p) := arenas_loop o1 rest now force max_purge_count in (o2, a1 :: rest', v, pending || p)
  end.

(* mi_arenas_try_purge *)
Definition arenas_try_purge (o : os) (g : Z) (l : list arena) (now : Z) (force visit_all : bool) : os * Z * list arena :=
  if (arena_purge_delay <=? 0)%Z then (o, g, l)                                  (* nothing will be scheduled *)
  else if negb force && ((g =? 0)%Z || (now <? g)%Z) then (o, g, l)             (* check if any arena needs purging *)
  else
    match l with
    | [] => (o, g, l)
    | _ =>
      let g1 := (now + arena_purge_delay)%Z in                                   (* increase global expire *)
      let '(o1, l1, all_visited, any_pending) :=
        arenas_loop o l now force (if visit_all then N.of_nat (length l) else 2) in
      (* all arenas were visited and none has a purge pending: reset global expire *)
      (o1, if all_visited && negb any_pending then 0%Z else g1, l1)
    end.

(* _mi_arenas_collect *)
Definition arenas_collect (o : os) (g : Z) (l : list arena) (now : Z) (force : bool) : os * Z * list arena :=
  arenas_try_purge o g l now force force.

Fixpoint update_nth {A} (n : nat) (l : list A) (x : A) : list A :=
  match l, n with
  | [], _ => []
  | _ :: t, O => x :: t
  | h :: t, S n' => h :: update_nth n' t x
  end.

(* _mi_arena_free, MI_MEM_ARENA branch: arena number ai, blocks [idx, idx+blocks) *)
Definition arena_free (o : os) (g : Z) (l : list arena) (ai : nat) (idx blocks : N) (all_committed : bool) (now : Z)
  : os * Z * list arena :=
  match nth_error l ai with
  | None => (o, g, l)
  | Some a =>
    let '(o1, g1, a1) :=
      if a_pinned a then (o, g, a)
      else
        (* mark the entire range as no longer committed if it is only partially committed *)
        let a' := if negb all_committed then set_committed a (bm_clear (a_committed a) idx blocks) else a in
        arena_schedule_purge o g a' idx blocks now in
    (* and make it available to others again *)
    let a2 := set_inuse a1 (bm_clear (a_inuse a1) idx blocks) in
    if negb (bm_all_set (a_inuse a1) idx blocks) then (o1, g1, update_nth ai l a2)   (* "already freed": return *)
    else arenas_try_purge o1 g1 (update_nth ai l a2) now false false                   (* purge expired decommits *)
  end.

(* mi_arena_try_alloc_at after a successful claim of [idx, idx+blocks): returns initially_committed *)
Definition arena_alloc_at (o : os) (a : arena) (idx blocks : N) (commit : bool) : os * arena * bool :=
  let a1 := set_inuse a (bm_set (a_inuse a) idx blocks) in
  if a_pinned a then (o, a1, true)
  else
    (* none of the claimed blocks should be scheduled for a decommit *)
    let a2 := set_apurge a1 (bm_clear (a_purge a1) idx blocks) in
    if commit then
      let any_uncommitted := negb (bm_all_set (a_committed a2) idx blocks) in
      let a3 := set_committed a2 (bm_set (a_committed a2) idx blocks) in
      if any_uncommitted then
        let '(o1, ok) := os_commit oracle o (arena_block_start a idx) (wmul blocks BLOCK) in
        (* the commit failed: don't keep the blocks marked as committed (repair c78a4f5) *)
        (o1, (if ok then a3 else set_committed a3 (bm_clear (a_committed a3) idx blocks)), ok)
      else (o, a3, true)
    else
      let all := bm_all_set (a_committed a2) idx blocks in
      if negb all && (0 <? bm_count (a_committed a2) idx blocks)
      then (o, set_committed a2 (bm_clear (a_committed a2) idx blocks), false)   (* pretend fully uncommitted *)
      else (o, a2, all).

(* ---------------------------------------------------------------- histories (for the invariants) *)
Inductive pop :=
| PFree (ai : nat) (idx blocks : N) (all_committed : bool)     (* _mi_arena_free of an arena block range *)
| PAlloc (ai : nat) (idx blocks : N) (commit : bool)            (* mi_arena_try_alloc_at at a claimed index *)
| PCollect (force : bool).                                      (* _mi_arenas_collect *)

Record pstate_ := { p_os : os; p_g : Z; p_arenas : list arena }.

Definition pstep (st : pstate_) (op : pop) (now : Z) : pstate_ :=
  match op with
  | PFree ai idx blocks ac =>
    let '(o, g, l) := arena_free (p_os st) (p_g st) (p_arenas st) ai idx blocks ac now in
    {| p_os := o; p_g := g; p_arenas := l |}
  | PAlloc ai idx blocks commit =>
    match nth_error (p_arenas st) ai with
    | None => st
    | Some a =>
      if bm_none_set (a_inuse a) idx blocks then
        let '(o, a', _) := arena_alloc_at (p_os st) a idx blocks commit in
        {| p_os := o; p_g := p_g st; p_arenas := update_nth ai (p_arenas st) a' |}
      else st
    end
  | PCollect force =>
    let '(o, g, l) := arenas_collect (p_os st) (p_g st) (p_arenas st) now force in
    {| p_os := o; p_g := g; p_arenas := l |}
  end.

Definition prun (st : pstate_) (h : list (pop * Z)) : pstate_ :=
  fold_left (fun s x => pstep s (fst x) (snd x)) h st.

End WithOracle.

(* time stamps of a history are non-decreasing and start at t0 *)
Fixpoint times_monotone (t0 : Z) (h : list (pop * Z)) : bool :=
  match h with
  | [] => true
  | (_, t) :: rest => (t0 <=? t)%Z && times_monotone t rest
  end.
