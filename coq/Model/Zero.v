(* Model of the ZERO-KNOWLEDGE chain of mimalloc (property C04) over a GHOST memory.  No proofs in this file.

   What the allocator *believes* about zero-ness is a handful of flags; what is *true* is a ghost that says, per
   unit of memory, "really all zero" (true) or "possibly dirty" (false).  The ghost is conservative: it may say
   dirty for memory that happens to be zero, never the converse (every store the allocator or the program can make
   is an operation below and clears the ghost of what it touches).  Theorems (Proofs/ZeroProofs.v,
   Properties/C04zero.v): every flag that is set is true of the ghost in every reachable state, for all operation
   sequences and all oracle answers; a zeroing allocation returns a block whose ghost is zero over the whole block.

   C sources modelled (pinned tree, 64-bit release configuration MI_SECURE=0, MI_DEBUG=0, MI_PADDING=0), line by line
   for everything that reads or writes a zero flag:
     src/prim/unix/prim.c : _mi_prim_alloc (is_zero := true: anonymous mmap memory), _mi_prim_commit (is_zero := false),
                            _mi_prim_decommit / _mi_prim_reset (madvise: no flag)
     src/os.c      : mi_os_prim_alloc_at, mi_os_prim_alloc_aligned (both over-allocation paths pass the primitive's
                     is_zero through), _mi_os_alloc, _mi_os_alloc_aligned(_at_offset) (memid.initially_zero :=
                     os_is_zero via _mi_memid_create_os), _mi_os_commit_ex (the `is_zero` out-parameter),
                     _mi_os_purge_ex / mi_os_decommit_ex / _mi_os_reset (no flag is touched)
     src/arena.c   : mi_manage_os_memory_ex(2) / mi_reserve_os_memory_ex (arena->memid.initially_zero, blocks_dirty all
                     clear), mi_arena_try_alloc_at (memid.initially_zero := result of claiming blocks_dirty, only when
                     the arena is initially zero; `if (commit_zero) memid->initially_zero = true`), _mi_arena_free,
                     mi_arena_purge (blocks_dirty is never cleared again), _mi_arena_alloc_aligned (arena, else OS)
     src/segment.c : mi_segment_os_alloc (header commit), mi_segment_alloc (segment->memid; the memzero of the
                     header [offsetof(next), end of the slice array) that is SKIPPED when memid.initially_zero),
                     mi_segment_span_allocate (does not touch page->is_zero_init), mi_segment_commit (its local
                     `is_zero` is dead), mi_segment_page_clear (page->is_zero_init = false, the rest of the page
                     descriptor zeroed), mi_segment_purge (no flag), mi_segment_os_free
     src/page.c    : mi_page_init (free_is_zero := is_zero_init), mi_page_extend_free / mi_page_free_list_extend
                     (flag kept; the link word of every new block is written), _mi_page_free_collect
                     (free_is_zero := false whenever local_free moves to free), _mi_malloc_generic (huge page with
                     zero: plain pop, then memzero over mi_page_usable_block_size)
     src/alloc.c   : _mi_page_malloc_zero (zero: `block->next = 0` when free_is_zero, else memzero of the block)
     src/free.c    : mi_free_block_local (link written into the block), the completed push of mi_free_block_mt
   _mi_heap_realloc_zero is not an operation here: a moving rezalloc is OMalloc(zero) + OWrite (the copy) + OFree and
   an in-place one touches neither flag nor memory; its byte-level zero tail is Model/Api.v (C04_rezalloc_chain_zero).
   The list part of a page (free / local_free / thread_free, capacity, used) is Model/Page.v, re-used as is.
   Not modelled: blocks_purge and the purge schedule (Model/Purge.v; no flag depends on them: a purge is the operation
   OArenaPurge / OSegPurge on free memory), and the three other readers of memid.initially_zero, all for allocator
   meta data (mi_arena_static_zalloc, _mi_arena_meta_zalloc, mi_thread_data_zalloc: they memzero unless the flag is set).

   FLAGS THAT ARE CONSTANT FALSE in this configuration (checked against the source and proved:
   ZeroProofs.page_flags_false): page->is_zero_init is written in exactly two places, both `= false`
   (segment.c:1038 and 1628), and read once (page.c:700); hence page->free_is_zero is never true and
   _mi_page_malloc_zero always takes the memzero branch.  `commit_zero` (arena.c:280) is always false because the
   unix _mi_prim_commit answers is_zero := false.  Both are modelled anyway: the flags are state, `commit_zero` is an
   oracle answer, and the page-level theorems are proved for pages whose flags ARE set (the function-level harness
   manufactures such pages over really zero memory), so a change that starts setting them is confronted with the
   invariant instead of passing vacuously.  [variant]: `Pinned` is the tree as it is; `SeedC04c` is the seeded change
   (mi_segment_span_allocate: page->is_zero_init = segment->memid.initially_zero), refuted in C04zero.v; `FreshSpan`
   is what that change would have to say to be sound (... && the span was never used since the segment was
   allocated), proved sound: the invariant is not vacuous at the composition level either.

   Oracle answers (arguments of the operations; the theorems quantify over all of them): the block index found by
   the arena bitmap search, success of every commit, `osz` = the is_zero answer of _mi_prim_alloc, `cz` = the
   is_zero answer of _mi_prim_commit, `pz` = whether a purge left the memory reading zero (MADV_DONTNEED) or
   unchanged (MADV_FREE, reset), `junk` = what a header that was NOT cleared contains, which page serves a request,
   which block the program writes.  Trusted: the kernel's own statements -- the ghost of fresh memory is what
   _mi_prim_alloc / _mi_prim_commit report -- and the promise of the caller of mi_manage_os_memory_ex (is_zero only
   over memory that is zero: OArenaNew refuses zero = true over dirty memory). *)
From Coq Require Import NArith List Bool.
From MiV Require Import Gen.Consts Model.Arith Model.Page.
Import ListNotations.
Local Open Scope N_scope.
Local Open Scope bool_scope.

(* ---------------------------------------------------------------- bit functions and ranges *)
Definition bits := N -> bool.
Definition in_range (lo n i : N) : bool := (lo <=? i) && (i <? lo + n).
Definition set_range {A} (f : N -> A) (lo n : N) (v : A) : N -> A := fun i => if in_range lo n i then v else f i.
Definition upd {A} (f : N -> A) (k : N) (v : A) : N -> A := fun i => if i =? k then v else f i.
Fixpoint all_from (k : nat) (f : bits) (lo : N) : bool :=
  match k with O => true | S k' => f lo && all_from k' f (N.succ lo) end.
Definition all_in (f : bits) (lo n : N) : bool := all_from (N.to_nat n) f lo.
Definition any_in (f : bits) (lo n : N) : bool := negb (all_in (fun i => negb (f i)) lo n).
Definition no_bits : bits := fun _ => false.
Definition all_bits : bits := fun _ => true.

(* association lists keyed by N (raw claims, segments, pages) and positional update (arenas) *)
Section Assoc.
  Context {A : Type}.
  Fixpoint aget (k : N) (l : list (N * A)) : option A :=
    match l with [] => None | (k', v) :: r => if k' =? k then Some v else aget k r end.
  Fixpoint adel (k : N) (l : list (N * A)) : list (N * A) :=
    match l with [] => [] | (k', v) :: r => if k' =? k then adel k r else (k', v) :: adel k r end.
  Definition aset (k : N) (v : A) (l : list (N * A)) : list (N * A) := (k, v) :: adel k l.
  Fixpoint lset (l : list A) (i : nat) (v : A) : list A :=
    match l, i with
    | [], _ => []
    | _ :: r, O => v :: r
    | x :: r, S j => x :: lset r j v
    end.
End Assoc.

(* ---------------------------------------------------------------- ghost of one block *)
(* g_w0: the first word (8 bytes, where the allocator keeps the free-list link) is zero; g_rest: bytes [8, block_size) *)
Record bg := mkBg { g_w0 : bool; g_rest : bool }.
Definition bg_zero : bg := mkBg true true.
Definition bg_of (z : bool) : bg := mkBg z z.
Definition bg_all (g : bg) : bool := g_w0 g && g_rest g.

Inductive variant := Pinned | SeedC04c | FreshSpan.

(* ---------------------------------------------------------------- memid (types.h:mi_memid_t) *)
Inductive memkind := MemArena (a b0 n : N) | MemOs.
Record memid := mkMemid { m_kind : memkind; m_zero : bool (* initially_zero *); m_committed : bool (* initially_committed *) }.

(* ---------------------------------------------------------------- arena (arena.c) *)
Record arena := mkArena {
  ar_nblocks   : N;
  ar_zero      : bool;      (* arena->memid.initially_zero *)
  ar_pinned    : bool;      (* arena->memid.is_pinned: blocks_committed == NULL, blocks_purge == NULL *)
  ar_inuse     : bits;      (* blocks_inuse *)
  ar_dirty     : bits;      (* blocks_dirty: "are the blocks potentially non-zero?" *)
  ar_committed : bits;      (* blocks_committed *)
  ar_ghost     : bits       (* GHOST: the 32 MiB block reads as all zero (stale = false while the block is in use: the
                               ghost of handed-out memory is kept by its owner) *)
}.

(* mi_manage_os_memory_ex2: all bitmaps clear (the arena meta data is zalloc'ed), blocks_committed all set when the
   memory is committed *)
Definition arena_new (nblocks : N) (zero pinned committed gz : bool) : arena :=
  mkArena nblocks zero pinned no_bits no_bits (fun _ => committed) (fun _ => gz).

(* mi_arena_try_alloc_at after the bitmap search found [b0, b0+n) (mi_arena_try_claim; the search is Model/Bitmap.v).
   cok / cz: success and is_zero answer of _mi_os_commit_ex, consulted only on the branch that commits.
   Result: memid, GHOST of the returned memory, arena.  None: [b0, b0+n) is not a legal claim. *)
Definition arena_try_alloc_at (ai : N) (a : arena) (b0 n : N) (commit cok cz : bool) : option (memid * bool * arena) :=
  if (n =? 0) || (ar_nblocks a <? b0 + n) || any_in (ar_inuse a) b0 n then None else
  let gz0 := all_in (ar_ghost a) b0 n in
  let inuse' := set_range (ar_inuse a) b0 n true in
  (* arena.c:261  if (arena->memid.initially_zero && arena->blocks_dirty != NULL)
                    memid->initially_zero = _mi_bitmap_claim_across(blocks_dirty, ...)   -- true iff all bits were 0 *)
  let zero0 := if ar_zero a then negb (any_in (ar_dirty a) b0 n) else false in
  let dirty' := if ar_zero a then set_range (ar_dirty a) b0 n true else ar_dirty a in
  let cm := ar_committed a in
  let '(committed, zero1, gz1, cm') :=
    if ar_pinned a then (true, zero0, gz0, cm)                                  (* blocks_committed == NULL *)
    else if commit then
      if negb (all_in cm b0 n) then                                             (* any_uncommitted *)
        if cok then (true, zero0 || cz, gz0 || cz, set_range cm b0 n true)      (* if (commit_zero) initially_zero = true *)
        else (false, zero0, gz0, set_range cm b0 n false)
      else (true, zero0, gz0, cm)
    else
      let allc := all_in cm b0 n in
      (allc, zero0, gz0, if negb allc && any_in cm b0 n then set_range cm b0 n false else cm) in
  Some (mkMemid (MemArena ai b0 n) zero1 committed, gz1,
        mkArena (ar_nblocks a) (ar_zero a) (ar_pinned a) inuse' dirty' cm' (set_range (ar_ghost a) b0 n false)).

(* the MI_MEM_ARENA branch of _mi_arena_free (the purge it schedules is OArenaPurge) *)
Definition arena_free (a : arena) (b0 n : N) (all_committed : bool) : arena :=
  let cm' := if negb (ar_pinned a) && negb all_committed then set_range (ar_committed a) b0 n false else ar_committed a in
  mkArena (ar_nblocks a) (ar_zero a) (ar_pinned a) (set_range (ar_inuse a) b0 n false) (ar_dirty a) cm' (ar_ghost a).

(* mi_arena_purge of free blocks (the purger holds them through a temporary claim): blocks_dirty stays as it is.
   pz: the kernel dropped the pages (they read as zero from now on); dec: needs_recommit *)
Definition arena_purge (a : arena) (b0 n : N) (pz dec : bool) : option arena :=
  if ar_pinned a || (ar_nblocks a <? b0 + n) || any_in (ar_inuse a) b0 n then None else
  Some (mkArena (ar_nblocks a) (ar_zero a) (ar_pinned a) (ar_inuse a) (ar_dirty a)
                (if dec then set_range (ar_committed a) b0 n false else ar_committed a)
                (if pz then set_range (ar_ghost a) b0 n true else ar_ghost a)).

(* ---------------------------------------------------------------- memory handed out by the arena layer *)
Record raw := mkRaw {
  rw_memid : memid;
  rw_ghost : bool;          (* GHOST: all of it reads as zero *)
  rw_fresh : bool           (* GHOST: the holder has not stored into it since it was handed out *)
}.

(* ---------------------------------------------------------------- segment (segment.c) *)
Record segment := mkSeg {
  sg_memid    : memid;
  sg_huge     : bool;       (* kind == MI_SEGMENT_HUGE *)
  sg_slices   : N;          (* segment_slices *)
  sg_info     : N;          (* segment_info_slices *)
  sg_hdr_zero : bool;       (* GHOST: the header part that mi_segment_alloc expects to be zero really was *)
  sg_izi      : bits;       (* page->is_zero_init of every slice entry (a page descriptor IS a slice entry) *)
  sg_ghost    : bits;       (* GHOST per slice: reads as all zero (stale = false under a live page) *)
  sg_fresh    : bits        (* GHOST per slice: never part of a page since the segment was allocated *)
}.

(* mi_segment_alloc after mi_segment_os_alloc returned memory with `m`, ghost gz.
   segment.c:919  if (!segment->memid.initially_zero) memzero(header)   -- else the header is USED as it is:
   the slice entries (and with them every page->is_zero_init) then hold whatever the memory holds (`junk`).
   The header is written afterwards (info slices are dirty and not fresh). *)
Definition seg_init (m : memid) (gz huge : bool) (nslices info : N) (junk : bool) : segment :=
  let hdr := if m_zero m then gz else true in
  mkSeg m huge nslices info hdr (fun _ => if hdr then false else junk)
        (set_range (fun _ => gz) 0 info false) (set_range all_bits 0 info false).

(* ---------------------------------------------------------------- page *)
Record zpage := mkZP {
  zp_seg   : N;
  zp_lo    : N;             (* first slice *)
  zp_cnt   : N;             (* slice_count *)
  zp_huge  : bool;          (* page->is_huge *)
  zp_page  : page;          (* Model/Page.v: lists, counters, free_is_zero, is_zero_init *)
  zp_ghost : N -> bg        (* GHOST per block index *)
}.
Definition zp_set (z : zpage) (p : page) (g : N -> bg) : zpage :=
  mkZP (zp_seg z) (zp_lo z) (zp_cnt z) (zp_huge z) p g.

(* mi_segment_span_allocate: the value of page->is_zero_init of the new page *)
Definition span_izi (v : variant) (s : segment) (lo cnt : N) : bool :=
  match v with
  | Pinned => sg_izi s lo                                        (* not written: what the slice entry holds *)
  | SeedC04c => m_zero (sg_memid s)                              (* seeded change C04c *)
  | FreshSpan => m_zero (sg_memid s) && all_in (sg_fresh s) lo cnt
  end.

(* mi_page_extend_free: Page.page_extend; every new block gets its link word written *)
Definition zp_extend (z : zpage) : zpage :=
  let p := zp_page z in
  let p' := page_extend p in
  zp_set z p' (fun i => if (capacity p <=? i) && (i <? capacity p')
                        then mkBg false (g_rest (zp_ghost z i)) else zp_ghost z i).

(* mi_segment_span_allocate + mi_page_init (+ the first mi_page_extend_free) on the free span [lo, lo+cnt) *)
Definition page_alloc (v : variant) (sid : N) (s : segment) (lo cnt bsize psize : N) : option (segment * zpage) :=
  if (cnt =? 0) || (lo <? sg_info s) || (sg_slices s <? lo + cnt) || (bsize =? 0) || (psize <? bsize)
     || (cnt * MI_SEGMENT_SLICE_SIZE <? psize) || (65536 <=? psize / bsize) then None else
  let az := all_in (sg_ghost s) lo cnt in
  let izi := span_izi v s lo cnt in
  (* page.c:700  page->free_is_zero = page->is_zero_init *)
  let p0 := mkPage bsize (wrap16 (psize / bsize)) 0 0 [] [] [] izi izi false 0 in
  let z := zp_extend (mkZP sid lo cnt (sg_huge s) p0 (fun _ => bg_of az)) in
  Some (mkSeg (sg_memid s) (sg_huge s) (sg_slices s) (sg_info s) (sg_hdr_zero s) (sg_izi s)
              (set_range (sg_ghost s) lo cnt false) (set_range (sg_fresh s) lo cnt false), z).

(* mi_segment_page_clear: page->is_zero_init = false; the rest of the descriptor is zeroed *)
Definition seg_page_clear (s : segment) (lo : N) : segment :=
  mkSeg (sg_memid s) (sg_huge s) (sg_slices s) (sg_info s) (sg_hdr_zero s) (upd (sg_izi s) lo false) (sg_ghost s) (sg_fresh s).

(* mi_segment_purge of free slices: no flag; the memory reads zero afterwards (pz) or is unchanged *)
Definition seg_purge (s : segment) (lo cnt : N) (pz : bool) : segment :=
  mkSeg (sg_memid s) (sg_huge s) (sg_slices s) (sg_info s) (sg_hdr_zero s) (sg_izi s)
        (if pz then set_range (sg_ghost s) lo cnt true else sg_ghost s) (sg_fresh s).

(* _mi_page_malloc_zero (non-empty free list), and the huge case of _mi_malloc_generic *)
Definition zp_malloc (z : zpage) (zero : bool) : option (N * zpage) :=
  match page_malloc (zp_page z) with
  | None => None
  | Some (b, p') =>
    let g := zp_ghost z b in
    let g' := if zero then
                if zp_huge z then bg_zero                                       (* page.c:1030-1032 *)
                else if free_is_zero (zp_page z) then mkBg true (g_rest g)      (* alloc.c:68  block->next = 0 *)
                else bg_zero                                                    (* alloc.c:72  memzero(block, block_size) *)
              else g in
    Some (b, zp_set z p' (upd (zp_ghost z) b g'))
  end.

(* mi_free_block_local / a completed remote push: the link is stored in the block's first word *)
Definition zp_free_local (z : zpage) (b : N) : option zpage :=
  if memN b (page_live (zp_page z))
  then Some (zp_set z (page_free_local (zp_page z) b) (upd (zp_ghost z) b (mkBg false (g_rest (zp_ghost z b)))))
  else None.
Definition zp_remote_free (z : zpage) (b : N) : option zpage :=
  if memN b (page_live (zp_page z))
  then Some (zp_set z (page_remote_free (zp_page z) b) (upd (zp_ghost z) b (mkBg false (g_rest (zp_ghost z b)))))
  else None.
(* _mi_page_free_collect: the lists are spliced by rewriting the link of the last block of thread_free
   (_mi_page_thread_free_collect) and of local_free (the forced append): a link word of a listed block that happened
   to be zero (the NULL link of a last element) need not be afterwards *)
Definition zp_collect (z : zpage) (force : bool) : zpage :=
  let p := zp_page z in
  zp_set z (fst (page_free_collect p force))
         (fun i => if memN i (local_free p ++ thread_free p) then mkBg false (g_rest (zp_ghost z i)) else zp_ghost z i).
(* a program store into live block b: into its first word (w0) and / or behind it (rest) *)
Definition zp_write (z : zpage) (b : N) (w0 rest : bool) : option zpage :=
  if memN b (page_live (zp_page z))
  then Some (zp_set z (zp_page z) (upd (zp_ghost z) b (mkBg (g_w0 (zp_ghost z b) && negb w0) (g_rest (zp_ghost z b) && negb rest))))
  else None.

(* ---------------------------------------------------------------- the composed state machine *)
Record state := mkSt {
  st_arenas : list arena;
  st_raws   : list (N * raw);
  st_segs   : list (N * segment);
  st_pages  : list (N * zpage)
}.
Definition init : state := mkSt [] [] [] [].

(* where _mi_arena_alloc_aligned takes the memory from: an arena (block index = the search's answer) or the OS *)
Inductive source :=
| SrcArena (a b0 n : N) (commit cok cz : bool)
| SrcOs (commit osz : bool).           (* _mi_os_alloc_aligned(_at_offset): initially_zero := the primitive's is_zero *)

Inductive op :=
| OArenaNew (nblocks : N) (zero pinned committed gz : bool)   (* mi_manage_os_memory_ex / mi_reserve_os_memory_ex *)
| ORawAlloc (rid : N) (src : source)                          (* _mi_arena_alloc_aligned used directly *)
| ORawWrite (rid : N)                                         (* the holder stores into it *)
| ORawFree (rid : N) (all_committed : bool)                   (* _mi_arena_free *)
| OArenaPurge (a b0 n : N) (pz dec : bool)                    (* mi_arena_purge *)
| OSegAlloc (sid : N) (src : source) (huge : bool) (nslices info : N) (cok2 junk : bool)   (* mi_segment_os_alloc + mi_segment_alloc *)
| OSegFree (sid : N) (all_committed : bool)                   (* mi_segment_free / mi_segment_os_free *)
| OSegPurge (sid lo cnt : N) (pz : bool)                      (* mi_segment_purge on free slices *)
| OPageAlloc (pid sid lo cnt bsize psize : N) (cok : bool)    (* mi_segments_page_alloc / huge page + mi_page_init *)
| OPageFree (pid : N)                                         (* _mi_segment_page_free -> mi_segment_page_clear *)
| OMalloc (pid : N) (zero : bool)
| OExtend (pid : N)
| OCollect (pid : N) (force : bool)
| OFree (pid b : N)
| ORemoteFree (pid b : N)
| OWrite (pid b : N) (w0 rest : bool).

Inductive out := OutNone | OutFail | OutMem (m : memid) | OutBlock (b : N).

Definition with_arenas (st : state) (l : list arena) : state := mkSt l (st_raws st) (st_segs st) (st_pages st).
Definition with_raws (st : state) (l : list (N * raw)) : state := mkSt (st_arenas st) l (st_segs st) (st_pages st).
Definition with_segs (st : state) (l : list (N * segment)) : state := mkSt (st_arenas st) (st_raws st) l (st_pages st).
Definition with_pages (st : state) (l : list (N * zpage)) : state := mkSt (st_arenas st) (st_raws st) (st_segs st) l.

Definition alloc_src (st : state) (src : source) : option (state * memid * bool) :=
  match src with
  | SrcArena a b0 n commit cok cz =>
    match nth_error (st_arenas st) (N.to_nat a) with
    | None => None
    | Some ar =>
      match arena_try_alloc_at a ar b0 n commit cok cz with
      | None => None
      | Some (m, gz, ar') => Some (with_arenas st (lset (st_arenas st) (N.to_nat a) ar'), m, gz)
      end
    end
  | SrcOs commit osz => Some (st, mkMemid MemOs osz commit, osz)
  end.

(* _mi_arena_free: back to the arena, or munmap for OS memory *)
Definition free_mem (st : state) (m : memid) (all_committed : bool) : state :=
  match m_kind m with
  | MemArena a b0 n =>
    match nth_error (st_arenas st) (N.to_nat a) with
    | None => st
    | Some ar => with_arenas st (lset (st_arenas st) (N.to_nat a) (arena_free ar b0 n all_committed))
    end
  | MemOs => st
  end.

(* no live page of segment sid overlaps [lo, lo+cnt) *)
Definition span_unused (st : state) (sid lo cnt : N) : bool :=
  forallb (fun kz => let z := snd kz in negb (zp_seg z =? sid) || (zp_lo z + zp_cnt z <=? lo) || (lo + cnt <=? zp_lo z)) (st_pages st).
Definition seg_no_pages (st : state) (sid : N) : bool :=
  forallb (fun kz => negb (zp_seg (snd kz) =? sid)) (st_pages st).

Definition on_page (st : state) (pid : N) (f : zpage -> option (zpage * out)) : option (state * out) :=
  match aget pid (st_pages st) with
  | None => None
  | Some z => match f z with
              | None => None
              | Some (z', r) => Some (with_pages st (aset pid z' (st_pages st)), r)
              end
  end.

(* None = the operation is not enabled in this state (an illegal oracle answer, a store into memory the program
   does not hold, a free of a block that is not live, ...), which is different from the operation FAILING (OutFail) *)
Definition step (v : variant) (st : state) (o : op) : option (state * out) :=
  match o with
  | OArenaNew nblocks zero pinned committed gz =>
    if (nblocks =? 0) || (zero && negb gz) then None
    else Some (with_arenas st (st_arenas st ++ [arena_new nblocks zero pinned committed gz]), OutNone)
  | ORawAlloc rid src =>
    match aget rid (st_raws st) with
    | Some _ => None
    | None => match alloc_src st src with
              | None => None
              | Some (st1, m, gz) => Some (with_raws st1 (aset rid (mkRaw m gz true) (st_raws st1)), OutMem m)
              end
    end
  | ORawWrite rid =>
    match aget rid (st_raws st) with
    | None => None
    | Some r => Some (with_raws st (aset rid (mkRaw (rw_memid r) false false) (st_raws st)), OutNone)
    end
  | ORawFree rid allc =>
    match aget rid (st_raws st) with
    | None => None
    | Some r => let st1 := free_mem st (rw_memid r) allc in
                Some (with_raws st1 (adel rid (st_raws st1)), OutNone)
    end
  | OArenaPurge a b0 n pz dec =>
    match nth_error (st_arenas st) (N.to_nat a) with
    | None => None
    | Some ar => match arena_purge ar b0 n pz dec with
                 | None => None
                 | Some ar' => Some (with_arenas st (lset (st_arenas st) (N.to_nat a) ar'), OutNone)
                 end
    end
  | OSegAlloc sid src huge nslices info cok2 junk =>
    match aget sid (st_segs st) with
    | Some _ => None
    | None =>
      if (info =? 0) || (nslices <? info) then None else
      match alloc_src st src with
      | None => None
      | Some (st1, m, gz) =>
        (* mi_segment_os_alloc: memory that is not committed gets (at least) its header committed; a refusal
           gives the memory back (_mi_arena_free(segment, segment_size, 0, memid)) *)
        if negb (m_committed m) && negb cok2 then Some (free_mem st1 m false, OutFail)
        else Some (with_segs st1 (aset sid (seg_init m gz huge nslices info junk) (st_segs st1)), OutMem m)
      end
    end
  | OSegFree sid allc =>
    match aget sid (st_segs st) with
    | None => None
    | Some s => if seg_no_pages st sid
                then let st1 := free_mem st (sg_memid s) allc in Some (with_segs st1 (adel sid (st_segs st1)), OutNone)
                else None
    end
  | OSegPurge sid lo cnt pz =>
    match aget sid (st_segs st) with
    | None => None
    | Some s => if span_unused st sid lo cnt && (sg_info s <=? lo)
                then Some (with_segs st (aset sid (seg_purge s lo cnt pz) (st_segs st)), OutNone)
                else None
    end
  | OPageAlloc pid sid lo cnt bsize psize cok =>
    match aget pid (st_pages st), aget sid (st_segs st) with
    | None, Some s =>
      if span_unused st sid lo cnt then
        match page_alloc v sid s lo cnt bsize psize with
        | None => None
        | Some (s', z) =>
          if cok then Some (with_pages (with_segs st (aset sid s' (st_segs st))) (aset pid z (st_pages st)), OutNone)
          else Some (st, OutFail)                       (* mi_segment_ensure_committed failed: nothing changed *)
        end
      else None
    | _, _ => None
    end
  | OPageFree pid =>
    match aget pid (st_pages st) with
    | None => None
    | Some z =>
      if page_all_free (zp_page z) then
        let segs' := match aget (zp_seg z) (st_segs st) with
                     | Some s => aset (zp_seg z) (seg_page_clear s (zp_lo z)) (st_segs st)
                     | None => st_segs st
                     end in
        Some (with_pages (with_segs st segs') (adel pid (st_pages st)), OutNone)
      else None
    end
  | OMalloc pid zero =>
    on_page st pid (fun z => match zp_malloc z zero with Some (b, z') => Some (z', OutBlock b) | None => None end)
  | OExtend pid => on_page st pid (fun z => Some (zp_extend z, OutNone))
  | OCollect pid force => on_page st pid (fun z => Some (zp_collect z force, OutNone))
  | OFree pid b => on_page st pid (fun z => match zp_free_local z b with Some z' => Some (z', OutNone) | None => None end)
  | ORemoteFree pid b => on_page st pid (fun z => match zp_remote_free z b with Some z' => Some (z', OutNone) | None => None end)
  | OWrite pid b w0 rest => on_page st pid (fun z => match zp_write z b w0 rest with Some z' => Some (z', OutNone) | None => None end)
  end.

Fixpoint run (v : variant) (st : state) (ops : list op) : option state :=
  match ops with
  | [] => Some st
  | o :: r => match step v st o with Some (st', _) => run v st' r | None => None end
  end.

(* ---------------------------------------------------------------- boolean checks (used by the replay driver and the examples) *)
(* K1 / K3 of ZeroProofs.page_know on the blocks below `reserved` *)
Definition page_know_b (z : zpage) : bool :=
  let p := zp_page z in
  (negb (free_is_zero p) || is_zero_init p) &&
  (negb (free_is_zero p) || forallb (fun b => g_rest (zp_ghost z b)) (free p)) &&
  (negb (is_zero_init p) || all_in (fun b => bg_all (zp_ghost z b)) (capacity p) (reserved p - capacity p)).
Definition arena_know_b (a : arena) : bool :=
  negb (ar_zero a) || all_in (fun i => ar_dirty a i || ar_ghost a i) 0 (ar_nblocks a).
Definition seg_know_b (s : segment) : bool :=
  sg_hdr_zero s && all_in (fun k => negb (sg_izi s k)) 0 (sg_slices s) &&
  (negb (m_zero (sg_memid s)) || all_in (fun k => negb (sg_fresh s k) || sg_ghost s k) 0 (sg_slices s)).
Definition raw_know_b (r : raw) : bool := negb (m_zero (rw_memid r)) || negb (rw_fresh r) || rw_ghost r.
Definition know_b (st : state) : bool :=
  forallb arena_know_b (st_arenas st) && forallb (fun kr => raw_know_b (snd kr)) (st_raws st) &&
  forallb (fun ks => seg_know_b (snd ks)) (st_segs st) && forallb (fun kz => page_know_b (snd kz)) (st_pages st).

(* a block handed out by a zeroing allocation whose ghost is not zero: what the C04c variant produces *)
Definition zalloc_ghost_zero (st : state) (pid b : N) : bool :=
  match aget pid (st_pages st) with Some z => bg_all (zp_ghost z b) | None => false end.
