(* Model of the lock-free bitmap of mimalloc (src/bitmap.c, src/bitmap.h) as used for the
   `blocks_inuse` bitmap of an arena (src/arena.c).  64-bit configuration, MI_HAVE_FAST_BITSCAN.
   A bitmap is a `list N`, one element per `mi_bitmap_field_t` (field index first, every field
   below 2^64).  A `mi_bitmap_index_t` is the flat number `idx*64 + bitidx` as in
   `mi_bitmap_index_create`.  No proofs in this file.

   Layer 1 (sequential, one Gallina function per C function, in the order of bitmap.c):
     bitmap.h : mi_bitmap_index_create(_ex/_from_bit), mi_bitmap_index_field,
                mi_bitmap_index_bit_in_field, mi_bitmap_index_bit
     bitmap.c : mi_bitmap_mask_, _mi_bitmap_try_find_claim_field, _mi_bitmap_try_find_from_claim,
                _mi_bitmap_try_find_from_claim_pred, _mi_bitmap_unclaim, _mi_bitmap_claim,
                mi_bitmap_is_claimedx, _mi_bitmap_try_claim, _mi_bitmap_is_claimed,
                _mi_bitmap_is_any_claimed, mi_bitmap_try_find_claim_field_across,
                _mi_bitmap_try_find_from_claim_across, mi_bitmap_mask_across,
                _mi_bitmap_unclaim_across, _mi_bitmap_claim_across, mi_bitmap_is_claimedx_across,
                _mi_bitmap_is_claimed_across, _mi_bitmap_is_any_claimed_across
     arena.c  : the `post` pre-claim of mi_manage_os_memory_ex2 (arena_init)
   In the sequential layer a strong CAS succeeds exactly when the field holds the expected value.

   Layer 2 (small-step interleaving semantics): one transition per atomic load / CAS / store /
   fetch-and of the operations
     OpClaim start count : _mi_bitmap_try_find_from_claim_across (incl. the delegated single-field
                           CAS loop, the scan-ahead loads, initial / intermediate / final CAS, the
                           three rollback shapes, `retries <= 2`, the outer loop with wrap-around)
     OpFree start count  : _mi_bitmap_unclaim_across on a completed claim (as in _mi_arena_free)
     OpPurge bidx len    : the temporary claim of mi_arena_try_purge: _mi_bitmap_try_claim with
                           decreasing length, then _mi_bitmap_unclaim
   All CAS operations of bitmap.c are `mi_atomic_cas_strong_acq_rel`: a CAS fails only when the
   field differs from the expected value (no spurious failure).  Ghost state: the pool of completed
   claims (tagged with the claiming thread) and, per thread, the bits held by the operation in
   progress (a function of its program counter, `held`). *)
From Coq Require Import NArith PeanoNat List Bool.
From MiV Require Import Gen.Consts Model.Arith.
Import ListNotations.
Local Open Scope N_scope.
Local Open Scope bool_scope.

(* ------------------------------------------------------------------------------------------ *)
(* bitmap.h                                                                                    *)
(* ------------------------------------------------------------------------------------------ *)

Definition FULL : N := MI_BITMAP_FIELD_FULL.            (* MI_BITMAP_FIELD_FULL = ~0 *)

Definition index_create (idx bitidx : N) : N := idx * 64 + bitidx.   (* mi_bitmap_index_create(_ex) *)
Definition index_create_from_bit (full_bitidx : N) : N := index_create (full_bitidx / 64) (full_bitidx mod 64).
Definition index_field (bitmap_idx : N) : N := bitmap_idx / 64.      (* mi_bitmap_index_field *)
Definition index_bit_in_field (bitmap_idx : N) : N := bitmap_idx mod 64.
Definition index_bit (bitmap_idx : N) : N := bitmap_idx.             (* mi_bitmap_index_bit *)

(* field access: bitmap[idx]; out-of-range reads give 0 and out-of-range writes are dropped
   (never happens under the preconditions, the theorems state them) *)
Definition getf (bm : list N) (i : N) : N := nth (N.to_nat i) bm 0.
Fixpoint setf_nat (bm : list N) (n : nat) (v : N) : list N :=
  match bm, n with
  | [], _ => []
  | _ :: r, O => v :: r
  | x :: r, S k => x :: setf_nat r k v
  end.
Definition setf (bm : list N) (i v : N) : list N := setf_nat bm (N.to_nat i) v.

(* population count of a field (mi_popcount) *)
Fixpoint popcount_pos (p : positive) : N :=
  match p with xH => 1 | xO q => popcount_pos q | xI q => 1 + popcount_pos q end.
Definition popcount (x : N) : N := match x with N0 => 0 | Npos p => popcount_pos p end.

(* ------------------------------------------------------------------------------------------ *)
(* bitmap.c, sequential layer                                                                  *)
(* ------------------------------------------------------------------------------------------ *)

(* mi_bitmap_mask_ : ((1 << count) - 1) << bitidx on size_t *)
Definition mask_ (count bitidx : N) : N :=
  if 64 <=? count then FULL
  else if count =? 0 then 0
  else wrap (N.shiftl (N.ones count) bitidx).

(* the scan loop of _mi_bitmap_try_find_claim_field from the current (bitidx, m) on the loaded
   `map`: Some (bitidx, m) when the loop reaches the CAS (the mask bits are free at bitidx),
   None when the loop ends without a candidate.  bitidx grows in every round, 65 rounds suffice. *)
Fixpoint scan_field (fuel : nat) (count map bitidx m : N) : option (N * N) :=
  match fuel with
  | O => None
  | S f =>
    if bitidx <=? 64 - count then                       (* while (bitidx <= bitidx_max) *)
      let mapm := N.land map m in
      if mapm =? 0 then Some (bitidx, m)                (* are the mask bits free at bitidx? *)
      else
        let shift := if count =? 1 then 1 else 64 - clz mapm - bitidx in
        scan_field f count map (bitidx + shift) (wrap (N.shiftl m shift))
    else None
  end.
Definition SCAN_FUEL : nat := 65.

(* _mi_bitmap_try_find_claim_field : (Some bitmap_idx | None, bitmap after) *)
Definition try_find_claim_field (bm : list N) (idx count : N) : option N * list N :=
  let map := getf bm idx in
  if map =? FULL then (None, bm)                        (* short cut *)
  else
    let mask := mask_ count 0 in
    let bitidx := ctz (wnot map) in                     (* MI_HAVE_FAST_BITSCAN *)
    let m := wrap (N.shiftl mask bitidx) in
    match scan_field SCAN_FUEL count map bitidx m with
    | Some (bitidx, m) => (Some (index_create idx bitidx), setf bm idx (N.lor map m))
    | None => (None, bm)
    end.

(* _mi_bitmap_try_find_from_claim : for (visited = 0; visited < bitmap_fields; visited++, idx++) *)
Fixpoint find_from_loop (n : nat) (bm : list N) (fields idx count : N) : option N * list N :=
  match n with
  | O => (None, bm)
  | S k =>
    let idx := if fields <=? idx then 0 else idx in     (* wrap *)
    match try_find_claim_field bm idx count with
    | (Some r, bm') => (Some r, bm')
    | (None, bm') => find_from_loop k bm' fields (idx + 1) count
    end
  end.
Definition try_find_from_claim (bm : list N) (fields start count : N) : option N * list N :=
  find_from_loop (N.to_nat fields) bm fields start count.

(* _mi_bitmap_unclaim : atomic and; (all `count` bits were 1 previously?, bitmap after) *)
Definition unclaim (bm : list N) (fields count bitmap_idx : N) : bool * list N :=
  let idx := index_field bitmap_idx in
  let bitidx := index_bit_in_field bitmap_idx in
  let mask := mask_ count bitidx in
  let prev := getf bm idx in
  (N.land prev mask =? mask, setf bm idx (N.land prev (wnot mask))).

(* _mi_bitmap_try_find_from_claim_pred, the predicate is a function argument *)
Fixpoint find_from_pred_loop (n : nat) (bm : list N) (fields idx count : N) (pred : N -> bool)
  : option N * list N :=
  match n with
  | O => (None, bm)
  | S k =>
    let idx := if fields <=? idx then 0 else idx in
    match try_find_claim_field bm idx count with
    | (Some r, bm') =>
        if pred r then (Some r, bm')
        else find_from_pred_loop k (snd (unclaim bm' fields count r)) fields (idx + 1) count pred
    | (None, bm') => find_from_pred_loop k bm' fields (idx + 1) count pred
    end
  end.
Definition try_find_from_claim_pred (bm : list N) (fields start count : N) (pred : N -> bool)
  : option N * list N :=
  find_from_pred_loop (N.to_nat fields) bm fields start count pred.

(* _mi_bitmap_claim : atomic or; ((all_zero, any_zero), bitmap after) *)
Definition claim (bm : list N) (fields count bitmap_idx : N) : (bool * bool) * list N :=
  let idx := index_field bitmap_idx in
  let bitidx := index_bit_in_field bitmap_idx in
  let mask := mask_ count bitidx in
  let prev := getf bm idx in
  ((N.land prev mask =? 0, negb (N.land prev mask =? mask)), setf bm idx (N.lor prev mask)).

(* mi_bitmap_is_claimedx : (all ones, any ones) *)
Definition is_claimedx (bm : list N) (fields count bitmap_idx : N) : bool * bool :=
  let idx := index_field bitmap_idx in
  let bitidx := index_bit_in_field bitmap_idx in
  let mask := mask_ count bitidx in
  let field := getf bm idx in
  (N.land field mask =? mask, negb (N.land field mask =? 0)).

(* _mi_bitmap_try_claim : sequentially the first CAS succeeds *)
Definition try_claim (bm : list N) (fields count bitmap_idx : N) : bool * list N :=
  let idx := index_field bitmap_idx in
  let bitidx := index_bit_in_field bitmap_idx in
  let mask := mask_ count bitidx in
  let expected := getf bm idx in
  if negb (N.land expected mask =? 0) then (false, bm)
  else (true, setf bm idx (N.lor expected mask)).

Definition is_claimed (bm : list N) (fields count bitmap_idx : N) : bool :=
  fst (is_claimedx bm fields count bitmap_idx).
Definition is_any_claimed (bm : list N) (fields count bitmap_idx : N) : bool :=
  snd (is_claimedx bm fields count bitmap_idx).

(* ---- the _across functions ---- *)

(* the scan-ahead loop of mi_bitmap_try_find_claim_field_across from field j with `found` zeros so
   far: Some (index of the final field, final mask) or None when a part is already claimed *)
Fixpoint scan_ahead (fuel : nat) (bm : list N) (j found count : N) : option (N * N) :=
  match fuel with
  | O => None
  | S k =>
    let map := getf bm j in
    let mask_bits := if found + 64 <=? count then 64 else count - found in
    let mask := mask_ mask_bits 0 in
    if negb (N.land map mask =? 0) then None            (* some part is already claimed *)
    else
      let found := found + mask_bits in
      if found <? count then scan_ahead k bm (j + 1) found count else Some (j, mask)
  end.

(* intermediate fields j .. j+n-1: CAS 0 -> FULL; (Some f, _) = the CAS on field f failed *)
Fixpoint claim_mid (n : nat) (bm : list N) (j : N) : option N * list N :=
  match n with
  | O => (None, bm)
  | S k => if getf bm j =? 0 then claim_mid k (setf bm j FULL) (j + 1) else (Some j, bm)
  end.

(* rollback of the intermediate fields j, j-1, .. (n of them): store 0 *)
Fixpoint rollback_mid (n : nat) (bm : list N) (j : N) : list N :=
  match n with
  | O => bm
  | S k => rollback_mid k (setf bm j 0) (j - 1)
  end.

(* the code after `rollback:` when the claim of field f failed *)
Definition rollback (bm : list N) (idx f initial_mask : N) : list N :=
  if f =? idx then bm                                   (* failed on the initial field *)
  else
    let bm1 := rollback_mid (N.to_nat (f - 1 - idx)) bm (f - 1) in
    let map := getf bm1 idx in
    setf bm1 idx (N.land map (wnot initial_mask)).

(* the claim part (initial, intermediate, final field); (claimed?, bitmap after) *)
Definition claim_range (bm : list N) (idx final initial_mask final_mask : N) : bool * list N :=
  let map := getf bm idx in
  if negb (N.land map initial_mask =? 0) then (false, rollback bm idx idx initial_mask)
  else
    let bm1 := setf bm idx (N.lor map initial_mask) in
    match claim_mid (N.to_nat (final - idx - 1)) bm1 (idx + 1) with
    | (Some f, bm2) => (false, rollback bm2 idx f initial_mask)
    | (None, bm2) =>
        let map := getf bm2 final in
        if negb (N.land map final_mask =? 0) then (false, rollback bm2 idx final initial_mask)
        else (true, setf bm2 final (N.lor map final_mask))
    end.

(* mi_bitmap_try_find_claim_field_across; `tries` bounds the recursive retry calls (retries <= 2) *)
Fixpoint try_find_claim_field_across (tries : nat) (bm : list N) (fields idx count retries : N)
  : option N * list N :=
  let map := getf bm idx in
  let initial := clz map in
  if initial =? 0 then (None, bm)
  else if count <=? initial then try_find_claim_field bm idx count
  else if fields - idx <=? divide_up (count - initial) 64 then (None, bm)   (* not enough entries *)
  else
    match scan_ahead (N.to_nat fields) bm (idx + 1) initial count with
    | None => (None, bm)
    | Some (final, final_mask) =>
        let initial_idx := 64 - initial in
        let initial_mask := mask_ initial initial_idx in
        match claim_range bm idx final initial_mask final_mask with
        | (true, bm') => (Some (index_create idx initial_idx), bm')
        | (false, bm') =>
            if retries <=? 2 then
              match tries with
              | O => (None, bm')
              | S k => try_find_claim_field_across k bm' fields idx count (retries + 1)
              end
            else (None, bm')
        end
    end.
Definition ACROSS_TRIES : nat := 3.

(* _mi_bitmap_try_find_from_claim_across *)
Fixpoint find_from_across_loop (n : nat) (bm : list N) (fields idx count : N) : option N * list N :=
  match n with
  | O => (None, bm)
  | S k =>
    let idx := if fields <=? idx then 0 else idx in
    match try_find_claim_field_across ACROSS_TRIES bm fields idx count 0 with
    | (Some r, bm') => (Some r, bm')
    | (None, bm') => find_from_across_loop k bm' fields (idx + 1) count
    end
  end.
Definition try_find_from_claim_across (bm : list N) (fields start count : N) : option N * list N :=
  if count <=? 2 then try_find_from_claim bm fields start count
  else find_from_across_loop (N.to_nat fields) bm fields start count.

(* mi_bitmap_mask_across : (pre_mask, mid_mask, post_mask, mid_count) *)
Definition mask_across (bitmap_idx fields count : N) : N * N * N * N :=
  let bitidx := index_bit_in_field bitmap_idx in
  if bitidx + count <=? 64 then (mask_ count bitidx, 0, 0, 0)
  else
    let pre_bits := 64 - bitidx in
    let pre_mask := mask_ pre_bits bitidx in
    let count := count - pre_bits in
    let mid_count := count / 64 in
    let count := count mod 64 in
    (pre_mask, FULL, (if count =? 0 then 0 else mask_ count 0), mid_count).

(* _mi_bitmap_unclaim_across *)
Fixpoint unclaim_mid (n : nat) (bm : list N) (j mid_mask : N) (all_one : bool) : bool * list N :=
  match n with
  | O => (all_one, bm)
  | S k =>
    let prev := getf bm j in
    unclaim_mid k (setf bm j (N.land prev (wnot mid_mask))) (j + 1) mid_mask
                (all_one && (N.land prev mid_mask =? mid_mask))
  end.
Definition unclaim_across (bm : list N) (fields count bitmap_idx : N) : bool * list N :=
  let idx := index_field bitmap_idx in
  let '(pre_mask, mid_mask, post_mask, mid_count) := mask_across bitmap_idx fields count in
  let prev := getf bm idx in
  let all_one := N.land prev pre_mask =? pre_mask in
  let bm1 := setf bm idx (N.land prev (wnot pre_mask)) in
  let '(all_one, bm2) := unclaim_mid (N.to_nat mid_count) bm1 (idx + 1) mid_mask all_one in
  if negb (post_mask =? 0) then
    let j := idx + 1 + mid_count in
    let prev := getf bm2 j in
    (all_one && (N.land prev post_mask =? post_mask), setf bm2 j (N.land prev (wnot post_mask)))
  else (all_one, bm2).

(* _mi_bitmap_claim_across : ((all_zero, any_zero, already_set), bitmap after) *)
Fixpoint claim_across_mid (n : nat) (bm : list N) (j mid_mask : N) (all_zero any_zero : bool) (one_count : N)
  : (bool * bool * N) * list N :=
  match n with
  | O => ((all_zero, any_zero, one_count), bm)
  | S k =>
    let prev := getf bm j in
    let pm := N.land prev mid_mask in
    claim_across_mid k (setf bm j (N.lor prev mid_mask)) (j + 1) mid_mask
      (all_zero && (pm =? 0)) (any_zero || negb (pm =? mid_mask))
      (if pm =? 0 then one_count else one_count + popcount pm)
  end.
Definition claim_across (bm : list N) (fields count bitmap_idx : N) : (bool * bool * N) * list N :=
  let idx := index_field bitmap_idx in
  let '(pre_mask, mid_mask, post_mask, mid_count) := mask_across bitmap_idx fields count in
  let prev := getf bm idx in
  let pm := N.land prev pre_mask in
  let all_zero := pm =? 0 in
  let one_count := if pm =? 0 then 0 else popcount pm in
  let any_zero := negb (pm =? pre_mask) in
  let bm1 := setf bm idx (N.lor prev pre_mask) in
  let '((all_zero, any_zero, one_count), bm2) :=
      claim_across_mid (N.to_nat mid_count) bm1 (idx + 1) mid_mask all_zero any_zero one_count in
  if negb (post_mask =? 0) then
    let j := idx + 1 + mid_count in
    let prev := getf bm2 j in
    let pm := N.land prev post_mask in
    ((all_zero && (pm =? 0), any_zero || negb (pm =? post_mask),
      if pm =? 0 then one_count else one_count + popcount pm),
     setf bm2 j (N.lor prev post_mask))
  else ((all_zero, any_zero, one_count), bm2).

(* mi_bitmap_is_claimedx_across : (all_ones, any_ones, already_set) *)
Fixpoint is_claimedx_mid (n : nat) (bm : list N) (j mid_mask : N) (all_ones any_ones : bool) (one_count : N)
  : bool * bool * N :=
  match n with
  | O => (all_ones, any_ones, one_count)
  | S k =>
    let pm := N.land (getf bm j) mid_mask in
    is_claimedx_mid k bm (j + 1) mid_mask (all_ones && (pm =? mid_mask)) (any_ones || negb (pm =? 0))
      (if pm =? 0 then one_count else one_count + popcount pm)
  end.
Definition is_claimedx_across (bm : list N) (fields count bitmap_idx : N) : bool * bool * N :=
  let idx := index_field bitmap_idx in
  let '(pre_mask, mid_mask, post_mask, mid_count) := mask_across bitmap_idx fields count in
  let pm := N.land (getf bm idx) pre_mask in
  let '(all_ones, any_ones, one_count) :=
      is_claimedx_mid (N.to_nat mid_count) bm (idx + 1) mid_mask (pm =? pre_mask) (negb (pm =? 0))
                      (if pm =? 0 then 0 else popcount pm) in
  if negb (post_mask =? 0) then
    let pm := N.land (getf bm (idx + 1 + mid_count)) post_mask in
    (all_ones && (pm =? post_mask), any_ones || negb (pm =? 0),
     if pm =? 0 then one_count else one_count + popcount pm)
  else (all_ones, any_ones, one_count).

Definition is_claimed_across (bm : list N) (fields count bitmap_idx : N) : bool * N :=
  let '(a, _, n) := is_claimedx_across bm fields count bitmap_idx in (a, n).
Definition is_any_claimed_across (bm : list N) (fields count bitmap_idx : N) : bool :=
  let '(_, a, _) := is_claimedx_across bm fields count bitmap_idx in a.

(* src/arena.c mi_manage_os_memory_ex2: the in-use bitmap of a new arena of `bcount` blocks:
   fields = _mi_divide_up(bcount, 64), all zero, then the `post` left-over bits of the last field
   are claimed with _mi_bitmap_claim *)
Definition arena_fields (bcount : N) : N := divide_up bcount 64.
Definition arena_init (bcount : N) : list N :=
  let fields := arena_fields bcount in
  let bm0 := repeat 0 (N.to_nat fields) in
  let post := fields * 64 - bcount in
  if 0 <? post then snd (claim bm0 fields post (index_create (fields - 1) (64 - post))) else bm0.

(* observations used by the specifications *)
Definition bm_bit (bm : list N) (p : N) : bool := N.testbit (getf bm (p / 64)) (p mod 64).
Fixpoint all_below (n : nat) (f : N -> bool) : bool :=       (* f 0 && .. && f (n-1) *)
  match n with O => true | S k => f (N.of_nat k) && all_below k f end.
Fixpoint count_below (n : nat) (f : N -> bool) : N :=        (* #{ i < n | f i } *)
  match n with O => 0 | S k => (if f (N.of_nat k) then 1 else 0) + count_below k f end.
(* the `count` bits from flat position p are all zero and inside the bitmap *)
Definition zero_run_at (bm : list N) (p count : N) : bool :=
  (p + count <=? 64 * N.of_nat (length bm)) && all_below (N.to_nat count) (fun k => negb (bm_bit bm (p + k))).
Definition zero_bits (bm : list N) : N :=
  count_below (length bm * 64)%nat (fun p => negb (bm_bit bm p)).

(* ------------------------------------------------------------------------------------------ *)
(* Layer 2: small-step interleaving semantics                                                  *)
(* ------------------------------------------------------------------------------------------ *)

Inductive op :=
| OpClaim (start count : N)     (* _mi_bitmap_try_find_from_claim_across(bm, fields, start, count, &idx) *)
| OpFree (start count : N)      (* _mi_bitmap_unclaim_across(bm, fields, count, start) of a completed claim *)
| OpPurge (bitmap_idx len : N). (* mi_arena_try_purge: while(len>0){ if try_claim(len) break; len--; } .. unclaim *)

(* locals of a find-and-claim operation *)
Record clocals := mkCL {
  cl_count : N;      (* count *)
  cl_visited : N;    (* loop counter of the outer for-loop *)
  cl_idx : N;        (* idx of the outer loop = field of the current attempt *)
  cl_retries : N;    (* retries of mi_bitmap_try_find_claim_field_across *)
  cl_initial : N;    (* initial = mi_clz(map) *)
  cl_final : N;      (* index of final_field *)
  cl_fmask : N       (* final_mask *)
}.
(* locals of _mi_bitmap_unclaim_across *)
Record ulocals := mkUL {
  ul_start : N; ul_count : N;          (* bitmap_idx, count *)
  ul_pre : N; ul_mid : N; ul_post : N  (* pre_mask, mid_mask, post_mask *)
}.

(* program counter = the NEXT atomic access of the thread, with the locals that are live there *)
Inductive pc :=
| Idle
(* _mi_bitmap_try_find_claim_field *)
| FLoad (l : clocals)                          (* map = load(field) *)
| FCas (l : clocals) (map bitidx m : N)        (* cas_strong(field, &map, map | m) *)
(* mi_bitmap_try_find_claim_field_across *)
| ALoad (l : clocals)                          (* map = load(field); initial = clz(map) *)
| AScan (l : clocals) (j found : N)            (* scan ahead: map = load(bitmap[j]) *)
| AInitLoad (l : clocals)                      (* map = load(initial_field) *)
| AInitCas (l : clocals) (map : N)             (* cas_strong(initial_field, &map, map | initial_mask) *)
| AMidCas (l : clocals) (j : N)                (* map = 0; cas_strong(bitmap[j], &map, FULL) *)
| AFinalLoad (l : clocals)                     (* map = load(final_field) *)
| AFinalCas (l : clocals) (map : N)            (* cas_strong(final_field, &map, map | final_mask) *)
| ARollStore (l : clocals) (j : N)             (* rollback: store_release(bitmap[j], 0) *)
| ARollInitLoad (l : clocals)                  (* rollback: map = load(initial_field) *)
| ARollInitCas (l : clocals) (map : N)         (* rollback: cas_strong(initial_field, &map, map & ~initial_mask) *)
(* _mi_bitmap_unclaim_across *)
| UPre (u : ulocals)                           (* prev = fetch_and(field++, ~pre_mask) *)
| UMid (u : ulocals) (j k : N) (all_one : bool)  (* while(mid_count-- > 0) fetch_and(bitmap[j], ~mid_mask); k = mid_count *)
| UPost (u : ulocals) (j : N) (all_one : bool) (* fetch_and(bitmap[j], ~post_mask) *)
(* purger *)
| PLoad (bi len : N)                           (* _mi_bitmap_try_claim: expected = load(field) *)
| PCas (bi len expected : N)                   (* cas_strong(field, &expected, expected | mask) *)
| PUnclaim (bi len : N).                       (* _mi_bitmap_unclaim: fetch_and(field, ~mask) *)

(* ghost event of a transition: how the operation ended (GNone: still running) *)
Inductive gev :=
| GNone
| GClaimed (start count : N)    (* returned true, *bitmap_idx = start *)
| GClaimFailed                  (* returned false *)
| GFreed (all_one : bool)       (* _mi_bitmap_unclaim_across returned all_one *)
| GSkipped                      (* OpFree of a range that is not a completed claim: not executed *)
| GPurgeFailed                  (* no length could be claimed *)
| GPurged (len : N).            (* `len` bits were temporarily claimed and released again *)

(* continue the outer for-loop after the attempt at field cl_idx returned false *)
Definition attempt_pc (l : clocals) : pc := if cl_count l <=? 2 then FLoad l else ALoad l.
Definition next_field (fields : N) (l : clocals) : pc * gev :=
  let visited := cl_visited l + 1 in
  if visited <? fields then
    let idx := cl_idx l + 1 in
    let idx := if fields <=? idx then 0 else idx in      (* wrap *)
    (attempt_pc (mkCL (cl_count l) visited idx 0 0 0 0), GNone)
  else (Idle, GClaimFailed).

(* the while loop of _mi_bitmap_try_find_claim_field on `map` from (bitidx, m) up to the next CAS *)
Definition field_scan (fields : N) (l : clocals) (map bitidx m : N) : pc * gev :=
  match scan_field SCAN_FUEL (cl_count l) map bitidx m with
  | Some (bitidx, m) => (FCas l map bitidx m, GNone)
  | None => next_field fields l
  end.

Definition initial_idx (l : clocals) : N := 64 - cl_initial l.
Definition initial_mask (l : clocals) : N := mask_ (cl_initial l) (initial_idx l).

(* after the rollback: retry (recursive call with retries+1) or return false *)
Definition after_rollback (fields : N) (l : clocals) : pc * gev :=
  if cl_retries l <=? 2
  then (ALoad (mkCL (cl_count l) (cl_visited l) (cl_idx l) (cl_retries l + 1) 0 0 0), GNone)
  else next_field fields l.

(* `goto rollback` with `field` = bitmap[f] (or, from ARollStore, the loop `while (--field > initial_field)`) *)
Definition rollback_from (fields : N) (l : clocals) (f : N) : pc * gev :=
  if f =? cl_idx l then after_rollback fields l          (* failed on the initial field: nothing to undo *)
  else if f =? cl_idx l + 1 then (ARollInitLoad l, GNone)
  else (ARollStore l (f - 1), GNone).

Definition init_try (fields : N) (l : clocals) (map : N) : pc * gev :=
  if negb (N.land map (initial_mask l) =? 0) then rollback_from fields l (cl_idx l)
  else (AInitCas l map, GNone).
Definition after_claimed_field (l : clocals) (j : N) : pc :=   (* ++field < final_field ? *)
  if j + 1 <? cl_final l then AMidCas l (j + 1) else AFinalLoad l.
Definition final_try (fields : N) (l : clocals) (map : N) : pc * gev :=
  if negb (N.land map (cl_fmask l) =? 0) then rollback_from fields l (cl_final l)
  else (AFinalCas l map, GNone).

Definition u_next (u : ulocals) (j k : N) (all_one : bool) : pc * gev :=
  if 0 <? k then (UMid u j k all_one, GNone)
  else if negb (ul_post u =? 0) then (UPost u j all_one, GNone)
  else (Idle, GFreed all_one).

Definition p_mask (bi len : N) : N := mask_ len (index_bit_in_field bi).
Definition p_dec (bi len : N) : pc * gev :=               (* try_claim returned false: bitlen-- *)
  let len := len - 1 in
  if 0 <? len then (PLoad bi len, GNone) else (Idle, GPurgeFailed).
Definition p_try (bi len expected : N) : pc * gev :=
  if negb (N.land expected (p_mask bi len) =? 0) then p_dec bi len
  else (PCas bi len expected, GNone).

(* the field accessed by the next atomic operation *)
Definition access_field (p : pc) : N :=
  match p with
  | Idle => 0
  | FLoad l | FCas l _ _ _ | ALoad l | AInitLoad l | AInitCas l _ | ARollInitLoad l | ARollInitCas l _ => cl_idx l
  | AScan _ j _ | AMidCas _ j | ARollStore _ j => j
  | AFinalLoad l | AFinalCas l _ => cl_final l
  | UPre u => index_field (ul_start u)
  | UMid _ j _ _ | UPost _ j _ => j
  | PLoad bi _ | PCas bi _ _ | PUnclaim bi _ => index_field bi
  end.

(* one atomic access: v = the value of the accessed field; result: next pc, value written (if any),
   ghost event *)
Definition exec (fields : N) (p : pc) (v : N) : pc * option N * gev :=
  let ret (x : pc * gev) (w : option N) := (fst x, w, snd x) in
  match p with
  | Idle => (Idle, None, GNone)
  | FLoad l =>
      if v =? FULL then ret (next_field fields l) None
      else
        let bitidx := ctz (wnot v) in
        ret (field_scan fields l v bitidx (wrap (N.shiftl (mask_ (cl_count l) 0) bitidx))) None
  | FCas l map bitidx m =>
      if v =? map then (Idle, Some (N.lor map m), GClaimed (index_create (cl_idx l) bitidx) (cl_count l))
      else ret (field_scan fields l v bitidx m) None     (* `continue` with the updated map *)
  | ALoad l =>
      let initial := clz v in
      if initial =? 0 then ret (next_field fields l) None
      else if cl_count l <=? initial then (FLoad l, None, GNone)   (* _mi_bitmap_try_find_claim_field loads again *)
      else if fields - cl_idx l <=? divide_up (cl_count l - initial) 64 then ret (next_field fields l) None
      else (AScan (mkCL (cl_count l) (cl_visited l) (cl_idx l) (cl_retries l) initial 0 0) (cl_idx l + 1) initial, None, GNone)
  | AScan l j found =>
      let mask_bits := if found + 64 <=? cl_count l then 64 else cl_count l - found in
      let mask := mask_ mask_bits 0 in
      if negb (N.land v mask =? 0) then ret (next_field fields l) None
      else
        let found := found + mask_bits in
        if found <? cl_count l then (AScan l (j + 1) found, None, GNone)
        else (AInitLoad (mkCL (cl_count l) (cl_visited l) (cl_idx l) (cl_retries l) (cl_initial l) j mask), None, GNone)
  | AInitLoad l => ret (init_try fields l v) None
  | AInitCas l map =>
      if v =? map then (after_claimed_field l (cl_idx l), Some (N.lor map (initial_mask l)), GNone)
      else ret (init_try fields l v) None
  | AMidCas l j =>
      if v =? 0 then (after_claimed_field l j, Some FULL, GNone)
      else ret (rollback_from fields l j) None
  | AFinalLoad l => ret (final_try fields l v) None
  | AFinalCas l map =>
      if v =? map then (Idle, Some (N.lor map (cl_fmask l)), GClaimed (index_create (cl_idx l) (initial_idx l)) (cl_count l))
      else ret (final_try fields l v) None
  | ARollStore l j => ret (rollback_from fields l j) (Some 0)
  | ARollInitLoad l => (ARollInitCas l v, None, GNone)
  | ARollInitCas l map =>
      if v =? map then ret (after_rollback fields l) (Some (N.land map (wnot (initial_mask l))))
      else (ARollInitCas l v, None, GNone)
  | UPre u =>
      ret (u_next u (index_field (ul_start u) + 1)
                  (snd (mask_across (ul_start u) fields (ul_count u)))
                  (N.land v (ul_pre u) =? ul_pre u))
          (Some (N.land v (wnot (ul_pre u))))
  | UMid u j k all_one =>
      ret (u_next u (j + 1) (k - 1) (all_one && (N.land v (ul_mid u) =? ul_mid u)))
          (Some (N.land v (wnot (ul_mid u))))
  | UPost u j all_one =>
      (Idle, Some (N.land v (wnot (ul_post u))), GFreed (all_one && (N.land v (ul_post u) =? ul_post u)))
  | PLoad bi len => ret (p_try bi len v) None
  | PCas bi len expected =>
      if v =? expected then (PUnclaim bi len, Some (N.lor expected (p_mask bi len)), GNone)
      else ret (p_try bi len v) None
  | PUnclaim bi len => (Idle, Some (N.land v (wnot (p_mask bi len))), GPurged len)
  end.

(* ---- ghost ownership ---- *)

(* the flat bit range [fst, snd) held by the operation in progress at pc p *)
Definition astart (l : clocals) : N := 64 * cl_idx l + initial_idx l.
Definition held (p : pc) : N * N :=
  match p with
  | AMidCas l j => (astart l, 64 * j)
  | AFinalLoad l | AFinalCas l _ => (astart l, 64 * cl_final l)
  | ARollStore l j => (astart l, 64 * (j + 1))
  | ARollInitLoad l | ARollInitCas l _ => (astart l, 64 * (cl_idx l + 1))
  | UPre u => (ul_start u, ul_start u + ul_count u)
  | UMid u j _ _ | UPost u j _ => (64 * j, ul_start u + ul_count u)
  | PUnclaim bi len => (bi, bi + len)
  | _ => (0, 0)
  end.
Definition in_rng (r : N * N) (p : N) : bool := (fst r <=? p) && (p <? snd r).
Definition claim_rng (c : N * N) : N * N := (fst c, fst c + snd c).   (* (start, count) -> [start, start+count) *)

Record thread := mkT { t_prog : list op; t_pc : pc; t_res : list gev }.
Record state := mkS {
  s_bm : list N;                      (* the shared bitmap *)
  s_thr : list thread;                (* thread id = position *)
  s_pool : list (nat * (N * N))       (* ghost: completed claims (claiming thread, (start, count)) *)
}.

Definition range_eqb (a b : N * N) : bool := (fst a =? fst b) && (snd a =? snd b).
Fixpoint pool_remove (pool : list (nat * (N * N))) (r : N * N) : option (list (nat * (N * N))) :=
  match pool with
  | [] => None
  | c :: rest =>
      if range_eqb (snd c) r then Some rest
      else match pool_remove rest r with Some rest' => Some (c :: rest') | None => None end
  end.

(* entering an operation: local computation up to its first atomic access *)
Definition enter (fields : N) (pool : list (nat * (N * N))) (o : op)
  : pc * gev * list (nat * (N * N)) :=
  match o with
  | OpClaim start count =>
      (* count = 0 violates the assertion of the C code; for count >= 2^64-64 the C code computes
         _mi_divide_up(count - initial, 64) with wrap-around and would scan beyond the bitmap: both
         are outside the domain of the function (arena block counts are below 2^39) *)
      if (count =? 0) || (fields =? 0) || (W64 <=? count + 64) then (Idle, GClaimFailed, pool)
      else
        let idx := if fields <=? start then 0 else start in
        (attempt_pc (mkCL count 0 idx 0 0 0 0), GNone, pool)
  | OpFree start count =>
      match pool_remove pool (start, count) with
      | Some pool' =>
          let '(pre_mask, mid_mask, post_mask, _) := mask_across start fields count in
          (UPre (mkUL start count pre_mask mid_mask post_mask), GNone, pool')
      | None => (Idle, GSkipped, pool)
      end
  | OpPurge bi len =>
      if (1 <=? len) && (index_bit_in_field bi + len <=? 64) && (index_field bi <? fields)
      then (PLoad bi len, GNone, pool)
      else (Idle, GPurgeFailed, pool)
  end.

Fixpoint set_nth {A} (l : list A) (n : nat) (x : A) : list A :=
  match l, n with
  | [], _ => []
  | _ :: r, O => x :: r
  | y :: r, S k => y :: set_nth r k x
  end.

(* one step of thread t; the second component is the atomic access performed:
   (field index, value before, value after), None for a degenerate operation without access *)
Definition stepx (s : state) (t : nat) : option (state * option (N * N * N)) :=
  match nth_error (s_thr s) t with
  | None => None
  | Some th =>
    let fields := N.of_nat (length (s_bm s)) in
    let start :=
      match t_pc th with
      | Idle =>
          match t_prog th with
          | [] => None
          | o :: rest => let '(p, ev, pool) := enter fields (s_pool s) o in Some (p, ev, pool, rest)
          end
      | p => Some (p, GNone, s_pool s, t_prog th)
      end in
    match start with
    | None => None
    | Some (Idle, ev, pool, prog) =>
        Some (mkS (s_bm s) (set_nth (s_thr s) t (mkT prog Idle (ev :: t_res th))) pool, None)
    | Some (p, _, pool, prog) =>
        let i := access_field p in
        let v := getf (s_bm s) i in
        let '(p', w, ev) := exec fields p v in
        let bm' := match w with Some x => setf (s_bm s) i x | None => s_bm s end in
        let pool' := match ev with GClaimed st c => (t, (st, c)) :: pool | _ => pool end in
        let res' := match ev with GNone => t_res th | _ => ev :: t_res th end in
        Some (mkS bm' (set_nth (s_thr s) t (mkT prog p' res')) pool',
              Some (i, v, match w with Some x => x | None => v end))
    end
  end.

Definition step (s : state) (t : nat) : option state :=
  match stepx s t with Some (s', _) => Some s' | None => None end.

Definition init_state (pre : list N) (progs : list (list op)) : state :=
  mkS pre (map (fun pr => mkT pr Idle []) progs) [].

(* run under a schedule (a thread that cannot move is skipped) *)
Fixpoint run_schedule (s : state) (sched : list nat) : state :=
  match sched with
  | [] => s
  | t :: rest => run_schedule (match step s t with Some s' => s' | None => s end) rest
  end.

(* the access log of a run: (tid, field index, old value, new value) per atomic access, to be
   compared with a log of the real code under the same schedule *)
Fixpoint run_trace (s : state) (sched : list nat) : list (nat * N * N * N) :=
  match sched with
  | [] => []
  | t :: rest =>
      match stepx s t with
      | Some (s', Some (i, v, w)) => (t, i, v, w) :: run_trace s' rest
      | Some (s', None) => run_trace s' rest
      | None => run_trace s rest
      end
  end.

(* run one thread alone until it is idle with an empty program *)
Fixpoint run_solo (fuel : nat) (s : state) (t : nat) : option state :=
  match fuel with
  | O => None
  | S k => match step s t with Some s' => run_solo k s' t | None => Some s end
  end.

Definition finished (s : state) : bool :=
  forallb (fun th => match t_pc th, t_prog th with Idle, [] => true | _, _ => false end) (s_thr s).

(* ---- the invariant, in boolean form ---- *)

Notation b2n := Nat.b2n (only parsing).

Definition wf_claim (fields : N) (c : N * N) : bool :=          (* a completed claim (start, count) *)
  (1 <=? snd c) && (fst c + snd c <=? 64 * fields).

(* locals after the scan-ahead: fields idx .. final, the last one takes mb bits *)
Definition mid_bits (l : clocals) : N := cl_initial l + 64 * (cl_final l - cl_idx l - 1).
Definition wfA (fields : N) (l : clocals) : bool :=
  (cl_idx l <? cl_final l) && (cl_final l <? fields) &&
  (1 <=? cl_initial l) && (cl_initial l <=? 64) &&
  (mid_bits l <? cl_count l) && (cl_count l <=? mid_bits l + 64) && (cl_count l + 64 <? W64) &&
  (cl_fmask l =? mask_ (cl_count l - mid_bits l) 0).

Definition wf_pc (fields : N) (p : pc) : bool :=
  match p with
  | Idle => true
  | FLoad l => (cl_idx l <? fields) && (1 <=? cl_count l) && (cl_count l <=? 64)
  | FCas l map bitidx m =>
      (cl_idx l <? fields) && (1 <=? cl_count l) && (bitidx + cl_count l <=? 64) &&
      (m =? mask_ (cl_count l) bitidx) && (N.land map m =? 0)
  | ALoad l => (cl_idx l <? fields) && (1 <=? cl_count l) && (cl_count l + 64 <? W64)
  | AScan l j found =>
      (1 <=? cl_initial l) && (cl_initial l <=? 64) && (cl_idx l <? j) &&
      (found =? cl_initial l + 64 * (j - cl_idx l - 1)) && (found <? cl_count l) &&
      (cl_count l - cl_initial l <=? 64 * (fields - cl_idx l - 1)) && (cl_idx l <? fields) &&
      (cl_count l + 64 <? W64)
  | AInitLoad l | AFinalLoad l | ARollInitLoad l | ARollInitCas l _ => wfA fields l
  | AInitCas l map => wfA fields l && (N.land map (initial_mask l) =? 0)
  | AMidCas l j | ARollStore l j => wfA fields l && (cl_idx l <? j) && (j <? cl_final l)
  | AFinalCas l map => wfA fields l && (N.land map (cl_fmask l) =? 0)
  | UPre u =>
      wf_claim fields (ul_start u, ul_count u) &&
      (let '(a, b, c, _) := mask_across (ul_start u) fields (ul_count u) in
       (ul_pre u =? a) && (ul_mid u =? b) && (ul_post u =? c))
  | UMid u j k _ =>
      let e := ul_start u + ul_count u in
      (1 <=? k) && (64 * (j + k) <=? e) && (e <? 64 * (j + k) + 64) && (e <=? 64 * fields) &&
      (ul_start u <? 64 * j) && (ul_mid u =? FULL) &&
      (ul_post u =? (if e mod 64 =? 0 then 0 else mask_ (e mod 64) 0))
  | UPost u j _ =>
      let e := ul_start u + ul_count u in
      (64 * j <? e) && (e <? 64 * j + 64) && (e <=? 64 * fields) &&
      (ul_start u <? 64 * j) && (ul_post u =? mask_ (e mod 64) 0)
  | PLoad bi len | PUnclaim bi len =>
      (1 <=? len) && (index_bit_in_field bi + len <=? 64) && (index_field bi <? fields)
  | PCas bi len expected =>
      (1 <=? len) && (index_bit_in_field bi + len <=? 64) && (index_field bi <? fields) &&
      (N.land expected (p_mask bi len) =? 0)
  end.

(* number of owners of the flat bit p *)
Definition pool_cnt (pool : list (nat * (N * N))) (p : N) : nat :=
  fold_right (fun c acc => (b2n (in_rng (claim_rng (snd c)) p) + acc)%nat) 0%nat pool.
Definition thr_cnt (thr : list thread) (p : N) : nat :=
  fold_right (fun th acc => (b2n (in_rng (held (t_pc th)) p) + acc)%nat) 0%nat thr.
Definition owners (pre : list N) (s : state) (p : N) : nat :=
  (b2n (bm_bit pre p) + pool_cnt (s_pool s) p + thr_cnt (s_thr s) p)%nat.

Definition inv_b (pre : list N) (s : state) : bool :=
  let fields := N.of_nat (length pre) in
  Nat.eqb (length (s_bm s)) (length pre) &&
  forallb (fun x => x <? W64) (s_bm s) &&
  forallb (fun th => wf_pc fields (t_pc th)) (s_thr s) &&
  forallb (fun c => wf_claim fields (snd c)) (s_pool s) &&
  all_below (length pre * 64)%nat (fun p => Nat.eqb (b2n (bm_bit (s_bm s) p)) (owners pre s p)).

(* the states reachable from the initial bitmap `pre` under ANY schedule, for any number of threads
   with any programs *)
Inductive reachable (pre : list N) (progs : list (list op)) : state -> Prop :=
| reach_init : reachable pre progs (init_state pre progs)
| reach_step s t s' a : reachable pre progs s -> stepx s t = Some (s', a) -> reachable pre progs s'.

(* n successive find-and-claim calls of `count` bits that all succeed: the bitmap afterwards *)
Fixpoint claim_times (n : nat) (bm : list N) (fields start count : N) : option (list N) :=
  match n with
  | O => Some bm
  | S k =>
    match try_find_from_claim_across bm fields start count with
    | (Some _, bm') => claim_times k bm' fields start count
    | (None, _) => None
    end
  end.
