(* Model of the OS layer of mimalloc (64-bit Linux, mmap primitives) over a GHOST KERNEL.
   No proofs in this file.

   C sources modelled (line by line; the C `size_t`/pointer arithmetic is `N` with the explicit
   wrap-around of Model/Arith.v):
     src/os.c            : _mi_os_good_alloc_size (Model/Arith.v), _mi_os_get_aligned_hint,
                           mi_os_prim_free, _mi_os_free_ex (as repaired by df7b1d4), mi_os_prim_alloc(_at),
                           mi_os_prim_alloc_aligned (direct path and over-allocate-and-trim path,
                           `has_partial_free` = true as set by _mi_prim_mem_init on unix),
                           _mi_os_alloc, _mi_os_alloc_aligned, _mi_os_alloc_aligned_at_offset,
                           mi_os_page_align_areax, _mi_os_commit_ex, mi_os_decommit_ex, _mi_os_reset,
                           _mi_os_purge_ex, _mi_os_purge, mi_os_protectx
     src/prim/unix/prim.c: _mi_prim_free (munmap), unix_mmap_prim_aligned (hinted mmap, then plain mmap),
                           unix_mmap (regular path incl. the MADV_HUGEPAGE advice), _mi_prim_alloc,
                           _mi_prim_commit (mprotect RW), _mi_prim_decommit
                           (madvise DONTNEED; in MI_DEBUG/MI_SECURE builds also mprotect NONE and
                           needs_recommit), _mi_prim_reset (madvise FREE), _mi_prim_protect
     src/init.c          : mi_thread_data_zalloc, mi_thread_data_free, _mi_thread_data_collect (TD cache)

   The kernel is a ghost state: the list of live mappings (base, length; page aligned) and, per byte
   address, the state of the page that contains it (read/write or not; purged by madvise since the
   last write-commit).  An ORACLE `nat -> answer` (indexed by the sequence number of the system call)
   chooses the address returned by mmap and success/failure of every call; an answer that no kernel
   can give (address 0, unaligned, beyond the address space, overlapping a live mapping; a
   protect/advise on a range that is not inside one mapping) is a failure whatever `a_ok` says, so
   the theorems quantify over ALL oracles.  Every system call issued is logged (newest first).
   The same conventions are implemented by harness/shim.c on the real system calls.

   Not modelled: explicit large/huge OS pages (MAP_HUGETLB is attempted only when option
   allow_large_os_pages = 1; with the default 2 only madvise(MADV_HUGEPAGE) is issued, which is
   modelled; `is_large` = `is_pinned` = false), statistics, warnings, the Windows branch (!has_partial_free),
   the EAGAIN/EINVAL retry of _mi_prim_reset (the shim fails calls with ENOMEM only). *)
From Coq Require Import NArith ZArith List Bool.
From MiV Require Import Gen.Consts Gen.OsConsts Model.Arith.
Import ListNotations.
Local Open Scope N_scope.
Local Open Scope bool_scope.

Definition PAGE : N := os_page_size_default.
Definition ADDR_LIMIT : N := 2 ^ 47.          (* user address space: every mapping ends at or below *)
Definition GiB : N := 1024 * 1024 * 1024.

(* ---------------------------------------------------------------- options that matter here *)
Record oscfg := {
  purge_delay : Z;            (* mi_option_purge_delay *)
  purge_decommits : bool;     (* mi_option_purge_decommits *)
  arena_purge_mult : Z;       (* mi_option_arena_purge_mult *)
  purge_extend_delay : Z;     (* mi_option_purge_extend_delay *)
  decommit_protects : bool;   (* _mi_prim_decommit of MI_DEBUG/MI_SECURE builds: mprotect(NONE), needs_recommit *)
  hint_init : N;              (* MI_HINT_BASE + random part, used when aligned_base is (re)initialised *)
  allow_large_os_pages : Z    (* mi_option_allow_large_os_pages: 0 off, 2 (default) transparent huge pages only;
                                 1 (explicit MAP_HUGETLB attempts) is not modelled *)
}.
Definition default_cfg : oscfg :=
  {| purge_delay := default_purge_delay; purge_decommits := negb (default_purge_decommits =? 0)%Z;
     arena_purge_mult := default_arena_purge_mult; purge_extend_delay := default_purge_extend_delay;
     decommit_protects := negb (PRIM_DECOMMIT_NEEDS_RECOMMIT_ =? 0); hint_init := MI_HINT_BASE_;
     allow_large_os_pages := default_allow_large_os_pages |}.

(* ---------------------------------------------------------------- ghost kernel *)
Record answer := { a_ok : bool; a_addr : N }.

Inductive pkind := KMmap | KMunmap | KMprotect | KMadvise.
(* c_arg: mmap/mprotect: the protection (PROT_NONE_ / PROT_RW_); madvise: the advice; munmap: 0.
   c_res: mmap: the address returned (0 on failure); others: 0 *)
Record pcall := { c_kind : pkind; c_addr : N; c_len : N; c_arg : N; c_ok : bool; c_res : N }.

Record pstate := { pg_rw : bool; pg_purged : bool }.
Definition pg0 : pstate := {| pg_rw := false; pg_purged := false |}.

Record mapping := { m_base : N; m_len : N }.
(* k_at a = state of the page containing byte address a (updates are always on page-aligned ranges) *)
Record kernel := { k_maps : list mapping; k_at : N -> pstate }.
Definition kernel0 : kernel := {| k_maps := []; k_at := fun _ => pg0 |}.

(* os = kernel + call counter + call log + the `aligned_base` hint counter of os.c *)
Record os := { os_k : kernel; os_seq : nat; os_log : list pcall; os_hint : N }.
Definition os0 : os := {| os_k := kernel0; os_seq := O; os_log := []; os_hint := 0 |}.
Definition clear_log (o : os) : os := {| os_k := os_k o; os_seq := os_seq o; os_log := []; os_hint := os_hint o |}.
Definition set_hint (o : os) (h : N) : os := {| os_k := os_k o; os_seq := os_seq o; os_log := os_log o; os_hint := h |}.
(* one system call performed: new kernel, counter advanced, call logged *)
Definition step (o : os) (k : kernel) (c : pcall) : os :=
  {| os_k := k; os_seq := S (os_seq o); os_log := c :: os_log o; os_hint := os_hint o |}.

Definition len_up (len : N) : N := ((len + (PAGE - 1)) / PAGE) * PAGE.     (* the kernel rounds lengths up *)
Definition in_range (lo len a : N) : bool := (lo <=? a) && (a <? lo + len).
Definition set_range (f : N -> pstate) (lo len : N) (g : pstate -> pstate) : N -> pstate :=
  fun a => if in_range lo len a then g (f a) else f a.
Definition overlaps (m : mapping) (lo len : N) : bool := (m_base m <? lo + len) && (lo <? m_base m + m_len m).
Definition inside (m : mapping) (lo len : N) : bool := (m_base m <=? lo) && (lo + len <=? m_base m + m_len m).
Definition range_mapped (k : kernel) (lo len : N) : bool := existsb (fun m => inside m lo len) (k_maps k).
Definition addr_mapped (k : kernel) (a : N) : bool := existsb (fun m => in_range (m_base m) (m_len m) a) (k_maps k).
(* what is left of mapping m after [lo, lo+len) is unmapped *)
Definition cut (lo len : N) (m : mapping) : list mapping :=
  if negb (overlaps m lo len) then [m]
  else (if m_base m <? lo then [{| m_base := m_base m; m_len := lo - m_base m |}] else []) ++
       (if lo + len <? m_base m + m_len m then [{| m_base := lo + len; m_len := (m_base m + m_len m) - (lo + len) |}] else []).

Definition accessible (k : kernel) (a : N) : bool := pg_rw (k_at k a).
Definition resident_possible (k : kernel) (a : N) : bool := pg_rw (k_at k a) && negb (pg_purged (k_at k a)).
Definition total_mapped (k : kernel) : N := fold_right (fun m acc => m_len m + acc) 0 (k_maps k).

Section WithOracle.
Variable cfg : oscfg.
Variable oracle : nat -> answer.

(* ---------------------------------------------------------------- the four system calls *)
Definition sys_mmap (o : os) (hint len : N) (rw : bool) : os * option N :=
  let a := oracle (os_seq o) in
  let k := os_k o in
  let l := len_up len in
  let p := a_addr a in
  let prot := if rw then PROT_RW_ else PROT_NONE_ in
  if a_ok a && (0 <? p) && (p mod PAGE =? 0) && (0 <? len) && (p + l <=? ADDR_LIMIT)
     && forallb (fun m => negb (overlaps m p l)) (k_maps k)
  then (step o {| k_maps := {| m_base := p; m_len := l |} :: k_maps k;
                  k_at := set_range (k_at k) p l (fun _ => {| pg_rw := rw; pg_purged := false |}) |}
               {| c_kind := KMmap; c_addr := hint; c_len := len; c_arg := prot; c_ok := true; c_res := p |},
        Some p)
  else (step o k {| c_kind := KMmap; c_addr := hint; c_len := len; c_arg := prot; c_ok := false; c_res := 0 |}, None).

Definition sys_munmap (o : os) (addr len : N) : os * bool :=
  let a := oracle (os_seq o) in
  let k := os_k o in
  let l := len_up len in
  if a_ok a && (addr mod PAGE =? 0) && (0 <? len)
  then (step o {| k_maps := flat_map (cut addr l) (k_maps k);
                  k_at := set_range (k_at k) addr l (fun _ => pg0) |}
               {| c_kind := KMunmap; c_addr := addr; c_len := len; c_arg := 0; c_ok := true; c_res := 0 |}, true)
  else (step o k {| c_kind := KMunmap; c_addr := addr; c_len := len; c_arg := 0; c_ok := false; c_res := 0 |}, false).

Definition sys_mprotect (o : os) (addr len : N) (rw : bool) : os * bool :=
  let a := oracle (os_seq o) in
  let k := os_k o in
  let l := len_up len in
  let prot := if rw then PROT_RW_ else PROT_NONE_ in
  if a_ok a && (addr mod PAGE =? 0) && range_mapped k addr l
  then (step o {| k_maps := k_maps k;
                  k_at := set_range (k_at k) addr l
                            (fun s => if rw then {| pg_rw := true; pg_purged := false |}      (* write-commit *)
                                      else {| pg_rw := false; pg_purged := pg_purged s |}) |}
               {| c_kind := KMprotect; c_addr := addr; c_len := len; c_arg := prot; c_ok := true; c_res := 0 |}, true)
  else (step o k {| c_kind := KMprotect; c_addr := addr; c_len := len; c_arg := prot; c_ok := false; c_res := 0 |}, false).

(* madvise(MADV_DONTNEED) and madvise(MADV_FREE): the pages may lose their content and residency;
   any other advice (MADV_HUGEPAGE) leaves the ghost unchanged *)
Definition sys_madvise (o : os) (addr len advice : N) : os * bool :=
  let a := oracle (os_seq o) in
  let k := os_k o in
  let l := len_up len in
  let purges := (advice =? MADV_DONTNEED_) || (advice =? MADV_FREE_) in
  if a_ok a && (addr mod PAGE =? 0) && range_mapped k addr l
  then (step o {| k_maps := k_maps k;
                  k_at := set_range (k_at k) addr l (fun s => {| pg_rw := pg_rw s; pg_purged := pg_purged s || purges |}) |}
               {| c_kind := KMadvise; c_addr := addr; c_len := len; c_arg := advice; c_ok := true; c_res := 0 |}, true)
  else (step o k {| c_kind := KMadvise; c_addr := addr; c_len := len; c_arg := advice; c_ok := false; c_res := 0 |}, false).

(* ---------------------------------------------------------------- prim.c *)
(* os.c: _mi_os_get_aligned_hint; returns 0 for NULL.  Sequentially the CAS always succeeds. *)
Definition os_get_aligned_hint (o : os) (try_alignment size : N) : os * N :=
  if (try_alignment <=? 1) || (MI_SEGMENT_SIZE <? try_alignment) then (o, 0)
  else if MI_VIRTUAL_ADDRESS_BITS_ <? 46 then (o, 0)
  else
    let size := align_up size MI_SEGMENT_SIZE in
    if GiB <? size then (o, 0)
    else
      let hint := os_hint o in                              (* mi_atomic_add_acq_rel returns the old value *)
      let o1 := set_hint o (wadd hint size) in
      let '(o2, hint2) :=
        if (hint =? 0) || (MI_HINT_MAX_ <? hint)
        then (set_hint o1 (wadd (hint_init cfg) size), hint_init cfg)   (* cas to init, then add again *)
        else (o1, hint) in
      if hint2 mod try_alignment =? 0 then (o2, hint2) else (o2, 0).

(* unix_mmap_prim_aligned with addr = NULL: a hinted mmap first, a plain one if that failed *)
Definition mmap_aligned (o : os) (size try_alignment : N) (commit : bool) : os * option N :=
  let '(o1, hint) := os_get_aligned_hint o try_alignment size in
  if 0 <? hint then
    let '(o2, r) := sys_mmap o1 hint size commit in
    match r with
    | Some p => (o2, Some p)
    | None => sys_mmap o2 0 size commit
    end
  else sys_mmap o1 0 size commit.

(* _mi_os_use_large_page *)
Definition os_use_large_page (size alignment : N) : bool :=
  if (LARGE_PAGE_SIZE_ =? 0) || (allow_large_os_pages cfg =? 0)%Z then false
  else (size mod LARGE_PAGE_SIZE_ =? 0) && (alignment mod LARGE_PAGE_SIZE_ =? 0).

(* unix_mmap, regular allocation (allow_large_os_pages <> 1), and _mi_prim_alloc: after a successful
   mmap, madvise(MADV_HUGEPAGE) when large pages are allowed and size/alignment fit (result ignored) *)
Definition prim_alloc (o : os) (size try_alignment : N) (commit allow_large : bool) : os * option N :=
  let '(o1, r) := mmap_aligned o size try_alignment commit in
  match r with
  | Some p =>
    if allow_large && os_use_large_page size try_alignment
    then (fst (sys_madvise o1 p size MADV_HUGEPAGE_), Some p)
    else (o1, Some p)
  | None => (o1, None)
  end.

Definition prim_free (o : os) (addr size : N) : os * bool := sys_munmap o addr size.
Definition prim_commit (o : os) (start size : N) : os * bool := sys_mprotect o start size true.
(* returns (err = 0, needs_recommit) *)
Definition prim_decommit (o : os) (start size : N) : os * bool * bool :=
  let '(o1, ok) := sys_madvise o start size MADV_DONTNEED_ in
  if decommit_protects cfg
  then (fst (sys_mprotect o1 start size false), ok, true)
  else (o1, ok, false).
Definition prim_reset (o : os) (start size : N) : os * bool := sys_madvise o start size MADV_FREE_.
Definition prim_protect (o : os) (start size : N) (protect : bool) : os * bool := sys_mprotect o start size (negb protect).

(* ---------------------------------------------------------------- os.c: free *)
Definition os_prim_free (o : os) (addr size : N) : os :=
  if (addr =? 0) || (size =? 0) then o else fst (prim_free o addr size).

Inductive memkind := MemNone | MemExternal | MemStatic | MemOs | MemOsHuge | MemOsRemap | MemArena.
Definition memkind_is_os (k : memkind) : bool :=
  match k with MemOs | MemOsHuge | MemOsRemap => true | _ => false end.
Record memid := { mem_kind : memkind; mem_base : N; mem_size : N;
                  initially_committed : bool; initially_zero : bool; is_pinned : bool }.
Definition memid_none : memid :=
  {| mem_kind := MemNone; mem_base := 0; mem_size := 0; initially_committed := false; initially_zero := false; is_pinned := false |}.
Definition memid_create_os (committed is_zero is_large : bool) (base size : N) : memid :=
  {| mem_kind := MemOs; mem_base := base; mem_size := size;
     initially_committed := committed; initially_zero := is_zero; is_pinned := is_large |}.

(* _mi_os_free_ex (MI_MEM_OS_HUGE memids are never created by this model) *)
Definition os_free_ex (o : os) (addr size : N) (still_committed : bool) (memid : memid) : os :=
  if memkind_is_os (mem_kind memid) then
    let csize := mem_size memid in
    let csize := if csize =? 0 then os_good_alloc_size size else csize in
    let '(base, csize) :=
      if negb (mem_base memid =? 0) && negb (mem_base memid =? addr)
      then (mem_base memid, if mem_size memid =? 0 then wadd csize (wsub addr (mem_base memid)) else csize)
      else (addr, csize) in
    os_prim_free o base csize
  else o.
Definition os_free (o : os) (p size : N) (memid : memid) : os := os_free_ex o p size true memid.

(* ---------------------------------------------------------------- os.c: allocation *)
Definition os_prim_alloc (o : os) (size try_alignment : N) (commit allow_large : bool) : os * option N :=
  if size =? 0 then (o, None)
  else prim_alloc o size (if try_alignment =? 0 then 1 else try_alignment) commit (commit && allow_large).

(* mi_os_prim_alloc_aligned: returns (p, base) *)
Definition os_prim_alloc_aligned (o : os) (size alignment : N) (commit allow_large : bool) : os * option (N * N) :=
  if negb ((PAGE <=? alignment) && (N.land alignment (wsub alignment 1) =? 0)) then (o, None)
  else
    let size := align_up size PAGE in
    let '(o1, r) := os_prim_alloc o size alignment commit allow_large in
    match r with
    | None => (o1, None)
    | Some p =>
      if p mod alignment =? 0 then (o1, Some (p, p))
      else
        (* not aligned: free it, over-allocate, and unmap around it *)
        let o2 := os_prim_free o1 p size in
        if SIZE_MAX_ - alignment <=? size then (o2, None)
        else
          let over_size := wadd size alignment in
          let '(o3, r3) := os_prim_alloc o2 over_size 1 commit false in
          match r3 with
          | None => (o3, None)
          | Some q =>
            let aligned_p := align_up q alignment in
            let pre_size := wsub aligned_p q in
            let mid_size := align_up size PAGE in
            let post_size := wsub (wsub over_size pre_size) mid_size in
            let o4 := if 0 <? pre_size then os_prim_free o3 q pre_size else o3 in
            let o5 := if 0 <? post_size then os_prim_free o4 (wadd aligned_p mid_size) post_size else o4 in
            (o5, Some (aligned_p, aligned_p))
          end
    end.

(* _mi_os_alloc *)
Definition os_alloc (o : os) (size : N) : os * option (N * memid) :=
  if size =? 0 then (o, None)
  else
    let size := os_good_alloc_size size in
    let '(o1, r) := os_prim_alloc o size 0 true false in
    match r with
    | None => (o1, None)
    | Some p => (o1, Some (p, memid_create_os true true false p size))
    end.

(* _mi_os_alloc_aligned *)
Definition os_alloc_aligned (o : os) (size alignment : N) (commit allow_large : bool) : os * option (N * memid) :=
  if size =? 0 then (o, None)
  else
    let size := os_good_alloc_size size in
    let alignment := align_up alignment PAGE in
    let '(o1, r) := os_prim_alloc_aligned o size alignment commit allow_large in
    match r with
    | None => (o1, None)
    | Some (p, os_base) => (o1, Some (p, memid_create_os commit true false os_base (wadd size (wsub p os_base))))
    end.

(* page align within an area: (start, size), size 0 for NULL *)
Definition os_page_align_area (conservative : bool) (addr size : N) : N * N :=
  if (size =? 0) || (addr =? 0) then (0, 0)
  else
    let start := if conservative then align_up addr PAGE else align_down addr PAGE in
    let end_ := if conservative then align_down (wadd addr size) PAGE else align_up (wadd addr size) PAGE in
    let diff := wsub end_ start in                       (* ptrdiff_t diff = end - start *)
    if (diff =? 0) || (2 ^ 63 <=? diff) then (0, 0)      (* diff <= 0 *)
    else (start, diff).

(* _mi_os_commit_ex / _mi_os_commit *)
Definition os_commit (o : os) (addr size : N) : os * bool :=
  let '(start, csize) := os_page_align_area false addr size in
  if csize =? 0 then (o, true) else prim_commit o start csize.

(* mi_os_decommit_ex: (ok, needs_recommit); `nr` is the caller's value of *needs_recommit *)
Definition os_decommit_ex (o : os) (addr size : N) (nr : bool) : os * bool * bool :=
  let '(start, csize) := os_page_align_area true addr size in
  if csize =? 0 then (o, true, nr) else prim_decommit o start csize.
Definition os_decommit (o : os) (addr size : N) : os * bool :=
  let '(o1, ok, _) := os_decommit_ex o addr size false in (o1, ok).

(* _mi_os_reset *)
Definition os_reset (o : os) (addr size : N) : os * bool :=
  let '(start, csize) := os_page_align_area true addr size in
  if csize =? 0 then (o, true) else prim_reset o start csize.

(* _mi_os_purge_ex: returns needs_recommit *)
Definition os_purge_ex (o : os) (p size : N) (allow_reset : bool) : os * bool :=
  if (purge_delay cfg <? 0)%Z then (o, false)
  else if purge_decommits cfg then
    let '(o1, _, nr) := os_decommit_ex o p size true in (o1, nr)
  else ((if allow_reset then fst (os_reset o p size) else o), false).
Definition os_purge (o : os) (p size : N) : os * bool := os_purge_ex o p size true.

(* mi_os_protectx *)
Definition os_protectx (o : os) (addr size : N) (protect : bool) : os * bool :=
  let '(start, csize) := os_page_align_area true addr size in
  if csize =? 0 then (o, false) else prim_protect o start csize protect.

(* _mi_os_alloc_aligned_at_offset *)
Definition os_alloc_aligned_at_offset (o : os) (size alignment offset : N) (commit allow_large : bool) : os * option (N * memid) :=
  if MI_SEGMENT_SIZE <? offset then (o, None)
  else if offset =? 0 then os_alloc_aligned o size alignment commit allow_large
  else
    let extra := wsub (align_up offset alignment) offset in
    let oversize := wadd size extra in
    let '(o1, r) := os_alloc_aligned o oversize alignment commit allow_large in
    match r with
    | None => (o1, None)
    | Some (start, memid) =>
      let p := wadd start extra in
      (* decommit the overallocation at the start *)
      let o2 := if commit && (PAGE <? extra) then fst (os_decommit o1 start extra) else o1 in
      (o2, Some (p, memid))
    end.

(* ---------------------------------------------------------------- init.c: thread-data cache *)
(* td_cache[TD_CACHE_SIZE_]: a slot holds the address and the memid stored in the cached block *)
Definition td_cache := list (option (N * memid)).
Definition td_cache_empty : td_cache := repeat None (N.to_nat TD_CACHE_SIZE_).

Fixpoint td_take (c : td_cache) : td_cache * option (N * memid) :=
  match c with
  | [] => ([], None)
  | Some td :: rest => (None :: rest, Some td)
  | None :: rest => let '(rest', r) := td_take rest in (None :: rest', r)
  end.
Fixpoint td_put (c : td_cache) (td : N * memid) : option td_cache :=
  match c with
  | [] => None
  | None :: rest => Some (Some td :: rest)
  | Some x :: rest => match td_put rest td with Some rest' => Some (Some x :: rest') | None => None end
  end.

(* mi_thread_data_zalloc: cache first, else _mi_os_alloc (tried twice) *)
Definition thread_data_zalloc (o : os) (c : td_cache) : os * td_cache * option (N * memid) :=
  match td_take c with
  | (c', Some td) => (o, c', Some td)
  | (c', None) =>
    let '(o1, r) := os_alloc o sizeof_mi_thread_data_t in
    match r with
    | Some td => (o1, c', Some td)
    | None => let '(o2, r2) := os_alloc o1 sizeof_mi_thread_data_t in (o2, c', r2)
    end
  end.
(* mi_thread_data_free *)
Definition thread_data_free (o : os) (c : td_cache) (td : N * memid) : os * td_cache :=
  match td_put c td with
  | Some c' => (o, c')
  | None => (os_free o (fst td) sizeof_mi_thread_data_t (snd td), c)
  end.
(* _mi_thread_data_collect *)
Fixpoint thread_data_collect (o : os) (c : td_cache) : os * td_cache :=
  match c with
  | [] => (o, [])
  | None :: rest => let '(o', rest') := thread_data_collect o rest in (o', None :: rest')
  | Some td :: rest =>
    let o1 := os_free o (fst td) sizeof_mi_thread_data_t (snd td) in
    let '(o', rest') := thread_data_collect o1 rest in (o', None :: rest')
  end.

End WithOracle.

(* the system calls issued, oldest first, as (kind, addr, len, arg) *)
Definition csig (c : pcall) : pkind * N * N * N := (c_kind c, c_addr c, c_len c, c_arg c).
Definition calls (o : os) : list (pkind * N * N * N) := rev (map csig (os_log o)).
Definition is_munmap (c : pcall) : bool := match c_kind c with KMunmap => true | _ => false end.
(* no munmap in the log was refused *)
Definition munmaps_ok (l : list pcall) : bool := forallb (fun c => negb (is_munmap c) || c_ok c) l.
