(* Model of the COMMIT BOOKKEEPING of mimalloc under a failure oracle (property C07).  No proofs in this file.

   C sources modelled (as repaired by c78a4f5, 68720bb and the repair of mi_segments_page_alloc that frees an unused
   fresh segment), at the granularity of one segment slice
   (MI_SEGMENT_SLICE_SIZE = MI_COMMIT_SIZE = MI_MINIMAL_COMMIT_SIZE = 64 KiB, so the liberal and the
   conservative rounding of mi_segment_commit_mask are the identity; an arena block is BLOCK_SLICES slices):
     src/arena.c   : mi_arena_try_alloc_at (after the bitmap search: the claimed block index is an ARGUMENT, the
                     search is Model/Bitmap.v / property C14), the MI_MEM_ARENA and OS branches of _mi_arena_free,
                     mi_arena_schedule_purge, mi_arena_purge, mi_arena_try_purge / mi_arena_purge_range,
                     mi_arenas_try_purge, _mi_arenas_collect, _mi_arena_alloc_aligned (arena first, then the OS)
     src/segment.c : mi_segment_calculate_slices, mi_segment_os_alloc, mi_segment_alloc, mi_segment_commit_mask,
                     mi_segment_commit, mi_segment_ensure_committed, mi_segment_purge, mi_segment_schedule_purge,
                     mi_segment_try_purge, mi_segment_span_allocate, mi_segment_span_free(_coalesce) (commit part),
                     mi_segments_page_find_and_allocate (restore path), mi_segments_page_alloc,
                     mi_segment_huge_page_alloc, mi_segment_os_free, mi_segment_free, _mi_segment_page_free
     src/page.c    : _mi_malloc_generic (find a page; on NULL forced collect and ONE retry; then NULL), mi_find_page /
                     mi_large_huge_page_alloc / mi_page_queue_find_free_ex (number of fresh-page attempts)
     src/heap.c    : mi_heap_collect_ex(MI_FORCE) (purge part: _mi_segment_collect per segment, _mi_arenas_collect)
     src/os.c, src/prim/unix/prim.c : _mi_os_commit_ex (mprotect RW), mi_os_decommit_ex/_mi_prim_decommit
                     (release build: madvise only, needs_recommit = false; MI_DEBUG/MI_SECURE build:
                     mprotect(PROT_NONE) whose result is ignored, needs_recommit = true), _mi_os_purge_ex
     src/init.c    : mi_thread_data_zalloc failing: _mi_heap_empty stays the default heap and _mi_malloc_generic
                     returns NULL before touching anything (op OpAllocNoHeap)
   The byte-level models of the same functions are Model/Os.v (kernel ghost + oracle), Model/Mask.v (commit masks
   with both roundings) and Model/Purge.v (arena purge with time); this file composes their slice-level content
   with span ownership so that the theorems can talk about LIVE PAGES.

   Ghost kernel: `acc : N -> bool`, slice number (address / 64 KiB) -> readable and writable.
   Failure oracle: `list bool`, one answer consumed per mprotect call the allocator makes (a commit, or the
   PROT_NONE of a protecting decommit); true = granted; an exhausted list grants everything.  The theorems
   quantify over all oracles.  mmap / munmap refusals are arguments of the operations (WNewOs None, unmap_ok).
   Every decision the real allocator takes by searching (which free span, which free arena blocks), by the clock
   (purge expiry) or that the kernel takes (the address of a mapping) is an argument of the operation; an
   argument that is not a legal choice makes `step` return None (not applicable), which is different from the
   operation FAILING (result RNone).

   Not modelled: several arenas (one arena plus direct OS memory), pinned / large-page arenas (blocks_committed
   = NULL), over-aligned huge blocks (page_alignment > 0), MI_SECURE guard slices, abandoned segments, statistics. *)
From Coq Require Import NArith List Bool.
From MiV Require Import Gen.Consts.
Import ListNotations.
Local Open Scope N_scope.
Local Open Scope bool_scope.

Definition BLOCK_SLICES : N := MI_ARENA_BLOCK_SIZE / MI_SEGMENT_SLICE_SIZE.     (* 512 *)
Definition MASK_BITS : N := MI_COMMIT_MASK_BITS.                                (* 512 *)
Definition FIELD_BITS : N := MI_BITMAP_FIELD_BITS.                              (* 64 *)
(* mi_segment_calculate_slices (MI_SECURE = 0): slices of the segment header *)
Definition INFO_SLICES : N :=
  (((sizeof_mi_segment_t + os_page_size_default - 1) / os_page_size_default) * os_page_size_default
   + MI_SEGMENT_SLICE_SIZE - 1) / MI_SEGMENT_SLICE_SIZE.

(* ---------------------------------------------------------------- bit functions and ranges *)
Definition bits := N -> bool.
Definition in_range (lo n i : N) : bool := (lo <=? i) && (i <? lo + n).
Definition set_range (f : bits) (lo n : N) (v : bool) : bits := fun i => if in_range lo n i then v else f i.
Definition range_disjoint (lo1 n1 lo2 n2 : N) : bool := (lo1 + n1 <=? lo2) || (lo2 + n2 <=? lo1).
Fixpoint all_from (k : nat) (f : bits) (lo : N) : bool :=
  match k with O => true | S k' => f lo && all_from k' f (N.succ lo) end.
Definition all_in (f : bits) (lo n : N) : bool := all_from (N.to_nat n) f lo.
Definition any_in (f : bits) (lo n : N) : bool := negb (all_in (fun i => negb (f i)) lo n).
(* number of consecutive positions i, i+1, ... (at most k) on which P holds *)
Fixpoint run_len (k : nat) (P : bits) (i : N) : N :=
  match k with O => 0 | S k' => if P i then 1 + run_len k' P (i + 1) else 0 end.

Definition no_bits : bits := fun _ => false.
Definition mask_full : bits := fun i => i <? MASK_BITS.                (* mi_commit_mask_create_full *)
Definition mask_range (lo n : N) : bits := set_range no_bits lo n true. (* mi_commit_mask_create *)
Definition mask_is_full (m : bits) : bool := all_in m 0 MASK_BITS.     (* mi_commit_mask_is_full *)
Definition mask_is_empty (m : bits) : bool := negb (any_in m 0 MASK_BITS).

(* ---------------------------------------------------------------- oracle *)
Definition ask (o : list bool) : bool * list bool :=
  match o with [] => (true, []) | a :: r => (a, r) end.

(* ---------------------------------------------------------------- configuration *)
Record cfg := {
  c_decommits : bool;        (* a purge revokes access: option purge_decommits on a build whose _mi_prim_decommit
                                protects (MI_DEBUG or MI_SECURE); false for the release build (madvise only) *)
  c_purge_now : bool;        (* mi_option_purge_delay = 0: segments purge at once instead of scheduling *)
  c_arena_purge_now : bool;  (* mi_arena_purge_delay() = 0 *)
  c_allow_purge : bool       (* mi_option_purge_delay >= 0 (segment->allow_purge, arena delay >= 0) *)
}.

(* ---------------------------------------------------------------- arena *)
Record arena := {
  a_start : N;               (* slice number of block 0 *)
  a_nblocks : N;
  a_zero : bool;             (* arena->memid.initially_zero (blocks_dirty is maintained) *)
  a_inuse : bits;            (* blocks_inuse *)
  a_committed : bits;        (* blocks_committed *)
  a_dirty : bits;            (* blocks_dirty *)
  a_purge : bits             (* blocks_purge *)
}.
Definition with_inuse (a : arena) (m : bits) : arena :=
  {| a_start := a_start a; a_nblocks := a_nblocks a; a_zero := a_zero a; a_inuse := m; a_committed := a_committed a;
     a_dirty := a_dirty a; a_purge := a_purge a |}.
Definition with_committed (a : arena) (m : bits) : arena :=
  {| a_start := a_start a; a_nblocks := a_nblocks a; a_zero := a_zero a; a_inuse := a_inuse a; a_committed := m;
     a_dirty := a_dirty a; a_purge := a_purge a |}.
Definition with_dirty (a : arena) (m : bits) : arena :=
  {| a_start := a_start a; a_nblocks := a_nblocks a; a_zero := a_zero a; a_inuse := a_inuse a; a_committed := a_committed a;
     a_dirty := m; a_purge := a_purge a |}.
Definition with_apurge (a : arena) (m : bits) : arena :=
  {| a_start := a_start a; a_nblocks := a_nblocks a; a_zero := a_zero a; a_inuse := a_inuse a; a_committed := a_committed a;
     a_dirty := a_dirty a; a_purge := m |}.

Definition block_slice (a : arena) (b : N) : N := a_start a + b * BLOCK_SLICES.   (* mi_arena_block_start *)

(* the bitmap claim of mi_arena_try_alloc_at (mi_arena_try_claim found [b0, b0+n)), the purge and dirty bits *)
Definition arena_claim (a : arena) (b0 n : N) : arena :=
  let a1 := with_inuse a (set_range (a_inuse a) b0 n true) in
  let a2 := with_apurge a1 (set_range (a_purge a1) b0 n false) in
  if a_zero a then with_dirty a2 (set_range (a_dirty a2) b0 n true) else a2.

(* mi_arena_try_alloc_at: Some (memid.initially_committed, memid.initially_zero, arena, kernel, oracle);
   None: the blocks [b0, b0+n) are not all free (the claim is impossible) *)
Definition arena_try_alloc_at (a : arena) (acc : bits) (b0 n : N) (commit : bool) (o : list bool)
  : option (bool * bool * arena * bits * list bool) :=
  if (n =? 0) || (a_nblocks a <? b0 + n) || any_in (a_inuse a) b0 n then None
  else
    let zero := a_zero a && negb (any_in (a_dirty a) b0 n) in
    let a1 := arena_claim a b0 n in
    if commit then
      (* commit requested, but the range may not be committed as a whole: ensure it is committed now *)
      if all_in (a_committed a) b0 n then Some (true, zero, a1, acc, o)
      else
        let '(granted, o') := ask o in
        if granted
        then Some (true, zero, with_committed a1 (set_range (a_committed a1) b0 n true),
                   set_range acc (block_slice a b0) (n * BLOCK_SLICES) true, o')
        else (* the commit failed: the blocks are not kept marked as committed (c78a4f5) *)
             Some (false, zero, with_committed a1 (set_range (a_committed a1) b0 n false), acc, o')
    else
      (* no need to commit, but check if already fully committed; partially committed: pretend fully uncommitted *)
      if all_in (a_committed a) b0 n then Some (true, zero, a1, acc, o)
      else Some (false, zero, with_committed a1 (set_range (a_committed a1) b0 n false), acc, o).

(* mi_arena_purge on blocks [b0, b0+n) owned by the caller *)
Definition arena_purge (c : cfg) (a : arena) (acc : bits) (b0 n : N) (o : list bool) : arena * bits * list bool :=
  let a1 := with_apurge a (set_range (a_purge a) b0 n false) in
  if c_decommits c then
    let '(granted, o') := ask o in      (* the mprotect(PROT_NONE) of _mi_prim_decommit; its result is ignored *)
    (with_committed a1 (set_range (a_committed a1) b0 n false),     (* needs_recommit *)
     if granted then set_range acc (block_slice a b0) (n * BLOCK_SLICES) false else acc, o')
  else (a1, acc, o).

(* the MI_MEM_ARENA branch of _mi_arena_free (without the trailing mi_arenas_try_purge(false,false)) *)
Definition arena_free (c : cfg) (a : arena) (acc : bits) (b0 n : N) (all_committed : bool) (o : list bool)
  : arena * bits * list bool :=
  let a1 := if all_committed then a else with_committed a (set_range (a_committed a) b0 n false) in
  let '(a2, acc2, o2) :=
    if negb (c_allow_purge c) then (a1, acc, o)
    else if c_arena_purge_now c then arena_purge c a1 acc b0 n o
    else (with_apurge a1 (set_range (a_purge a1) b0 n true), acc, o) in
  (with_inuse a2 (set_range (a_inuse a2) b0 n false), acc2, o2).

(* mi_arena_try_purge (forced, or expired): every maximal run, inside one bitmap field, of blocks that are scheduled
   and can be claimed (not in use) is purged by one mi_arena_purge *)
Fixpoint arena_purge_scan (fuel : nat) (c : cfg) (a : arena) (acc : bits) (o : list bool) (i : N)
  : arena * bits * list bool :=
  match fuel with
  | O => (a, acc, o)
  | S f =>
    if a_nblocks a <=? i then (a, acc, o)
    else
      let lim := N.min (a_nblocks a) ((i / FIELD_BITS + 1) * FIELD_BITS) - i in
      let len := run_len (N.to_nat lim) (fun j => a_purge a j && negb (a_inuse a j)) i in
      if len =? 0 then arena_purge_scan f c a acc o (i + 1)
      else let '(a', acc', o') := arena_purge c a acc i len o in arena_purge_scan f c a' acc' o' (i + len)
  end.
(* mi_arenas_try_purge that passes its time test (force, or the expiry has passed) *)
Definition arenas_try_purge (c : cfg) (a : arena) (acc : bits) (o : list bool) : arena * bits * list bool :=
  if negb (c_allow_purge c) || c_arena_purge_now c then (a, acc, o)     (* mi_arena_purge_delay() <= 0: nothing scheduled *)
  else arena_purge_scan (N.to_nat (a_nblocks a)) c a acc o 0.

(* ---------------------------------------------------------------- segments *)
Inductive skind := Normal | Huge.
Inductive memkind := MemArena (b0 nblocks : N) | MemOs.
Record segment := {
  sg_base : N;               (* slice number of the segment *)
  sg_nslices : N;            (* segment_slices *)
  sg_kind : skind;
  sg_info : N;               (* segment_info_slices *)
  sg_commit : bits;          (* commit_mask, bit i = slice i (i < MASK_BITS) *)
  sg_purge : bits;           (* purge_mask *)
  sg_mem : memkind           (* memid *)
}.
Definition with_commit (s : segment) (m : bits) : segment :=
  {| sg_base := sg_base s; sg_nslices := sg_nslices s; sg_kind := sg_kind s; sg_info := sg_info s; sg_commit := m;
     sg_purge := sg_purge s; sg_mem := sg_mem s |}.
Definition with_purge (s : segment) (m : bits) : segment :=
  {| sg_base := sg_base s; sg_nslices := sg_nslices s; sg_kind := sg_kind s; sg_info := sg_info s; sg_commit := sg_commit s;
     sg_purge := m; sg_mem := sg_mem s |}.
Definition is_huge (s : segment) : bool := match sg_kind s with Huge => true | Normal => false end.

(* mi_segment_commit_mask at slice granularity: the range [lo, lo+n) clipped to the segment; None = empty mask
   (size 0, size > MI_SEGMENT_SIZE, huge segment, start beyond the segment) *)
Definition commit_range (s : segment) (lo n : N) : option N :=
  if (n =? 0) || (MASK_BITS <? n) || is_huge s || (sg_nslices s <=? lo) then None
  else let n' := N.min (lo + n) (sg_nslices s) - lo in if n' =? 0 then None else Some n'.

(* mi_segment_commit: (segment, kernel, result, oracle) *)
Definition segment_commit (s : segment) (acc : bits) (lo n : N) (o : list bool) : segment * bits * bool * list bool :=
  match commit_range s lo n with
  | None => (s, acc, true, o)
  | Some n' =>
    if all_in (sg_commit s) lo n' then
      (* already committed: always clear any delayed purges in our range *)
      (with_purge s (set_range (sg_purge s) lo n' false), acc, true, o)
    else
      let '(granted, o') := ask o in
      if granted then
        (* the mask is set only after _mi_os_commit returned true *)
        let s1 := with_commit s (set_range (sg_commit s) lo n' true) in
        (with_purge s1 (set_range (sg_purge s1) lo n' false), set_range acc (sg_base s + lo) n' true, true, o')
      else (s, acc, false, o')
  end.

(* mi_segment_ensure_committed *)
Definition segment_ensure_committed (s : segment) (acc : bits) (lo n : N) (o : list bool)
  : segment * bits * bool * list bool :=
  if mask_is_full (sg_commit s) && mask_is_empty (sg_purge s) then (s, acc, true, o)
  else segment_commit s acc lo n o.

(* mi_segment_purge *)
Definition segment_purge (c : cfg) (s : segment) (acc : bits) (lo n : N) (o : list bool) : segment * bits * list bool :=
  if negb (c_allow_purge c) then (s, acc, o)
  else
    match commit_range s lo n with
    | None => (s, acc, o)
    | Some n' =>
      if any_in (sg_commit s) lo n' && c_decommits c then
        let '(granted, o') := ask o in    (* mprotect(PROT_NONE), result ignored; needs_recommit = true *)
        let s1 := with_commit s (set_range (sg_commit s) lo n' false) in
        (with_purge s1 (set_range (sg_purge s1) lo n' false),
         if granted then set_range acc (sg_base s + lo) n' false else acc, o')
      else
        (* nothing committed there, or the purge only resets / advises: always clear the scheduled purges *)
        (with_purge s (set_range (sg_purge s) lo n' false), acc, o)
    end.

(* the body of mi_commit_mask_foreach in mi_segment_try_purge: every maximal run of bits of `pm` *)
Fixpoint seg_purge_scan (fuel : nat) (c : cfg) (pm : bits) (s : segment) (acc : bits) (o : list bool) (i : N)
  : segment * bits * list bool :=
  match fuel with
  | O => (s, acc, o)
  | S f =>
    if MASK_BITS <=? i then (s, acc, o)
    else
      let len := run_len (N.to_nat (MASK_BITS - i)) pm i in
      if len =? 0 then seg_purge_scan f c pm s acc o (i + 1)
      else let '(s', acc', o') := segment_purge c s acc i len o in seg_purge_scan f c pm s' acc' o' (i + len)
  end.
(* mi_segment_try_purge that passes its time test (force, or purge_expire has passed) *)
Definition segment_try_purge (c : cfg) (s : segment) (acc : bits) (o : list bool) : segment * bits * list bool :=
  if negb (c_allow_purge c) || mask_is_empty (sg_purge s) then (s, acc, o)
  else seg_purge_scan (N.to_nat MASK_BITS) c (sg_purge s) (with_purge s no_bits) acc o 0.

(* mi_segment_span_allocate (commit part): None = the commit failed *)
Definition span_allocate (s : segment) (acc : bits) (lo n : N) (o : list bool) : option segment * bits * list bool :=
  let '(s', acc', ok, o') := segment_ensure_committed s acc lo n o in
  if ok then (Some s', acc', o') else (None, acc', o').

(* mi_segment_span_free (commit part) = mi_segment_schedule_purge without its clock-dependent branches *)
Definition span_free (c : cfg) (s : segment) (acc : bits) (lo n : N) (allow_purge : bool) (o : list bool)
  : segment * bits * list bool :=
  if negb allow_purge || negb (c_allow_purge c) then (s, acc, o)
  else if c_purge_now c then segment_purge c s acc lo n o
  else
    match commit_range s lo n with
    | None => (s, acc, o)
    | Some n' => (* only purge what is committed *)
      (with_purge s (fun i => sg_purge s i || (in_range lo n' i && sg_commit s i)), acc, o)
    end.

(* ---------------------------------------------------------------- state *)
Record page := { pg_seg : N; pg_lo : N; pg_n : N }.    (* base of its segment, first slice, slice count *)
Definition page_eqb (p q : page) : bool := (pg_seg p =? pg_seg q) && (pg_lo p =? pg_lo q) && (pg_n p =? pg_n q).

Record state := {
  st_arena : arena;
  st_segs : list segment;
  st_live : list page;          (* the pages handed out and not yet freed *)
  st_raw : list (N * N);        (* arena blocks (b0, n) held by other users of _mi_arena_alloc_aligned *)
  st_acc : bits                 (* ghost kernel *)
}.
Definition mk (a : arena) (sg : list segment) (lv : list page) (rw : list (N * N)) (acc : bits) : state :=
  {| st_arena := a; st_segs := sg; st_live := lv; st_raw := rw; st_acc := acc |}.

Definition find_seg (base : N) (l : list segment) : option segment := find (fun s => sg_base s =? base) l.
Definition replace_seg (s' : segment) (l : list segment) : list segment :=
  map (fun s => if sg_base s =? sg_base s' then s' else s) l.
Definition remove_seg (base : N) (l : list segment) : list segment := filter (fun s => negb (sg_base s =? base)) l.
Definition remove_page (p : page) (l : list page) : list page := filter (fun q => negb (page_eqb p q)) l.
Definition seg_has_live (base : N) (l : list page) : bool := existsb (fun p => pg_seg p =? base) l.

(* no live page of segment `base` meets [lo, lo+n) *)
Definition span_is_free (live : list page) (base lo n : N) : bool :=
  forallb (fun p => negb (pg_seg p =? base) || range_disjoint (pg_lo p) (pg_n p) lo n) live.

(* slices owned through the memid *)
Definition seg_span (s : segment) : N :=
  match sg_mem s with MemArena _ nb => nb * BLOCK_SLICES | MemOs => sg_nslices s end.
Definition owners (st : state) : list (N * N) :=
  map (fun s => (sg_base s, seg_span s)) (st_segs st) ++
  map (fun r => (block_slice (st_arena st) (fst r), snd r * BLOCK_SLICES)) (st_raw st).

(* ---------------------------------------------------------------- page allocation *)
(* mi_segments_page_find_and_allocate with the span [lo, lo+n) of segment `base` as the span found (after the
   split).  Some (st, None, o): the commit failed and mi_segment_span_free_coalesce restored the span: it frees the
   coalesced free span [clo, clo+cn) around it WITH purge scheduling (the already committed part of the restored
   span is scheduled for a purge, or purged at once when purge_delay = 0). *)
Definition page_find_and_allocate (c : cfg) (st : state) (base lo n clo cn : N) (o : list bool)
  : option (state * option page * list bool) :=
  match find_seg base (st_segs st) with
  | None => None
  | Some s =>
    if is_huge s || (n =? 0) || (lo <? sg_info s) || (sg_nslices s <? lo + n) || negb (span_is_free (st_live st) base lo n)
       || (clo <? sg_info s) || (lo <? clo) || (clo + cn <? lo + n) || (sg_nslices s <? clo + cn)
       || negb (span_is_free (st_live st) base clo cn)
    then None
    else
      let '(r, acc', o') := span_allocate s (st_acc st) lo n o in
      match r with
      | Some s' =>
        let p := {| pg_seg := base; pg_lo := lo; pg_n := n |} in
        Some (mk (st_arena st) (replace_seg s' (st_segs st)) (p :: st_live st) (st_raw st) acc', Some p, o')
      | None =>
        let '(s1, acc1, o1) := span_free c s acc' clo cn true o' in
        Some (mk (st_arena st) (replace_seg s1 (st_segs st)) (st_live st) (st_raw st) acc1, None, o1)
      end
  end.

(* where mi_segments_page_alloc / mi_segment_alloc go for memory *)
Inductive where_ :=
  | WSpan (base lo clo cn : N)                   (* the free span at slice lo of an existing normal segment; [clo, clo+cn):
                                                    the coalesced free span around it (used when its commit is refused) *)
  | WNewArena (b0 : N)                           (* a new segment on arena blocks b0 .. *)
  | WNewOs (addr : option N) (unmap_ok : bool).  (* a new segment straight from the OS: mmap refused (None) or placed at
                                                    slice addr; unmap_ok: the munmap of the failure path (header commit
                                                    refused), or of the segment being freed again unused, is granted *)

(* mi_segment_os_alloc after the memory was obtained with memid.initially_committed = mc:
   Some (mask, kernel, oracle), or None (commit of the header refused; the oracle is returned by the caller) *)
Definition os_alloc_commit (acc : bits) (base nslices : N) (huge mc : bool) (o : list bool)
  : option (bits * bits) * list bool :=
  if mc then (Some (mask_full, acc), o)
  else
    (* at least commit the info slices; a huge segment is never committed on demand: commit all of it (68720bb) *)
    let cn := if huge then nslices else INFO_SLICES in
    let '(granted, o') := ask o in
    if granted then (Some (if huge then mask_full else mask_range 0 INFO_SLICES, set_range acc base cn true), o')
    else (None, o').

Definition new_segment (base nslices : N) (huge : bool) (m : bits) (mem : memkind) : segment :=
  {| sg_base := base; sg_nslices := nslices; sg_kind := if huge then Huge else Normal; sg_info := INFO_SLICES;
     sg_commit := m; sg_purge := no_bits; sg_mem := mem |}.

(* mi_segment_os_alloc on arena blocks.  None: illegal choice.  Some (st, None, o): failed (NULL) *)
Definition segment_alloc_arena (c : cfg) (st : state) (b0 nslices : N) (huge commit : bool) (o : list bool)
  : option (state * option segment * list bool) :=
  let a := st_arena st in
  let nb := (nslices + BLOCK_SLICES - 1) / BLOCK_SLICES in      (* mi_block_count_of_size *)
  match arena_try_alloc_at a (st_acc st) b0 nb commit o with
  | None => None
  | Some (mc, _, a1, acc1, o1) =>
    let base := block_slice a b0 in
    match os_alloc_commit acc1 base nslices huge mc o1 with
    | (Some (m, acc2), o2) =>
      let s := new_segment base nslices huge m (MemArena b0 nb) in
      Some (mk a1 (s :: st_segs st) (st_live st) (st_raw st) acc2, Some s, o2)
    | (None, o2) =>
      (* _mi_arena_free(segment, segment_size, 0, memid) *)
      let '(a3, acc3, o3) := arena_free c a1 acc1 b0 nb false o2 in
      Some (mk a3 (st_segs st) (st_live st) (st_raw st) acc3, None, o3)
    end
  end.

Definition segment_os_alloc := segment_alloc_arena.     (* the name of the C function; the OS-backed variant follows *)

(* the same straight from the OS (_mi_os_alloc_aligned: mmap RW when commit, else PROT_NONE) at slice addr *)
Definition segment_alloc_os (st : state) (addr nslices : N) (huge commit unmap_ok : bool) (o : list bool)
  : option (state * option segment * list bool) :=
  let a := st_arena st in
  if (nslices =? 0) || negb (range_disjoint addr nslices (a_start a) (a_nblocks a * BLOCK_SLICES))
     || negb (forallb (fun r => range_disjoint addr nslices (fst r) (snd r)) (owners st))
  then None
  else
    let acc1 := set_range (st_acc st) addr nslices commit in
    match os_alloc_commit acc1 addr nslices huge commit o with
    | (Some (m, acc2), o2) =>
      let s := new_segment addr nslices huge m MemOs in
      Some (mk a (s :: st_segs st) (st_live st) (st_raw st) acc2, Some s, o2)
    | (None, o2) =>
      (* _mi_arena_free -> _mi_os_free -> munmap *)
      Some (mk a (st_segs st) (st_live st) (st_raw st) (if unmap_ok then set_range acc1 addr nslices false else acc1),
            None, o2)
    end.

(* mi_segment_os_free / _mi_arena_free of a segment that is no longer in the state's list *)
Definition segment_release (c : cfg) (a : arena) (acc : bits) (s : segment) (unmap_ok : bool) (o : list bool)
  : arena * bits * list bool :=
  (* _mi_commit_mask_committed_size(mask, size) = (size / MI_COMMIT_MASK_BITS) * popcount = size iff the mask is full *)
  let all_committed := mask_is_full (sg_commit s) in
  match sg_mem s with
  | MemArena b0 nb => arena_free c a acc b0 nb all_committed o
  | MemOs => (a, if unmap_ok then set_range acc (sg_base s) (sg_nslices s) false else acc, o)
  end.

Definition segment_free := segment_release.             (* mi_segment_free -> mi_segment_os_free -> _mi_arena_free *)

(* the tail of mi_segments_page_alloc after its retry returned:
     if (segment->used == 0) { mi_segment_free(segment, false, tld); }
   the segment (named by its base) that mi_segment_reclaim_or_alloc delivered is freed again when the retry left it
   without a page, exactly as _mi_segment_page_free frees a segment whose last page went: with its CURRENT commit mask. *)
Definition free_if_unused (c : cfg) (st : state) (base : N) (unmap_ok : bool) (o : list bool) : state * list bool :=
  if seg_has_live base (st_live st) then (st, o)
  else
    match find_seg base (st_segs st) with
    | None => (st, o)
    | Some s =>
      let '(a', acc', o') := segment_release c (st_arena st) (st_acc st) s unmap_ok o in
      (mk a' (remove_seg base (st_segs st)) (st_live st) (st_raw st) acc', o')
    end.

(* mi_segments_page_alloc: find a span; if none (or its commit failed) get a new segment and try again; a new segment
   that the retry did not use (the retry found a span elsewhere, or failed) is freed before returning -- at every
   level of the recursion that obtained a segment, the innermost first *)
Fixpoint segments_page_alloc (c : cfg) (st : state) (n : N) (commit : bool) (ws : list where_) (o : list bool)
  : option (state * option page * list bool) :=
  match ws with
  | [] => Some (st, None, o)          (* no span and mi_segment_reclaim_or_alloc found no memory *)
  | WSpan base lo clo cn :: rest =>
    match page_find_and_allocate c st base lo n clo cn o with
    | None => None
    | Some (st', Some p, o') => Some (st', Some p, o')
    | Some (st', None, o') => segments_page_alloc c st' n commit rest o'
    end
  | WNewArena b0 :: rest =>
    match segment_alloc_arena c st b0 MI_SLICES_PER_SEGMENT false commit o with
    | None => None
    | Some (st', None, o') => Some (st', None, o')
    | Some (st', Some s, o') =>
      match segments_page_alloc c st' n commit rest o' with
      | None => None
      | Some (st'', r, o'') => let '(st3, o3) := free_if_unused c st'' (sg_base s) true o'' in Some (st3, r, o3)
      end
    end
  | WNewOs None _ :: _ => Some (st, None, o)
  | WNewOs (Some addr) unmap_ok :: rest =>
    match segment_alloc_os st addr MI_SLICES_PER_SEGMENT false commit unmap_ok o with
    | None => None
    | Some (st', None, o') => Some (st', None, o')
    | Some (st', Some s, o') =>
      match segments_page_alloc c st' n commit rest o' with
      | None => None
      | Some (st'', r, o'') => let '(st3, o3) := free_if_unused c st'' (sg_base s) unmap_ok o'' in Some (st3, r, o3)
      end
    end
  end.

(* mi_segment_huge_page_alloc: a segment of its own; the page is every slice after the header *)
Definition huge_page_alloc (c : cfg) (st : state) (n : N) (w : list where_) (o : list bool)
  : option (state * option page * list bool) :=
  let nslices := INFO_SLICES + n in
  let finish (r : option (state * option segment * list bool)) :=
    match r with
    | None => None
    | Some (st', None, o') => Some (st', None, o')
    | Some (st', Some s, o') =>
      (* mi_segment_span_allocate on a huge segment never commits *)
      let p := {| pg_seg := sg_base s; pg_lo := INFO_SLICES; pg_n := n |} in
      Some (mk (st_arena st') (st_segs st') (p :: st_live st') (st_raw st') (st_acc st'), Some p, o')
    end in
  if n =? 0 then None else
  match w with
  | WNewArena b0 :: _ => finish (segment_alloc_arena c st b0 nslices true true o)
  | WNewOs (Some addr) unmap_ok :: _ => finish (segment_alloc_os st addr nslices true true unmap_ok o)
  | WNewOs None _ :: _ => Some (st, None, o)
  | [] => Some (st, None, o)
  | WSpan _ _ _ _ :: _ => None
  end.

Definition page_alloc (c : cfg) (st : state) (n : N) (huge commit : bool) (ws : list where_) (o : list bool)
  : option (state * option page * list bool) :=
  if huge then huge_page_alloc c st n ws o else segments_page_alloc c st n commit ws o.

(* ---------------------------------------------------------------- purge / collect *)
Definition seg_try_purge_at (c : cfg) (st : state) (base : N) (o : list bool) : option (state * list bool) :=
  match find_seg base (st_segs st) with
  | None => None
  | Some s =>
    let '(s', acc', o') := segment_try_purge c s (st_acc st) o in
    Some (mk (st_arena st) (replace_seg s' (st_segs st)) (st_live st) (st_raw st) acc', o')
  end.
Definition arenas_purge_st (c : cfg) (st : state) (o : list bool) : state * list bool :=
  let '(a', acc', o') := arenas_try_purge c (st_arena st) (st_acc st) o in
  (mk a' (st_segs st) (st_live st) (st_raw st) acc', o').
(* mi_heap_collect_ex(MI_FORCE): the segments are visited in the order of the heap's page queues (an argument;
   bases that name no segment are skipped), then _mi_arenas_collect(true) *)
Fixpoint collect_segs (c : cfg) (st : state) (order : list N) (o : list bool) : state * list bool :=
  match order with
  | [] => (st, o)
  | b :: rest =>
    match seg_try_purge_at c st b o with
    | None => collect_segs c st rest o
    | Some (st', o') => collect_segs c st' rest o'
    end
  end.
Definition collect (c : cfg) (st : state) (order : list N) (o : list bool) : state * list bool :=
  let '(st1, o1) := collect_segs c st order o in arenas_purge_st c st1 o1.

(* ---------------------------------------------------------------- page free *)
(* (segment_release / segment_free: see above, before mi_segments_page_alloc) *)
(* _mi_segment_page_free.  [clo, clo+cn) is the coalesced free span that mi_segment_span_free_coalesce builds around
   the page (normal segments); `expired`: a clock test of mi_segment_schedule_purge / mi_segment_try_purge passes *)
Definition free_page (c : cfg) (st : state) (p : page) (clo cn : N) (expired unmap_ok : bool) (o : list bool)
  : option (state * list bool) :=
  if negb (existsb (page_eqb p) (st_live st)) then None
  else
    match find_seg (pg_seg p) (st_segs st) with
    | None => None
    | Some s =>
      let live' := remove_page p (st_live st) in
      if is_huge s then
        (* huge: the page is only marked free; segment->used = 0: mi_segment_free *)
        let '(a', acc', o') := segment_release c (st_arena st) (st_acc st) s unmap_ok o in
        Some (mk a' (remove_seg (sg_base s) (st_segs st)) live' (st_raw st) acc', o')
      else if (clo <? sg_info s) || (pg_lo p <? clo) || (clo + cn <? pg_lo p + pg_n p) || (sg_nslices s <? clo + cn)
              || negb (span_is_free live' (sg_base s) clo cn)
      then None
      else
        let '(s1, acc1, o1) := span_free c s (st_acc st) clo cn true o in
        let '(s2, acc2, o2) := if expired then segment_try_purge c s1 acc1 o1 else (s1, acc1, o1) in
        if seg_has_live (sg_base s) live' then
          Some (mk (st_arena st) (replace_seg s2 (st_segs st)) live' (st_raw st) acc2, o2)
        else
          let '(a', acc', o') := segment_release c (st_arena st) acc2 s2 unmap_ok o2 in
          Some (mk a' (remove_seg (sg_base s) (st_segs st)) live' (st_raw st) acc', o')
    end.

(* ---------------------------------------------------------------- the step function *)
Inductive result :=
  | RUnit
  | RNone                             (* the API call reports failure (NULL) *)
  | RPage (p : page)                  (* a page was handed out *)
  | RMem (committed zero : bool).     (* arena blocks with their memid flags *)

Inductive op :=
  | OpAlloc (n : N) (huge commit : bool) (tries : list (list where_)) (order : list N) (tries2 : list (list where_))
      (* _mi_malloc_generic needing a fresh page of n slices: mi_find_page with the attempts `tries`; when it fails a
         forced collect visiting the segments `order`, and mi_find_page once more with the attempts `tries2` *)
  | OpAllocNoHeap                     (* mi_thread_data_zalloc was refused: the heap is _mi_heap_empty *)
  | OpFree (p : page) (clo cn : N) (expired unmap_ok : bool)
  | OpPurge (base : N)                (* mi_segment_try_purge whose timer has expired *)
  | OpArenaPurge                      (* mi_arenas_try_purge whose timer has expired *)
  | OpCollect (order : list N)        (* mi_collect(true) *)
  | OpArenaAlloc (b0 n : N) (commit : bool)                  (* _mi_arena_alloc_aligned by another user *)
  | OpArenaFree (b0 n : N) (all_committed : bool).           (* its _mi_arena_free *)

(* mi_find_page: mi_large_huge_page_alloc makes one attempt to get a fresh page; mi_page_queue_find_free_ex (small and
   medium size classes) makes a second one when the first returned NULL.  `tries` lists the attempts made. *)
Fixpoint find_page (c : cfg) (st : state) (n : N) (huge commit : bool) (tries : list (list where_)) (o : list bool)
  : option (state * option page * list bool) :=
  match tries with
  | [] => Some (st, None, o)
  | ws :: rest =>
    match page_alloc c st n huge commit ws o with
    | None => None
    | Some (st', Some p, o') => Some (st', Some p, o')
    | Some (st', None, o') => find_page c st' n huge commit rest o'
    end
  end.

(* _mi_malloc_generic *)
Definition malloc_generic (c : cfg) (st : state) (n : N) (huge commit : bool) (tries : list (list where_)) (order : list N)
  (tries2 : list (list where_)) (o : list bool) : option (state * result * list bool) :=
  match find_page c st n huge commit tries o with
  | None => None
  | Some (st1, Some p, o1) => Some (st1, RPage p, o1)
  | Some (st1, None, o1) =>
    (* first time out of memory: collect and retry the allocation once more *)
    let '(st2, o2) := collect c st1 order o1 in
    match find_page c st2 n huge commit tries2 o2 with
    | None => None
    | Some (st3, Some p, o3) => Some (st3, RPage p, o3)
    | Some (st3, None, o3) => Some (st3, RNone, o3)
    end
  end.

Definition raw_eqb (r : N * N) (b0 n : N) : bool := (fst r =? b0) && (snd r =? n).

Definition step (c : cfg) (st : state) (x : op) (o : list bool) : option (state * result * list bool) :=
  match x with
  | OpAlloc n huge commit tries order tries2 => malloc_generic c st n huge commit tries order tries2 o
  | OpAllocNoHeap => Some (st, RNone, o)
  | OpFree p clo cn expired unmap_ok =>
    match free_page c st p clo cn expired unmap_ok o with
    | None => None
    | Some (st', o') => Some (st', RUnit, o')
    end
  | OpPurge base =>
    match seg_try_purge_at c st base o with
    | None => None
    | Some (st', o') => Some (st', RUnit, o')
    end
  | OpArenaPurge => let '(st', o') := arenas_purge_st c st o in Some (st', RUnit, o')
  | OpCollect order => let '(st', o') := collect c st order o in Some (st', RUnit, o')
  | OpArenaAlloc b0 n commit =>
    match arena_try_alloc_at (st_arena st) (st_acc st) b0 n commit o with
    | None => None
    | Some (mc, z, a', acc', o') => Some (mk a' (st_segs st) (st_live st) ((b0, n) :: st_raw st) acc', RMem mc z, o')
    end
  | OpArenaFree b0 n all_committed =>
    if negb (existsb (fun r => raw_eqb r b0 n) (st_raw st)) then None
    else
      let '(a', acc', o') := arena_free c (st_arena st) (st_acc st) b0 n all_committed o in
      Some (mk a' (st_segs st) (st_live st) (filter (fun r => negb (raw_eqb r b0 n)) (st_raw st)) acc', RUnit, o')
  end.

Fixpoint run (c : cfg) (st : state) (ops : list op) (o : list bool) : option (state * list result * list bool) :=
  match ops with
  | [] => Some (st, [], o)
  | x :: rest =>
    match step c st x o with
    | None => None
    | Some (st', r, o') =>
      match run c st' rest o' with
      | None => None
      | Some (st'', rs, o'') => Some (st'', r :: rs, o'')
      end
    end
  end.

(* ---------------------------------------------------------------- the invariant, as a program *)
Definition slice_used (s : segment) (live : list page) (i : N) : bool :=
  (i <? sg_info s) || existsb (fun p => (pg_seg p =? sg_base s) && in_range (pg_lo p) (pg_n p) i) live.
(* a slice whose accessibility is recorded by the commit mask of a normal segment *)
Definition governed (segs : list segment) (x : N) : bool :=
  existsb (fun s => negb (is_huge s) && in_range (sg_base s) (sg_nslices s) x) segs.

Definition seg_wf_b (a : arena) (s : segment) : bool :=
  (0 <? sg_info s) && (sg_info s <? sg_nslices s) &&
  (is_huge s || (sg_nslices s =? MASK_BITS)) &&
  match sg_mem s with
  | MemArena b0 nb =>
    (sg_base s =? block_slice a b0) && (b0 + nb <=? a_nblocks a) && (sg_nslices s <=? nb * BLOCK_SLICES) &&
    all_in (a_inuse a) b0 nb
  | MemOs => range_disjoint (sg_base s) (sg_nslices s) (a_start a) (a_nblocks a * BLOCK_SLICES)
  end.
(* (S) *)
Definition seg_mask_b (acc : bits) (s : segment) : bool :=
  if is_huge s then all_in acc (sg_base s) (sg_nslices s)
  else all_in (fun i => negb (sg_commit s i) || acc (sg_base s + i)) 0 (sg_nslices s).
(* (L) used slices are committed and not scheduled, (P) purge_mask inside commit_mask *)
Definition seg_used_b (live : list page) (s : segment) : bool :=
  is_huge s ||
  all_in (fun i => (negb (slice_used s live i) || (sg_commit s i && negb (sg_purge s i))) &&
                   (negb (sg_purge s i) || sg_commit s i)) 0 MASK_BITS.
(* (D) *)
Definition page_wf_b (segs : list segment) (p : page) : bool :=
  match find_seg (pg_seg p) segs with
  | None => false
  | Some s => (sg_info s <=? pg_lo p) && (0 <? pg_n p) && (pg_lo p + pg_n p <=? sg_nslices s) &&
              (* the page of a huge segment is everything after the header *)
              (negb (is_huge s) || ((pg_lo p =? sg_info s) && (pg_n p =? sg_nslices s - sg_info s)))
  end.
Fixpoint pairwise {A : Type} (r : A -> A -> bool) (l : list A) : bool :=
  match l with [] => true | x :: t => forallb (r x) t && pairwise r t end.
Definition pages_disjoint (p q : page) : bool :=
  negb (pg_seg p =? pg_seg q) || range_disjoint (pg_lo p) (pg_n p) (pg_lo q) (pg_n q).
Definition owner_disjoint (x y : N * N) : bool := range_disjoint (fst x) (snd x) (fst y) (snd y).
Definition raw_wf_b (a : arena) (r : N * N) : bool :=
  (0 <? snd r) && (fst r + snd r <=? a_nblocks a) && all_in (a_inuse a) (fst r) (snd r).
(* (A) *)
Definition arena_acc_b (a : arena) (segs : list segment) (acc : bits) : bool :=
  all_in (fun b => negb (a_committed a b) ||
                   all_in (fun x => governed segs x || acc x) (block_slice a b) BLOCK_SLICES) 0 (a_nblocks a).

Definition commit_inv_b (st : state) : bool :=
  forallb (seg_wf_b (st_arena st)) (st_segs st) &&
  forallb (raw_wf_b (st_arena st)) (st_raw st) &&
  pairwise owner_disjoint (owners st) &&
  arena_acc_b (st_arena st) (st_segs st) (st_acc st) &&
  forallb (seg_mask_b (st_acc st)) (st_segs st) &&
  forallb (seg_used_b (st_live st)) (st_segs st) &&
  forallb (page_wf_b (st_segs st)) (st_live st) &&
  pairwise pages_disjoint (st_live st).

Definition page_accessible (acc : bits) (p : page) : bool := all_in acc (pg_seg p + pg_lo p) (pg_n p).

(* ---------------------------------------------------------------- initial states *)
(* mi_manage_os_memory_ex(start, nblocks * 32 MiB, is_committed, is_large = false, is_zero, ...) *)
Definition arena_init (start nblocks : N) (is_committed is_zero : bool) : arena :=
  {| a_start := start; a_nblocks := nblocks; a_zero := is_zero; a_inuse := no_bits;
     a_committed := if is_committed then (fun b => b <? nblocks) else no_bits; a_dirty := no_bits; a_purge := no_bits |}.
Definition state_init (start nblocks : N) (is_committed is_zero : bool) : state :=
  mk (arena_init start nblocks is_committed is_zero) [] [] []
     (if is_committed then set_range no_bits start (nblocks * BLOCK_SLICES) true else no_bits).

(* words of a bit function (for the correspondence check): `count` words of 64 bits from bit `lo` *)
Fixpoint word_of (k : nat) (f : bits) (i : N) : N :=
  match k with O => 0 | S k' => (if f i then 1 else 0) + 2 * word_of k' f (i + 1) end.
Fixpoint words_of (count : nat) (f : bits) (lo : N) : list N :=
  match count with O => [] | S c' => word_of 64 f lo :: words_of c' f (lo + 64) end.
