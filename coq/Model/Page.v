(* Sequential model of one mimalloc page (owner's view), release configuration
   (MI_SECURE=0, MI_PADDING=0, no free-list encoding).  Blocks are indices 0 .. reserved-1; the three
   free lists are lists of indices, head first.  No proofs in this file.

   C sources modelled:
     src/alloc.c  : _mi_page_malloc_zero (the pop; zeroing is in Model/Zero.v)
     src/free.c   : mi_free_block_local (push on local_free, used--), remote push abstracted as
                    `remote_free` (the lock-free protocol itself is Model/TFree.v)
     src/page.c   : _mi_page_thread_free_collect, _mi_page_free_collect, mi_page_free_list_extend,
                    mi_page_extend_free, mi_page_init (reserved/capacity part), mi_page_all_free,
                    mi_page_immediate_available
     src/heap.c   : _mi_heap_area_visit_blocks (free-map construction and walk) *)
From Coq Require Import NArith List Bool.
From MiV Require Import Gen.Consts Model.Arith.
Import ListNotations.
Local Open Scope N_scope.
Local Open Scope bool_scope.

Record page := mkPage {
  bsize        : N;            (* block_size *)
  reserved     : N;            (* uint16 *)
  capacity     : N;            (* uint16 *)
  used         : N;            (* uint16: blocks in use, including those on thread_free *)
  free         : list N;
  local_free   : list N;
  thread_free  : list N;       (* the list part of xthread_free *)
  free_is_zero : bool;
  is_zero_init : bool;
  has_aligned  : bool;
  retire_expire: N
}.

Definition wrap16 (x : N) : N := x mod 65536.

Definition set_free (p : page) (f : list N) : page :=
  mkPage (bsize p) (reserved p) (capacity p) (used p) f (local_free p) (thread_free p)
         (free_is_zero p) (is_zero_init p) (has_aligned p) (retire_expire p).
Definition set_local_free (p : page) (f : list N) : page :=
  mkPage (bsize p) (reserved p) (capacity p) (used p) (free p) f (thread_free p)
         (free_is_zero p) (is_zero_init p) (has_aligned p) (retire_expire p).
Definition set_thread_free (p : page) (f : list N) : page :=
  mkPage (bsize p) (reserved p) (capacity p) (used p) (free p) (local_free p) f
         (free_is_zero p) (is_zero_init p) (has_aligned p) (retire_expire p).
Definition set_used (p : page) (u : N) : page :=
  mkPage (bsize p) (reserved p) (capacity p) u (free p) (local_free p) (thread_free p)
         (free_is_zero p) (is_zero_init p) (has_aligned p) (retire_expire p).
Definition set_capacity (p : page) (c : N) : page :=
  mkPage (bsize p) (reserved p) c (used p) (free p) (local_free p) (thread_free p)
         (free_is_zero p) (is_zero_init p) (has_aligned p) (retire_expire p).
Definition set_free_is_zero (p : page) (b : bool) : page :=
  mkPage (bsize p) (reserved p) (capacity p) (used p) (free p) (local_free p) (thread_free p)
         b (is_zero_init p) (has_aligned p) (retire_expire p).
Definition set_has_aligned (p : page) (b : bool) : page :=
  mkPage (bsize p) (reserved p) (capacity p) (used p) (free p) (local_free p) (thread_free p)
         (free_is_zero p) (is_zero_init p) b (retire_expire p).

(* alloc.c:_mi_page_malloc_zero: pop from the free list; None = free list empty (generic path) *)
Definition page_malloc (p : page) : option (N * page) :=
  match free p with
  | [] => None
  | b :: rest => Some (b, set_used (set_free p rest) (wrap16 (used p + 1)))
  end.

(* free.c:mi_free_block_local: push on local_free; used--.  (retire / unfull are heap-level) *)
Definition page_free_local (p : page) (b : N) : page :=
  set_used (set_local_free p (b :: local_free p)) (wrap16 (used p + 65535)).

(* a completed remote free (mi_free_block_delayed_mt, direct push case): used is not touched *)
Definition page_remote_free (p : page) (b : N) : page :=
  set_thread_free p (b :: thread_free p).

Definition page_all_free (p : page) : bool := used p =? 0.
Definition page_immediate_available (p : page) : bool :=
  match free p with [] => false | _ => true end.

(* page.c:_mi_page_thread_free_collect.  Returns the page and whether EFAULT was reported.
   The walk counts at most capacity+1 elements; more means corruption: the taken list is dropped. *)
Definition page_thread_free_collect (p : page) : page * bool :=
  match thread_free p with
  | [] => (p, false)
  | tf =>
    let count := N.of_nat (length tf) in
    if capacity p <? count then (set_thread_free p [], true)
    else (set_used (set_local_free (set_thread_free p []) (tf ++ local_free p))
                   (wrap16 (used p + 65536 - wrap16 count)), false)
  end.

(* page.c:_mi_page_free_collect *)
Definition page_free_collect (p : page) (force : bool) : page * bool :=
  let '(p1, err) :=
    match thread_free p with
    | [] => (p, false)     (* also with force the CAS on an empty list changes nothing *)
    | _ => page_thread_free_collect p
    end in
  match local_free p1 with
  | [] => (p1, err)
  | lf =>
    match free p1 with
    | [] => (set_free_is_zero (set_local_free (set_free p1 lf) []) false, err)
    | f => if force
           then (set_free_is_zero (set_local_free (set_free p1 (lf ++ f)) []) false, err)
           else (p1, err)
    end
  end.

(* indices cap, cap+1, .., cap+n-1 *)
Fixpoint nseq (start : N) (n : nat) : list N :=
  match n with O => [] | S k => start :: nseq (start + 1) k end.

(* page.c:mi_page_extend_free (MI_SECURE=0: sequential free list, mi_page_free_list_extend) *)
Definition extend_count (p : page) : N :=
  let extend := reserved p - capacity p in
  let max_extend0 := if MI_MAX_EXTEND_SIZE <=? bsize p then MI_MIN_EXTEND else MI_MAX_EXTEND_SIZE / bsize p in
  let max_extend := if max_extend0 <? MI_MIN_EXTEND then MI_MIN_EXTEND else max_extend0 in
  if max_extend <? extend then max_extend else extend.

Definition page_extend (p : page) : page :=
  match free p with
  | _ :: _ => p                                   (* `if (page->free != NULL) return;` *)
  | [] =>
    if reserved p <=? capacity p then p
    else
      let e := extend_count p in
      set_capacity (set_free p (nseq (capacity p) (N.to_nat e) ++ free p)) (wrap16 (capacity p + wrap16 e))
  end.

(* page.c:mi_page_init: reserved = page_size / block_size, then the first extend *)
Definition page_init (block_size page_size : N) (zero_init : bool) : page :=
  page_extend (mkPage block_size (wrap16 (page_size / block_size)) 0 0 [] [] [] zero_init zero_init false 0).

(* ---- heap.c:_mi_heap_area_visit_blocks ------------------------------------------------ *)

(* membership of an index in a list (the free_map bit test) *)
Definition memN (x : N) (l : list N) : bool := existsb (N.eqb x) l.

(* The visitor is called for the block indices returned here, in this order.
   The C code first force-collects the page; then:
   - capacity == 1            -> the single block (used == 1 is asserted)
   - used == capacity         -> every block 0..capacity-1
   - otherwise                -> builds a bitmap of the blocks on `free` (index computed with the fast
                                 divisor from the block's byte offset) and visits the clear bits.
   [offs] lets the fast-division be exercised: the index of a free block is recomputed from its
   byte offset i*bsize exactly as the C does. *)
Definition visit_index_of (p : page) (i : N) : N :=
  let '(magic, shift) := fast_divisor (bsize p) in
  fast_divide (i * bsize p) magic shift.

Definition page_visit_blocks (p0 : page) : list N :=
  let p := fst (page_free_collect p0 true) in
  if used p =? 0 then []
  else if capacity p =? 1 then [0]
  else if used p =? capacity p then nseq 0 (N.to_nat (capacity p))
  else
    let free_map := map (visit_index_of p) (free p) in
    filter (fun i => negb (memN i free_map)) (nseq 0 (N.to_nat (capacity p))).

(* the set of live blocks of a page: inside capacity and on none of the three lists *)
Definition page_live (p : page) : list N :=
  filter (fun i => negb (memN i (free p)) && negb (memN i (local_free p)) && negb (memN i (thread_free p)))
         (nseq 0 (N.to_nat (capacity p))).

(* ---- boolean invariant (Appendix A.1), evaluated on pages dumped from the implementation ---- *)
Fixpoint nodupb (l : list N) : bool :=
  match l with [] => true | x :: r => negb (memN x r) && nodupb r end.

Definition page_inv_b (p : page) : bool :=
  let all := free p ++ local_free p ++ thread_free p in
  (0 <? bsize p) && (capacity p <=? reserved p) && (reserved p <? 65536) &&
  nodupb all && forallb (fun i => i <? capacity p) all &&
  (used p + N.of_nat (length (free p)) + N.of_nat (length (local_free p)) =? capacity p) &&
  (N.of_nat (length (thread_free p)) <=? used p).

(* ---- the page as a state machine: every operation the owner (or a remote thread) can perform ---- *)
Inductive page_op :=
| OpMalloc                      (* _mi_page_malloc_zero with a non-empty free list *)
| OpFree (b : N)                (* mi_free_block_local of a live block *)
| OpRemoteFree (b : N)          (* a remote thread pushed live block b on the thread-free list *)
| OpCollect (force : bool)      (* _mi_page_free_collect *)
| OpExtend.                     (* mi_page_extend_free *)

(* None = the operation is not enabled: malloc on an empty free list takes the generic path (which
   is a sequence of the other operations); freeing a block that is not live is a program error
   outside the allocator's contract (double free detection is property C17). *)
Definition page_step (p : page) (o : page_op) : option page :=
  match o with
  | OpMalloc => match page_malloc p with Some (_, p') => Some p' | None => None end
  | OpFree b => if memN b (page_live p) then Some (page_free_local p b) else None
  | OpRemoteFree b => if memN b (page_live p) then Some (page_remote_free p b) else None
  | OpCollect f => Some (fst (page_free_collect p f))
  | OpExtend => Some (page_extend p)
  end.

Fixpoint page_run (p : page) (ops : list page_op) : option page :=
  match ops with
  | [] => Some p
  | o :: r => match page_step p o with Some p' => page_run p' r | None => None end
  end.
