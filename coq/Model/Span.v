(* Model of the segment slice map and the per-thread span queues of mimalloc (release configuration,
   MI_SECURE=0: no guard slices).  One segment is modelled entry by entry -- interior-pointer lookup
   (`_mi_segment_page_of`) depends on exactly which back-offsets are written -- including the entry AT
   index `slice_entries` that huge pages use.  Every definition follows the C source statement by
   statement; `uint32_t` casts are written as `wrap32`.  No proofs in this file.

   C sources modelled:
     src/segment.c : mi_slice_bin, mi_span_queue_push, mi_span_queue_delete, mi_span_queue_for,
                     mi_segment_span_free, mi_segment_span_remove_from_queue,
                     mi_segment_span_free_coalesce, mi_segment_span_allocate (commit = oracle boolean),
                     mi_segment_slice_split, mi_segments_page_find_and_allocate (suitability = predicate),
                     mi_segment_calculate_slices, mi_segment_os_alloc (the request: size, alignment,
                     align_offset), mi_segment_alloc (the initial layout, normal and huge),
                     mi_segment_page_clear (span part), mi_segment_free (queue part),
                     mi_segment_huge_page_alloc (aligned pointer), mi_segment_is_valid (as span_inv_b)
     include/mimalloc/internal.h : _mi_segment_page_of, mi_slice_first (through Arith.slice_first)

   A slice entry is (slice_count, slice_offset in bytes, bsz) with bsz = page->block_size:
   0 = first entry of a free span, 1 = interior marker / span taken out of a queue, > 1 = block size of
   a page in use.  The span queues of the owning thread are `list (list N)`: per bin the slice indices of
   this segment's queued spans, head first (projection of `tld->spans[]` to one segment; `t_find` below is
   the search over the queues of several segments). *)
From Coq Require Import NArith List Bool.
From MiV Require Import Gen.Consts Gen.Bins Model.Arith.
Import ListNotations.
Local Open Scope N_scope.
Local Open Scope bool_scope.

Record slice := mkSlice { slice_count : N; slice_offset : N; bsz : N }.
Definition slice0 : slice := mkSlice 0 0 0.

Inductive seg_kind := SegNormal | SegHuge.

Record segment := mkSeg {
  kind          : seg_kind;
  owned         : bool;          (* thread_id != 0, i.e. not abandoned *)
  slice_entries : N;
  info_slices   : N;
  entries       : list slice;    (* indices 0 .. slice_entries (inclusive) *)
  used          : N
}.

Definition queues := list (list N).
Definition state := (segment * queues)%type.

Definition set_entries (sg : segment) (es : list slice) : segment :=
  mkSeg (kind sg) (owned sg) (slice_entries sg) (info_slices sg) es (used sg).
Definition set_used (sg : segment) (u : N) : segment :=
  mkSeg (kind sg) (owned sg) (slice_entries sg) (info_slices sg) (entries sg) u.

Definition wrap32 (x : N) : N := x mod 4294967296.

(* ---- the slice array ---- *)
Definition get (es : list slice) (i : N) : slice := nth (N.to_nat i) es slice0.

Fixpoint set_nat (es : list slice) (i : nat) (s : slice) : list slice :=
  match es, i with
  | [], _ => []
  | _ :: r, O => s :: r
  | e :: r, S k => e :: set_nat r k s
  end.
Definition set (es : list slice) (i : N) (s : slice) : list slice := set_nat es (N.to_nat i) s.

Definition set_bsz (es : list slice) (i b : N) : list slice :=
  set es i (mkSlice (slice_count (get es i)) (slice_offset (get es i)) b).
Definition set_count (es : list slice) (i c : N) : list slice :=
  set es i (mkSlice c (slice_offset (get es i)) (bsz (get es i))).

(* ---- span queues ---- *)
Definition slice_bin (slice_count : N) : N := slice_bin8 slice_count.

Definition q_get (qs : queues) (b : N) : list N := nth (N.to_nat b) qs [].

Fixpoint q_upd_nat (qs : queues) (b : nat) (f : list N -> list N) : queues :=
  match qs, b with
  | [], _ => []
  | l :: r, O => f l :: r
  | l :: r, S k => l :: q_upd_nat r k f
  end.
Definition q_upd (qs : queues) (b : N) (f : list N -> list N) : queues := q_upd_nat qs (N.to_nat b) f.

Definition removeN (x : N) (l : list N) : list N := filter (fun y => negb (y =? x)) l.

(* mi_span_queue_push: push in front; block_size = 0 *)
Definition span_queue_push (st : state) (bin idx : N) : state :=
  let '(sg, qs) := st in
  (set_entries sg (set_bsz (entries sg) idx 0), q_upd qs bin (cons idx)).

(* mi_span_queue_delete: unlink; block_size = 1 ("no more free") *)
Definition span_queue_delete (st : state) (bin idx : N) : state :=
  let '(sg, qs) := st in
  (set_entries sg (set_bsz (entries sg) idx 1), q_upd qs bin (removeN idx)).

(* `sq != NULL` in mi_segment_span_free: not huge and not abandoned *)
Definition queued (sg : segment) : bool :=
  match kind sg with SegNormal => owned sg | SegHuge => false end.

(* mi_segment_span_free (purge scheduling is Model/Mask.v) *)
Definition span_free (st : state) (idx count : N) : state :=
  let '(sg, qs) := st in
  let bin := slice_bin count in                       (* mi_span_queue_for(slice_count) comes first *)
  let count := if count =? 0 then 1 else count in
  let es := entries sg in
  let es1 := set es idx (mkSlice (wrap32 count) 0 (bsz (get es idx))) in
  let es2 :=
    if 1 <? count then
      let last := idx + count - 1 in
      let last := if slice_entries sg <? last then slice_entries sg else last in
      set es1 last (mkSlice 0 (wrap32 (sizeof_mi_page_t * (count - 1))) 0)
    else es1 in
  if queued sg then span_queue_push (set_entries sg es2, qs) bin idx
  else (set_entries sg (set_bsz es2 idx 0), qs).

(* mi_segment_span_remove_from_queue *)
Definition span_remove_from_queue (st : state) (idx : N) : state :=
  span_queue_delete st (slice_bin (slice_count (get (entries (fst st)) idx))) idx.

(* mi_segment_span_free_coalesce; returns the state and the first index of the resulting free span *)
Definition span_free_coalesce (st : state) (idx : N) : state * N :=
  let '(sg, qs) := st in
  match kind sg with
  | SegHuge => ((set_entries sg (set_bsz (entries sg) idx 0), qs), idx)
  | SegNormal =>
    let is_abandoned := negb (owned sg) in
    let es := entries sg in
    let count := slice_count (get es idx) in
    let next := idx + count in
    let '(st1, count1) :=
      if (next <? slice_entries sg) && (bsz (get es next) =? 0)
      then ((if is_abandoned then st else span_remove_from_queue st next), count + slice_count (get es next))
      else (st, count) in
    let es1 := entries (fst st1) in
    let '(st2, count2, idx2) :=
      if 0 <? idx then
        let prev := slice_first (idx - 1) (slice_offset (get es1 (idx - 1))) in
        if bsz (get es1 prev) =? 0 then
          let c2 := count1 + slice_count (get es1 prev) in
          let es2 := set es1 idx (mkSlice 0 (wrap32 ((idx - prev) * sizeof_mi_slice_t)) (bsz (get es1 idx))) in
          let st' := (set_entries (fst st1) es2, snd st1) in
          ((if is_abandoned then st' else span_remove_from_queue st' prev), c2, prev)
        else (st1, count1, idx)
      else (st1, count1, idx) in
    (span_free st2 idx2 count2, idx2)
  end.

(* the loop `for (i = 1; i <= extra; i++)` of mi_segment_span_allocate *)
Fixpoint write_followers (es : list slice) (idx i : N) (k : nat) : list slice :=
  match k with
  | O => es
  | S k' => write_followers (set es (idx + i) (mkSlice 0 (wrap32 (sizeof_mi_slice_t * i)) 1)) idx (i + 1) k'
  end.

(* mi_segment_span_allocate; commit_ok = result of mi_segment_ensure_committed (oracle) *)
Definition span_allocate (st : state) (idx count : N) (commit_ok : bool) : option state :=
  if negb commit_ok then None else
  let '(sg, qs) := st in
  let n := slice_entries sg in
  let es0 := set (entries sg) idx (mkSlice (wrap32 count) 0 (wmul count MI_SEGMENT_SLICE_SIZE)) in
  let extra := count - 1 in
  let extra := if MI_MAX_SLICE_OFFSET_COUNT <? extra then MI_MAX_SLICE_OFFSET_COUNT else extra in
  let extra := if n <=? idx + extra then n - idx - 1 else extra in
  let es1 := write_followers es0 idx 1 (N.to_nat extra) in
  let last := idx + count - 1 in
  let last := if n <? last then n else last in
  let es2 := if idx <? last then set es1 last (mkSlice 0 (wrap32 (sizeof_mi_slice_t * (last - idx))) 1) else es1 in
  Some (set_used (set_entries sg es2) (used sg + 1), qs).

(* mi_segment_slice_split *)
Definition slice_split (st : state) (idx count : N) : state :=
  let c := slice_count (get (entries (fst st)) idx) in
  if c <=? count then st else
  let '(sg1, qs1) := span_free st (idx + count) (c - count) in
  (set_entries sg1 (set_count (entries sg1) idx (wrap32 count)), qs1).

(* the search of mi_segments_page_find_and_allocate: queues from the bin of `count` upwards, every
   queue from its head, first entry with slice_count >= count whose segment is suitable *)
Fixpoint find_in_queue (es : list slice) (count : N) (suitable : N -> bool) (q : list N) : option N :=
  match q with
  | [] => None
  | i :: r => if (count <=? slice_count (get es i)) && suitable i then Some i
              else find_in_queue es count suitable r
  end.

Fixpoint find_bins (es : list slice) (count : N) (suitable : N -> bool) (qs : queues) (b : N) : option (N * N) :=
  match qs with
  | [] => None
  | q :: r => match find_in_queue es count suitable q with
              | Some i => Some (b, i)
              | None => find_bins es count suitable r (b + 1)
              end
  end.

Definition find_span (st : state) (count : N) (suitable : N -> bool) : option (N * N) :=
  let '(sg, qs) := st in
  let bin := slice_bin count in
  let count := if count =? 0 then 1 else count in
  find_bins (entries sg) count suitable
            (skipn (N.to_nat bin) (firstn (N.to_nat (MI_SEGMENT_BIN_MAX + 1)) qs)) bin.

(* mi_segments_page_find_and_allocate: (Some idx = the page, None = nothing found or commit failed) *)
Definition page_find_and_allocate (st : state) (count : N) (suitable : N -> bool) (commit_ok : bool)
  : option N * state :=
  match find_span st count suitable with
  | None => (None, st)
  | Some (b, idx) =>
    let count := if count =? 0 then 1 else count in
    let st1 := span_queue_delete st b idx in
    let st2 := if count <? slice_count (get (entries (fst st1)) idx) then slice_split st1 idx count else st1 in
    match span_allocate st2 idx (slice_count (get (entries (fst st2)) idx)) commit_ok with
    | Some st3 => (Some idx, st3)
    | None => (None, fst (span_free_coalesce st2 idx))     (* commit failed: restore the slice *)
    end
  end.

(* mi_page_init / mi_segment_huge_page_alloc store the real block size in the first entry *)
Definition set_block_size (st : state) (idx bs : N) : state :=
  let '(sg, qs) := st in (set_entries sg (set_bsz (entries sg) idx bs), qs).

(* mi_segment_page_clear, span part: block_size = 1; free_coalesce; used-- *)
Definition page_clear (st : state) (idx : N) : state * N :=
  let '(sg, qs) := st in
  let st1 := (set_entries sg (set_bsz (entries sg) idx 1), qs) in
  let '((sg2, qs2), first) := span_free_coalesce st1 idx in
  ((set_used sg2 (wsub (used sg2) 1), qs2), first).

(* mi_segment_calculate_slices (MI_SECURE = 0): (segment_slices, info_slices) *)
Definition calculate_slices (required : N) : N * N :=
  let isize := align_up sizeof_mi_segment_t os_page_size_default in
  let isize := align_up isize MI_SEGMENT_SLICE_SIZE in
  let info := isize / MI_SEGMENT_SLICE_SIZE in
  let segment_size := if required =? 0 then MI_SEGMENT_SIZE
                      else align_up (wadd required isize) MI_SEGMENT_SLICE_SIZE in
  (segment_size / MI_SEGMENT_SLICE_SIZE, info).

(* mi_segment_alloc + mi_segment_os_alloc: sizes.  Returns
   (segment_slices, info_slices, OS alignment, align_offset) for `required` bytes (0 = normal segment)
   and `page_alignment` (0 = none) *)
Definition segment_request (required page_alignment : N) : N * N * N * N :=
  let '(segment_slices, info) := calculate_slices required in
  if 0 <? page_alignment then
    let info_size := wmul info MI_SEGMENT_SLICE_SIZE in
    let align_offset := align_up info_size MI_SEGMENT_SIZE in       (* MI_SEGMENT_ALIGN *)
    let extra := wsub align_offset info_size in
    let '(segment_slices', info') := calculate_slices (wadd required extra) in
    (segment_slices', info', page_alignment, align_offset)
  else (segment_slices, info, MI_SEGMENT_SIZE, 0).

Definition empty_queues : queues := repeat [] (N.to_nat (MI_SEGMENT_BIN_MAX + 1)).

(* mi_segment_alloc: the slice array of a fresh segment (zeroed entries 0 .. slice_entries), the info
   span, then one free span (normal) or the huge page.  `qs` = the thread's queues (projection). *)
Definition segment_init (required page_alignment : N) (qs : queues) : option state :=
  let '(segment_slices, info, _, _) := segment_request required page_alignment in
  let n := if MI_SLICES_PER_SEGMENT <? segment_slices then MI_SLICES_PER_SEGMENT else segment_slices in
  let k := if required =? 0 then SegNormal else SegHuge in
  let sg0 := mkSeg k true n info (repeat slice0 (N.to_nat (n + 1))) 0 in
  match span_allocate (sg0, qs) 0 info true with
  | None => None
  | Some (sg1, qs1) =>
    let st1 := (set_used sg1 0, qs1) in                  (* don't count the internal slices *)
    match k with
    | SegNormal => Some (span_free st1 info (n - info))
    | SegHuge => span_allocate st1 info (segment_slices - info) true
    end
  end.

(* mi_segment_free, queue part: every free span is taken out of its queue *)
Fixpoint segment_free_walk (fuel : nat) (st : state) (i : N) : option state :=
  if slice_entries (fst st) <=? i then Some st else
  match fuel with
  | O => None
  | S f =>
    let e := get (entries (fst st)) i in
    if slice_count e =? 0 then None else
    let st' := if (bsz e =? 0) && (match kind (fst st) with SegHuge => false | SegNormal => true end)
               then span_remove_from_queue st i else st in
    segment_free_walk f st' (i + slice_count e)
  end.
Definition segment_free (st : state) : option state :=
  segment_free_walk (length (entries (fst st))) st 0.

(* ---- pointer -> page ---- *)
(* _mi_segment_page_of on a segment at address `base`: slice index of p, then mi_slice_first *)
Definition segment_page_of (base : N) (sg : segment) (p : N) : N :=
  let idx := slice_index_of base p in
  slice_first idx (slice_offset (get (entries sg) idx)).

(* _mi_segment_page_start: (start address, page size) of the page whose first slice is idx *)
Definition page_start (base : N) (sg : segment) (idx : N) : N * N :=
  let e := get (entries sg) idx in
  page_start_from_slice base idx (slice_count e) (bsz e).

(* mi_segment_huge_page_alloc with page_alignment > 0 / mi_heap_malloc_zero_aligned_at_overalloc:
   the user pointer inside the huge page *)
Definition huge_aligned_ptr (base : N) (sg : segment) (page_alignment : N) : N :=
  align_up (fst (page_start base sg (info_slices sg))) page_alignment.

(* ---- several segments of one thread: the search over the real queues ---- *)
(* queue entries are (segment id, slice index); a segment is found by its id *)
Fixpoint seg_lookup (segs : list (N * segment)) (sid : N) : option segment :=
  match segs with
  | [] => None
  | (k, sg) :: r => if k =? sid then Some sg else seg_lookup r sid
  end.

Fixpoint t_find_in_queue (segs : list (N * segment)) (count : N) (suitable : N -> bool) (q : list (N * N))
  : option (N * N) :=
  match q with
  | [] => None
  | (sid, i) :: r =>
    match seg_lookup segs sid with
    | Some sg => if (count <=? slice_count (get (entries sg) i)) && suitable sid then Some (sid, i)
                 else t_find_in_queue segs count suitable r
    | None => t_find_in_queue segs count suitable r
    end
  end.

Fixpoint t_find_bins (segs : list (N * segment)) (count : N) (suitable : N -> bool) (qs : list (list (N * N)))
  : option (N * N) :=
  match qs with
  | [] => None
  | q :: r => match t_find_in_queue segs count suitable q with
              | Some x => Some x
              | None => t_find_bins segs count suitable r
              end
  end.

(* which (segment, slice) mi_segments_page_find_and_allocate picks *)
Definition t_find (segs : list (N * segment)) (tqs : list (list (N * N))) (count : N) (suitable : N -> bool)
  : option (N * N) :=
  let bin := slice_bin count in
  let count := if count =? 0 then 1 else count in
  t_find_bins segs count suitable (skipn (N.to_nat bin) (firstn (N.to_nat (MI_SEGMENT_BIN_MAX + 1)) tqs)).

(* the queues of one segment *)
Definition proj_queue (sid : N) (q : list (N * N)) : list N :=
  map snd (filter (fun x => fst x =? sid) q).
Definition proj_queues (sid : N) (tqs : list (list (N * N))) : queues := map (proj_queue sid) tqs.

(* ---- the boolean invariant: translation of mi_segment_is_valid (Appendix A.3) ---- *)
Definition slice_eqb (a b : slice) : bool :=
  (slice_count a =? slice_count b) && (slice_offset a =? slice_offset b) && (bsz a =? bsz b).

Definition follower (k : N) : slice := mkSlice 0 (k * sizeof_mi_slice_t) 1.

(* the walk `slice = &segment->slices[maxindex+1]`: Some spans = list of (first index, slice_count) *)
Fixpoint walk (fuel : nat) (es : list slice) (n i : N) : option (list (N * N)) :=
  if n <=? i then (if i =? n then Some [] else None) else
  match fuel with
  | O => None
  | S f =>
    let e := get es i in
    if (0 <? slice_count e) && (slice_offset e =? 0) then
      match walk f es n (N.min (i + slice_count e) n) with
      | Some r => Some ((i, slice_count e) :: r)
      | None => None
      end
    else None
  end.

Definition spans_of (sg : segment) : option (list (N * N)) :=
  walk (length (entries sg)) (entries sg) (slice_entries sg) 0.

Fixpoint nrange (start : N) (k : nat) : list N :=
  match k with O => [] | S k' => start :: nrange (start + 1) k' end.

Definition kind_is_huge (sg : segment) : bool := match kind sg with SegHuge => true | SegNormal => false end.

Definition used_ok_b (sg : segment) (i c : N) : bool :=
  let es := entries sg in let n := slice_entries sg in
  let maxindex := N.min (i + c) n - 1 in
  forallb (fun k => (maxindex <? i + k) || slice_eqb (get es (i + k)) (follower k))
          (nrange 1 (N.to_nat MI_MAX_SLICE_OFFSET_COUNT)) &&
  (let l := N.min (i + c - 1) n in negb (i <? l) || slice_eqb (get es l) (follower (l - i))) &&
  (negb (kind_is_huge sg && (n <? i + c) && (i <? n - 1)) ||
   ((slice_count (get es (n - 1)) =? 0) && (bsz (get es (n - 1)) <=? 1))).

Definition memNb (x : N) (l : list N) : bool := existsb (N.eqb x) l.

Definition free_ok_b (sg : segment) (qs : queues) (i c : N) : bool :=
  let es := entries sg in let n := slice_entries sg in
  let maxindex := N.min (i + c) n - 1 in
  let last := get es maxindex in
  (negb (negb (kind_is_huge sg) || (c <=? n - info_slices sg)) ||
     (slice_offset last =? (maxindex - i) * sizeof_mi_slice_t)) &&
  ((i =? maxindex) || (slice_count last =? 0)) &&
  ((bsz last =? 0) || (kind_is_huge sg && (bsz last =? 1))) &&
  (negb (queued sg) || memNb i (q_get qs (slice_bin c))).

Definition span_ok_b (sg : segment) (qs : queues) (sp : N * N) : bool :=
  let '(i, c) := sp in
  let e := get (entries sg) i in
  (c <? 4294967296) && (kind_is_huge sg || (i + c <=? slice_entries sg)) &&
  (if 0 <? bsz e then used_ok_b sg i c else free_ok_b sg qs i c).

Definition count_used (es : list slice) (sps : list (N * N)) : N :=
  N.of_nat (length (filter (fun sp => 0 <? bsz (get es (fst sp))) sps)).

Fixpoint nodupNb (l : list N) : bool :=
  match l with [] => true | x :: r => negb (memNb x r) && nodupNb r end.

Definition mem_span (i c : N) (sps : list (N * N)) : bool :=
  existsb (fun sp => (fst sp =? i) && (snd sp =? c)) sps.

(* every queued index is the first entry of a free span of this segment, in the bin of its count, once *)
Fixpoint queues_ok_b (es : list slice) (sps : list (N * N)) (qs : queues) (b : N) : bool :=
  match qs with
  | [] => true
  | q :: r =>
    nodupNb q &&
    forallb (fun i => (bsz (get es i) =? 0) && mem_span i (slice_count (get es i)) sps &&
                      (slice_bin (slice_count (get es i)) =? b)) q &&
    queues_ok_b es sps r (b + 1)
  end.

Definition is_nil (l : list N) : bool := match l with [] => true | _ => false end.

Definition span_inv_b (st : state) : bool :=
  let '(sg, qs) := st in
  let es := entries sg in let n := slice_entries sg in
  match spans_of sg with
  | None => false
  | Some sps =>
    forallb (span_ok_b sg qs) sps &&
    (match sps with (i, c) :: _ => (i =? 0) && (c =? info_slices sg) | [] => false end) &&
    (negb (kind_is_huge sg) ||                       (* a huge segment: the info span and one page *)
     match sps with [_; (i, _)] => i =? info_slices sg | _ => false end) &&
    (0 <? bsz (get es 0)) &&
    (used sg + 1 =? count_used es sps) &&
    (N.of_nat (length es) =? n + 1) && (n <=? MI_SLICES_PER_SEGMENT) &&
    (N.of_nat (length qs) =? MI_SEGMENT_BIN_MAX + 1) &&
    queues_ok_b es sps qs 0 &&
    (queued sg || forallb is_nil qs)
  end.

(* the spans in use (first index, slice_count) *)
Definition used_spans (sg : segment) : list (N * N) :=
  match spans_of sg with
  | None => []
  | Some sps => filter (fun sp => 0 <? bsz (get (entries sg) (fst sp))) sps
  end.

(* no two adjacent free spans (coalescing is complete); not part of mi_segment_is_valid *)
Fixpoint no_adjacent_free (es : list slice) (sps : list (N * N)) : bool :=
  match sps with
  | a :: ((b :: _) as r) => negb ((bsz (get es (fst a)) =? 0) && (bsz (get es (fst b)) =? 0)) && no_adjacent_free es r
  | _ => true
  end.
Definition coalesced_b (sg : segment) : bool :=
  match spans_of sg with None => false | Some sps => no_adjacent_free (entries sg) sps end.

(* ---- the segment as a state machine ---- *)
Inductive span_op :=
| OpAlloc (count : N) (suitable_all : bool) (commit_ok : bool)  (* mi_segments_page_find_and_allocate *)
| OpSetBlockSize (idx bs : N)                                    (* mi_page_init: block_size of a page in use *)
| OpFree (idx : N).                                              (* mi_segment_page_clear of a page in use *)

(* None = the operation is not enabled in this state *)
Definition span_step (st : state) (o : span_op) : option state :=
  match o with
  | OpAlloc count suit commit_ok =>
    if (count <=? MI_SLICES_PER_SEGMENT) then Some (snd (page_find_and_allocate st count (fun _ => suit) commit_ok)) else None
  | OpSetBlockSize idx bs =>
    if (1 <? bs) && (0 <? idx) && memNb idx (map fst (used_spans (fst st))) then Some (set_block_size st idx bs) else None
  | OpFree idx =>
    if (0 <? idx) && memNb idx (map fst (used_spans (fst st))) then Some (fst (page_clear st idx)) else None
  end.

Fixpoint span_run (st : state) (ops : list span_op) : option state :=
  match ops with
  | [] => Some st
  | o :: r => match span_step st o with Some st' => span_run st' r | None => None end
  end.
