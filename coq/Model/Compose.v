(* Composition of the page, span and address-arithmetic models into ONE concrete memory state
   (property C01, DESIGN.md section 3: C01_refines_map).  No proofs in this file.

   A concrete memory state is a list of segments at given base addresses; every segment carries its
   Span.v state (slice array + the projection of the thread's span queues) and one Page.v page per
   span in use (all spans in use except the segment-info span 0).  Every page carries a GHOST table
   block index |-> requested size of the blocks that are live (handed out and not freed).

   C sources modelled (release configuration, one thread):
     src/page.c    : _mi_malloc_generic / mi_find_page / mi_find_free_page (WHICH page is used is the
                     `choice` argument; the page queues themselves are Model/Heap.v, Queue laws C16),
                     mi_large_huge_page_alloc, mi_page_fresh_alloc, mi_page_init (through Page.page_init),
                     mi_page_extend_free, _mi_page_free_collect, _mi_page_free (as retire_page)
     src/alloc.c   : _mi_page_malloc_zero (Page.page_malloc) and the address of the popped block
     src/segment.c : _mi_segment_page_alloc, mi_segments_page_alloc (slices_needed),
                     mi_segment_huge_page_alloc, mi_segment_alloc (Span.segment_init),
                     _mi_segment_page_start (Span.page_start = Arith.page_start_from_slice),
                     _mi_segment_page_free / mi_segment_page_clear / mi_segment_free (retire_page)
     src/free.c    : mi_free -> _mi_ptr_segment, _mi_segment_page_of, _mi_page_ptr_unalign (resolve),
                     mi_free_block_local (Page.page_free_local); a completed remote free
                     (Page.page_remote_free) is the same operation with remote = true
   Not modelled here: commit failure (C07: page_find_and_allocate is called with commit_ok = true),
   the page queues / retire heuristics (when a page is retired is an operation of its own), the
   interior user pointer of over-aligned blocks (Model/Api.v: b_adjust; `resolve` does follow
   _mi_page_ptr_unalign when the page has the has_aligned flag).
   Assertions of the C code that the model needs are dynamic checks (None = the assertion fails). *)
From Coq Require Import NArith List Bool.
From MiV Require Import Gen.Consts Gen.Bins Model.Arith Model.Page Model.Span.
Import ListNotations.
Local Open Scope N_scope.
Local Open Scope bool_scope.

(* ---- keyed lists ---------------------------------------------------------------------- *)
Fixpoint kfind {A} (key : A -> N) (l : list A) (k : N) : option A :=
  match l with [] => None | x :: r => if key x =? k then Some x else kfind key r k end.
(* replace the element that has the key of x *)
Fixpoint kset {A} (key : A -> N) (l : list A) (x : A) : list A :=
  match l with [] => [] | y :: r => if key y =? key x then x :: r else y :: kset key r x end.
Definition kdel {A} (key : A -> N) (l : list A) (k : N) : list A := filter (fun y => negb (key y =? k)) l.

(* ---- the state ------------------------------------------------------------------------ *)
Record cpage := mkCPage {
  cp_idx   : N;               (* first slice of the page's span *)
  cp_page  : page;            (* Model/Page.v *)
  cp_ghost : list (N * N)     (* ghost: live block index |-> requested size *)
}.
Record cseg := mkCSeg {
  cs_base  : N;               (* address of the segment (multiple of MI_SEGMENT_SIZE) *)
  cs_st    : Span.state;      (* Model/Span.v: slice array and queue projection *)
  cs_pages : list cpage
}.
Definition mem := list cseg.

Definition find_seg (m : mem) (base : N) : option cseg := kfind cs_base m base.
Definition find_page (cs : cseg) (idx : N) : option cpage := kfind cp_idx (cs_pages cs) idx.
Definition set_pages (cs : cseg) (ps : list cpage) : cseg := mkCSeg (cs_base cs) (cs_st cs) ps.
Definition put_page (m : mem) (cs : cseg) (cp : cpage) : mem :=
  kset cs_base m (set_pages cs (kset cp_idx (cs_pages cs) cp)).

(* number of slices of the segment's memory: a huge segment is as long as its single page *)
Definition seg_slices (sg : segment) : N :=
  match kind sg with
  | SegNormal => MI_SLICES_PER_SEGMENT
  | SegHuge => info_slices sg + slice_count (get (entries sg) (info_slices sg))
  end.
Definition seg_size (cs : cseg) : N := seg_slices (fst (cs_st cs)) * MI_SEGMENT_SLICE_SIZE.

(* _mi_segment_page_start: (start address, page size) of the page at slice idx *)
Definition page_area (cs : cseg) (idx : N) : N * N := Span.page_start (cs_base cs) (fst (cs_st cs)) idx.
(* mi_page_block_at *)
Definition block_addr (cs : cseg) (cp : cpage) (b : N) : N :=
  fst (page_area cs (cp_idx cp)) + b * bsize (cp_page cp).

(* ---- the abstraction: all live blocks as (address, usable size, requested size) ---------- *)
Definition page_blocks (cs : cseg) (cp : cpage) : list (N * N * N) :=
  map (fun g => (block_addr cs cp (fst g), bsize (cp_page cp), snd g)) (cp_ghost cp).
Definition seg_blocks (cs : cseg) : list (N * N * N) := flat_map (page_blocks cs) (cs_pages cs).
Definition live_blocks (m : mem) : list (N * N * N) := flat_map seg_blocks m.

(* ---- allocation ----------------------------------------------------------------------- *)
(* _mi_page_malloc_zero on page (base, idx); `mi_assert_internal(mi_page_block_size(page) >= size)` *)
Definition pop_block (m : mem) (base idx size : N) : option (mem * N) :=
  match find_seg m base with
  | None => None
  | Some cs =>
    match find_page cs idx with
    | None => None
    | Some cp =>
      if size <=? bsize (cp_page cp) then
        match page_malloc (cp_page cp) with
        | None => None
        | Some (b, pg') =>
          Some (put_page m cs (mkCPage idx pg' ((b, size) :: cp_ghost cp)), block_addr cs cp b)
        end
      else None
    end
  end.

(* an operation on the Page.v state of one page *)
Definition on_page (m : mem) (base idx : N) (f : page -> page) : option mem :=
  match find_seg m base with
  | None => None
  | Some cs =>
    match find_page cs idx with
    | None => None
    | Some cp => Some (put_page m cs (mkCPage idx (f (cp_page cp)) (cp_ghost cp)))
    end
  end.
Definition collect_page (m : mem) (base idx : N) (force : bool) : option mem :=
  on_page m base idx (fun pg => fst (page_free_collect pg force)).
Definition extend_page (m : mem) (base idx : N) : option mem := on_page m base idx page_extend.

(* page-queue.c: pages of the queue mi_page_queue(heap, size) have block_size = _mi_bin_size(mi_bin(size));
   page.c: mi_large_huge_page_alloc uses _mi_os_good_alloc_size(size) *)
Definition block_size_of (size : N) : N :=
  if size <=? MI_MEDIUM_OBJ_SIZE_MAX then bin_size (mi_bin size) else os_good_alloc_size size.

(* segment.c: _mi_segment_page_alloc + mi_segments_page_alloc: slices of a page for blocks of bs bytes *)
Definition slices_needed (bs : N) : N :=
  let required := if bs <=? MI_SMALL_OBJ_SIZE_MAX then bs
                  else if bs <=? MI_MEDIUM_OBJ_SIZE_MAX then MI_MEDIUM_PAGE_SIZE else bs in
  align_up required (if MI_MEDIUM_PAGE_SIZE <? required then MI_MEDIUM_PAGE_SIZE else MI_SEGMENT_SLICE_SIZE)
    / MI_SEGMENT_SLICE_SIZE.

(* mi_page_init on the span at idx of segment cs (whose slice array already holds the block size):
   the assertions block_size <= page_size, page_size / block_size < 2^16 are checked *)
Definition init_cpage (cs : cseg) (idx bs : N) : option cpage :=
  let psize := snd (page_area cs idx) in
  if (0 <? bs) && (bs <=? psize) && (psize / bs <? 65536)
  then Some (mkCPage idx (page_init bs psize false) [])
  else None.

(* mi_page_fresh_alloc in a normal segment that has a suitable free span: find_and_allocate,
   page->block_size = bs, mi_page_init.  Returns the slice index of the page *)
Definition fresh_page (m : mem) (base bs : N) : option (mem * N) :=
  if negb ((0 <? bs) && (bs <=? MI_LARGE_OBJ_SIZE_MAX)) then None else
  match find_seg m base with
  | None => None
  | Some cs =>
    match kind (fst (cs_st cs)) with
    | SegHuge => None
    | SegNormal =>
      match page_find_and_allocate (cs_st cs) (slices_needed bs) (fun _ => true) true with
      | (None, _) => None
      | (Some idx, st1) =>
        let cs1 := mkCSeg base (set_block_size st1 idx bs) (cs_pages cs) in
        match init_cpage cs1 idx bs with
        | None => None
        | Some cp => Some (kset cs_base m (set_pages cs1 (cp :: cs_pages cs)), idx)
        end
      end
    end
  end.

(* the OS layer's contract for a new segment of `slices` slices at `base` (C11_os_alloc_aligned_spec):
   aligned, not NULL, below 2^63, different and disjoint from every segment that exists *)
Definition base_ok (m : mem) (base slices : N) : bool :=
  (base mod MI_SEGMENT_SIZE =? 0) && (0 <? base) &&
  (base + MI_SEGMENT_SIZE <? 2^63) && (base + slices * MI_SEGMENT_SLICE_SIZE <? 2^63) &&
  forallb (fun cs => negb (cs_base cs =? base) &&
                     ((base + slices * MI_SEGMENT_SLICE_SIZE <=? cs_base cs) || (cs_base cs + seg_size cs <=? base))) m.

(* mi_segment_alloc(required = 0): a fresh normal segment *)
Definition fresh_seg (m : mem) (base : N) : option mem :=
  if base_ok m base MI_SLICES_PER_SEGMENT then
    match segment_init 0 0 empty_queues with
    | None => None
    | Some st => Some (mkCSeg base st [] :: m)
    end
  else None.

(* mi_segment_huge_page_alloc(bs, page_alignment): a fresh huge segment with its single page;
   page->block_size = psize *)
Definition huge_seg (m : mem) (base bs page_alignment : N) : option (mem * N) :=
  let '(ss, info, _, _) := segment_request bs page_alignment in
  (* slice_count is a uint32_t; there is one info slice *)
  if (bs =? 0) || negb ((2 <=? ss) && (ss <? 4294967296) && (info =? 1)) then None else
  match segment_init bs page_alignment empty_queues with
  | None => None
  | Some st =>
    let idx := info_slices (fst st) in
    let cs0 := mkCSeg base st [] in
    let psize := snd (page_area cs0 idx) in
    let cs1 := mkCSeg base (set_block_size st idx psize) [] in
    if base_ok m base (seg_slices (fst (cs_st cs1))) then
      match init_cpage cs1 idx psize with
      | None => None
      | Some cp => if reserved (cp_page cp) =? 1              (* a huge page holds one block *)
                   then Some (set_pages cs1 [cp] :: m, idx) else None
      end
    else None
  end.

(* which way _mi_malloc_generic / the fast path gets its page *)
Inductive choice :=
| ChPage (base idx : N)                 (* a page of the size class with a free block (fast path, mi_find_free_page) *)
| ChCollect (base idx : N) (force : bool)  (* _mi_page_free_collect made a block available *)
| ChExtend (base idx : N)               (* mi_page_extend_free made a block available *)
| ChFreshPage (base : N)                (* mi_page_fresh: a free span of an existing segment *)
| ChFreshSeg (base : N)                 (* mi_segment_reclaim_or_alloc: a new segment at `base`, then a page in it *)
| ChHuge (base page_alignment : N).     (* mi_large_huge_page_alloc with a huge block: its own segment at `base` *)

(* pages of an ordinary queue serve exactly their size class *)
Definition class_ok (m : mem) (base idx size : N) : bool :=
  match find_seg m base with
  | None => false
  | Some cs => match find_page cs idx with
               | None => false
               | Some cp => (size <=? MI_MEDIUM_OBJ_SIZE_MAX) && (bsize (cp_page cp) =? block_size_of size)
               end
  end.

Definition mmalloc (m : mem) (size : N) (ch : choice) : option (mem * N) :=
  match ch with
  | ChPage base idx => if class_ok m base idx size then pop_block m base idx size else None
  | ChCollect base idx force =>
    if class_ok m base idx size then
      match collect_page m base idx force with Some m1 => pop_block m1 base idx size | None => None end
    else None
  | ChExtend base idx =>
    if class_ok m base idx size then
      match extend_page m base idx with Some m1 => pop_block m1 base idx size | None => None end
    else None
  | ChFreshPage base =>
    match fresh_page m base (block_size_of size) with
    | Some (m1, idx) => pop_block m1 base idx size
    | None => None
    end
  | ChFreshSeg base =>
    match fresh_seg m base with
    | Some m0 => match fresh_page m0 base (block_size_of size) with
                 | Some (m1, idx) => pop_block m1 base idx size
                 | None => None
                 end
    | None => None
    end
  | ChHuge base al =>
    if (MI_LARGE_OBJ_SIZE_MAX <? block_size_of size) || (0 <? al) then
      match huge_seg m base (block_size_of size) al with
      | Some (m1, idx) => pop_block m1 base idx size
      | None => None
      end
    else None
  end.

(* ---- free by ADDRESS ------------------------------------------------------------------ *)
(* mi_free: _mi_ptr_segment, _mi_segment_page_of, (_mi_page_ptr_unalign when the page has the
   has_aligned flag); the block index is recovered from the block address *)
Definition resolve (m : mem) (p : N) : option (N * N * N) :=
  let base := ptr_segment p in
  if base =? 0 then None else
  match find_seg m base with
  | None => None
  | Some cs =>
    let idx := segment_page_of base (fst (cs_st cs)) p in
    match find_page cs idx with
    | None => None
    | Some cp =>
      let pg := cp_page cp in
      let start := fst (page_area cs idx) in
      let blk := if has_aligned pg then ptr_unalign start (bsize pg) p else p in
      let b := (blk - start) / bsize pg in
      if (start <=? blk) && (start + b * bsize pg =? blk) then Some (base, idx, b) else None
    end
  end.

Definition ghost_del (g : list (N * N)) (b : N) : list (N * N) := filter (fun e => negb (fst e =? b)) g.
Definition ghost_has (g : list (N * N)) (b : N) : bool := existsb (fun e => fst e =? b) g.

(* mi_free_block_local (remote = false) / a completed mi_free_block_mt (remote = true) of the block
   that p resolves to; None = p is not (inside) a live block: outside the allocator's contract *)
Definition free_block (m : mem) (p : N) (remote : bool) : option mem :=
  match resolve m p with
  | None => None
  | Some (base, idx, b) =>
    match find_seg m base with
    | None => None
    | Some cs =>
      match find_page cs idx with
      | None => None
      | Some cp =>
        if ghost_has (cp_ghost cp) b then
          let pg' := if remote then page_remote_free (cp_page cp) b else page_free_local (cp_page cp) b in
          Some (put_page m cs (mkCPage idx pg' (ghost_del (cp_ghost cp) b)))
        else None
      end
    end
  end.
Definition mfree (m : mem) (p : N) : option mem := free_block m p false.

(* _mi_page_free of a page without used blocks: mi_segment_page_clear; a segment whose last page is
   gone is released (mi_segment_free) *)
Definition retire_page (m : mem) (base idx : N) : option mem :=
  match find_seg m base with
  | None => None
  | Some cs =>
    match find_page cs idx with
    | None => None
    | Some cp =>
      if Page.used (cp_page cp) =? 0 then
        let st1 := fst (page_clear (cs_st cs) idx) in
        if Span.used (fst st1) =? 0 then Some (kdel cs_base m base)
        else Some (kset cs_base m (mkCSeg base st1 (kdel cp_idx (cs_pages cs) idx)))
      else None
    end
  end.

(* ---- the memory as a state machine ------------------------------------------------------ *)
Inductive mop :=
| MMalloc (size : N) (ch : choice)
| MFree (p : N)
| MRemoteFree (p : N)
| MCollect (base idx : N) (force : bool)
| MExtend (base idx : N)
| MFreshPage (base bs : N)             (* a page allocated ahead of use *)
| MRetire (base idx : N).

Definition mstep (m : mem) (o : mop) : option mem :=
  match o with
  | MMalloc size ch => match mmalloc m size ch with Some (m', _) => Some m' | None => None end
  | MFree p => free_block m p false
  | MRemoteFree p => free_block m p true
  | MCollect base idx force => collect_page m base idx force
  | MExtend base idx => extend_page m base idx
  | MFreshPage base bs => match fresh_page m base bs with Some (m', _) => Some m' | None => None end
  | MRetire base idx => retire_page m base idx
  end.

Fixpoint mrun (m : mem) (ops : list mop) : option mem :=
  match ops with
  | [] => Some m
  | o :: r => match mstep m o with Some m' => mrun m' r | None => None end
  end.

(* ---- the boolean invariant, evaluated on states rebuilt from dumps of the implementation --- *)
Definition ghost_ok_b (cp : cpage) : bool :=
  let pg := cp_page cp in let keys := map fst (cp_ghost cp) in
  nodupb keys &&
  forallb (fun b => memN b (page_live pg)) keys &&
  forallb (fun b => memN b keys) (page_live pg) &&
  forallb (fun e => snd e <=? bsize pg) (cp_ghost cp).

Definition page_ok_b (cs : cseg) (cp : cpage) : bool :=
  let pg := cp_page cp in
  let e := get (entries (fst (cs_st cs))) (cp_idx cp) in
  page_inv_b pg && (bsize pg =? bsz e) &&
  (reserved pg =? snd (page_area cs (cp_idx cp)) / bsize pg) &&
  ghost_ok_b cp.

Definition seg_ok_b (cs : cseg) : bool :=
  let base := cs_base cs in let sg := fst (cs_st cs) in
  let idxs := map cp_idx (cs_pages cs) in
  let firsts := filter (fun i => 0 <? i) (map fst (used_spans sg)) in
  (base mod MI_SEGMENT_SIZE =? 0) && (0 <? base) &&
  (base + MI_SEGMENT_SIZE <? 2^63) && (base + seg_size cs <? 2^63) &&
  span_inv_b (cs_st cs) &&
  nodupb idxs && forallb (fun i => memN i firsts) idxs && forallb (fun i => memN i idxs) firsts &&
  forallb (page_ok_b cs) (cs_pages cs) &&
  (if kind_is_huge sg then forallb (fun cp => reserved (cp_page cp) <=? 1) (cs_pages cs)
   else forallb (fun sp => snd sp <=? MI_MAX_SLICE_OFFSET_COUNT + 1) (used_spans sg)).

Fixpoint apart_b (m : mem) : bool :=
  match m with
  | [] => true
  | a :: r =>
    forallb (fun b => negb (cs_base a =? cs_base b) &&
                      ((cs_base a + seg_size a <=? cs_base b) || (cs_base b + seg_size b <=? cs_base a))) r
    && apart_b r
  end.

Definition mem_inv_b (m : mem) : bool := forallb seg_ok_b m && apart_b m.

(* is p an address that _mi_segment_page_of can resolve inside the span (i, c) of segment cs: not beyond
   base + MI_SEGMENT_SIZE, an existing slice entry, and within MI_MAX_SLICE_OFFSET_COUNT slices of the
   first one (or in the last one) *)
Definition resolvable_b (cs : cseg) (i c p : N) : bool :=
  let sg := fst (cs_st cs) in let s := slice_index_of (cs_base cs) p in
  (p <=? cs_base cs + MI_SEGMENT_SIZE) &&
  (negb (kind_is_huge sg) || (s <=? slice_entries sg)) &&
  ((s - i <=? MI_MAX_SLICE_OFFSET_COUNT) || (s =? N.min (i + c - 1) (slice_entries sg))).
