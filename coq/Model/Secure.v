(* Model of the hardening checks of mimalloc (MI_SECURE=4 and MI_DEBUG>=1 builds, i.e.
   MI_ENCODE_FREELIST=1, MI_PADDING=1, MI_PADDING_CHECK=1) on ONE page, with the three free lists
   *stored in memory*: a block is an index 0..reserved-1, its memory is a byte function
   (offset -> byte), the first word (bytes 0..7, little endian) of a freed block is the encoded
   `next`, and the last MI_PADDING_SIZE bytes of a live block are the padding trailer
   (uint32 canary, uint32 delta) preceded by the 0xDE fill bytes.  Head pointers are block
   indices (`None` = NULL).  Every operation returns the new state and the list of error codes
   it reported through `_mi_error_message` (in order).  No proofs in this file.

   C sources modelled (line by line):
     include/mimalloc/internal.h : mi_rotl, mi_rotr, mi_ptr_encode, mi_ptr_decode,
                                   mi_ptr_encode_canary, mi_block_nextx, mi_block_set_next(x),
                                   mi_block_next (EFAULT + cut), mi_is_in_same_page,
                                   mi_page_usable_block_size
     src/free.c  : mi_list_contains, mi_check_is_double_freex, mi_check_is_double_free,
                   mi_page_decode_padding, mi_verify_padding, mi_check_padding, _mi_padding_shrink,
                   mi_free_block_local, mi_free_block_mt + mi_free_block_delayed_mt (the usual
                   "push on the page's thread_free list" path, sequentially: `remote_free`)
     src/alloc.c : _mi_page_malloc_zero (pop, `next=0` / 0xD0 fill, padding canary/delta/fill)
     src/page.c  : _mi_page_thread_free_collect (bounded walk), _mi_page_free_collect,
                   mi_page_free_list_extend, mi_page_free_list_extend_secure (the resulting order
                   is an argument), mi_page_extend_free (extend count)

   Outside the model (result `Undef`): the allocator follows a link that decodes to an address
   inside the page area that is not the start of a block (property C17 makes no claim then);
   a request larger than the usable block size (excluded by an assertion in the C code).
   `OutOfFuel`: a C loop without bound (mi_list_contains, the tail walk of a forced collect) ran
   longer than capacity+1 steps.  Huge pages are not modelled (their padding fill is skipped). *)
From Coq Require Import NArith List Bool.
From MiV Require Import Gen.Consts Model.Arith.
Import ListNotations.
Local Open Scope N_scope.
Local Open Scope bool_scope.

(* constants of the hardened configurations (checked against the build by harness/t_secure.c) *)
Definition PAD : N := 8.                 (* MI_PADDING_SIZE = sizeof(mi_padding_t) *)
Definition DBG_UNINIT : N := 208.        (* MI_DEBUG_UNINIT  0xD0 *)
Definition DBG_FREED : N := 223.         (* MI_DEBUG_FREED   0xDF *)
Definition DBG_PADDING : N := 222.       (* MI_DEBUG_PADDING 0xDE *)
Definition CANARY_MASK : N := 4294967040.  (* 0xFFFFFF00 (little endian) *)
Definition W32 : N := 4294967296.
Definition W16 : N := 65536.

(* ---------------------------------------------------------------------------------------- *)
(* internal.h: mi_rotl / mi_rotr / mi_ptr_encode / mi_ptr_decode on uintptr_t = 64 bits       *)
(* ---------------------------------------------------------------------------------------- *)
Definition rotl (x shift : N) : N :=
  let s := shift mod MI_SIZE_BITS in
  if s =? 0 then x else N.lor (wrap (N.shiftl x s)) (N.shiftr x (MI_SIZE_BITS - s)).
Definition rotr (x shift : N) : N :=
  let s := shift mod MI_SIZE_BITS in
  if s =? 0 then x else N.lor (N.shiftr x s) (wrap (N.shiftl x (MI_SIZE_BITS - s))).

(* `null` is the address used in place of NULL (the mi_page_t itself) *)
Definition ptr_encode (null p k0 k1 : N) : N :=
  let x := if p =? 0 then null else p in
  wadd (rotl (N.lxor x k1) k0) k0.
Definition ptr_decode (null x k0 k1 : N) : N :=
  let p := N.lxor (rotr (wsub x k0) k0) k1 in
  if p =? null then 0 else p.
Definition encode_canary (null p k0 k1 : N) : N :=
  N.land (ptr_encode null p k0 k1 mod W32) CANARY_MASK.

(* ---------------------------------------------------------------------------------------- *)
(* block memory: byte offset -> byte                                                          *)
(* ---------------------------------------------------------------------------------------- *)
Definition blk := N -> N.
Definition byte (b : blk) (o : N) : N := b o mod 256.
Fixpoint load_le (n : nat) (b : blk) (o : N) : N :=
  match n with O => 0 | S n' => byte b o + 256 * load_le n' b (N.succ o) end.
Definition store_le (n : N) (b : blk) (o v : N) : blk :=
  fun x => if (o <=? x) && (x <? o + n) then (v / 256 ^ (x - o)) mod 256 else b x.
Definition fill (b : blk) (o n v : N) : blk :=
  fun x => if (o <=? x) && (x <? o + n) then v else b x.
Definition upd {A : Type} (m : N -> A) (i : N) (a : A) : N -> A :=
  fun j => if j =? i then a else m j.

(* ---------------------------------------------------------------------------------------- *)
(* page                                                                                       *)
(* ---------------------------------------------------------------------------------------- *)
Record cfg := mkCfg {
  bsz    : N;        (* page->block_size (includes the padding) *)
  rsv    : N;        (* page->reserved *)
  k0     : N;        (* page->keys[0] *)
  k1     : N;        (* page->keys[1] *)
  pgaddr : N;        (* address of the mi_page_t: the `null` of the encoding *)
  seg    : N;        (* _mi_ptr_segment of the blocks of the page *)
  pstart : N;        (* page area start  (_mi_segment_page_start) *)
  psize  : N;        (* page area size *)
  dbg    : bool;     (* MI_DEBUG>0 : memset 0xD0 on malloc, 0xDF on free *)
  seclvl : N         (* MI_SECURE level (0 in the debug build, 4 in the secure build) *)
}.

Record st := mkSt {
  cap   : N;             (* page->capacity *)
  free  : option N;      (* page->free *)
  lfree : option N;      (* page->local_free *)
  tfree : option N;      (* block part of page->xthread_free *)
  used  : N;             (* page->used (uint16) *)
  mem   : N -> blk       (* block index -> bytes of the block *)
}.

Inductive res (A : Type) : Type := Ok (a : A) | Undef | OutOfFuel.
Arguments Ok {A} a.
Arguments Undef {A}.
Arguments OutOfFuel {A}.

Definition usable (c : cfg) : N := bsz c - PAD.          (* mi_page_usable_block_size *)
Definition addr (c : cfg) (i : N) : N := pstart c + i * bsz c.
Definition haddr (c : cfg) (h : option N) : N := match h with None => 0 | Some i => addr c i end.

(* mi_is_in_same_page(block, q) for a block of this page *)
Definition in_same_page (c : cfg) (q : N) : bool :=
  (ptr_segment q =? seg c) && (pstart c <=? q) && (q <? pstart c + psize c).

Inductive nxt : Type := NNull | NBlk (i : N) | NWild (a : N).
Definition opt_of (n : nxt) : option N := match n with NBlk i => Some i | _ => None end.

(* an address (inside the page area, or NULL) as a block index *)
Definition classify (c : cfg) (a : N) : nxt :=
  if a =? 0 then NNull
  else let d := a - pstart c in
       if d mod bsz c =? 0 then NBlk (d / bsz c) else NWild a.

Definition enc (c : cfg) (a : N) : N := ptr_encode (pgaddr c) a (k0 c) (k1 c).
Definition first_word (m : N -> blk) (i : N) : N := load_le 8 (m i) 0.

(* mi_block_nextx(page, block, page->keys): the decoded address *)
Definition block_nextx (c : cfg) (m : N -> blk) (i : N) : N :=
  ptr_decode (pgaddr c) (first_word m i) (k0 c) (k1 c).

(* mi_block_next: corrupted entry => EFAULT and NULL *)
Definition block_next (c : cfg) (m : N -> blk) (i : N) : nxt * list N :=
  let n := block_nextx c m i in
  if negb (n =? 0) && negb (in_same_page c n) then (NNull, [EFAULT_])
  else (classify c n, []).

(* mi_block_set_next *)
Definition set_next (c : cfg) (m : N -> blk) (i : N) (next : option N) : N -> blk :=
  upd m i (store_le 8 (m i) 0 (enc c (haddr c next))).

(* ---------------------------------------------------------------------------------------- *)
(* free.c: double free check                                                                  *)
(* ---------------------------------------------------------------------------------------- *)
Fixpoint list_contains (fuel : nat) (c : cfg) (m : N -> blk) (l : option N) (e : N)
  : res (bool * list N) :=
  match l with
  | None => Ok (false, [])
  | Some i =>
    if i =? e then Ok (true, [])
    else match fuel with
         | O => OutOfFuel
         | S f =>
           match block_next c m i with
           | (NWild _, _) => Undef
           | (n, er) =>
             match list_contains f c m (opt_of n) e with
             | Ok (b, er') => Ok (b, er ++ er')
             | r => r
             end
           end
         end
  end.

Definition walk_fuel (s : st) : nat := S (N.to_nat (cap s)).

Definition check_is_double_freex (c : cfg) (s : st) (i : N) : res (bool * list N) :=
  let fuel := walk_fuel s in
  match list_contains fuel c (mem s) (free s) i with
  | Ok (true, e1) => Ok (true, e1 ++ [EAGAIN_])
  | Ok (false, e1) =>
    match list_contains fuel c (mem s) (lfree s) i with
    | Ok (true, e2) => Ok (true, e1 ++ e2 ++ [EAGAIN_])
    | Ok (false, e2) =>
      match list_contains fuel c (mem s) (tfree s) i with
      | Ok (true, e3) => Ok (true, e1 ++ e2 ++ e3 ++ [EAGAIN_])
      | Ok (false, e3) => Ok (false, e1 ++ e2 ++ e3)
      | r => r
      end
    | r => r
    end
  | r => r
  end.

Definition check_is_double_free (c : cfg) (s : st) (i : N) : res (bool * list N) :=
  let n := block_nextx c (mem s) i in
  if (N.land n (MI_INTPTR_SIZE - 1) =? 0) && ((n =? 0) || in_same_page c n)
  then check_is_double_freex c s i
  else Ok (false, []).

(* ---------------------------------------------------------------------------------------- *)
(* free.c: padding                                                                            *)
(* ---------------------------------------------------------------------------------------- *)
(* mi_page_decode_padding: (ok, delta, bsize) *)
Definition decode_padding (c : cfg) (b : blk) (baddr : N) : bool * N * N :=
  let bsize := usable c in
  let delta := load_le 4 b (bsize + 4) in
  let canary := load_le 4 b bsize in
  ((encode_canary (pgaddr c) baddr (k0 c) (k1 c) =? canary) && (delta <=? bsize), delta, bsize).

Fixpoint first_bad (b : blk) (o : N) (n : nat) (k : N) : option N :=
  match n with
  | O => None
  | S n' => if negb (byte b (o + k) =? DBG_PADDING) then Some k else first_bad b o n' (N.succ k)
  end.

(* mi_verify_padding: (ok, size, wrong) *)
Definition verify_padding (c : cfg) (b : blk) (baddr : N) : bool * N * N :=
  let '(ok, delta, bsize) := decode_padding c b baddr in
  if negb ok then (false, bsize, bsize)
  else
    let size := bsize - delta in
    let maxpad := if MI_MAX_ALIGN_SIZE <? delta then MI_MAX_ALIGN_SIZE else delta in
    match first_bad b size (N.to_nat maxpad) 0 with
    | Some k => (false, size, size + k)
    | None => (true, size, bsize)
    end.

Definition check_padding (c : cfg) (b : blk) (baddr : N) : list N :=
  let '(ok, _, _) := verify_padding c b baddr in
  if ok then [] else [EFAULT_].

(* mi_page_usable_size_of *)
Definition usable_size_of (c : cfg) (b : blk) (baddr : N) : N :=
  let '(ok, delta, bsize) := decode_padding c b baddr in
  if ok then bsize - delta else 0.

(* _mi_padding_shrink(page, block, min_size) *)
Definition padding_shrink (c : cfg) (b : blk) (baddr : N) (min_size : N) : blk :=
  let '(ok, delta, bsize) := decode_padding c b baddr in
  if negb ok || (min_size <=? bsize - delta) then b
  else if bsize <? min_size then b
  else store_le 4 b (bsize + 4) (bsize - min_size).

(* ---------------------------------------------------------------------------------------- *)
(* alloc.c: _mi_page_malloc_zero(heap, page, req + MI_PADDING_SIZE, zero=false)               *)
(* result: (state, block or nothing when page->free == NULL, errors)                          *)
(* ---------------------------------------------------------------------------------------- *)
Definition set_mem (s : st) (m : N -> blk) : st :=
  mkSt (cap s) (free s) (lfree s) (tfree s) (used s) m.

Definition malloc (c : cfg) (s : st) (req : N) : res (st * option N * list N) :=
  match free s with
  | None => Ok (s, None, [])
  | Some i =>
    if usable c <? req then Undef
    else
      match block_next c (mem s) i with
      | (NWild _, _) => Undef
      | (n, er) =>
        let b0 := mem s i in
        let b1 := if dbg c then fill b0 0 (usable c) DBG_UNINIT
                  else if negb (seclvl c =? 0) then store_le 8 b0 0 0 else b0 in
        let delta := usable c - req in
        let b2 := store_le 4 b1 (usable c) (encode_canary (pgaddr c) (addr c i) (k0 c) (k1 c)) in
        let b3 := store_le 4 b2 (usable c + 4) delta in
        let maxpad := if MI_MAX_ALIGN_SIZE <? delta then MI_MAX_ALIGN_SIZE else delta in
        let b4 := fill b3 req maxpad DBG_PADDING in
        Ok (mkSt (cap s) (opt_of n) (lfree s) (tfree s) ((used s + 1) mod W16) (upd (mem s) i b4),
            Some i, er)
      end
  end.

(* ---------------------------------------------------------------------------------------- *)
(* free.c: mi_free_block_local                                                                *)
(* ---------------------------------------------------------------------------------------- *)
Definition free_block_local (c : cfg) (s : st) (i : N) : res (st * list N) :=
  match check_is_double_free c s i with
  | Ok (true, e) => Ok (s, e)                      (* reported, otherwise ignored *)
  | Ok (false, e1) =>
    let b0 := mem s i in
    let e2 := check_padding c b0 (addr c i) in     (* reported; the free proceeds *)
    let b1 := if dbg c then fill b0 0 (bsz c) DBG_FREED else b0 in
    let b2 := store_le 8 b1 0 (enc c (haddr c (lfree s))) in
    Ok (mkSt (cap s) (free s) (Some i) (tfree s) ((used s + W16 - 1) mod W16) (upd (mem s) i b2),
        e1 ++ e2)
  | Undef => Undef
  | OutOfFuel => OutOfFuel
  end.

(* mi_free_block_mt (no reclaim, not huge) followed by the usual path of mi_free_block_delayed_mt:
   push on the page's thread_free list *)
Definition remote_free (c : cfg) (s : st) (i : N) : st * list N :=
  let b0 := mem s i in
  let e := check_padding c b0 (addr c i) in
  let b1 := padding_shrink c b0 (addr c i) MI_INTPTR_SIZE in
  let b2 := if dbg c then fill b1 0 (usable_size_of c b1 (addr c i)) DBG_FREED else b1 in
  let b3 := store_le 8 b2 0 (enc c (haddr c (tfree s))) in
  (mkSt (cap s) (free s) (lfree s) (Some i) (used s) (upd (mem s) i b3), e).

(* ---------------------------------------------------------------------------------------- *)
(* page.c: _mi_page_thread_free_collect                                                       *)
(* ---------------------------------------------------------------------------------------- *)
(* the loop `while ((next = mi_block_next(page,tail)) != NULL && count <= max_count)`;
   result (count, tail, errors) *)
Fixpoint tf_walk (fuel : nat) (c : cfg) (m : N -> blk) (max_count count tail : N)
  : res (N * N * list N) :=
  match fuel with
  | O => OutOfFuel
  | S f =>
    match block_next c m tail with
    | (NNull, er) => Ok (count, tail, er)
    | (NBlk j, er) =>
      if count <=? max_count then
        match tf_walk f c m max_count (count + 1) j with
        | Ok (n, t, er') => Ok (n, t, er ++ er')
        | r => r
        end
      else Ok (count, tail, er)
    | (NWild _, er) => if count <=? max_count then Undef else Ok (count, tail, er)
    end
  end.

Definition tf_fuel (s : st) : nat := S (S (N.to_nat (cap s))).

Definition thread_free_collect (c : cfg) (s : st) : res (st * list N) :=
  match tfree s with
  | None => Ok (s, [])
  | Some head =>
    match tf_walk (tf_fuel s) c (mem s) (cap s) 1 head with
    | Ok (count, tail, er) =>
      if cap s <? count
      then Ok (mkSt (cap s) (free s) (lfree s) None (used s) (mem s), er ++ [EFAULT_])
      else Ok (mkSt (cap s) (free s) (Some head) None ((used s + W16 - count mod W16) mod W16)
                    (set_next c (mem s) tail (lfree s)), er)
    | Undef => Undef
    | OutOfFuel => OutOfFuel
    end
  end.

(* the tail of a list: `while ((next = mi_block_next(page, tail)) != NULL) tail = next;` *)
Fixpoint last_of (fuel : nat) (c : cfg) (m : N -> blk) (tail : N) : res (N * list N) :=
  match fuel with
  | O => OutOfFuel
  | S f =>
    match block_next c m tail with
    | (NNull, er) => Ok (tail, er)
    | (NBlk j, er) =>
      match last_of f c m j with Ok (t, er') => Ok (t, er ++ er') | r => r end
    | (NWild _, _) => Undef
    end
  end.

(* _mi_page_free_collect(page, force) *)
Definition free_collect (c : cfg) (s : st) (force : bool) : res (st * list N) :=
  let r1 := if force || (match tfree s with Some _ => true | None => false end)
            then thread_free_collect c s else Ok (s, []) in
  match r1 with
  | Ok (s1, e1) =>
    match lfree s1 with
    | None => Ok (s1, e1)
    | Some lh =>
      match free s1 with
      | None => Ok (mkSt (cap s1) (Some lh) None (tfree s1) (used s1) (mem s1), e1)
      | Some fh =>
        if force then
          match last_of (walk_fuel s1) c (mem s1) lh with
          | Ok (tail, e2) =>
            Ok (mkSt (cap s1) (Some lh) None (tfree s1) (used s1)
                     (set_next c (mem s1) tail (Some fh)), e1 ++ e2)
          | Undef => Undef
          | OutOfFuel => OutOfFuel
          end
        else Ok (s1, e1)
      end
    end
  | r => r
  end.

(* ---------------------------------------------------------------------------------------- *)
(* page.c: extending the free list                                                            *)
(* ---------------------------------------------------------------------------------------- *)
(* link the blocks in the given order, the last one to `last_next` *)
Fixpoint link_order (c : cfg) (m : N -> blk) (order : list N) (last_next : option N) : N -> blk :=
  match order with
  | [] => m
  | i :: tl =>
    match tl with
    | [] => set_next c m i last_next
    | j :: _ => link_order c (set_next c m i (Some j)) tl last_next
    end
  end.

Definition extend_order (c : cfg) (s : st) (order : list N) : st :=
  match order with
  | [] => s
  | h :: _ =>
    mkSt (cap s + N.of_nat (length order)) (Some h) (lfree s) (tfree s) (used s)
         (link_order c (mem s) order (free s))
  end.

(* mi_page_extend_free: how many blocks *)
Definition min_extend (c : cfg) : N := if seclvl c =? 0 then 4 else 8 * seclvl c.
Definition extend_count (c : cfg) (s : st) : N :=
  if rsv c <=? cap s then 0
  else
    let extend := rsv c - cap s in
    let max_extend := if MI_MAX_EXTEND_SIZE <=? bsz c then min_extend c else MI_MAX_EXTEND_SIZE / bsz c in
    let max_extend := if max_extend <? min_extend c then min_extend c else max_extend in
    if max_extend <? extend then max_extend else extend.

Fixpoint nseq (start : N) (len : nat) : list N :=
  match len with O => [] | S l => start :: nseq (N.succ start) l end.

(* MI_SECURE<=2: `if (page->free != NULL) return;`  (the same build also asserts
   page->local_free == NULL, which aborts a debug build; the harness extends a debug page only
   when both lists are empty) *)
Definition extend_blocked (c : cfg) (s : st) : bool :=
  (seclvl c <=? 2) && (match free s with Some _ => true | None => false end).

(* mi_page_free_list_extend (sequential order) *)
Definition extend_seq (c : cfg) (s : st) : st :=
  if extend_blocked c s then s
  else extend_order c s (nseq (cap s) (N.to_nat (extend_count c s))).

Fixpoint mem_n (x : N) (l : list N) : bool :=
  match l with [] => false | y :: t => (x =? y) || mem_n x t end.
Fixpoint nodup_b (l : list N) : bool :=
  match l with [] => true | x :: t => negb (mem_n x t) && nodup_b t end.

(* `order` is a permutation of cap .. cap+n-1 *)
Definition is_order_of (order : list N) (start n : N) : bool :=
  (N.of_nat (length order) =? n) && nodup_b order &&
  forallb (fun x => (start <=? x) && (x <? start + n)) order.

(* mi_page_free_list_extend_secure: the shuffled order is an argument *)
Definition extend_secure (c : cfg) (s : st) (order : list N) : res st :=
  if extend_blocked c s then Ok s
  else if is_order_of order (cap s) (extend_count c s) then Ok (extend_order c s order)
  else Undef.

(* ---------------------------------------------------------------------------------------- *)
(* what the program does                                                                      *)
(* ---------------------------------------------------------------------------------------- *)
Definition write_byte (s : st) (i o v : N) : st :=
  set_mem s (upd (mem s) i (fill (mem s i) o 1 (v mod 256))).

(* one byte just past the requested size of live block i (the first fill byte, or the first
   canary byte when delta = 0); the requested size is usable - delta as stored by malloc *)
Definition overflow_write (c : cfg) (s : st) (i v : N) : st :=
  let delta := load_le 4 (mem s i) (usable c + 4) in
  write_byte s i (usable c - delta) v.

(* the first word of a freed block overwritten with an arbitrary 64-bit value *)
Definition overwrite_link (s : st) (i w : N) : st :=
  set_mem s (upd (mem s) i (store_le 8 (mem s i) 0 w)).

Inductive op : Type :=
| OMalloc (req : N)
| OFree (i : N)                 (* mi_free of a thread-local block (also the second free) *)
| ORemoteFree (i : N)
| OTfCollect
| OCollect (force : bool)
| OExtendSeq
| OExtendSecure (order : list N)
| OWrite (i o v : N)            (* the program writes a byte of a block it holds *)
| OOverflow (i v : N)
| OOverwriteLink (i w : N).

(* result: (state, block returned by malloc, errors reported) *)
Definition step (c : cfg) (s : st) (o : op) : res (st * option N * list N) :=
  match o with
  | OMalloc req => malloc c s req
  | OFree i => match free_block_local c s i with Ok (s', e) => Ok (s', None, e) | Undef => Undef | OutOfFuel => OutOfFuel end
  | ORemoteFree i => let '(s', e) := remote_free c s i in Ok (s', None, e)
  | OTfCollect => match thread_free_collect c s with Ok (s', e) => Ok (s', None, e) | Undef => Undef | OutOfFuel => OutOfFuel end
  | OCollect f => match free_collect c s f with Ok (s', e) => Ok (s', None, e) | Undef => Undef | OutOfFuel => OutOfFuel end
  | OExtendSeq => Ok (extend_seq c s, None, [])
  | OExtendSecure order => match extend_secure c s order with Ok s' => Ok (s', None, []) | Undef => Undef | OutOfFuel => OutOfFuel end
  | OWrite i o v => Ok (write_byte s i o v, None, [])
  | OOverflow i v => Ok (overflow_write c s i v, None, [])
  | OOverwriteLink i w => Ok (overwrite_link s i w, None, [])
  end.

(* ---------------------------------------------------------------------------------------- *)
(* executable view of the lists (used by the replay driver and by inv_b)                      *)
(* ---------------------------------------------------------------------------------------- *)
(* the blocks the allocator reaches from a head, the errors on the way *)
Fixpoint walk (fuel : nat) (c : cfg) (m : N -> blk) (h : option N) : res (list N * list N) :=
  match h with
  | None => Ok ([], [])
  | Some i =>
    match fuel with
    | O => OutOfFuel
    | S f =>
      match block_next c m i with
      | (NWild _, _) => Undef
      | (n, er) =>
        match walk f c m (opt_of n) with
        | Ok (l, er') => Ok (i :: l, er ++ er')
        | r => r
        end
      end
    end
  end.

Definition geom_b (c : cfg) (s : st) : bool :=
  (16 <=? bsz c) && (bsz c mod 8 =? 0) && (pstart c mod 8 =? 0) &&
  (cap s <=? rsv c) && (rsv c * bsz c <=? psize c) && (rsv c <? W16) &&
  (k0 c <? W64) && (k1 c <? W64) &&
  (seg c mod MI_SEGMENT_SIZE =? 0) && (0 <? seg c) && (seg c + MI_SEGMENT_SIZE <? 2 ^ 63) &&
  (seg c <=? pgaddr c) && (pgaddr c <? pstart c) &&
  (pstart c + psize c <=? seg c + MI_SEGMENT_SIZE) && (0 <? pgaddr c) && (bsz c <? W32).

(* the strong invariant, executable: the three lists are complete (no cut), duplicate free,
   pairwise disjoint, inside the capacity, and the counters agree *)
Definition inv_b (c : cfg) (s : st) : bool :=
  geom_b c s &&
  match walk (walk_fuel s) c (mem s) (free s), walk (walk_fuel s) c (mem s) (lfree s),
        walk (walk_fuel s) c (mem s) (tfree s) with
  | Ok (F, []), Ok (L, []), Ok (T, []) =>
    nodup_b (F ++ L ++ T) && forallb (fun x => x <? cap s) (F ++ L ++ T) &&
    (used s + N.of_nat (length F) + N.of_nat (length L) =? cap s) &&
    (N.of_nat (length T) <=? used s)
  | _, _, _ => false
  end.

(* ---------------------------------------------------------------------------------------- *)
(* running a history; observation of a state (used by the replay driver and the Examples)     *)
(* ---------------------------------------------------------------------------------------- *)
Fixpoint run (c : cfg) (s : st) (ops : list op) : res (st * list (option N * list N)) :=
  match ops with
  | [] => Ok (s, [])
  | o :: tl =>
    match step c s o with
    | Ok (s1, r, e) =>
      match run c s1 tl with
      | Ok (s2, out) => Ok (s2, (r, e) :: out)
      | Undef => Undef
      | OutOfFuel => OutOfFuel
      end
    | Undef => Undef
    | OutOfFuel => OutOfFuel
    end
  end.

(* (capacity, used, free, local_free, thread_free) with the lists as the allocator would walk them *)
Definition obs (c : cfg) (s : st) : N * N * res (list N * list N) * res (list N * list N) * res (list N * list N) :=
  (cap s, used s, walk (walk_fuel s) c (mem s) (free s), walk (walk_fuel s) c (mem s) (lfree s),
   walk (walk_fuel s) c (mem s) (tfree s)).

Definition run_obs (c : cfg) (s : st) (ops : list op) :=
  match run c s ops with
  | Ok (s', out) => Some (out, obs c s')
  | _ => None
  end.

(* all-zero memory (fresh page) *)
Definition empty_mem : N -> blk := fun _ _ => 0.
