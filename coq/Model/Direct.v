(* Model of the small-size direct table heap->pages_free_direct (src/page-queue.c:
   mi_heap_queue_first_update; include/mimalloc/internal.h: _mi_heap_get_free_small_page).
   Pages are identified by numbers (0 = the empty page `_mi_page_empty`).  No proofs in this file. *)
From Coq Require Import NArith List Bool.
From MiV Require Import Gen.Consts Gen.Bins Model.Arith.
Import ListNotations.
Local Open Scope N_scope.
Local Open Scope bool_scope.

(* entries 0 .. MI_PAGES_DIRECT-1 *)
Definition direct_len : nat := N.to_nat MI_PAGES_DIRECT.
Definition direct_empty : list N := repeat 0 direct_len.

Fixpoint set_range (l : list N) (start idx : N) (page : N) (i : N) : list N :=
  match l with
  | [] => []
  | x :: r => (if (start <=? i) && (i <=? idx) then page else x) :: set_range r start idx page (i + 1)
  end.

(* `while (bin == mi_bin(prev->block_size) && prev > &heap->pages[0]) prev--;` starting at prev = pq-1 *)
Fixpoint prev_walk (fuel : nat) (bin prev : N) : N :=
  match fuel with
  | O => prev
  | S f => if (mi_bin (bin_size prev) =? bin) && (0 <? prev) then prev_walk f bin (prev - 1) else prev
  end.

(* mi_heap_queue_first_update(heap, pq) where pq = &heap->pages[b] and `first` is pq->first (0 if NULL) *)
Definition first_update (direct : list N) (b : N) (first : N) : list N :=
  let size := bin_size b in
  if MI_SMALL_SIZE_MAX <? size then direct
  else
    let idx := wsize_from_size size in
    if nth (N.to_nat idx) direct 0 =? first then direct          (* already set *)
    else
      let start :=
        if idx <=? 1 then 0
        else
          let bin := mi_bin size in
          let prev := prev_walk (N.to_nat b) bin (b - 1) in
          let st := 1 + wsize_from_size (bin_size prev) in
          if idx <? st then idx else st in
      set_range direct start idx first 0.

(* the direct table law (DESIGN.md Appendix A.2): entry w is the first page of the queue that serves
   requests of w words, i.e. queue mi_bin(8*w) *)
Definition direct_ok_b (direct : list N) (qfirst : N -> N) : bool :=
  Nat.eqb (length direct) direct_len &&
  forallb (fun w => nth (N.to_nat w) direct 0 =? qfirst (mi_bin (8 * w))) (map N.of_nat (seq 0 direct_len)).

(* the fast path of mi_malloc for a small size: the page it pops from *)
Definition small_page (direct : list N) (size : N) : N := nth (N.to_nat (wsize_from_size size)) direct 0.
