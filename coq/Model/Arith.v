(* Model of the size-class and address arithmetic of mimalloc (64-bit configuration).
   Every definition follows the C source line by line; `size_t`/`uintptr_t` are `N` with the
   wrap-around written explicitly (`wrap`).  No proofs in this file.

   C sources modelled:
     include/mimalloc/internal.h : _mi_is_power_of_two, _mi_align_up, _mi_align_down, _mi_divide_up,
                                   _mi_wsize_from_size, mi_mul_overflow, mi_count_size_overflow,
                                   _mi_ptr_segment, _mi_segment_page_of (index part)
     include/mimalloc/bits... (internal.h) : mi_clz, mi_ctz, mi_bsr
     src/page-queue.c            : mi_bin, _mi_bin_size, mi_good_size
     src/segment.c               : mi_slice_bin8, _mi_segment_page_start_from_slice
     src/heap.c                  : mi_get_fast_divisor, mi_fast_divide
     src/free.c                  : _mi_page_ptr_unalign
     src/page.c                  : block_size_shift computation in mi_page_init
     src/os.c                    : _mi_os_good_alloc_size *)
From Coq Require Import NArith List Bool.
From MiV Require Import Gen.Consts Gen.Bins.
Import ListNotations.
Local Open Scope N_scope.
Local Open Scope bool_scope.

Definition W64 : N := 18446744073709551616.   (* 2^64 *)
(* reduction modulo 2^64 (the comparison first only makes evaluation cheaper) *)
Definition wrap (x : N) : N := if x <? W64 then x else x mod W64.
(* a - b on uint64 (a, b < 2^64) *)
Definition wsub (a b : N) : N := if b <=? a then a - b else wrap (a + W64 - b).
Definition wadd (a b : N) : N := wrap (a + b).
Definition wmul (a b : N) : N := wrap (a * b).
Definition wnot (a : N) : N := (W64 - 1) - a.

Definition is_power_of_two (x : N) : bool := N.land x (wsub x 1) =? 0.

Definition align_up (sz alignment : N) : N :=
  let mask := wsub alignment 1 in
  if N.land alignment mask =? 0
  then N.land (wadd sz mask) (wnot mask)
  else wmul (wadd sz mask / alignment) alignment.

Definition align_down (sz alignment : N) : N :=
  let mask := wsub alignment 1 in
  if N.land alignment mask =? 0
  then N.land sz (wnot mask)
  else wmul (sz / alignment) alignment.

Definition divide_up (size divider : N) : N :=
  if divider =? 0 then size else wsub (wadd size divider) 1 / divider.

Definition wsize_from_size (size : N) : N := wsub (wadd size MI_INTPTR_SIZE) 1 / MI_INTPTR_SIZE.

(* count leading zeros / bit scan reverse / count trailing zeros on 64-bit words *)
Definition clz (x : N) : N := if x =? 0 then 64 else 63 - N.log2 x.
Definition bsr (x : N) : N := if x =? 0 then 64 else N.log2 x.   (* mi_bsr = MI_SIZE_BITS-1-clz *)
Fixpoint ctz_pos (p : positive) : N :=
  match p with xO q => N.succ (ctz_pos q) | _ => 0 end.
Definition ctz (x : N) : N := match x with N0 => 64 | Npos p => ctz_pos p end.

(* mi_mul_overflow: (overflowed?, low 64 bits) *)
Definition mul_overflow (count size : N) : bool * N :=
  (W64 <=? count * size, wrap (count * size)).

(* mi_count_size_overflow: (overflowed?, *total) *)
Definition count_size_overflow (count size : N) : bool * N :=
  if count =? 1 then (false, size)
  else let '(o, t) := mul_overflow count size in
       if o then (true, SIZE_MAX_) else (false, t).

(* src/page-queue.c: mi_bin; the three #if variants are selected by the generated constant
   MI_ALIGN_VARIANT (4 = MI_ALIGN4W, 2 = MI_ALIGN2W (64-bit default), 1 = neither) *)
Definition mi_bin (size : N) : N :=
  let wsize := wsize_from_size size in
  let small_limit := if MI_ALIGN_VARIANT =? 4 then 4 else 8 in
  if wsize <=? small_limit then
    (if MI_ALIGN_VARIANT =? 1 then (if wsize =? 0 then 1 else wsize)
     else (if wsize <=? 1 then 1 else N.land (wadd wsize 1) (wnot 1)))   (* round to double word sizes *)
  else if MI_MEDIUM_OBJ_WSIZE_MAX <? wsize then MI_BIN_HUGE
  else
    let wsize := if (MI_ALIGN_VARIANT =? 4) && (wsize <=? 16) then N.land (wadd wsize 3) (wnot 3) else wsize in
    let w := wsize - 1 in
    let b := (MI_SIZE_BITS - 1) - clz w in
    wsub (wadd (N.shiftl b 2) (N.land (N.shiftr w (b - 2)) 3)) 3.

Definition bin_size (bin : N) : N := nth (N.to_nat bin) bin_sizes 0.

Definition good_size (size : N) : N :=
  if size <=? MI_MEDIUM_OBJ_SIZE_MAX
  then bin_size (mi_bin (wadd size MI_PADDING_SIZE))
  else align_up (wadd size MI_PADDING_SIZE) os_page_size_default.

(* src/os.c: _mi_os_good_alloc_size *)
Definition os_good_alloc_size (size : N) : N :=
  let align_size :=
    if size <? 512*1024 then os_page_size_default
    else if size <? 2*1024*1024 then 64*1024
    else if size <? 8*1024*1024 then 256*1024
    else if size <? 32*1024*1024 then 1024*1024
    else 4*1024*1024 in
  if (SIZE_MAX_ - align_size) <=? size then size   (* possible overflow? *)
  else align_up size align_size.

(* src/segment.c: mi_slice_bin8 *)
Definition slice_bin8 (slice_count : N) : N :=
  if slice_count <=? 1 then slice_count
  else
    let c := slice_count - 1 in
    let s := bsr c in
    if s <=? 2 then c + 1
    else wsub (N.lor (N.shiftl s 2) (N.land (N.shiftr c (s - 2)) 3)) 4.

(* src/heap.c: mi_get_fast_divisor / mi_fast_divide *)
Definition fast_divisor (divisor : N) : N * N :=
  let shift := MI_SIZE_BITS - clz (wsub divisor 1) in
  let magic := wadd (wmul (2^32) (wsub (wrap (N.shiftl 1 shift)) divisor) / divisor) 1 in
  (magic, shift).

Definition fast_divide (n magic shift : N) : N :=
  let hi := N.shiftr (wmul n magic) 32 in
  N.shiftr (wadd hi n) shift.

(* src/page.c:706-713: block_size_shift *)
Definition block_size_shift (block_size : N) : N :=
  if is_power_of_two block_size && (0 <? block_size) then N.land (ctz block_size) 255 else 0.

(* src/free.c: _mi_page_ptr_unalign, on addresses as numbers *)
Definition ptr_unalign (page_start block_size p : N) : N :=
  let diff := wsub p page_start in
  let sh := block_size_shift block_size in
  let adjust :=
    if negb (sh =? 0) then N.land diff (wsub (wrap (N.shiftl 1 sh)) 1)
    else diff mod block_size in
  wsub p adjust.

(* internal.h: _mi_ptr_segment  (NULL when the result is <= 0 as intptr_t) *)
Definition ptr_segment (p : N) : N :=
  let seg := N.land (wsub p 1) (wnot MI_SEGMENT_MASK) in
  if (seg =? 0) || (2^63 <=? seg) then 0 else seg.

(* internal.h: _mi_segment_page_of : slice index of p in its segment (before mi_slice_first) *)
Definition slice_index_of (segment p : N) : N := N.shiftr (wsub p segment) MI_SEGMENT_SLICE_SHIFT.

(* mi_slice_first: a slice entry at index idx with back-offset `slice_offset` (in bytes) *)
Definition slice_first (idx slice_offset : N) : N := idx - slice_offset / sizeof_mi_slice_t.

(* src/segment.c: _mi_segment_page_start_from_slice; returns (start address, page_size) *)
Definition page_start_from_slice (segment idx slice_count block_size : N) : N * N :=
  let psize := wmul slice_count MI_SEGMENT_SLICE_SIZE in
  let pstart := wadd segment (wmul idx MI_SEGMENT_SLICE_SIZE) in
  let off0 :=
    if (0 <? block_size) && (block_size <=? MI_MAX_ALIGN_GUARANTEE) then
      let adjust := block_size - pstart mod block_size in
      if (adjust <? block_size) && (wadd block_size adjust <=? psize) then adjust else 0
    else 0 in
  let off1 :=
    if MI_INTPTR_SIZE <=? block_size then
      if block_size <=? 64 then wadd off0 (wmul 3 block_size)
      else if block_size <=? 512 then wadd off0 block_size
      else off0
    else off0 in
  let start_offset := align_up off1 MI_MAX_ALIGN_SIZE in
  (wadd pstart start_offset, wsub psize start_offset).
