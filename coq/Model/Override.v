(* Model for property C19 -- drop-in override (DESIGN.md section 3, C19).

   C side:  /repo/src/alloc-override.c (MI_FORWARD* aliases and forwarder functions for the libc names,
   the Itanium-mangled operator new/delete names and the glibc __libc_* hooks), with the semantics of the
   targets in src/alloc-posix.c (mi_posix_memalign, mi_memalign, mi_valloc, mi_pvalloc, mi_aligned_alloc,
   mi_reallocarray, mi_malloc_usable_size ...), src/alloc.c (mi_malloc, mi_calloc, mi_realloc, mi_strdup,
   mi_strndup, mi_realpath, mi_new*, ...) and src/free.c (mi_free, mi_free_size, mi_free_aligned,
   mi_free_size_aligned, mi_usable_size).

   The code-dependent half of the model is REGENERATED: Gen/Override.v holds one entry per exported
   non-mi_ symbol of the shared library built from the current tree.  This file is the fixed half: what
   Linux/glibc x86-64 requires (the platform's C and C++ allocation entry points with their signatures),
   what each mi_ function is (class, parameter roles, failure convention), and the decision
   `override_ok` that the regenerated table meets the requirement.  No proofs here. *)
From Coq Require Import List String Bool.
From MiV Require Import Gen.Override.
Import ListNotations.
Local Open Scope string_scope.

(* ---------------------------------------------------------------------------------------------- *)
(* semantic classes, parameter roles, failure conventions                                          *)
(* ---------------------------------------------------------------------------------------------- *)

Inductive cls :=
  | Alloc          (* size -> fresh block *)
  | ZeroAlloc      (* count,size -> fresh zero-filled block of count*size bytes *)
  | Aligned        (* alignment given by the caller *)
  | PageAligned    (* valloc: aligned to the OS page *)
  | PageRounded    (* pvalloc: page aligned, size rounded up to a page multiple *)
  | Realloc        (* resize, contents preserved; acts as Alloc on a null pointer *)
  | Free           (* release *)
  | Size           (* usable size query *)
  | Dup.           (* fresh block holding a copy of a string / path *)

Inductive role :=
  | RSize | RCount | RAlign    (* byte size, element count, alignment *)
  | RPtr                       (* a block of this allocator (or null) *)
  | ROut                       (* void** result slot (posix_memalign) *)
  | RStr | RLen | RBuf         (* source string, length bound, caller buffer (realpath) *)
  | RTag.                      (* const std::nothrow_t& -- carries no information *)

Inductive onfail :=
  | FNull          (* returns NULL *)
  | FNullErrno     (* returns NULL and sets errno = ENOMEM (documented: mi_reallocarray) *)
  | FCode          (* returns an error code, result slot untouched (posix_memalign: EINVAL / ENOMEM) *)
  | FThrow         (* C++ throwing form: new-handler loop, then std::bad_alloc (abort in a C build) *)
  | FNothrow       (* C++ nothrow form: new-handler loop, then nullptr *)
  | FNone.         (* cannot fail (free, usable size) *)

Scheme Equality for cls.
Scheme Equality for role.
Scheme Equality for onfail.

(* classes whose result is a block handed to the program / that consume a block *)
Definition allocating (c : cls) : bool :=
  match c with Alloc | ZeroAlloc | Aligned | PageAligned | PageRounded | Realloc | Dup => true | _ => false end.
Definition consuming (c : cls) : bool :=
  match c with Realloc | Free | Size => true | _ => false end.

(* ---------------------------------------------------------------------------------------------- *)
(* the mi_ functions an entry point may resolve to                                                  *)
(* ---------------------------------------------------------------------------------------------- *)

Record target := mkT { t_name : string; t_cls : cls; t_roles : list role; t_fail : onfail }.

Definition targets : list target := [
  mkT "mi_malloc"              Alloc       [RSize]                 FNull;
  mkT "mi_calloc"              ZeroAlloc   [RCount; RSize]         FNull;
  mkT "mi_mallocn"             Alloc       [RCount; RSize]         FNull;      (* NOT zero-initialising *)
  mkT "mi_zalloc"              ZeroAlloc   [RSize]                 FNull;
  mkT "mi_realloc"             Realloc     [RPtr; RSize]           FNull;
  mkT "mi_reallocn"            Realloc     [RPtr; RCount; RSize]   FNull;      (* no errno *)
  mkT "mi_reallocf"            Realloc     [RPtr; RSize]           FNull;      (* BSD: frees on failure *)
  mkT "mi_reallocarray"        Realloc     [RPtr; RCount; RSize]   FNullErrno;
  mkT "mi_free"                Free        [RPtr]                  FNone;
  mkT "mi_cfree"               Free        [RPtr]                  FNone;
  mkT "mi_free_size"           Free        [RPtr; RSize]           FNone;
  mkT "mi_free_aligned"        Free        [RPtr; RAlign]          FNone;
  mkT "mi_free_size_aligned"   Free        [RPtr; RSize; RAlign]   FNone;
  mkT "mi_usable_size"         Size        [RPtr]                  FNone;
  mkT "mi_malloc_usable_size"  Size        [RPtr]                  FNone;
  mkT "mi_malloc_size"         Size        [RPtr]                  FNone;
  mkT "mi_posix_memalign"      Aligned     [ROut; RAlign; RSize]   FCode;
  mkT "mi_memalign"            Aligned     [RAlign; RSize]         FNull;
  mkT "mi_aligned_alloc"       Aligned     [RAlign; RSize]         FNull;
  mkT "mi_malloc_aligned"      Aligned     [RSize; RAlign]         FNull;
  mkT "mi_valloc"              PageAligned [RSize]                 FNull;
  mkT "mi_pvalloc"             PageRounded [RSize]                 FNull;
  mkT "mi_strdup"              Dup         [RStr]                  FNull;
  mkT "mi_strndup"             Dup         [RStr; RLen]            FNull;
  mkT "mi_realpath"            Dup         [RStr; RBuf]            FNull;
  mkT "mi_new"                 Alloc       [RSize]                 FThrow;
  mkT "mi_new_nothrow"         Alloc       [RSize]                 FNothrow;
  mkT "mi_new_aligned"         Aligned     [RSize; RAlign]         FThrow;
  mkT "mi_new_aligned_nothrow" Aligned     [RSize; RAlign]         FNothrow
].

(* ---------------------------------------------------------------------------------------------- *)
(* what the platform requires                                                                       *)
(* ---------------------------------------------------------------------------------------------- *)

Inductive lang := LC | LCxx | LGlibc.      (* ISO C / POSIX / GNU names, C++ ABI names, glibc-internal hooks *)

Inductive presence :=
  | MustExport     (* the library has to define the name itself: libc's own version does not go through malloc *)
  | ViaMalloc      (* libc's own version obtains its memory by calling malloc (interposed), so the entry point is
                      served by the allocator whether or not the library exports the name; if it does export it,
                      the export has to be right *)
  | Optional.      (* not provided by this libc (cfree was removed in glibc 2.26, the __libc_* hooks are internal);
                      if the library exports it, the export has to be right *)

Record req := mkReq {
  r_sym : string;
  r_lang : lang;
  r_cls : cls;
  r_ret : string;                       (* return type as written for the C definition *)
  r_params : list (string * role);      (* parameter types (same convention) and their roles *)
  r_fail : onfail;
  r_presence : presence
}.

(* In the C definitions of the mangled names std::align_val_t is `size_t` (an enum class over size_t: same
   register) and `const std::nothrow_t&` is `mi_nothrow_t` = void* (a reference is passed as a pointer). *)
Definition sz := ("size_t", RSize).
Definition al := ("size_t", RAlign).
Definition cnt := ("size_t", RCount).
Definition ptr := ("void*", RPtr).
Definition tag := ("mi_nothrow_t", RTag).

Definition required_c : list req := [
  mkReq "malloc"             LC Alloc       "void*"  [sz]                      FNull      MustExport;
  mkReq "calloc"             LC ZeroAlloc   "void*"  [cnt; sz]                 FNull      MustExport;
  mkReq "realloc"            LC Realloc     "void*"  [ptr; sz]                 FNull      MustExport;
  mkReq "free"               LC Free        "void"   [ptr]                     FNone      MustExport;
  mkReq "posix_memalign"     LC Aligned     "int"    [("void**", ROut); al; sz] FCode     MustExport;
  mkReq "aligned_alloc"      LC Aligned     "void*"  [al; sz]                  FNull      MustExport;
  mkReq "memalign"           LC Aligned     "void*"  [al; sz]                  FNull      MustExport;
  mkReq "valloc"             LC PageAligned "void*"  [sz]                      FNull      MustExport;
  mkReq "pvalloc"            LC PageRounded "void*"  [sz]                      FNull      MustExport;
  mkReq "reallocarray"       LC Realloc     "void*"  [ptr; cnt; sz]            FNullErrno MustExport;
  mkReq "malloc_usable_size" LC Size        "size_t" [ptr]                     FNone      MustExport;
  mkReq "cfree"              LC Free        "void"   [ptr]                     FNone      Optional;
  mkReq "strdup"             LC Dup         "char*"  [("const char*", RStr)]   FNull      ViaMalloc;
  mkReq "strndup"            LC Dup         "char*"  [("const char*", RStr); ("size_t", RLen)] FNull ViaMalloc;
  mkReq "realpath"           LC Dup         "char*"  [("const char*", RStr); ("char*", RBuf)]  FNull ViaMalloc
].

(* operator new / delete, every replaceable form of C++17, Itanium ABI names for a 64-bit size_t (`m`) *)
Definition required_cxx : list req := [
  (* operator new(size_t), new[] *)
  mkReq "_Znwm"                               LCxx Alloc   "void*" [sz]            FThrow   MustExport;
  mkReq "_Znam"                               LCxx Alloc   "void*" [sz]            FThrow   MustExport;
  (* (size_t, const nothrow_t&) *)
  mkReq "_ZnwmRKSt9nothrow_t"                 LCxx Alloc   "void*" [sz; tag]       FNothrow MustExport;
  mkReq "_ZnamRKSt9nothrow_t"                 LCxx Alloc   "void*" [sz; tag]       FNothrow MustExport;
  (* (size_t, align_val_t) *)
  mkReq "_ZnwmSt11align_val_t"                LCxx Aligned "void*" [sz; al]        FThrow   MustExport;
  mkReq "_ZnamSt11align_val_t"                LCxx Aligned "void*" [sz; al]        FThrow   MustExport;
  (* (size_t, align_val_t, const nothrow_t&) *)
  mkReq "_ZnwmSt11align_val_tRKSt9nothrow_t"  LCxx Aligned "void*" [sz; al; tag]   FNothrow MustExport;
  mkReq "_ZnamSt11align_val_tRKSt9nothrow_t"  LCxx Aligned "void*" [sz; al; tag]   FNothrow MustExport;
  (* operator delete(void* ), delete[] *)
  mkReq "_ZdlPv"                              LCxx Free    "void"  [ptr]           FNone    MustExport;
  mkReq "_ZdaPv"                              LCxx Free    "void"  [ptr]           FNone    MustExport;
  (* sized: (void*, size_t) *)
  mkReq "_ZdlPvm"                             LCxx Free    "void"  [ptr; sz]       FNone    MustExport;
  mkReq "_ZdaPvm"                             LCxx Free    "void"  [ptr; sz]       FNone    MustExport;
  (* (void*, const nothrow_t&) *)
  mkReq "_ZdlPvRKSt9nothrow_t"                LCxx Free    "void"  [ptr; tag]      FNone    MustExport;
  mkReq "_ZdaPvRKSt9nothrow_t"                LCxx Free    "void"  [ptr; tag]      FNone    MustExport;
  (* aligned: (void*, align_val_t) *)
  mkReq "_ZdlPvSt11align_val_t"               LCxx Free    "void"  [ptr; al]       FNone    MustExport;
  mkReq "_ZdaPvSt11align_val_t"               LCxx Free    "void"  [ptr; al]       FNone    MustExport;
  (* sized + aligned: (void*, size_t, align_val_t) *)
  mkReq "_ZdlPvmSt11align_val_t"              LCxx Free    "void"  [ptr; sz; al]   FNone    MustExport;
  mkReq "_ZdaPvmSt11align_val_t"              LCxx Free    "void"  [ptr; sz; al]   FNone    MustExport;
  (* aligned + nothrow: (void*, align_val_t, const nothrow_t&) *)
  mkReq "_ZdlPvSt11align_val_tRKSt9nothrow_t" LCxx Free    "void"  [ptr; al; tag]  FNone    MustExport;
  mkReq "_ZdaPvSt11align_val_tRKSt9nothrow_t" LCxx Free    "void"  [ptr; al; tag]  FNone    MustExport
].

(* glibc's internal aliases of the same functions (some libraries and the dynamic loader call these);
   checked whenever the library exports them *)
Definition required_glibc : list req := [
  mkReq "__libc_malloc"    LGlibc Alloc       "void*" [sz]            FNull Optional;
  mkReq "__libc_calloc"    LGlibc ZeroAlloc   "void*" [cnt; sz]       FNull Optional;
  mkReq "__libc_realloc"   LGlibc Realloc     "void*" [ptr; sz]       FNull Optional;
  mkReq "__libc_free"      LGlibc Free        "void"  [ptr]           FNone Optional;
  mkReq "__libc_cfree"     LGlibc Free        "void"  [ptr]           FNone Optional;
  mkReq "__libc_memalign"  LGlibc Aligned     "void*" [al; sz]        FNull Optional;
  mkReq "__libc_valloc"    LGlibc PageAligned "void*" [sz]            FNull Optional;
  mkReq "__libc_pvalloc"   LGlibc PageRounded "void*" [sz]            FNull Optional;
  mkReq "__posix_memalign" LGlibc Aligned     "int"   [("void**", ROut); al; sz] FCode Optional
].

Definition required : list req := required_c ++ required_cxx ++ required_glibc.

(* ---------------------------------------------------------------------------------------------- *)
(* the decision                                                                                     *)
(* ---------------------------------------------------------------------------------------------- *)

Definition mem (s : string) (l : list string) : bool := existsb (String.eqb s) l.

Definition find_entry (t : libtable) (s : string) : option entry :=
  find (fun e => String.eqb (e_sym e) s) (l_entries t).

Definition find_target (s : string) : option target :=
  find (fun g => String.eqb (t_name g) s) targets.

Fixpoint list_eqb {A} (eqb : A -> A -> bool) (a b : list A) : bool :=
  match a, b with
  | [], [] => true
  | x :: a', y :: b' => eqb x y && list_eqb eqb a' b'
  | _, _ => false
  end.

(* the roles of the entry point's parameters that the entry passes, in the target's argument order;
   None when a position is out of range *)
Fixpoint passed_roles (roles : list role) (args : list nat) : option (list role) :=
  match args with
  | [] => Some []
  | i :: rest =>
      match nth_error roles i, passed_roles roles rest with
      | Some r, Some rs => Some (r :: rs)
      | _, _ => None
      end
  end.

Definition returns_value (r : req) : bool := negb (String.eqb (r_ret r) "void").

(* entry e serves requirement r correctly: a known target of the right class and failure convention,
   every target argument receives the parameter with the same role (identity for same-signature
   forwards; dropping the nothrow tag / the size of a sized delete is allowed, swapping or dropping
   anything the target needs is not), the declared C signature is the platform's, the result is passed
   back, an alias really has the target's address, and the target is defined in the same library *)
Definition entry_ok (t : libtable) (r : req) (e : entry) : bool :=
  match find_target (e_target e) with
  | None => false
  | Some g =>
      cls_beq (t_cls g) (r_cls r)
      && onfail_beq (t_fail g) (r_fail r)
      && match passed_roles (map snd (r_params r)) (e_args e) with
         | Some rs => list_eqb role_beq rs (t_roles g)
         | None => false
         end
      && String.eqb (e_ret e) (r_ret r)
      && list_eqb String.eqb (e_params e) (map fst (r_params r))
      && Bool.eqb (e_returns e) (returns_value r)
      && match e_via e with Alias => e_same_addr e | Forwarder => true end
      && mem (e_target e) (l_defined t)
  end.

Definition req_ok (t : libtable) (r : req) : bool :=
  match find_entry t (r_sym r) with
  | Some e => entry_ok t r e
  | None => match r_presence r with MustExport => false | ViaMalloc | Optional => true end
  end.

(* the required symbols that are NOT met (shown by Coq when the proof of override_complete breaks) *)
Definition override_failures (t : libtable) : list string :=
  map r_sym (filter (fun r => negb (req_ok t r)) required).

Definition override_ok (t : libtable) : bool :=
  match override_failures t with [] => true | _ :: _ => false end.

(* ---------------------------------------------------------------------------------------------- *)
(* one allocator                                                                                    *)
(* ---------------------------------------------------------------------------------------------- *)

Fixpoint nodupb (l : list string) : bool :=
  match l with [] => true | x :: r => negb (mem x r) && nodupb r end.

(* the part of the mi_ API the test programs and the override rely on *)
Definition core_api : list string :=
  ["mi_malloc"; "mi_calloc"; "mi_realloc"; "mi_free"; "mi_usable_size"; "mi_is_in_heap_region"; "mi_version"].

Definition must_export (r : req) : bool := match r_presence r with MustExport => true | _ => false end.

(* every exported non-mi_ name resolves to a mi_ function defined in this very library; no name is
   defined twice; and the library does not import any platform allocation entry point it has to
   provide (it is not layered over another allocator) *)
Definition single_allocator_b (t : libtable) : bool :=
  forallb (fun e => mem (e_target e) (l_defined t)) (l_entries t)
  && nodupb (map e_sym (l_entries t))
  && forallb (fun r => negb (mem (r_sym r) (l_imports t))) (filter must_export required)
  && forallb (fun s => mem s (l_defined t)) core_api.

(* ---------------------------------------------------------------------------------------------- *)
(* which mi_ function serves an entry point                                                          *)
(* ---------------------------------------------------------------------------------------------- *)

(* exported: the entry's target.  Not exported, ViaMalloc: libc's implementation runs and takes its
   memory from `malloc`, i.e. from malloc's target.  Not exported otherwise: nobody serves it. *)
Definition served_by (t : libtable) (r : req) : option string :=
  match find_entry t (r_sym r) with
  | Some e => Some (e_target e)
  | None =>
      match r_presence r with
      | ViaMalloc => option_map e_target (find_entry t "malloc")
      | _ => None
      end
  end.

Definition class_of_target (s : string) : option cls := option_map t_cls (find_target s).

Definition allocating_target (s : string) : bool :=
  match class_of_target s with Some c => allocating c | None => false end.
Definition consuming_target (s : string) : bool :=
  match class_of_target s with Some c => consuming c | None => false end.
