(* Interleaving model of segment abandonment and adoption (property C09, model part).
   One transition per atomic access (mi_atomic_* on segment->thread_id, on the arena's blocks_abandoned
   field, on subproc->abandoned_count, on a page's xthread_free, lock acquire / release); what happens
   between two atomic accesses of one thread is thread-private and folded into the following access.
   No proofs in this file.

   C sources modelled (read for the ORDER of the accesses):
     src/segment.c      : mi_segment_abandon        segment->thread_id = 0 (plain store to the atomic field), abandoned_visits = 1,
                                                    then _mi_arena_segment_mark_abandoned
                          mi_segment_check_free     _mi_page_free_collect on every used page (takes the page thread-free lists)
                          mi_segment_reclaim        mi_atomic_store_release(thread_id, me); pages: heap set, USE_DELAYED_FREE,
                                                    collect; used == 0 -> mi_segment_free
                          _mi_segment_attempt_reclaim  load thread_id != 0 -> no; subproc test; suitability / target-count tests
                                                    (oracle); _mi_arena_segment_clear_abandoned; mi_segment_reclaim
                          mi_segment_try_reclaim / _mi_abandoned_collect / _mi_abandoned_reclaim_all  (one cursor visit each)
     src/arena-abandon.c: _mi_arena_segment_mark_abandoned   store_release(thread_id, 0) THEN (arena) atomic-or of the bit, THEN
                                                    abandoned_count++ when the bit was clear; (OS) lock, push at the tail, counts++, unlock
                          _mi_arena_segment_clear_abandoned  (arena) atomic-and of the bit: the caller for which it reports `was set` wins,
                                                    THEN abandoned_count--, THEN store_release(thread_id, me);
                                                    (OS) try-lock, in the list? remove, counts--, store_release(thread_id, me), unlock
                          mi_arena_segment_clear_abandoned_at  atomic-and of the bit; other sub-process: atomic-or of the bit again, no count
                                                    change; same sub-process: abandoned_count-- ; thread_id stays 0
                          mi_arena_segment_clear_abandoned_next_list  visit lock (try / blocking), abandoned_os_lock, pop the head, unlock
                          _mi_arena_field_cursor_done  release of the visit lock
     src/free.c         : mi_free (load thread_id: local?), mi_free_block_mt (reclaim-on-free: load thread_id == 0), the push of the
                          block on the page thread-free list unless the delayed flag is USE_DELAYED_FREE
     src/heap.c, page.c : mi_heap_page_never_delayed_free / _mi_page_use_delayed_free: pages of an abandoning heap get
                          MI_NEVER_DELAYED_FREE before they are abandoned (the CAS loop is modelled in Model/TFree.v; here one step)
     src/init.c         : _mi_thread_heap_done = OAbandon for every owned segment (program level)

   Abstractions.  Segments and threads are indexed by position; thread t has id t+1 (0 = abandoned).
   A segment is an arena segment (one bit of blocks_abandoned) or an OS segment (membership in the
   abandoned_os_list of its sub-process, manipulated only under abandoned_os_lock: the list update between
   lock and unlock is one transition).  Pages of a segment are summarised by counters: g_live (blocks the
   program still holds), g_tfree (blocks pushed on page thread-free lists and not yet collected), g_delayed
   (blocks handed to a heap's delayed list); page->used summed over the pages is g_live + g_tfree.
   Which segment a cursor examines, suitability / has_page / target-count tests: op arguments (oracles).
   Ghost: g_holder = the thread that has the segment in its hand (may access its pages while thread_id = 0);
   it is only written, never read, by the transitions. *)
From Coq Require Import NArith ZArith List Bool.
From MiV Require Import Gen.Consts.
Import ListNotations.
Local Open Scope N_scope.
Local Open Scope bool_scope.

Definition NEVER : N := MI_NEVER_DELAYED_FREE_.
Definition USE : N := MI_USE_DELAYED_FREE_.

Definition tid_of (t : nat) : N := N.of_nat t + 1.       (* _mi_thread_id() of thread index t *)

Record seg : Type := mkSeg {
  g_arena : bool;          (* memid.memkind == MI_MEM_ARENA *)
  g_subproc : N;           (* segment->subproc *)
  g_tid : N;               (* segment->thread_id *)
  g_bit : bool;            (* its bit in blocks_abandoned (arena segments) *)
  g_flag : N;              (* delayed-free flag of its pages *)
  g_live : N;
  g_tfree : N;
  g_delayed : N;
  g_visits : N;            (* segment->abandoned_visits *)
  g_freed : bool;          (* mi_segment_free done *)
  g_holder : option nat    (* ghost *)
}.

Inductive vmode : Type := MTry | MCollect | MAll.   (* mi_segment_try_reclaim | _mi_abandoned_collect | _mi_abandoned_reclaim_all *)
Inductive cont : Type := KFree | KVisit.            (* who called mi_segment_reclaim *)

Inductive op : Type :=
| OAbandon (s : nat)                        (* the owner abandons s: mi_segment_abandon *)
| OFree (s : nat) (rof heur : bool)         (* mi_free of a live block of s; rof = option abandoned_reclaim_on_free, heur = the
                                               suitability / target / reclaim_count tests of _mi_segment_attempt_reclaim *)
| OVisitArena (m : vmode) (s : nat) (d : bool)   (* one cursor visit of arena segment s; d = the caller's decision when in hand *)
| OVisitOs (m : vmode) (d : bool) (all : bool)   (* one cursor visit of the OS list; all = visit_all (blocking visit lock) *)
| OCursorDone                               (* _mi_arena_field_cursor_done *)
| OVisitLock (all : bool).                  (* mi_arena_segment_clear_abandoned_next_list up to its `while`: the visit lock is taken
                                               (try / blocking) before the list count is looked at, so a cursor may hold the lock
                                               without visiting any list entry (os_list_count = 0) *)

Inductive pc : Type :=
| Idle
(* mi_segment_abandon / _mi_arena_segment_mark_abandoned *)
| Ab1 (s : nat)        (* pages are NEVER_DELAYED_FREE; next: thread_id = 0 (plain) *)
| Ab2 (s : nat)        (* next: store_release(thread_id, 0) *)
| Ab3 (s : nat)        (* next: arena: atomic-or of the bit; OS: lock *)
| Ab4a (s : nat)       (* arena, bit was clear: next abandoned_count++ *)
| Ab4o (s : nat)       (* OS, lock held: next push at the tail *)
| Ab4p (s : nat)       (* OS, pushed: next abandoned_count++ *)
| Ab5o (s : nat)       (* OS: next unlock *)
(* mi_free / mi_free_block_mt / _mi_segment_attempt_reclaim / _mi_arena_segment_clear_abandoned *)
| Fr1 (s : nat) (heur : bool)   (* not local, reclaim-on-free on: next load thread_id == 0 ? *)
| Fr2 (s : nat) (heur : bool)   (* next (attempt_reclaim): load thread_id != 0 ?, then the thread-private tests *)
| Fr3 (s : nat)        (* next: arena: atomic-and of the bit; OS: try-lock *)
| Fr3o (s : nat)       (* OS, lock held: next look in the list and remove *)
| Fr3p (s : nat)       (* OS, removed: next abandoned_count-- *)
| Fr3q (s : nat)       (* OS: next store_release(thread_id, me) *)
| Fr5o (s : nat) (won : bool)   (* OS: next unlock *)
| Fr4 (s : nat)        (* arena, won: next abandoned_count-- *)
| Fr4b (s : nat)       (* arena: next store_release(thread_id, me) *)
| Rc1 (s : nat) (k : cont)   (* mi_segment_reclaim: next store_release(thread_id, me) *)
| Rc2 (s : nat) (k : cont)   (* next: pages USE_DELAYED_FREE + collect; used == 0 -> free the segment *)
| FrR (s : nat)        (* reclaimed on free: mi_free(block) again: next load thread_id (now local) *)
| FrL (s : nat)        (* next: local free of the block *)
| FrP (s : nat)        (* next: push on the page thread-free list (or heap delayed list) *)
(* cursor *)
| Vs0 (m : vmode) (s : nat) (d : bool)   (* field loaded with the bit set: next atomic-and of the bit *)
| Vs1 (m : vmode) (s : nat) (d : bool)   (* bit cleared by me: next the sub-process test *)
| VsR (s : nat)                          (* other sub-process: next atomic-or of the bit *)
| Vs2 (m : vmode) (s : nat) (d : bool)   (* next abandoned_count-- *)
| Hd0 (m : vmode) (s : nat) (d : bool)   (* in hand: next check_free (collect) and the decision *)
| Vo1 (m : vmode) (d : bool)             (* visit lock held: next abandoned_os_lock *)
| Vo2 (m : vmode) (d : bool)             (* lock held: next pop the head *)
| Vo2c (m : vmode) (s : nat) (d : bool)  (* popped s: next abandoned_count-- *)
| Vo3 (m : vmode) (r : option nat) (d : bool).   (* next unlock *)

Record thread : Type := mkT {
  t_subproc : N;           (* heap->tld->segments.subproc *)
  t_prog : list op;
  t_pc : pc;
  t_vlock : bool           (* cursor.hold_visit_lock *)
}.

Record state : Type := mkS {
  segs : list seg;
  os_list : list nat;             (* the abandoned_os_lists (all sub-processes; an entry belongs to its segment's sub-process) *)
  os_lock : list (N * nat);       (* held abandoned_os_lock: (sub-process, thread) *)
  os_vlock : list (N * nat);      (* held abandoned_os_visit_lock *)
  acount : list (N * Z);          (* subproc->abandoned_count (Z: the decrement of a clear may overtake the increment of the mark) *)
  threads : list thread
}.

(* locations and events: (thread, location, old value, new value) *)
Inductive loc : Type :=
| LTid (s : nat) | LTidPlain (s : nat) | LBit (s : nat) | LList (s : nat) | LCount (sp : N) | LFlag (s : nat) | LTfree (s : nat)
| LLock (sp : N) | LVLock (sp : N) | LBlock (s : nat) | LVisits (s : nat).
(* LTidPlain: the plain assignment `segment->thread_id = 0` of mi_segment_abandon (not a mi_atomic_* call, so not seen
   by the MI_VERIF_HOOKS step log; the store_release that follows it is, and shows old value 0) *)
Definition event : Type := (nat * loc * Z * Z)%type.

(* ---- helpers ---- *)
Fixpoint upd_nth {A : Type} (l : list A) (n : nat) (f : A -> A) : list A :=
  match l, n with
  | [], _ => []
  | x :: r, O => f x :: r
  | x :: r, S k => x :: upd_nth r k f
  end.

Definition get_count (c : list (N * Z)) (sp : N) : Z :=
  match find (fun e => fst e =? sp) c with Some e => snd e | None => 0%Z end.
Definition add_count (c : list (N * Z)) (sp : N) (d : Z) : list (N * Z) :=
  (sp, (get_count c sp + d)%Z) :: filter (fun e => negb (fst e =? sp)) c.

Definition lock_held (l : list (N * nat)) (sp : N) : bool := existsb (fun e => fst e =? sp) l.
Definition lock_release (l : list (N * nat)) (sp : N) : list (N * nat) := filter (fun e => negb (fst e =? sp)) l.

Definition in_list (l : list nat) (s : nat) : bool := existsb (Nat.eqb s) l.
Definition remove_from (l : list nat) (s : nat) : list nat := filter (fun x => negb (Nat.eqb s x)) l.

Definition subproc_of (st : state) (s : nat) : N :=
  match nth_error (segs st) s with Some g => g_subproc g | None => 0 end.
(* head of the abandoned_os_list of sub-process sp *)
Definition os_head (st : state) (sp : N) : option nat :=
  find (fun s => subproc_of st s =? sp) (os_list st).

(* abandoned-marked: the bit, or membership in the OS list *)
Definition marked (st : state) (s : nat) : bool :=
  match nth_error (segs st) s with
  | Some g => if g_arena g then g_bit g else in_list (os_list st) s
  | None => false
  end.

Definition set_tid (g : seg) (v : N) : seg :=
  mkSeg (g_arena g) (g_subproc g) v (g_bit g) (g_flag g) (g_live g) (g_tfree g) (g_delayed g) (g_visits g) (g_freed g) (g_holder g).
Definition set_bit (g : seg) (b : bool) : seg :=
  mkSeg (g_arena g) (g_subproc g) (g_tid g) b (g_flag g) (g_live g) (g_tfree g) (g_delayed g) (g_visits g) (g_freed g) (g_holder g).
Definition set_flag (g : seg) (v : N) : seg :=
  mkSeg (g_arena g) (g_subproc g) (g_tid g) (g_bit g) v (g_live g) (g_tfree g) (g_delayed g) (g_visits g) (g_freed g) (g_holder g).
Definition set_holder (g : seg) (h : option nat) : seg :=
  mkSeg (g_arena g) (g_subproc g) (g_tid g) (g_bit g) (g_flag g) (g_live g) (g_tfree g) (g_delayed g) (g_visits g) (g_freed g) h.
Definition set_visits (g : seg) (v : N) : seg :=
  mkSeg (g_arena g) (g_subproc g) (g_tid g) (g_bit g) (g_flag g) (g_live g) (g_tfree g) (g_delayed g) v (g_freed g) (g_holder g).
Definition set_blocks (g : seg) (live tfree delayed : N) : seg :=
  mkSeg (g_arena g) (g_subproc g) (g_tid g) (g_bit g) (g_flag g) live tfree delayed (g_visits g) (g_freed g) (g_holder g).
Definition set_freed (g : seg) : seg :=
  mkSeg (g_arena g) (g_subproc g) (g_tid g) (g_bit g) (g_flag g) (g_live g) (g_tfree g) (g_delayed g) (g_visits g) true None.

Definition zb (b : bool) : Z := if b then 1%Z else 0%Z.

(* the result of one transition of thread t: the new global parts and the new pc (and visit-lock flag) *)
Record outcome : Type := mkO {
  o_segs : list seg; o_list : list nat; o_lock : list (N * nat); o_vlock : list (N * nat); o_count : list (N * Z);
  o_pc : pc; o_hold : bool; o_pop : bool;   (* o_pop: the op at the head of the program is finished *)
  o_ev : list event
}.

Definition keep (st : state) (th : thread) (p : pc) (pop : bool) (ev : list event) : outcome :=
  mkO (segs st) (os_list st) (os_lock st) (os_vlock st) (acount st) p (t_vlock th) pop ev.
Definition with_seg (st : state) (th : thread) (s : nat) (f : seg -> seg) (p : pc) (pop : bool) (ev : list event) : outcome :=
  mkO (upd_nth (segs st) s f) (os_list st) (os_lock st) (os_vlock st) (acount st) p (t_vlock th) pop ev.
Definition with_count (st : state) (th : thread) (sp : N) (d : Z) (p : pc) (pop : bool) (t : nat) : outcome :=
  mkO (segs st) (os_list st) (os_lock st) (os_vlock st) (add_count (acount st) sp d) p (t_vlock th) pop
      [(t, LCount sp, get_count (acount st) sp, (get_count (acount st) sp + d)%Z)].

(* used == 0 for every page of the segment *)
Definition all_free (g : seg) : bool := (g_live g + g_tfree g =? 0).

(* the decision of the caller once the segment is in its hand and check_free is done *)
Definition decide (m : vmode) (g : seg) (d : bool) : bool :=   (* true: mi_segment_reclaim, false: mark abandoned again *)
  match m with
  | MTry => all_free g || d
  | MCollect => all_free g
  | MAll => d
  end.

(* ---- the transition function: None = the thread is blocked (lock busy) or has nothing to do ---- *)
Definition exec (st : state) (t : nat) (th : thread) : option outcome :=
  let me := tid_of t in
  let ztid (g : seg) := Z.of_N (g_tid g) in
  match t_pc th with
  | Idle =>
    match t_prog th with
    | [] => None
    | OAbandon s :: _ =>
      match nth_error (segs st) s with
      | Some g =>
        if (g_tid g =? me) && negb (g_freed g)
        then (* _mi_page_use_delayed_free(page, MI_NEVER_DELAYED_FREE) on the pages, then the pages are abandoned *)
             Some (with_seg st th s (fun g => set_flag g NEVER) (Ab1 s) false [(t, LFlag s, Z.of_N (g_flag g), Z.of_N NEVER)])
        else Some (keep st th Idle true [])               (* not the owner: not a legal call, skipped *)
      | None => Some (keep st th Idle true [])
      end
    | OFree s rof heur :: _ =>
      match nth_error (segs st) s with
      | Some g =>
        if g_freed g || (g_live g =? 0) then Some (keep st th Idle true [])    (* no live block to free: skipped *)
        else (* mi_free: is_local = (thread_id == me) *)
          let ev := [(t, LTid s, ztid g, ztid g)] in
          if g_tid g =? me then Some (keep st th (FrL s) false ev)
          else if rof then Some (keep st th (Fr1 s heur) false ev)
          else Some (keep st th (FrP s) false ev)
      | None => Some (keep st th Idle true [])
      end
    | OVisitArena m s d :: _ =>
      match nth_error (segs st) s with
      | Some g =>
        if g_arena g then
          (* load of the field; the bit pre-check *)
          let ev := [(t, LBit s, zb (g_bit g), zb (g_bit g))] in
          if g_bit g then Some (keep st th (Vs0 m s d) false ev) else Some (keep st th Idle true ev)
        else Some (keep st th Idle true [])
      | None => Some (keep st th Idle true [])
      end
    | OVisitOs m d all :: _ =>
      let sp := t_subproc th in
      if t_vlock th then Some (keep st th (Vo1 m d) false [])
      else if lock_held (os_vlock st) sp
           then (if all then None                                    (* blocking acquire *)
                 else Some (keep st th Idle true [(t, LVLock sp, 1%Z, 1%Z)]))   (* try-acquire failed: give up *)
           else Some (mkO (segs st) (os_list st) (os_lock st) ((sp, t) :: os_vlock st) (acount st) (Vo1 m d) true false
                          [(t, LVLock sp, 0%Z, 1%Z)])
    | OCursorDone :: _ =>
      let sp := t_subproc th in
      if t_vlock th
      then Some (mkO (segs st) (os_list st) (os_lock st) (lock_release (os_vlock st) sp) (acount st) Idle false true
                     [(t, LVLock sp, 1%Z, 0%Z)])
      else Some (keep st th Idle true [])
    | OVisitLock all :: _ =>
      let sp := t_subproc th in
      if t_vlock th then Some (keep st th Idle true [])
      else if lock_held (os_vlock st) sp
           then (if all then None                                    (* blocking acquire *)
                 else Some (keep st th Idle true [(t, LVLock sp, 1%Z, 1%Z)]))   (* try-acquire failed: the cursor gives up *)
           else Some (mkO (segs st) (os_list st) (os_lock st) ((sp, t) :: os_vlock st) (acount st) Idle true true
                          [(t, LVLock sp, 0%Z, 1%Z)])
    end

  (* ---- abandon ---- *)
  | Ab1 s =>
    match nth_error (segs st) s with
    | Some g => Some (with_seg st th s (fun g => set_holder (set_visits (set_tid g 0) 1) (Some t)) (Ab2 s) false
                        [(t, LTidPlain s, ztid g, 0%Z); (t, LVisits s, Z.of_N (g_visits g), 1%Z)])
    | None => None
    end
  | Ab2 s =>
    match nth_error (segs st) s with
    | Some g => Some (with_seg st th s (fun g => set_tid g 0) (Ab3 s) false [(t, LTid s, ztid g, 0%Z)])
    | None => None
    end
  | Ab3 s =>
    match nth_error (segs st) s with
    | Some g =>
      if g_arena g then
        (* was_unmarked = _mi_bitmap_claim(blocks_abandoned, .., 1, bitmap_idx) *)
        Some (with_seg st th s (fun g => set_holder (set_bit g true) None)
                (if g_bit g then Idle else Ab4a s) (g_bit g) [(t, LBit s, zb (g_bit g), 1%Z)])
      else
        let sp := g_subproc g in
        if lock_held (os_lock st) sp then None
        else Some (mkO (segs st) (os_list st) ((sp, t) :: os_lock st) (os_vlock st) (acount st) (Ab4o s) (t_vlock th) false
                       [(t, LLock sp, 0%Z, 1%Z)])
    | None => None
    end
  | Ab4a s => Some (with_count st th (subproc_of st s) 1 Idle true t)
  | Ab4o s =>
    Some (mkO (upd_nth (segs st) s (fun g => set_holder g None)) (os_list st ++ [s]) (os_lock st) (os_vlock st) (acount st)
              (Ab4p s) (t_vlock th) false [(t, LList s, 0%Z, 1%Z)])
  | Ab4p s => Some (with_count st th (subproc_of st s) 1 (Ab5o s) false t)
  | Ab5o s =>
    let sp := subproc_of st s in
    Some (mkO (segs st) (os_list st) (lock_release (os_lock st) sp) (os_vlock st) (acount st) Idle (t_vlock th) true
              [(t, LLock sp, 1%Z, 0%Z)])

  (* ---- free ---- *)
  | Fr1 s heur =>
    match nth_error (segs st) s with
    | Some g => Some (keep st th (if g_tid g =? 0 then Fr2 s heur else FrP s) false [(t, LTid s, ztid g, ztid g)])
    | None => None
    end
  | Fr2 s heur =>
    match nth_error (segs st) s with
    | Some g =>
      Some (keep st th (if (g_tid g =? 0) && (g_subproc g =? t_subproc th) && heur then Fr3 s else FrP s) false
              [(t, LTid s, ztid g, ztid g)])
    | None => None
    end
  | Fr3 s =>
    match nth_error (segs st) s with
    | Some g =>
      if g_arena g then
        (* was_marked = _mi_bitmap_unclaim(blocks_abandoned, .., 1, bitmap_idx) *)
        Some (with_seg st th s (fun g => if g_bit g then set_holder (set_bit g false) (Some t) else g)
                (if g_bit g then Fr4 s else FrP s) false [(t, LBit s, zb (g_bit g), 0%Z)])
      else
        let sp := g_subproc g in
        if lock_held (os_lock st) sp then Some (keep st th (FrP s) false [(t, LLock sp, 1%Z, 1%Z)])   (* try-lock failed *)
        else Some (mkO (segs st) (os_list st) ((sp, t) :: os_lock st) (os_vlock st) (acount st) (Fr3o s) (t_vlock th) false
                       [(t, LLock sp, 0%Z, 1%Z)])
    | None => None
    end
  | Fr3o s =>
    if in_list (os_list st) s
    then Some (mkO (upd_nth (segs st) s (fun g => set_holder g (Some t))) (remove_from (os_list st) s) (os_lock st) (os_vlock st)
                   (acount st) (Fr3p s) (t_vlock th) false [(t, LList s, 1%Z, 0%Z)])
    else Some (keep st th (Fr5o s false) false [(t, LList s, 0%Z, 0%Z)])
  | Fr3p s => Some (with_count st th (subproc_of st s) (-1) (Fr3q s) false t)
  | Fr3q s =>
    match nth_error (segs st) s with
    | Some g => Some (with_seg st th s (fun g => set_tid g me) (Fr5o s true) false [(t, LTid s, ztid g, Z.of_N me)])
    | None => None
    end
  | Fr5o s won =>
    let sp := subproc_of st s in
    Some (mkO (segs st) (os_list st) (lock_release (os_lock st) sp) (os_vlock st) (acount st)
              (if won then Rc1 s KFree else FrP s) (t_vlock th) false [(t, LLock sp, 1%Z, 0%Z)])
  | Fr4 s => Some (with_count st th (subproc_of st s) (-1) (Fr4b s) false t)
  | Fr4b s =>
    match nth_error (segs st) s with
    | Some g => Some (with_seg st th s (fun g => set_tid g me) (Rc1 s KFree) false [(t, LTid s, ztid g, Z.of_N me)])
    | None => None
    end
  | Rc1 s k =>
    match nth_error (segs st) s with
    | Some g => Some (with_seg st th s (fun g => set_visits (set_tid g me) 0) (Rc2 s k) false
                        [(t, LTid s, ztid g, Z.of_N me); (t, LVisits s, Z.of_N (g_visits g), 0%Z)])
    | None => None
    end
  | Rc2 s k =>
    match nth_error (segs st) s with
    | Some g =>
      (* every page: heap set, _mi_page_use_delayed_free(USE_DELAYED_FREE), _mi_page_free_collect; all pages free: mi_segment_free *)
      let ev := [(t, LFlag s, Z.of_N (g_flag g), Z.of_N USE); (t, LTfree s, Z.of_N (g_tfree g), 0%Z)] in
      if g_live g =? 0
      then Some (with_seg st th s (fun g => set_freed (set_blocks (set_flag g USE) 0 0 (g_delayed g))) Idle true ev)
      else Some (with_seg st th s (fun g => set_holder (set_blocks (set_flag g USE) (g_live g) 0 (g_delayed g)) None)
                   (match k with KFree => FrR s | KVisit => Idle end) (match k with KFree => false | KVisit => true end) ev)
    | None => None
    end
  | FrR s =>
    match nth_error (segs st) s with
    | Some g => Some (keep st th (FrL s) false [(t, LTid s, ztid g, ztid g)])
    | None => None
    end
  | FrL s =>
    match nth_error (segs st) s with
    | Some g => Some (with_seg st th s (fun g => set_blocks g (g_live g - 1) (g_tfree g) (g_delayed g)) Idle true
                        [(t, LBlock s, Z.of_N (g_live g), Z.of_N (g_live g - 1))])
    | None => None
    end
  | FrP s =>
    match nth_error (segs st) s with
    | Some g =>
      (* mi_free_block_delayed_mt: the flag read from xthread_free decides where the block goes *)
      if g_flag g =? USE
      then Some (with_seg st th s (fun g => set_blocks g (g_live g - 1) (g_tfree g) (g_delayed g + 1)) Idle true
                   [(t, LFlag s, Z.of_N (g_flag g), Z.of_N (g_flag g)); (t, LBlock s, Z.of_N (g_live g), Z.of_N (g_live g - 1))])
      else Some (with_seg st th s (fun g => set_blocks g (g_live g - 1) (g_tfree g + 1) (g_delayed g)) Idle true
                   [(t, LTfree s, Z.of_N (g_tfree g), Z.of_N (g_tfree g + 1)); (t, LBlock s, Z.of_N (g_live g), Z.of_N (g_live g - 1))])
    | None => None
    end

  (* ---- cursor ---- *)
  | Vs0 m s d =>
    match nth_error (segs st) s with
    | Some g =>
      (* mi_arena_segment_clear_abandoned_at: _mi_bitmap_unclaim *)
      Some (with_seg st th s (fun g => if g_bit g then set_holder (set_bit g false) (Some t) else g)
              (if g_bit g then Vs1 m s d else Idle) (negb (g_bit g)) [(t, LBit s, zb (g_bit g), 0%Z)])
    | None => None
    end
  | Vs1 m s d =>
    match nth_error (segs st) s with
    | Some g => Some (keep st th (if g_subproc g =? t_subproc th then Vs2 m s d else VsR s) false [])
    | None => None
    end
  | VsR s =>
    match nth_error (segs st) s with
    | Some g => Some (with_seg st th s (fun g => set_holder (set_bit g true) None) Idle true [(t, LBit s, zb (g_bit g), 1%Z)])
    | None => None
    end
  | Vs2 m s d => Some (with_count st th (t_subproc th) (-1) (Hd0 m s d) false t)
  | Hd0 m s d =>
    match nth_error (segs st) s with
    | Some g =>
      (* try_reclaim: abandoned_visits++; try_reclaim and collect: mi_segment_check_free takes the thread-free lists *)
      let g1 := match m with
                | MTry => set_blocks (set_visits g (g_visits g + 1)) (g_live g) 0 (g_delayed g)
                | MCollect => set_blocks g (g_live g) 0 (g_delayed g)
                | MAll => g
                end in
      let ev := match m with MAll => [] | _ => [(t, LTfree s, Z.of_N (g_tfree g), 0%Z)] end in
      Some (with_seg st th s (fun _ => g1) (if decide m g1 d then Rc1 s KVisit else Ab2 s) false ev)
    | None => None
    end
  | Vo1 m d =>
    let sp := t_subproc th in
    if lock_held (os_lock st) sp then None
    else Some (mkO (segs st) (os_list st) ((sp, t) :: os_lock st) (os_vlock st) (acount st) (Vo2 m d) (t_vlock th) false
                   [(t, LLock sp, 0%Z, 1%Z)])
  | Vo2 m d =>
    match os_head st (t_subproc th) with
    | Some s => Some (mkO (upd_nth (segs st) s (fun g => set_holder g (Some t))) (remove_from (os_list st) s) (os_lock st) (os_vlock st)
                          (acount st) (Vo2c m s d) (t_vlock th) false [(t, LList s, 1%Z, 0%Z)])
    | None => Some (keep st th (Vo3 m None d) false [])
    end
  | Vo2c m s d => Some (with_count st th (t_subproc th) (-1) (Vo3 m (Some s) d) false t)
  | Vo3 m r d =>
    let sp := t_subproc th in
    Some (mkO (segs st) (os_list st) (lock_release (os_lock st) sp) (os_vlock st) (acount st)
              (match r with Some s => Hd0 m s d | None => Idle end) (t_vlock th) (match r with Some _ => false | None => true end)
              [(t, LLock sp, 1%Z, 0%Z)])
  end.

Definition apply_outcome (st : state) (t : nat) (o : outcome) : state :=
  mkS (o_segs o) (o_list o) (o_lock o) (o_vlock o) (o_count o)
      (upd_nth (threads st) t (fun th => mkT (t_subproc th) (if o_pop o then tl (t_prog th) else t_prog th) (o_pc o) (o_hold o))).

Definition stepx (st : state) (t : nat) : option (state * list event) :=
  match nth_error (threads st) t with
  | Some th => match exec st t th with
               | Some o => Some (apply_outcome st t o, o_ev o)
               | None => None
               end
  | None => None
  end.

Definition step (st : state) (t : nat) : option state :=
  match stepx st t with Some (st', _) => Some st' | None => None end.

(* a schedule: the thread to run at every step; a blocked or finished thread does nothing *)
Fixpoint run_schedule (st : state) (sched : list nat) : state :=
  match sched with
  | [] => st
  | t :: r => match step st t with Some st' => run_schedule st' r | None => run_schedule st r end
  end.

Fixpoint run_trace (st : state) (sched : list nat) : list event :=
  match sched with
  | [] => []
  | t :: r => match stepx st t with Some (st', ev) => ev ++ run_trace st' r | None => run_trace st r end
  end.

(* the part of a trace that a real step log of the scheduler harness shows: accesses to thread_id and to the
   abandoned mark (bit or list membership) *)
Definition is_adoption_loc (l : loc) : bool :=
  match l with LTid _ | LTidPlain _ | LBit _ | LList _ => true | _ => false end.
Definition adoption_trace (st : state) (sched : list nat) : list event :=
  filter (fun e => is_adoption_loc (snd (fst (fst e)))) (run_trace st sched).

Fixpoint run_solo (fuel : nat) (st : state) (t : nat) : state :=
  match fuel with
  | O => st
  | S k => match step st t with Some st' => run_solo k st' t | None => st end
  end.

Definition mk_state (sg : list seg) (oslist : list nat) (cnt : list (N * Z)) (progs : list (N * list op)) : state :=
  mkS sg oslist [] [] cnt (map (fun p => mkT (fst p) (snd p) Idle false) progs).

Definition finished (st : state) : bool :=
  forallb (fun th => match t_pc th, t_prog th with Idle, [] => true | _, _ => false end) (threads st).

(* quiescent: every thread is between two calls and no cursor is open *)
Definition quiescent (st : state) : bool :=
  forallb (fun th => match t_pc th with Idle => negb (t_vlock th) | _ => false end) (threads st) &&
  match os_lock st, os_vlock st with [], [] => true | _, _ => false end.

(* ---- the ghost relation and the boolean invariant (executable forms) ---- *)

(* the segment a pc has in its hand *)
Definition holds (p : pc) : option nat :=
  match p with
  | Ab2 s | Ab3 s | Ab4o s => Some s
  | Fr3p s | Fr3q s | Fr5o s true | Fr4 s | Fr4b s => Some s
  | Rc1 s _ | Rc2 s _ => Some s
  | Vs1 _ s _ | VsR s | Vs2 _ s _ | Hd0 _ s _ | Vo2c _ s _ | Vo3 _ (Some s) _ => Some s
  | _ => None
  end.
(* the segment a pc works on as its owner (thread_id = me, nobody else may touch it) *)
Definition owns (p : pc) : option nat :=
  match p with Ab1 s | FrR s | FrL s | Rc2 s _ => Some s | _ => None end.
(* pcs that hold the segment while thread_id is still 0 *)
Definition holds_abandoned (p : pc) : bool :=
  match p with
  | Ab2 _ | Ab3 _ | Ab4o _ | Fr3p _ | Fr3q _ | Fr4 _ | Fr4b _ | Vs1 _ _ _ | VsR _ | Vs2 _ _ _ | Hd0 _ _ _ | Vo2c _ _ _ | Vo3 _ (Some _) _ => true
  | _ => false
  end.
(* pcs on the way to mi_segment_reclaim: the sub-process test has been passed *)
Definition needs_subproc (p : pc) : bool :=
  match p with
  | Fr3 _ | Fr3o _ | Fr3p _ | Fr3q _ | Fr5o _ true | Fr4 _ | Fr4b _ | Rc1 _ _ | Rc2 _ _ | Vs2 _ _ _ | Hd0 _ _ _ | Vo2c _ _ _ | Vo3 _ (Some _) _ => true
  | _ => false
  end.
Definition pc_seg (p : pc) : option nat :=
  match p with
  | Idle | Vo1 _ _ | Vo2 _ _ | Vo3 _ None _ => None
  | Ab1 s | Ab2 s | Ab3 s | Ab4a s | Ab4o s | Ab4p s | Ab5o s | Fr1 s _ | Fr2 s _ | Fr3 s | Fr3o s | Fr3p s | Fr3q s | Fr5o s _
  | Fr4 s | Fr4b s | Rc1 s _ | Rc2 s _ | FrR s | FrL s | FrP s | Vs0 _ s _ | Vs1 _ s _ | VsR s | Vs2 _ s _ | Hd0 _ s _ | Vo2c _ s _
  | Vo3 _ (Some s) _ => Some s
  end.

(* pcs between lock and unlock of an OS-list operation work on OS segments; the bitmap pcs of a cursor on arena segments *)
Definition os_pc (p : pc) : option nat :=
  match p with Ab4o s | Ab4p s | Ab5o s | Fr3o s | Fr3p s | Fr3q s | Fr5o s _ => Some s | _ => None end.
Definition arena_pc (p : pc) : option nat :=
  match p with Vs0 _ s _ | Vs1 _ s _ | VsR s => Some s | _ => None end.

Definition opt_nat_eqb (a b : option nat) : bool :=
  match a, b with Some x, Some y => Nat.eqb x y | None, None => true | _, _ => false end.

Fixpoint indexed {A : Type} (n : nat) (l : list A) : list (nat * A) :=
  match l with [] => [] | x :: r => (n, x) :: indexed (S n) r end.

Definition seg_inv_b (st : state) (i : nat) (g : seg) : bool :=
  let mk := marked st i in
  (* a freed segment is out of the protocol *)
  (if g_freed g then negb mk && opt_nat_eqb (g_holder g) None else true) &&
  (* owned: not marked; only the owner itself may have it in hand *)
  (if negb (g_freed g) && negb (g_tid g =? 0)
   then negb mk && match g_holder g with None => true | Some t => tid_of t =? g_tid g end else true) &&
  (* abandoned: marked xor in one hand *)
  (if negb (g_freed g) && (g_tid g =? 0)
   then match g_holder g with None => mk | Some _ => negb mk end else true) &&
  (* the holder is a thread whose pc has this segment in hand *)
  match g_holder g with
  | Some t => match nth_error (threads st) t with Some th => opt_nat_eqb (holds (t_pc th)) (Some i) | None => false end
  | None => true
  end &&
  (* pages of an abandoned segment never use the heap delayed list *)
  (if g_tid g =? 0 then g_flag g =? NEVER else true) &&
  (* the owner is in the segment's sub-process *)
  (if negb (g_tid g =? 0) && negb (g_freed g)
   then forallb (fun tt => if tid_of (fst tt) =? g_tid g then t_subproc (snd tt) =? g_subproc g else true)
                (indexed 0 (threads st))
   else true).

Definition thr_inv_b (st : state) (t : nat) (th : thread) : bool :=
  match holds (t_pc th) with
  | Some i => match nth_error (segs st) i with
              | Some g => opt_nat_eqb (g_holder g) (Some t) && negb (g_freed g) &&
                          (if holds_abandoned (t_pc th) then g_tid g =? 0 else true)
              | None => false
              end
  | None => true
  end &&
  match owns (t_pc th) with
  | Some i => match nth_error (segs st) i with Some g => (g_tid g =? tid_of t) && negb (g_freed g) | None => false end
  | None => true
  end &&
  (if needs_subproc (t_pc th)
   then match pc_seg (t_pc th) with
        | Some i => match nth_error (segs st) i with Some g => g_subproc g =? t_subproc th | None => false end
        | None => true
        end
   else true) &&
  match pc_seg (t_pc th) with Some i => Nat.ltb i (length (segs st)) | None => true end &&
  match os_pc (t_pc th) with
  | Some i => match nth_error (segs st) i with Some g => negb (g_arena g) | None => false end
  | None => true
  end &&
  match arena_pc (t_pc th) with
  | Some i => match nth_error (segs st) i with Some g => g_arena g | None => false end
  | None => true
  end &&
  match t_pc th with
  | Ab1 i => match nth_error (segs st) i with Some g => g_flag g =? NEVER | None => false end
  | _ => true
  end.

Definition list_inv_b (st : state) : bool :=
  forallb (fun s => match nth_error (segs st) s with Some g => negb (g_arena g) | None => false end) (os_list st).

Definition inv_b (st : state) : bool :=
  forallb (fun ig => seg_inv_b st (fst ig) (snd ig)) (indexed 0 (segs st)) &&
  forallb (fun tt => thr_inv_b st (fst tt) (snd tt)) (indexed 0 (threads st)) &&
  list_inv_b st.

(* abandoned_count at quiescence = number of marked segments of the sub-process *)
Definition marked_count (st : state) (sp : N) : Z :=
  Z.of_nat (length (filter (fun ig => (g_subproc (snd ig) =? sp) && marked st (fst ig)) (indexed 0 (segs st)))).
Definition count_ok_b (st : state) (sps : list N) : bool :=
  forallb (fun sp => (get_count (acount st) sp =? marked_count st sp)%Z) sps.

(* no abandoned (marked) segment of sub-process sp is dead (no live block) *)
Definition no_dead_abandoned_b (st : state) (sp : N) : bool :=
  forallb (fun ig => negb ((g_subproc (snd ig) =? sp) && marked st (fst ig) && negb (g_freed (snd ig)) && (g_live (snd ig) =? 0)))
          (indexed 0 (segs st)).

(* the program of one forced collect over all segments: _mi_abandoned_collect(heap, force = true) of an unbound heap *)
Definition collect_prog (nsegs nos : nat) : list op :=
  map (fun s => OVisitArena MCollect s false) (seq 0 nsegs) ++ repeat (OVisitOs MCollect false true) nos ++ [OCursorDone].

(* the same in general form.  `order` = the arena segments in the order the cursor examines them (the real cursor starts at a
   random arena and wraps around); `vl` = the cursor reaches mi_arena_segment_clear_abandoned_next_list with os_list_count = 0
   left or not at all (OVisitLock: it takes the visit lock without visiting an entry); `nos` = cursor->os_list_count, the value
   of subproc->abandoned_os_list_count when the cursor was initialised (os_count below at a quiescent state).
   _mi_abandoned_collect bounds its loop by max_tries = subproc->abandoned_count: at a quiescent state that is the number of
   marked segments of the sub-process (Proofs/AbandonCount.v), every one of them is returned by the cursor exactly once in a
   solo run, so the bound does not cut the loop short. *)
Definition collect_prog_of (order : list nat) (vl : bool) (nos : nat) : list op :=
  map (fun s => OVisitArena MCollect s false) order ++ (if vl then [OVisitLock true] else []) ++
  repeat (OVisitOs MCollect false true) nos ++ [OCursorDone].

(* subproc->abandoned_os_list_count: the entries of the abandoned OS list of sub-process sp *)
Definition os_entries (st : state) (sp : N) : list nat := filter (fun s => subproc_of st s =? sp) (os_list st).
Definition os_count (st : state) (sp : N) : nat := length (os_entries st sp).

