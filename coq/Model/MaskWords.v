(* Word-level model of the run iteration over a commit mask.  No proofs in this file.

   C sources modelled, line by line:
     src/segment.c               : _mi_commit_mask_next_run      (as `next_run_words`)
     include/mimalloc/internal.h : mi_commit_mask_foreach / mi_commit_mask_foreach_end
                                   (as `foreach_runs` over the number, `foreach_words` over the words)

   Model/Mask.v represents a mi_commit_mask_t as ONE number and defines `commit_mask_next_run` as a scan over the
   bit positions; it therefore cannot express mistakes in the way the C code steps through the
   MI_COMMIT_MASK_FIELD_COUNT (8) words of MI_COMMIT_MASK_FIELD_BITS (64) bits: the word index `i`, the bit offset
   `ofs` that must be reset to 0 when the scan advances to the next word, the reload of `mask` when a run of ones
   reaches the end of a word.  This file follows those loops on the list of words; Proofs/MaskWordsProofs.v proves
   that it computes `commit_mask_next_run (mask_of_fields ws)` for every list of 8 words below 2^64 and every idx,
   and that iterating it as mi_commit_mask_foreach does enumerates exactly `mask_runs`.

   Loops are structural recursions on a bound that the C loop cannot exceed (64 shifts of a 64-bit word, 8 words);
   running out of the bound returns the state reached so far (the proofs show it does not happen). *)
From Coq Require Import NArith List Bool.
From MiV Require Import Gen.Consts Gen.OsConsts Model.Arith Model.Os Model.Mask.
Import ListNotations.
Local Open Scope N_scope.
Local Open Scope bool_scope.

Definition FIELD_COUNT_nat : nat := N.to_nat MI_COMMIT_MASK_FIELD_COUNT.
Definition FIELD_BITS_nat : nat := N.to_nat MI_COMMIT_MASK_FIELD_BITS.

(* cm->mask[i] *)
Definition word (ws : list N) (i : nat) : N := nth i ws 0.

(* while ((mask&1) == 0) { mask >>= 1; ofs++; }      -- entered with mask != 0 *)
Fixpoint skip_zeros (fuel : nat) (mask ofs : N) : N * N :=
  match fuel with
  | O => (mask, ofs)
  | S f => if N.testbit mask 0 then (mask, ofs) else skip_zeros f (N.shiftr mask 1) (ofs + 1)
  end.

(* // find first ones
   while (i < MI_COMMIT_MASK_FIELD_COUNT) {
     mask = cm->mask[i]; mask >>= ofs;
     if (mask != 0) { while ((mask&1) == 0) { mask >>= 1; ofs++; } break; }
     i++; ofs = 0;
   }
   `n` is MI_COMMIT_MASK_FIELD_COUNT - i; None is the exit with i >= MI_COMMIT_MASK_FIELD_COUNT *)
Fixpoint find_first (n : nat) (ws : list N) (i : nat) (ofs : N) : option (nat * N * N) :=
  match n with
  | O => None
  | S n' =>
    let mask := N.shiftr (word ws i) ofs in
    if negb (mask =? 0) then
      let '(mask', ofs') := skip_zeros FIELD_BITS_nat mask ofs in Some (i, ofs', mask')
    else find_first n' ws (S i) 0
  end.

(* do { count++; mask >>= 1; } while ((mask&1) == 1); *)
Fixpoint count_ones (fuel : nat) (mask count : N) : N * N :=
  match fuel with
  | O => (mask, count)
  | S f =>
    let count := count + 1 in
    let mask := N.shiftr mask 1 in
    if N.testbit mask 0 then count_ones f mask count else (mask, count)
  end.

(* do {
     do { count++; mask >>= 1; } while ((mask&1) == 1);
     if (((( *idx + count) % MI_COMMIT_MASK_FIELD_BITS) == 0)) {
       i++;
       if (i >= MI_COMMIT_MASK_FIELD_COUNT) break;
       mask = cm->mask[i];
       ofs = 0;
     }
   } while ((mask&1) == 1);
   every iteration but the last moves to the next word, so MI_COMMIT_MASK_FIELD_COUNT + 1 iterations suffice *)
Fixpoint count_run (n : nat) (ws : list N) (i : nat) (idx mask count : N) : N :=
  match n with
  | O => count
  | S n' =>
    let '(mask, count) := count_ones FIELD_BITS_nat mask count in
    if (idx + count) mod FIELD_BITS =? 0 then
      let i := S i in
      if Nat.leb FIELD_COUNT_nat i then count
      else
        let mask := word ws i in
        if N.testbit mask 0 then count_run n' ws i idx mask count else count
    else
      if N.testbit mask 0 then count_run n' ws i idx mask count else count
  end.

(* _mi_commit_mask_next_run: (new *idx, count) *)
Definition next_run_words (ws : list N) (idx : N) : N * N :=
  let i := N.to_nat (idx / FIELD_BITS) in
  let ofs := idx mod FIELD_BITS in
  match find_first (FIELD_COUNT_nat - i) ws i ofs with
  | None => (MASK_BITS, 0)                                   (* not found *)
  | Some (i, ofs, mask) =>
    let idx' := N.of_nat i * FIELD_BITS + ofs in             (* found, count ones *)
    (idx', count_run (S FIELD_COUNT_nat) ws i idx' mask 0)
  end.

(* mi_commit_mask_foreach(cm, idx, count) { body } mi_commit_mask_foreach_end():
     idx = 0;
     while ((count = _mi_commit_mask_next_run(cm, &idx)) > 0) { body(idx, count); idx += count; }
   the list of the (idx, count) pairs the body sees; None when the fuel runs out *)
Fixpoint foreach_from (next : N -> N * N) (fuel : nat) (idx : N) : option (list (N * N)) :=
  match fuel with
  | O => None
  | S f =>
    let '(idx', count) := next idx in
    if 0 <? count then
      match foreach_from next f (idx' + count) with
      | Some rest => Some ((idx', count) :: rest)
      | None => None
      end
    else Some []
  end.

(* at most MASK_BITS / 2 runs, one more call to see the end *)
Definition FOREACH_FUEL : nat := S MASK_BITS_nat.
Definition foreach_runs (cm : N) : option (list (N * N)) := foreach_from (commit_mask_next_run cm) FOREACH_FUEL 0.
Definition foreach_words (ws : list N) : option (list (N * N)) := foreach_from (next_run_words ws) FOREACH_FUEL 0.
