(* Model of the commit / purge masks of a segment.  No proofs in this file.

   C sources modelled:
     include/mimalloc/internal.h : mi_commit_mask_create_empty/full, mi_commit_mask_is_empty/is_full,
                                   mi_commit_mask_foreach (as `mask_runs`)
     src/segment.c               : mi_commit_mask_all_set/any_set/create_intersect/clear/set/create,
                                   _mi_commit_mask_committed_size, _mi_commit_mask_next_run,
                                   mi_segment_commit_mask (conservative / liberal), mi_segment_commit,
                                   mi_segment_ensure_committed, mi_segment_purge,
                                   mi_segment_schedule_purge, mi_segment_try_purge

   Representation.  A `mi_commit_mask_t` is MI_COMMIT_MASK_FIELD_COUNT (8) words of 64 bits; the model
   uses the single number  m = sum_i mask[i] * 2^(64 i)  (< 2^512), i.e. bit k of m is bit (k mod 64)
   of mask[k / 64].  `mask_of_fields` / `fields_of_mask` are that bijection; the correspondence check
   (harness/f_mask.c) compares all 8 words of every result.  The C helpers loop over the 8 words; on
   the number they are the bitwise operations below.  `mask_runs` enumerates exactly the
   (idx, count) pairs that `mi_commit_mask_foreach` (repeated `_mi_commit_mask_next_run`) visits; it
   is a structural scan over the MI_COMMIT_MASK_BITS bit positions, so it needs no fuel.

   Time (`now`, expiry fields) is a `Z` (mi_msecs_t = int64_t; no wrap-around is modelled) and is an
   INPUT of every function that reads the clock; each call reads the clock at most once. *)
From Coq Require Import NArith ZArith List Bool.
From MiV Require Import Gen.Consts Gen.OsConsts Model.Arith Model.Os.
Import ListNotations.
Local Open Scope N_scope.
Local Open Scope bool_scope.

Definition MASK_BITS : N := MI_COMMIT_MASK_BITS.
Definition FIELD_BITS : N := MI_COMMIT_MASK_FIELD_BITS.
Definition MASK_BITS_nat : nat := N.to_nat MI_COMMIT_MASK_BITS.

(* ---------------------------------------------------------------- fields <-> number *)
Fixpoint mask_of_fields (l : list N) : N :=
  match l with
  | [] => 0
  | f :: rest => N.lor (N.land f (N.ones FIELD_BITS)) (N.shiftl (mask_of_fields rest) FIELD_BITS)
  end.
Fixpoint fields_of_mask_aux (n : nat) (m : N) : list N :=
  match n with
  | O => []
  | S n' => N.land m (N.ones FIELD_BITS) :: fields_of_mask_aux n' (N.shiftr m FIELD_BITS)
  end.
Definition fields_of_mask (m : N) : list N := fields_of_mask_aux (N.to_nat MI_COMMIT_MASK_FIELD_COUNT) m.

(* ---------------------------------------------------------------- mask helpers *)
Definition mask_empty : N := 0.
Definition mask_full : N := N.ones MASK_BITS.
Definition commit_mask_is_empty (cm : N) : bool := cm =? 0.
Definition commit_mask_is_full (cm : N) : bool := cm =? mask_full.
Definition commit_mask_all_set (commit cm : N) : bool := N.land commit cm =? cm.
Definition commit_mask_any_set (commit cm : N) : bool := negb (N.land commit cm =? 0).
Definition commit_mask_create_intersect (commit cm : N) : N := N.land commit cm.
Definition commit_mask_clear (res cm : N) : N := N.ldiff res cm.
Definition commit_mask_set (res cm : N) : N := N.lor res cm.

(* mi_commit_mask_create (precondition of the C: bitidx + bitcount <= MI_COMMIT_MASK_BITS) *)
Definition commit_mask_create (bitidx bitcount : N) : N :=
  if bitcount =? MASK_BITS then mask_full
  else if bitcount =? 0 then mask_empty
  else N.shiftl (N.ones bitcount) bitidx.

Fixpoint pos_popcount (p : positive) : N :=
  match p with xH => 1 | xO q => pos_popcount q | xI q => 1 + pos_popcount q end.
Definition popcount (m : N) : N := match m with N0 => 0 | Npos p => pos_popcount p end.

(* _mi_commit_mask_committed_size *)
Definition commit_mask_committed_size (cm total : N) : N := wmul (total / MASK_BITS) (popcount cm).

(* consecutive set bits of bm starting at bit i, at most n *)
Fixpoint ones_run (n : nat) (bm i : N) : N :=
  match n with
  | O => 0
  | S n' => if N.testbit bm i then 1 + ones_run n' bm (i + 1) else 0
  end.
(* first set bit at or after i among the next n positions; i + n when there is none *)
Fixpoint find_set (n : nat) (bm i : N) : N :=
  match n with
  | O => i
  | S n' => if N.testbit bm i then i else find_set n' bm (i + 1)
  end.

(* _mi_commit_mask_next_run: (new *idx, count) *)
Definition commit_mask_next_run (cm idx : N) : N * N :=
  if MASK_BITS <=? idx then (MASK_BITS, 0)
  else
    let s := find_set (N.to_nat (MASK_BITS - idx)) cm idx in
    if MASK_BITS <=? s then (MASK_BITS, 0)
    else (s, ones_run (N.to_nat (MASK_BITS - s)) cm s).

(* the maximal runs of set bits of bm among the n positions i, i+1, ...; (start, len) is the run that
   is open at position i (len = 0: none) *)
Fixpoint runs_aux (n : nat) (bm i start len : N) : list (N * N) :=
  match n with
  | O => if 0 <? len then [(start, len)] else []
  | S n' =>
    if N.testbit bm i
    then runs_aux n' bm (i + 1) (if len =? 0 then i else start) (len + 1)
    else (if 0 <? len then [(start, len)] else []) ++ runs_aux n' bm (i + 1) 0 0
  end.
Definition runs_in (bm lo : N) (n : nat) : list (N * N) := runs_aux n bm lo 0 0.
(* mi_commit_mask_foreach *)
Definition mask_runs (cm : N) : list (N * N) := runs_in cm 0 MASK_BITS_nat.

(* ---------------------------------------------------------------- segments *)
Inductive seg_kind := SegNormal | SegHuge.
Record segment := {
  s_base : N;                (* address of the segment *)
  s_kind : seg_kind;
  s_size : N;                (* mi_segment_size = segment_slices * MI_SEGMENT_SLICE_SIZE *)
  s_info_size : N;           (* mi_segment_info_size = segment_info_slices * MI_SEGMENT_SLICE_SIZE *)
  s_commit : N;              (* commit_mask *)
  s_purge : N;               (* purge_mask *)
  s_expire : Z;              (* purge_expire *)
  s_allow_decommit : bool;
  s_allow_purge : bool
}.
Definition set_commit (s : segment) (m : N) : segment :=
  {| s_base := s_base s; s_kind := s_kind s; s_size := s_size s; s_info_size := s_info_size s; s_commit := m;
     s_purge := s_purge s; s_expire := s_expire s; s_allow_decommit := s_allow_decommit s; s_allow_purge := s_allow_purge s |}.
Definition set_purge (s : segment) (m : N) : segment :=
  {| s_base := s_base s; s_kind := s_kind s; s_size := s_size s; s_info_size := s_info_size s; s_commit := s_commit s;
     s_purge := m; s_expire := s_expire s; s_allow_decommit := s_allow_decommit s; s_allow_purge := s_allow_purge s |}.
Definition set_expire (s : segment) (e : Z) : segment :=
  {| s_base := s_base s; s_kind := s_kind s; s_size := s_size s; s_info_size := s_info_size s; s_commit := s_commit s;
     s_purge := s_purge s; s_expire := e; s_allow_decommit := s_allow_decommit s; s_allow_purge := s_allow_purge s |}.

Definition is_huge (s : segment) : bool := match s_kind s with SegHuge => true | SegNormal => false end.

(* mi_segment_commit_mask: ( *start_p, *full_size, *cm ); the callers initialise start = NULL, full_size = 0 *)
Definition segment_commit_mask (s : segment) (conservative : bool) (p size : N) : N * N * N :=
  if (size =? 0) || (MI_SEGMENT_SIZE <? size) || is_huge s then (0, 0, mask_empty)
  else
    let segstart := s_info_size s in
    let segsize := s_size s in
    if wadd (s_base s) segsize <=? p then (0, 0, mask_empty)
    else
      let pstart := wsub p (s_base s) in
      let start := if conservative then align_up pstart MI_COMMIT_SIZE else align_down pstart MI_MINIMAL_COMMIT_SIZE in
      let end_ := if conservative then align_down (wadd pstart size) MI_COMMIT_SIZE
                  else align_up (wadd pstart size) MI_MINIMAL_COMMIT_SIZE in
      let start := if (segstart <=? pstart) && (start <? segstart) then segstart else start in
      let end_ := if segsize <? end_ then segsize else end_ in
      let full_size := if start <? end_ then end_ - start else 0 in
      let start_p := wadd (s_base s) start in
      if full_size =? 0 then (start_p, 0, mask_empty)
      else
        let bitidx := start / MI_COMMIT_SIZE in
        let bitcount := full_size / MI_COMMIT_SIZE in
        (start_p, full_size, commit_mask_create bitidx bitcount).

Section WithOracle.
Variable cfg : oscfg.
Variable oracle : nat -> answer.

(* mi_segment_commit *)
Definition segment_commit (o : os) (s : segment) (p size : N) (now : Z) : os * segment * bool :=
  let '(start, full_size, mask) := segment_commit_mask s false p size in
  if commit_mask_is_empty mask || (full_size =? 0) then (o, s, true)
  else
    let '(o1, s1, ok) :=
      if negb (commit_mask_all_set (s_commit s) mask) then
        let '(o1, ok) := os_commit oracle o start full_size in
        if ok then (o1, set_commit s (commit_mask_set (s_commit s) mask), true) else (o1, s, false)
      else (o, s, true) in
    if negb ok then (o1, s, false)
    else
      (* increase purge expiration when using part of delayed purges *)
      let s2 := if commit_mask_any_set (s_purge s1) mask then set_expire s1 (now + purge_delay cfg)%Z else s1 in
      (* always clear any delayed purges in our range *)
      (o1, set_purge s2 (commit_mask_clear (s_purge s2) mask), true).

(* mi_segment_ensure_committed *)
Definition segment_ensure_committed (o : os) (s : segment) (p size : N) (now : Z) : os * segment * bool :=
  if commit_mask_is_full (s_commit s) && commit_mask_is_empty (s_purge s) then (o, s, true)
  else segment_commit o s p size now.

(* mi_segment_purge (always returns true) *)
Definition segment_purge (o : os) (s : segment) (p size : N) : os * segment :=
  if negb (s_allow_purge s) then (o, s)
  else
    let '(start, full_size, mask) := segment_commit_mask s true p size in
    if commit_mask_is_empty mask || (full_size =? 0) then (o, s)
    else
      let '(o1, s1) :=
        if commit_mask_any_set (s_commit s) mask then
          let '(o1, decommitted) := os_purge cfg oracle o start full_size in
          (o1, if decommitted then set_commit s (commit_mask_clear (s_commit s) mask) else s)
        else (o, s) in
      (* always clear any scheduled purges in our range *)
      (o1, set_purge s1 (commit_mask_clear (s_purge s1) mask)).

(* the body of mi_commit_mask_foreach in mi_segment_try_purge *)
Definition purge_runs (o : os) (s : segment) (runs : list (N * N)) : os * segment :=
  fold_left (fun (st : os * segment) (r : N * N) =>
               let '(idx, count) := r in
               segment_purge (fst st) (snd st) (wadd (s_base s) (wmul idx MI_COMMIT_SIZE)) (wmul count MI_COMMIT_SIZE))
            runs (o, s).

(* mi_segment_try_purge *)
Definition segment_try_purge (o : os) (s : segment) (force : bool) (now : Z) : os * segment :=
  if negb (s_allow_purge s) || (s_expire s =? 0)%Z || commit_mask_is_empty (s_purge s) then (o, s)
  else if negb force && (now <? s_expire s)%Z then (o, s)
  else
    let mask := s_purge s in
    purge_runs o (set_purge (set_expire s 0%Z) mask_empty) (mask_runs mask).

(* mi_segment_schedule_purge *)
Definition segment_schedule_purge (o : os) (s : segment) (p size : N) (now : Z) : os * segment :=
  if negb (s_allow_purge s) then (o, s)
  else if (purge_delay cfg =? 0)%Z then segment_purge o s p size
  else
    (* register for future purge in the purge mask *)
    let '(start, full_size, mask) := segment_commit_mask s true p size in
    if commit_mask_is_empty mask || (full_size =? 0) then (o, s)
    else
      let cmask := commit_mask_create_intersect (s_commit s) mask in   (* only purge what is committed *)
      let s1 := set_purge s (commit_mask_set (s_purge s) cmask) in
      if (s_expire s1 =? 0)%Z then
        (* no previous purges, initialize now *)
        (o, set_expire s1 (now + purge_delay cfg)%Z)
      else if (s_expire s1 <=? now)%Z then
        (* previous purge mask already expired *)
        if (s_expire s1 + purge_extend_delay cfg <=? now)%Z
        then segment_try_purge o s1 true now
        else (o, set_expire s1 (now + purge_extend_delay cfg)%Z)
      else
        (* previous purge mask is not yet expired, increase the expiration by a bit *)
        (o, set_expire s1 (s_expire s1 + purge_extend_delay cfg)%Z).

End WithOracle.
