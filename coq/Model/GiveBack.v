(* Property C11 on the commit model (Model/Commit.v): the executable (boolean) forms of "everything was given back".
   No proofs in this file.  The theorems are in Proofs/CommitGiveBack.v / Properties/C11back.v; these functions are
   extracted and evaluated by ocaml/mode_commit.ml on the model state that is in lockstep with the real allocator
   (harness/f_commit.c) and on the states dumped from the real allocator.

   C sources whose effect is summarised: src/arena.c (mi_arena_t.blocks_inuse / blocks_purge after _mi_arena_free and
   _mi_arenas_collect), src/segment.c (mi_segment_free / mi_segment_os_free: the segment leaves the thread's segment
   list and its memid is released), src/heap.c (mi_heap_collect_ex(MI_FORCE)). *)
From Coq Require Import NArith List Bool.
From MiV Require Import Gen.Consts Model.Commit.
Import ListNotations.
Local Open Scope N_scope.
Local Open Scope bool_scope.

(* which arena blocks an owner holds through its memid *)
Definition seg_owns_block (s : segment) (b : N) : bool :=
  match sg_mem s with MemArena b0 nb => in_range b0 nb b | MemOs => false end.
Definition raw_owns_block (r : N * N) (b : N) : bool := in_range (fst r) (snd r) b.
Definition block_owned_b (segs : list segment) (raws : list (N * N)) (b : N) : bool :=
  existsb (fun s => seg_owns_block s b) segs || existsb (fun r => raw_owns_block r b) raws.

(* (U) every in-use block of the arena belongs to a segment or to another user of _mi_arena_alloc_aligned: no block is
   claimed without an owner that will release it (the converse of the ownership clause of commit_Inv) *)
Definition inuse_owned_b (st : state) : bool :=
  all_in (fun b => negb (a_inuse (st_arena st) b) || block_owned_b (st_segs st) (st_raw st) b) 0 (a_nblocks (st_arena st)).

(* the hypothesis of C11: no page is live and no raw arena allocation is held *)
Definition all_freed_b (st : state) : bool :=
  match st_live st, st_raw st with [], [] => true | _, _ => false end.

Definition no_segment_b (st : state) : bool := match st_segs st with [] => true | _ :: _ => false end.
Definition no_block_inuse_b (a : arena) : bool := negb (any_in (a_inuse a) 0 (a_nblocks a)).
(* no block that can be claimed is still scheduled for a purge (after a forced collect) *)
Definition no_purge_scheduled_b (a : arena) : bool :=
  negb (any_in (fun b => a_purge a b && negb (a_inuse a b)) 0 (a_nblocks a)).
(* the ghost kernel on the window [lo, lo+n): nothing outside the arena is accessible *)
Definition outside_inaccessible_b (st : state) (lo n : N) : bool :=
  all_in (fun x => negb (st_acc st x) || in_range (a_start (st_arena st)) (a_nblocks (st_arena st) * BLOCK_SLICES) x) lo n.

(* the conclusion of C11_all_freed_gives_back (segments and arena blocks) *)
Definition gave_back_b (st : state) : bool := no_segment_b st && no_block_inuse_b (st_arena st).

(* every munmap the operation asks for is granted *)
Definition where_unmap_ok (w : where_) : bool :=
  match w with WNewOs _ unmap_ok => unmap_ok | _ => true end.
Definition op_unmaps_ok (x : op) : bool :=
  match x with
  | OpAlloc _ _ _ tries _ tries2 => forallb (forallb where_unmap_ok) tries && forallb (forallb where_unmap_ok) tries2
  | OpFree _ _ _ _ unmap_ok => unmap_ok
  | _ => true
  end.
Definition ops_unmaps_ok (ops : list op) : bool := forallb op_unmaps_ok ops.

(* the pre-repair mi_segments_page_alloc is Proofs/CommitProofs.v:segments_page_alloc_old *)
