(* Model of option handling, environment parsing and the allocator's own formatted output
   (property C20).  Every definition follows the C source line by line.  No proofs in this file.

   C sources modelled (64-bit Linux release configuration):
     src/libc.c          : _mi_toupper, _mi_strnicmp, _mi_strlcpy, _mi_strlcat, _mi_strlen, _mi_strnlen,
                           _mi_getenv, mi_outc, mi_outs, mi_out_fill, mi_out_alignright, mi_out_num,
                           _mi_vsnprintf
     src/prim/unix/prim.c: _mi_prim_getenv (the `environ` variant)
     src/options.c       : mi_option_is_word, mi_option_init, mi_option_get, mi_option_set,
                           mi_option_set_default, mi_option_has_size_in_kib, mi_out_buf, mi_out_buf_flush
     src/stats.c         : mi_buffered_flush, mi_buffered_out, mi_heap_buf_expand, mi_heap_buf_print
     ISO C (libc)        : strtol with base 10 in the "C" locale

   Conventions.
   * A byte is an `N` (0..255).  A *source* C string (format, message, environment entry, option
     name) is a `list N`; the end of the list plays the role of the terminating 0 and a 0 inside the
     list terminates the string as well (`hd0`/`nextc`), so reading a source never leaves its object.
   * A *destination* is an explicit buffer `buf`: its bytes plus a `fault` flag.  `bput`/`bread` at an
     index >= the length of the buffer set the flag (and change nothing), so "never writes or reads
     outside its buffer" is the statement `fault = false`.  Pointers into a destination are indices.
   * `size_t` is `N` with explicit wrap-around (`wadd`, `wmul`, `wsub` of Model/Arith.v); `long` is `Z`.
   * NULL arguments (every function returns immediately on them) are not modelled, except the NULL
     string argument of a `%s` directive (`ANull`). *)
From Coq Require Import NArith ZArith List Bool String Ascii.
From MiV Require Import Gen.Consts Gen.Options Model.Arith.
Import ListNotations.
Local Open Scope N_scope.
Local Open Scope bool_scope.

Definition bytes := list N.

Fixpoint bytes_of_string (s : string) : bytes :=
  match s with EmptyString => [] | String a r => N_of_ascii a :: bytes_of_string r end.

Definition hd0 (s : bytes) : N := match s with [] => 0 | c :: _ => c end.
Definition tl0 (s : bytes) : bytes := match s with [] => [] | _ :: r => r end.

(* the C string stored in a source: the bytes before the first 0 *)
Fixpoint cstr (s : bytes) : bytes :=
  match s with [] => [] | c :: r => if c =? 0 then [] else c :: cstr r end.

(* ---------------------------------------------------------------------------------------- *)
(* explicit destination buffers                                                              *)
(* ---------------------------------------------------------------------------------------- *)
Record buf := mkbuf { bdata : list N; fault : bool }.

Fixpoint nthN (l : list N) (i : N) : N :=
  match l with [] => 0 | x :: r => if i =? 0 then x else nthN r (i - 1) end.
Fixpoint updN (l : list N) (i : N) (c : N) : list N :=
  match l with [] => [] | x :: r => if i =? 0 then c :: r else x :: updN r (i - 1) c end.
Fixpoint lenN (l : list N) : N := match l with [] => 0 | _ :: r => N.succ (lenN r) end.

Definition blen (b : buf) : N := lenN (bdata b).
Definition bget (b : buf) (i : N) : N := nthN (bdata b) i.
Definition bput (b : buf) (i c : N) : buf :=
  if i <? blen b then mkbuf (updN (bdata b) i c) (fault b) else mkbuf (bdata b) true.
(* a read of the destination: the value, and the buffer with the fault flag set when out of bounds *)
Definition bread (b : buf) (i : N) : N * buf :=
  if i <? blen b then (bget b i, b) else (0, mkbuf (bdata b) true).
(* the C string that starts at index i of a buffer (used when a filled buffer is passed on as a source) *)
Fixpoint dropN (l : list N) (i : N) : list N :=
  match l with [] => [] | x :: r => if i =? 0 then l else dropN r (i - 1) end.
Definition bstr (b : buf) (i : N) : bytes := cstr (dropN (bdata b) i).

Fixpoint repeatN (c : N) (n : nat) : list N := match n with O => [] | S k => c :: repeatN c k end.
Definition newbuf (c : N) (n : N) : buf := mkbuf (repeatN c (N.to_nat n)) false.

(* ---------------------------------------------------------------------------------------- *)
(* src/libc.c: characters and strings                                                        *)
(* ---------------------------------------------------------------------------------------- *)
(* `char` is signed on the target; value of a byte as a char *)
Definition schar (c : N) : Z := if c <? 128 then Z.of_N c else (Z.of_N c - 256)%Z.

(* _mi_toupper *)
Definition toupper (c : N) : N := if (97 <=? c) && (c <=? 122) then c - 32 else c.

(* _mi_strnicmp: result as the C int *)
Fixpoint strnicmp (s t : bytes) (n : N) : Z :=
  if n =? 0 then 0%Z else
  match s with
  | cs :: s' =>
      if (cs =? 0) || (hd0 t =? 0) then (schar cs - schar (hd0 t))%Z
      else if toupper cs =? toupper (hd0 t) then strnicmp s' (tl0 t) (n - 1)
      else (schar cs - schar (hd0 t))%Z
  | [] => (0 - schar (hd0 t))%Z
  end.

(* _mi_strlen / _mi_strnlen on a source *)
Definition strlen (s : bytes) : N := lenN (cstr s).
Fixpoint strnlen (s : bytes) (max_len : N) : N :=
  match s with
  | [] => 0
  | c :: r => if negb (c =? 0) && (0 <? max_len) then N.succ (strnlen r (max_len - 1)) else 0
  end.

(* _mi_strlcpy(dest = &b[d], src, dest_size) *)
Fixpoint strlcpy_loop (b : buf) (d : N) (src : bytes) (size : N) : buf :=
  match src with
  | c :: r => if negb (c =? 0) && (1 <? size) then strlcpy_loop (bput b d c) (d + 1) r (size - 1)
              else bput b d 0
  | [] => bput b d 0
  end.
Definition strlcpy (b : buf) (d : N) (src : bytes) (dest_size : N) : buf :=
  if dest_size =? 0 then b else strlcpy_loop b d src dest_size.

(* _mi_strlcat: `while ( *dest != 0 && dest_size > 1 ) { dest++; dest_size--; }` reads the destination;
   the recursion runs over the stored bytes from index d on; running off the buffer is a read fault *)
Fixpoint strlcat_scan (l : list N) (d size : N) : N * N * bool :=
  match l with
  | [] => (d, size, true)
  | c :: r => if negb (c =? 0) && (1 <? size) then strlcat_scan r (d + 1) (size - 1) else (d, size, false)
  end.
Definition strlcat (b : buf) (d : N) (src : bytes) (dest_size : N) : buf :=
  if dest_size =? 0 then b else
  let '(d', size', rf) := strlcat_scan (dropN (bdata b) d) d dest_size in
  if rf then mkbuf (bdata b) true else strlcpy b d' src size'.

(* ---------------------------------------------------------------------------------------- *)
(* src/prim/unix/prim.c: _mi_prim_getenv (environ variant), src/libc.c: _mi_getenv            *)
(* ---------------------------------------------------------------------------------------- *)
(* s + n for a source *)
Fixpoint sdrop (s : bytes) (n : N) : bytes :=
  if n =? 0 then s else match s with [] => [] | c :: r => if c =? 0 then [] else sdrop r (n - 1) end.

(* the loop `for (i = 0; i < 10000 && env[i] != NULL; i++)`; the result buffer is written at index 0 *)
Fixpoint getenv_loop (env : list bytes) (i : N) (name : bytes) (len : N) (res : buf) (result_size : N) : bool * buf :=
  match env with
  | [] => (false, res)
  | s :: env' =>
      if 10000 <=? i then (false, res)
      else if (strnicmp name s len =? 0)%Z && (hd0 (sdrop s len) =? 61) then
        (true, strlcpy res 0 (sdrop s (len + 1)) result_size)
      else getenv_loop env' (i + 1) name len res result_size
  end.

Definition prim_getenv (env : list bytes) (name : bytes) (res : buf) (result_size : N) : bool * buf :=
  let len := strlen name in
  if len =? 0 then (false, res) else getenv_loop env 0 name len res result_size.

Definition mi_getenv (env : list bytes) (name : bytes) (res : buf) (result_size : N) : bool * buf :=
  if result_size <? 64 then (false, res) else prim_getenv env name res result_size.

(* ---------------------------------------------------------------------------------------- *)
(* ISO C strtol(nptr, &end, 10), "C" locale; long = 64 bit.                                   *)
(* result: value, the rest of the string at `end`, and whether a conversion was performed      *)
(* (`end != nptr`).  No conversion: value 0 and end = nptr.                                   *)
(* ---------------------------------------------------------------------------------------- *)
Definition isspace (c : N) : bool := (c =? 32) || ((9 <=? c) && (c <=? 13)).
Definition isdigit (c : N) : bool := (48 <=? c) && (c <=? 57).

Fixpoint skip_ws (s : bytes) : bytes :=
  match s with c :: r => if isspace c then skip_ws r else s | [] => [] end.
Fixpoint digits_val (acc : Z) (s : bytes) : Z * bytes :=
  match s with
  | c :: r => if isdigit c then digits_val (acc * 10 + Z.of_N (c - 48))%Z r else (acc, s)
  | [] => (acc, [])
  end.
Definition clamp_long (v : Z) : Z :=
  if (LONG_MAX_ <? v)%Z then LONG_MAX_ else if (v <? LONG_MIN_)%Z then LONG_MIN_ else v.

Definition strtol10 (s : bytes) : Z * bytes * bool :=
  let s1 := skip_ws s in
  let '(neg, s2) :=
    match s1 with
    | c :: r => if c =? 45 then (true, r) else if c =? 43 then (false, r) else (false, s1)
    | [] => (false, [])
    end in
  if isdigit (hd0 s2) then
    let '(v, rest) := digits_val 0 s2 in
    (clamp_long (if neg then (- v)%Z else v), rest, true)
  else (0%Z, s, false).

(* ---------------------------------------------------------------------------------------- *)
(* src/options.c: option table                                                               *)
(* ---------------------------------------------------------------------------------------- *)
Definition UNINIT : N := 0.
Definition DEFAULTED : N := 1.
Definition INITIALIZED : N := 2.

Record opt := mkopt { o_value : Z; o_init : N; o_name : bytes; o_legacy : option bytes }.
Definition table := list opt.

(* the table as it is in the object file: value and names from the generated table, every entry
   UNINIT (the generator runs after process initialisation and therefore sees DEFAULTED) *)
Definition opt_of_gen (e : nat * Z * nat * string * string) : opt :=
  let '(_, v, _, name, legacy) := e in
  mkopt v UNINIT (bytes_of_string name)
        (match legacy with EmptyString => None | _ => Some (bytes_of_string legacy) end).
(* evaluated here so that the extracted model contains the table as a literal *)
Definition table0 : table := Eval vm_compute in map opt_of_gen options_table.

Definition dummy_opt : opt := mkopt 0 UNINIT [] None.
Definition tget (t : table) (i : nat) : opt := nth i t dummy_opt.
Fixpoint tset (t : table) (i : nat) (o : opt) : table :=
  match t, i with
  | [], _ => []
  | _ :: r, O => o :: r
  | x :: r, S k => x :: tset r k o
  end.

(* mi_option_has_size_in_kib *)
Definition has_size_in_kib (oi : nat) : bool :=
  Nat.eqb oi opt_reserve_os_memory || Nat.eqb oi opt_arena_reserve.

(* mi_option_set; the recursion of the C code is at most one level deep (fuel 2 suffices), None
   on exhaustion.  `in_range`: 0 <= oi < _mi_option_last *)
Definition in_range (t : table) (oi : nat) : bool := Nat.ltb oi (List.length t).
Fixpoint option_set_fuel (fuel : nat) (t : table) (oi : nat) (value : Z) : option table :=
  match fuel with
  | O => None
  | S f =>
    if negb (in_range t oi) then Some t else
    let d := tget t oi in
    let t := tset t oi (mkopt value INITIALIZED (o_name d) (o_legacy d)) in
    if Nat.eqb oi opt_guarded_min && (o_value (tget t opt_guarded_max) <? value)%Z
    then option_set_fuel f t opt_guarded_max value
    else if Nat.eqb oi opt_guarded_max && (value <? o_value (tget t opt_guarded_min))%Z
    then option_set_fuel f t opt_guarded_min value
    else Some t
  end.
Definition option_set (t : table) (oi : nat) (value : Z) : option table :=
  option_set_fuel 3 t oi value.

(* mi_option_set_default *)
Definition option_set_default (t : table) (oi : nat) (value : Z) : table :=
  if negb (in_range t oi) then t else
  let d := tget t oi in
  if negb (o_init d =? INITIALIZED) then tset t oi (mkopt value (o_init d) (o_name d) (o_legacy d)) else t.

(* mi_option_is_word(s, words): is s exactly one of the `;`-separated words?
   The C loop jumps from word to word; here the recursion walks `words` byte by byte and performs
   the comparison at every word start (at_start), which visits exactly the same word starts. *)
Fixpoint wordlen (w : bytes) : N :=
  match w with [] => 0 | c :: r => if (c =? 0) || (c =? 59) then 0 else N.succ (wordlen r) end.
Fixpoint is_word_from (s : bytes) (len : N) (w : bytes) (at_start : bool) : bool :=
  match w with
  | [] => false
  | c :: r =>
      if c =? 0 then false
      else if at_start && (wordlen w =? len) && (strnicmp w s len =? 0)%Z then true
      else is_word_from s len r (c =? 59)
  end.
Definition is_word (s words : bytes) : bool :=
  let len := strlen s in
  if len =? 0 then false else is_word_from s len words true.

Definition words_true : bytes := Eval vm_compute in bytes_of_string "1;TRUE;YES;ON".
Definition words_false : bytes := Eval vm_compute in bytes_of_string "0;FALSE;NO;OFF".

(* the decision of mi_option_init on the upper-cased value in `buf` *)
Inductive pres := PWord (v : Z) | PNum (v : Z) | PInvalid.

Definition parse_size_suffix (value : Z) (e : bytes) : Z * bytes :=
  let size := if (value <? 0)%Z then 0 else Z.to_N value in
  let c := hd0 e in
  let '(overflow, size, e) :=
    if c =? 75 (* K *) then (false, size, tl0 e)
    else if c =? 77 (* M *) then let '(o, s) := mul_overflow size MI_KiB_ in (o, s, tl0 e)
    else if c =? 71 (* G *) then let '(o, s) := mul_overflow size MI_MiB_ in (o, s, tl0 e)
    else if c =? 84 (* T *) then let '(o, s) := mul_overflow size MI_GiB_ in (o, s, tl0 e)
    else (false, wsub (wadd size MI_KiB_) 1 / MI_KiB_, e) in
  let e := if (hd0 e =? 73) && (hd0 (tl0 e) =? 66) then tl0 (tl0 e)       (* IB *)
           else if hd0 e =? 66 then tl0 e else e in                        (* B *)
  let size := if overflow || (MI_MAX_ALLOC_SIZE <? size) then MI_MAX_ALLOC_SIZE / MI_KiB_ else size in
  ((if (LONG_MAX_ <? Z.of_N size)%Z then LONG_MAX_ else Z.of_N size), e).

Definition parse_value (kib : bool) (ubuf : bytes) : pres :=
  if (hd0 ubuf =? 0) || is_word ubuf words_true then PWord 1
  else if is_word ubuf words_false then PWord 0
  else
    let '(value, e, conv) := strtol10 ubuf in
    let '(value, e) := if conv && kib then parse_size_suffix value e else (value, e) in
    if hd0 e =? 0 then PNum value else PInvalid.

(* the part of mi_option_init after `found`: s holds the value (a C string at index 0), buf is the
   65-byte scratch buffer; returns the new table and the two buffers (for their fault flags) *)
Fixpoint upcase_loop (k : nat) (i : N) (s b : buf) : buf * buf :=
  match k with
  | O => (s, b)
  | S k' => let '(c, s) := bread s i in upcase_loop k' (i + 1) s (bput b i (toupper c))
  end.

Definition apply_pres (t : table) (oi : nat) (r : pres) : option table :=
  let d := tget t oi in
  match r with
  | PWord v => Some (tset t oi (mkopt v INITIALIZED (o_name d) (o_legacy d)))
  | PNum v => option_set t oi v
  | PInvalid => Some (tset t oi (mkopt (o_value d) DEFAULTED (o_name d) (o_legacy d)))
  end.

Definition option_init_found (t : table) (oi : nat) (s b : buf) : option table * buf * buf :=
  let len := strnlen (bstr s 0) 64 in       (* sizeof(buf) - 1 *)
  let '(s, b) := upcase_loop (N.to_nat len) 0 s b in
  let b := bput b len 0 in
  (apply_pres t oi (parse_value (has_size_in_kib oi) (bstr b 0)), s, b).

Definition prefix_mimalloc : bytes := Eval vm_compute in bytes_of_string "mimalloc_".

(* mi_option_init(&options[option]); s0, b0: the two 65-byte stack arrays with their prior contents *)
Definition option_init (t : table) (oi : nat) (env : list bytes) (preloading : bool) (s0 b0 : buf)
  : option table * buf * buf :=
  let d := tget t oi in
  let b := strlcat (strlcpy b0 0 prefix_mimalloc 65) 0 (o_name d) 65 in
  let '(found, s) := mi_getenv env (bstr b 0) s0 65 in
  let '(found, s, b) :=
    match found, o_legacy d with
    | false, Some legacy =>
        let b := strlcat (strlcpy b 0 prefix_mimalloc 65) 0 legacy 65 in
        let '(found, s) := mi_getenv env (bstr b 0) s 65 in (found, s, b)
    | _, _ => (found, s, b)
    end in
  if found then option_init_found t oi s b
  else if negb preloading then (Some (tset t oi (mkopt (o_value d) DEFAULTED (o_name d) (o_legacy d))), s, b)
  else (Some t, s, b).

(* mi_option_get: value, new table, and the fault flags of the scratch buffers *)
Definition option_get (t : table) (oi : nat) (env : list bytes) (preloading : bool) (s0 b0 : buf)
  : option (Z * table * bool) :=
  if negb (in_range t oi) then Some (0%Z, t, false) else
  if o_init (tget t oi) =? UNINIT then
    match option_init t oi env preloading s0 b0 with
    | (Some t', s, b) => Some (o_value (tget t' oi), t', fault s || fault b)
    | (None, _, _) => None
    end
  else Some (o_value (tget t oi), t, false).

(* ---------------------------------------------------------------------------------------- *)
(* src/libc.c: _mi_vsnprintf                                                                 *)
(* ---------------------------------------------------------------------------------------- *)
(* a variadic argument: the 64-bit slot of an integer/pointer argument, or a string *)
Inductive arg := AStr (s : bytes) | ANull | AInt (v : N).

Definition pop_str (args : list arg) : option bytes * list arg :=
  match args with
  | AStr s :: r => (Some s, r)
  | _ :: r => (None, r)
  | [] => (None, [])
  end.
Definition pop_int (args : list arg) : N * list arg :=
  match args with
  | AInt v :: r => (wrap v, r)
  | _ :: r => (0, r)
  | [] => (0, [])
  end.

(* mi_outc: out index p, end index e *)
Definition outc (c : N) (b : buf) (p e : N) : buf * N :=
  if e <=? p then (b, p) else (bput b p c, p + 1).

(* mi_outs *)
Fixpoint outs (s : bytes) (b : buf) (p e : N) : buf * N :=
  match s with
  | [] => (b, p)
  | c :: r => if c =? 0 then (b, p) else if p <? e then outs r (bput b p c) (p + 1) e else (b, p)
  end.

(* mi_out_fill: `for (i = 0; i < len && p < end; i++) *p++ = fill` runs min(len, end - p) times *)
Fixpoint fill_loop (k : nat) (fill : N) (b : buf) (p : N) : buf * N :=
  match k with O => (b, p) | S k' => fill_loop k' fill (bput b p fill) (p + 1) end.
Definition out_fill (fill len : N) (b : buf) (p e : N) : buf * N :=
  fill_loop (N.to_nat (N.min len (e - p))) fill b p.

(* mi_out_alignright; `base` is the address of buf[0]: the test `start + len + extra >= end` is a
   pointer computation that wraps around the address space for huge `extra`.  When it wraps and the
   test does not return, the second loop (`extra` > size of the buffer iterations) runs off the end. *)
Fixpoint move_loop (k : nat) (i start len extra : N) (b : buf) : buf :=
  match k with
  | O => b
  | S k' => let '(c, b) := bread b (start + (len - i)) in
            move_loop k' (i + 1) start len extra (bput b (start + (len + extra - i)) c)
  end.
Fixpoint fillat_loop (k : nat) (i start fill : N) (b : buf) : buf :=
  match k with O => b | S k' => fillat_loop k' (i + 1) start fill (bput b (start + i) fill) end.
Definition out_alignright (base fill start len extra e : N) (b : buf) : buf :=
  if (len =? 0) || (extra =? 0) then b else
  let sum := base + start + len + extra in
  if sum <? W64 then
    if e <=? start + len + extra then b
    else let b := move_loop (N.to_nat len) 1 start len extra b in
         fillat_loop (N.to_nat extra) 0 start fill b
  else if base + e <=? sum mod W64 then b
  else mkbuf (bdata b) true.

(* mi_out_num *)
Definition digit_char (d : N) : N := if d <=? 9 then 48 + d else 65 + d - 10.
Fixpoint digits_loop (fuel : nat) (x base : N) (b : buf) (p e : N) : option (buf * N) :=
  if x =? 0 then Some (b, p) else
  match fuel with
  | O => None
  | S f => let '(b, p) := outc (digit_char (x mod base)) b p e in digits_loop f (x / base) base b p e
  end.
Fixpoint rev_loop (k : nat) (i start len : N) (b : buf) : buf :=
  match k with
  | O => b
  | S k' =>
      let hi := start + (len - i - 1) in
      let lo := start + i in
      let '(c, b) := bread b hi in
      let '(c2, b) := bread b lo in
      rev_loop k' (i + 1) start len (bput (bput b hi c2) lo c)
  end.
Definition out_num (x base prefix : N) (b : buf) (p e : N) : option (buf * N) :=
  if (x =? 0) || (base =? 0) || (16 <? base) then
    let '(b, p) := if negb (prefix =? 0) then outc prefix b p e else (b, p) in
    Some (outc 48 b p e)
  else
    let start := p in
    match digits_loop 64 x base b p e with
    | None => None
    | Some (b, p) =>
        let '(b, p) := if negb (prefix =? 0) then outc prefix b p e else (b, p) in
        let len := p - start in
        Some (rev_loop (N.to_nat (len / 2)) 0 start len b, p)
    end.

(* MI_NEXTC(): c = *in; if (c==0) break; in++ *)
Definition nextc (inp : bytes) : option (N * bytes) :=
  match inp with [] => None | c :: r => if c =? 0 then None else Some (c, r) end.

(* the parsed directive *)
Record dspec := mkd { d_fill : N; d_width : N; d_numtype : N; d_numplus : N; d_alignright : bool;
                      d_conv : N; d_rest : bytes }.

(* `while (c >= '0' && c <= '9') { width = 10*width + (c-'0'); MI_NEXTC(); } if (c==0) break;` *)
Fixpoint width_loop (width c : N) (inp : bytes) : option (N * N * bytes) :=
  if isdigit c then
    match inp with
    | [] => None
    | c' :: r => if c' =? 0 then None else width_loop (wadd (wmul 10 width) (c - 48)) c' r
    end
  else Some (width, c, inp).

(* from the character after '%' (already fetched: c) to the conversion character; None = break *)
Definition parse_directive (c : N) (inp : bytes) : option dspec :=
  (* if (c == '+' || c == ' ') { numplus = c; MI_NEXTC(); } *)
  match (if (c =? 43) || (c =? 32) then option_map (fun x => (c, x)) (nextc inp) else Some (0, (c, inp))) with
  | None => None
  | Some (numplus, (c, inp)) =>
  (* if (c == '-') { alignright = false; MI_NEXTC(); } *)
  match (if c =? 45 then option_map (fun x => (false, x)) (nextc inp) else Some (true, (c, inp))) with
  | None => None
  | Some (alignright, (c, inp)) =>
  (* if (c == '0') { fill = '0'; MI_NEXTC(); } *)
  match (if c =? 48 then option_map (fun x => (48, x)) (nextc inp) else Some (32, (c, inp))) with
  | None => None
  | Some (fill, (c, inp)) =>
  (* if (c >= '1' && c <= '9') { width = c - '0'; MI_NEXTC(); while ... } *)
  match (if (49 <=? c) && (c <=? 57)
         then match nextc inp with None => None | Some (c', inp') => width_loop (c - 48) c' inp' end
         else Some (0, c, inp)) with
  | None => None
  | Some (width, c, inp) =>
  (* if (c == 'z' || c == 't' || c == 'L') { numtype = c; MI_NEXTC(); }
     else if (c == 'l') { numtype = c; MI_NEXTC(); if (c == 'l') { numtype = 'L'; MI_NEXTC(); } } *)
  match (if (c =? 122) || (c =? 116) || (c =? 76) then option_map (fun x => (c, x)) (nextc inp)
         else if c =? 108 then
           match nextc inp with
           | None => None
           | Some (c', inp') => if c' =? 108 then option_map (fun x => (76, x)) (nextc inp') else Some (108, (c', inp'))
           end
         else Some (100, (c, inp))) with
  | None => None
  | Some (numtype, (c, inp)) => Some (mkd fill width numtype numplus alignright c inp)
  end end end end end.

Definition sext32 (v : N) : Z := let w := v mod 4294967296 in if w <? 2147483648 then Z.of_N w else (Z.of_N w - 4294967296)%Z.
Definition sext64 (v : N) : Z := if v <? 9223372036854775808 then Z.of_N v else (Z.of_N v - 18446744073709551616)%Z.

(* the conversions.  Each returns: buffer, out index, remaining arguments, `start`, the effective
   field width and fill character; None only when mi_out_num runs out of fuel *)
Definition conv_result : Type := option (buf * N * list arg * N * N * N).

Definition is64 (numtype : N) : bool := (numtype =? 122) || (numtype =? 116) || (numtype =? 76) || (numtype =? 108).

(* if (c == 's') *)
Definition conv_string (d : dspec) (args : list arg) (b : buf) (out e : N) : conv_result :=
  let '(s, args) := pop_str args in
  let '(b, out') := match s with Some s => outs s b out e | None => (b, out) end in
  Some (b, out', args, out, d_width d, d_fill d).

(* else if (c == 'p' || c == 'x' || c == 'u') *)
Definition conv_unsigned (d : dspec) (args : list arg) (b : buf) (out e : N) : conv_result :=
  let c := d_conv d in
  let '(v, args) := pop_int args in
  let x := if c =? 112 then v else if is64 (d_numtype d) then v else v mod 4294967296 in
  let '(b, out1) := if c =? 112 then outs [48; 120] b out e else (b, out) in
  let width := if c =? 112 then (if 2 <=? d_width d then d_width d - 2 else 0) else d_width d in
  let '(width, fill) :=
    if (width =? 0) && ((c =? 120) || (c =? 112)) then
      let width := if c =? 112
                   then 2 * (if x <=? UINT32_MAX_ then 4 else if N.shiftr x 16 <=? UINT32_MAX_ then 6 else 8)
                   else width in
      ((if width =? 0 then 2 else width), 48)
    else (width, d_fill d) in
  match out_num x (if (c =? 120) || (c =? 112) then 16 else 10) (d_numplus d) b out1 e with
  | None => None
  | Some (b, out') => Some (b, out', args, out1, width, fill)
  end.

(* else if (c == 'i' || c == 'd') *)
Definition conv_signed (d : dspec) (args : list arg) (b : buf) (out e : N) : conv_result :=
  let '(v, args) := pop_int args in
  let x := if is64 (d_numtype d) then sext64 v else sext32 v in
  let pre := if (x <? 0)%Z then 45 else if negb (d_numplus d =? 0) then d_numplus d else 0 in
  match out_num (Z.abs_N x) 10 pre b out e with
  | None => None
  | Some (b, out') => Some (b, out', args, out, d_width d, d_fill d)
  end.

(* else if (c >= ' ' && c <= '~'): unknown format; otherwise nothing *)
Definition conv_other (d : dspec) (args : list arg) (b : buf) (out e : N) : conv_result :=
  let c := d_conv d in
  if (32 <=? c) && (c <=? 126) then
    let '(b, out1) := outc 37 b out e in
    let '(b, out') := outc c b out1 e in
    Some (b, out', args, out, d_width d, d_fill d)
  else Some (b, out, args, out, d_width d, d_fill d).

(* // fill & align *)
Definition fill_align (base : N) (alignright : bool) (fill start width : N) (b : buf) (out e : N) : buf * N :=
  let len := out - start in
  if len <? width then
    let '(b, out') := out_fill fill (width - len) b out e in
    ((if alignright && (out' <=? e) then out_alignright base fill start len (width - len) e b else b), out')
  else (b, out).

(* the body of the `else` branch after the directive has been parsed *)
Definition do_directive (base : N) (d : dspec) (args : list arg) (b : buf) (out e : N)
  : option (buf * N * list arg) :=
  let c := d_conv d in
  let r :=
    if c =? 115 then conv_string d args b out e
    else if (c =? 112) || (c =? 120) || (c =? 117) then conv_unsigned d args b out e
    else if (c =? 105) || (c =? 100) then conv_signed d args b out e
    else conv_other d args b out e in
  match r with
  | None => None
  | Some (b, out', args, start, width, fill) =>
      let '(b, out'') := fill_align base (d_alignright d) fill start width b out' e in
      Some (b, out'', args)
  end.

Definition printable (c : N) : bool := ((32 <=? c) && (c <=? 126)) || (c =? 10) || (c =? 13) || (c =? 9).

(* the `while (true)` loop; every iteration consumes at least one byte of the format, so fuel
   `length fmt + 1` is never exhausted *)
Fixpoint vs_loop (fuel : nat) (base : N) (inp : bytes) (args : list arg) (b : buf) (out e : N)
  : option (buf * N) :=
  match fuel with
  | O => None
  | S f =>
    if e <=? out then Some (b, out) else
    match nextc inp with
    | None => Some (b, out)
    | Some (c, inp) =>
      if negb (c =? 37) then
        let '(b, out) := if printable c then outc c b out e else (b, out) in
        vs_loop f base inp args b out e
      else
        match nextc inp with
        | None => Some (b, out)
        | Some (c, inp) =>
          match parse_directive c inp with
          | None => Some (b, out)
          | Some d =>
            match do_directive base d args b out e with
            | None => None
            | Some (b, out, args) => vs_loop f base (d_rest d) args b out e
            end
          end
        end
    end
  end.

(* _mi_vsnprintf(buf, bufsize, fmt, args): the buffer and the return value *)
Definition vsnprintf (base : N) (b : buf) (bufsize : N) (fmt : bytes) (args : list arg) : option (buf * N) :=
  if bufsize =? 0 then Some (b, 0) else
  let b := bput b (bufsize - 1) 0 in
  let e := bufsize - 1 in
  match vs_loop (S (List.length fmt)) base fmt args b 0 e with
  | None => None
  | Some (b, out) => Some (bput b out 0, out)
  end.

(* ---------------------------------------------------------------------------------------- *)
(* src/options.c: the delayed output buffer (sequential model of the atomic add)             *)
(* ---------------------------------------------------------------------------------------- *)
Definition MAX_DELAY : N := Z.to_N MI_MAX_DELAY_OUTPUT_.
(* state: out_buf[MI_MAX_DELAY_OUTPUT+1] and out_len *)
Fixpoint copy_loop (src : bytes) (k : nat) (b : buf) (d : N) : buf :=   (* _mi_memcpy(&b[d], src, k) *)
  match k with
  | O => b
  | S k' => copy_loop (tl0 src) k' (bput b d (hd0 src)) (d + 1)
  end.
Definition out_buf_msg (st : buf * N) (msg : bytes) : buf * N :=
  let '(b, out_len) := st in
  if MAX_DELAY <=? out_len then st else
  let n := strlen msg in
  if n =? 0 then st else
  let start := out_len in
  let out_len := wadd out_len n in
  if MAX_DELAY <=? start then (b, out_len) else
  let n := if MAX_DELAY <=? wadd start n then MAX_DELAY - start - 1 else n in
  (copy_loop msg (N.to_nat n) b start, out_len).

(* mi_out_buf_flush: returns the new state and the string handed to `out` *)
Definition out_buf_flush (st : buf * N) (no_more_buf : bool) : buf * N * bytes :=
  let '(b, out_len) := st in
  let count := out_len in
  let out_len := wadd out_len (if no_more_buf then MAX_DELAY else 1) in
  let count := if MAX_DELAY <? count then MAX_DELAY else count in
  let b := bput b count 0 in
  let shown := bstr b 0 in
  let b := if negb no_more_buf then bput b count 10 else b in
  (b, out_len, shown).

(* ---------------------------------------------------------------------------------------- *)
(* src/stats.c: mi_buffered_out (buffer of count+1 bytes), mi_heap_buf_print                 *)
(* ---------------------------------------------------------------------------------------- *)
(* state: buf, used; count is fixed; the flushed strings are collected (newest first) *)
Definition buffered_flush (st : buf * N * list bytes) : buf * N * list bytes :=
  let '(b, used, outl) := st in
  let b := bput b used 0 in
  (b, 0, bstr b 0 :: outl).
Fixpoint buffered_out (msg : bytes) (count : N) (st : buf * N * list bytes) : buf * N * list bytes :=
  match msg with
  | [] => st
  | c :: r =>
      if c =? 0 then st else
      let st := if count <=? snd (fst st) then buffered_flush st else st in
      let '(b, used, outl) := st in
      let st := (bput b used c, used + 1, outl) in
      let st := if c =? 10 then buffered_flush st else st in
      buffered_out r count st
  end.

(* mi_heap_buf_t; `grow` is the oracle for mi_rezalloc: true = the reallocation succeeds *)
Record hbuf := mkh { h_buf : buf; h_size : N; h_used : N; h_can_realloc : bool }.

Definition heap_buf_expand (h : hbuf) (grow : bool) : bool * hbuf :=
  let b := if 0 <? h_size h then bput (h_buf h) (h_size h - 1) 0 else h_buf h in
  let h := mkh b (h_size h) (h_used h) (h_can_realloc h) in
  if (SIZE_MAX_ / 2 <? h_size h) || negb (h_can_realloc h) then (false, h) else
  let newsize := if h_size h =? 0 then 2 * MI_KiB_ else 2 * h_size h in
  if negb grow then (false, h) else
  (* mi_rezalloc: old contents kept, the new part zero *)
  (true, mkh (mkbuf (bdata b ++ repeatN 0 (N.to_nat (newsize - h_size h))) (fault b)) newsize (h_used h) true).

(* grows: one oracle answer per reallocation attempt (exhausted list = failure) *)
Fixpoint heap_buf_print_loop (msg : bytes) (h : hbuf) (grows : list bool) : bool * hbuf * list bool :=
  match msg with
  | [] => (true, h, grows)
  | c :: r =>
      if c =? 0 then (true, h, grows) else
      let '(ok, h, grows) :=
        if h_size h <=? wadd (h_used h) 1 then
          let '(ok, h) := heap_buf_expand h (hd false grows) in (ok, h, tl grows)
        else (true, h, grows) in
      if negb ok then (false, h, grows) else
      heap_buf_print_loop r (mkh (bput (h_buf h) (h_used h) c) (h_size h) (h_used h + 1) (h_can_realloc h)) grows
  end.
Definition heap_buf_print (h : hbuf) (msg : bytes) (grows : list bool) : hbuf * list bool :=
  if (h_size h <=? wadd (h_used h) 1) && negb (h_can_realloc h) then (h, grows) else
  let '(ok, h, grows) := heap_buf_print_loop msg h grows in
  if ok then (mkh (bput (h_buf h) (h_used h) 0) (h_size h) (h_used h) (h_can_realloc h), grows)
  else (h, grows).
