(* Semantics of the C constructs emitted by tools/c2gallina.py (the source-to-Gallina translator of
   the small pure functions of mimalloc, see NOTES-c2g.md).  LP64, two's complement, x86-64 clang/gcc.

   Representation chosen by the translator:
     unsigned integer type of width w (uint8_t .. size_t/uintptr_t/uint64_t) : N, value < 2^w
     signed integer type of width w (int, long, intptr_t, ptrdiff_t)         : Z, -2^(w-1) <= value < 2^(w-1)
     _Bool                                                                   : bool
     object pointers                                                         : N  (the address, < 2^64)
   64-bit unsigned arithmetic re-uses wrap/wadd/wsub/wmul/wnot of Model/Arith.v; this file adds the
   other widths, shifts, casts and builtins.  Every function here is TOTAL: the value it gives where C
   has undefined behaviour (division by zero, shift count >= width, clz/ctz of 0, signed overflow) is
   arbitrary; the translator emits next to every c_<fn> a twin c_<fn>_ok : ... -> bool that is true
   exactly when the evaluation of the C function meets none of these undefined operations.
   No proofs in this file. *)
From Coq Require Import NArith ZArith Bool List.
From MiV Require Import Gen.Consts Gen.Bins Model.Arith.
Import ListNotations.
Local Open Scope N_scope.

(* ---- unsigned arithmetic of width w < 64 (uint32_t, and uint8_t/uint16_t after an explicit cast) ---- *)
Definition uwrap (w x : N) : N := x mod 2 ^ w.
Definition uadd (w a b : N) : N := uwrap w (a + b).
Definition usub (w a b : N) : N := uwrap w (a + 2 ^ w - b).      (* a, b < 2^w *)
Definition umul (w a b : N) : N := uwrap w (a * b).
Definition unot (w a : N) : N := (2 ^ w - 1) - a.                (* a < 2^w *)

(* ---- shifts on unsigned operands; the count is < width whenever c_<fn>_ok holds ---- *)
Definition wshl (a n : N) : N := wrap (N.shiftl a n).            (* uint64 a << n *)
Definition ushl (w a n : N) : N := uwrap w (N.shiftl a n).       (* w-bit a << n *)
(* a >> n is N.shiftr a n for every unsigned width *)

(* ---- integer conversions (C11 6.3.1.3) ---- *)
(* to an unsigned type of width w: reduction modulo 2^w.  Widening unsigned -> unsigned is the
   identity and is not emitted at all. *)
Definition cast_uu (w : N) (x : N) : N := uwrap w x.             (* unsigned -> narrower unsigned *)
Definition cast_su (w : N) (z : Z) : N := Z.to_N (z mod 2 ^ Z.of_N w).   (* signed -> unsigned w *)
(* to a signed type of width w when the value may not fit: implementation-defined in C11; gcc and
   clang reduce modulo 2^w (documented by both) *)
Definition cast_us (w : N) (x : N) : Z :=
  let m := x mod 2 ^ w in
  if m <? 2 ^ (w - 1) then Z.of_N m else (Z.of_N m - 2 ^ Z.of_N w)%Z.
Definition cast_ss (w : N) (z : Z) : Z := cast_us w (cast_su w z).       (* signed -> narrower signed *)
(* unsigned (width < w) -> signed w and signed -> wider signed are value preserving: Z.of_N / identity *)
Definition b2z (b : bool) : Z := if b then 1%Z else 0%Z.          (* _Bool or comparison result as int *)
Definition b2n (b : bool) : N := if b then 1 else 0.

(* ---- signed arithmetic: the mathematical result; "it fits" is an obligation of the _ok twin ---- *)
Definition sfits (w : N) (z : Z) : bool :=
  (Z.leb (- 2 ^ (Z.of_N w - 1)) z) && (Z.ltb z (2 ^ (Z.of_N w - 1))).
(* +, -, * are Z.add, Z.sub, Z.mul; / and % truncate toward zero: Z.quot, Z.rem;
   &, |, ^, ~ on two's complement numbers are Z.land, Z.lor, Z.lxor, Z.lnot;
   z << n (z >= 0, result fits) is Z.shiftl; z >> n (z >= 0) is Z.shiftr *)

(* ---- gcc/clang builtins ---- *)
Definition builtin_clzl (x : N) : Z := Z.of_N (63 - N.log2 x).    (* undefined for x = 0 *)
Definition builtin_ctzl (x : N) : Z := Z.of_N (ctz x).            (* undefined for x = 0; Arith.ctz *)
Definition builtin_clz32 (x : N) : Z := Z.of_N (31 - N.log2 x).   (* __builtin_clz on unsigned int *)
Definition builtin_ctz32 (x : N) : Z := Z.of_N (ctz x).
(* __builtin_umull_overflow(a, b, &r): (overflowed?, r) *)
Definition builtin_umull_overflow (a b : N) : bool * N := (W64 <=? a * b, wrap (a * b)).

(* ---- read-only tables of the allocator (values regenerated into Gen/Bins.v from the same build) ---- *)
(* _mi_heap_empty.pages[i].block_size ; the index is in range whenever c_<fn>_ok holds *)
Definition tbl_heap_empty_pages_block_size (i : N) : N := nth (N.to_nat i) bin_sizes 0.
Definition tbl_heap_empty_pages_len : N := N.of_nat (length bin_sizes).

(* ---- results of functions refused by the translator (keeps Gen/Funcs.v well-formed) ---- *)
Inductive c2g_refused : Set := C2G_refused.
