(* Trace-level consequences of the invariant of the abandonment model (property C09, model part).
   The events a transition emits on the abandoned mark of a segment (its bit of blocks_abandoned: LBit; its membership
   in the abandoned OS list: LList) carry the value of the mark before and after the transition; hence along every trace
   the mark events of one segment form a chain, and between two adoptions (mark 1 -> 0: the atomic-and that reports
   `was set`, the removal from the OS list) of the same segment the trace contains an abandonment (mark 0 -> 1).
   These are exactly the events the schedule-lockstep replay (ocaml/mode_abandon.ml) matches against the real accesses. *)
From Coq Require Import NArith ZArith List Bool Lia Arith.
From MiV Require Import Gen.Consts Model.Abandon Proofs.AbandonProofs.
Import ListNotations.
Local Open Scope N_scope.
Local Open Scope bool_scope.

Definition zbit (z : Z) : bool := (z =? 1)%Z.

(* the (old, new) value of the abandoned mark of segment s reported by an event *)
Definition mark_pair (s : nat) (e : event) : option (bool * bool) :=
  match e with
  | (_, LBit s', o, n) => if Nat.eqb s s' then Some (zbit o, zbit n) else None
  | (_, LList s', o, n) => if Nat.eqb s s' then Some (zbit o, zbit n) else None
  | _ => None
  end.

Fixpoint mark_pairs (s : nat) (tr : list event) : list (bool * bool) :=
  match tr with
  | [] => []
  | e :: r => match mark_pair s e with Some p => p :: mark_pairs s r | None => mark_pairs s r end
  end.

Lemma mark_pairs_app s a b : mark_pairs s (a ++ b) = mark_pairs s a ++ mark_pairs s b.
Proof. induction a as [|e r IH]; [reflexivity|]. cbn. destruct (mark_pair s e); cbn; rewrite IH; reflexivity. Qed.

(* every pair starts at the current value; the value after the list *)
Fixpoint chain (cur : bool) (l : list (bool * bool)) : option bool :=
  match l with
  | [] => Some cur
  | (o, n) :: r => if Bool.eqb o cur then chain n r else None
  end.

Lemma chain_app cur a b : chain cur (a ++ b) = match chain cur a with Some c => chain c b | None => None end.
Proof. revert cur. induction a as [|[o n] r IH]; intros cur; [reflexivity|]. cbn. destruct (Bool.eqb o cur); auto. Qed.

Lemma zbit_zb b : zbit (zb b) = b.
Proof. destruct b; reflexivity. Qed.

(* ---- marks after a transition ---- *)
Lemma marked_same st sg l lk vl cnt thr j :
  sg = segs st -> l = os_list st -> marked (mkS sg l lk vl cnt thr) j = marked st j.
Proof. intros -> ->. reflexivity. Qed.

Lemma marked_upd st s0 f l lk vl cnt thr j :
  marked (mkS (upd_nth (segs st) s0 f) l lk vl cnt thr) j =
  if Nat.eqb j s0
  then match nth_error (segs st) s0 with Some g => if g_arena (f g) then g_bit (f g) else in_list l s0 | None => false end
  else match nth_error (segs st) j with Some g => if g_arena g then g_bit g else in_list l j | None => false end.
Proof.
  unfold marked. cbn [segs os_list]. destruct (Nat.eqb j s0) eqn:E.
  - apply Nat.eqb_eq in E. subst j. destruct (nth_error (segs st) s0) as [g|] eqn:Eg.
    + rewrite (nth_upd_eq _ _ _ _ Eg). reflexivity.
    + destruct (nth_error (upd_nth (segs st) s0 f) s0) eqn:E2; [|reflexivity].
      apply nth_upd_inv in E2 as [[_ (x & Hx & _)]|[Hn _]]; congruence.
  - apply Nat.eqb_neq in E. rewrite nth_upd_neq by auto. reflexivity.
Qed.

Lemma marked_def st j :
  marked st j = match nth_error (segs st) j with Some g => if g_arena g then g_bit g else in_list (os_list st) j | None => false end.
Proof. reflexivity. Qed.

Lemma in_list_remove_other l s j : s <> j -> in_list (remove_from l s) j = in_list l j.
Proof.
  intros Hne. rewrite in_list_remove. destruct (Nat.eqb s j) eqn:E; [apply Nat.eqb_eq in E; congruence|]. apply andb_true_r.
Qed.

Lemma in_list_remove_self l s : in_list (remove_from l s) s = false.
Proof. rewrite in_list_remove, Nat.eqb_refl. apply andb_false_r. Qed.

Lemma in_list_app_other l s j : j <> s -> in_list (l ++ [s]) j = in_list l j.
Proof.
  intros Hne. rewrite in_list_app. destruct (Nat.eqb j s) eqn:E; [apply Nat.eqb_eq in E; congruence|]. apply orb_false_r.
Qed.

Lemma in_list_app_self l s : in_list (l ++ [s]) s = true.
Proof. rewrite in_list_app, Nat.eqb_refl. apply orb_true_r. Qed.

(* ---- one transition ---- *)
Definition step_marks_ok (st st' : state) (ev : list event) (s : nat) : Prop :=
  (mark_pairs s ev = [] /\ marked st' s = marked st s) \/ mark_pairs s ev = [(marked st s, marked st' s)].

Ltac break_exec H :=
  repeat match type of H with
  | context [match ?x with _ => _ end] => destruct x eqn:?
  | context [if ?x then _ else _] => destruct x eqn:?
  end; try discriminate H.

Lemma step_marks st t st' ev s :
  Inv st -> stepx st t = Some (st', ev) -> step_marks_ok st st' ev s.
Proof.
  intros HI Hs. unfold stepx in Hs. destruct (nth_error (threads st) t) as [th|] eqn:Eth; [|discriminate].
  destruct (exec st t th) as [o|] eqn:Ee; [|discriminate]. inversion Hs; subst st' ev; clear Hs.
  (* what the invariant says about the segment of the pc *)
  assert (Har : forall i g, arena_pc (t_pc th) = Some i -> nth_error (segs st) i = Some g -> g_arena g = true).
  { intros i g Hi Hg. exact (inv_arena st t th i g HI Eth Hg Hi). }
  assert (Hos : forall i, os_pc (t_pc th) = Some i -> exists g, nth_error (segs st) i = Some g /\ g_arena g = false).
  { intros i Hi. destruct HI as (_ & HT & _). destruct (HT t th Eth) as [_ _ _ _ G5 _ _]. exact (G5 i Hi). }
  assert (Hho : forall i g, holds (t_pc th) = Some i -> nth_error (segs st) i = Some g -> marked st i = false).
  { intros i g Hi Hg. destruct (inv_holds st t th i g HI Eth Hg Hi) as (_ & _ & Hm & _). exact Hm. }
  assert (HL : forall x, In x (os_list st) -> exists g, nth_error (segs st) x = Some g /\ g_arena g = false).
  { destruct HI as (_ & _ & HL). exact HL. }
  clear HI.
  unfold exec in Ee. revert Har Hos Hho.
  destruct (t_pc th) eqn:Epc; intros Har Hos Hho; break_exec Ee; inversion Ee; subst o; clear Ee.
  all: unfold step_marks_ok, apply_outcome, with_seg, keep, with_count; cbn [o_segs o_list o_lock o_vlock o_count o_ev].
  all: try (left; split; [reflexivity|apply marked_same; reflexivity]).
  all: cbn [arena_pc os_pc holds] in Har, Hos, Hho.
  all: rewrite ?marked_upd; unfold marked; cbn [segs os_list mark_pairs mark_pair].
  all: match goal with |- context [Nat.eqb ?a ?s0] => destruct (Nat.eqb a s0) eqn:Es; [apply Nat.eqb_eq in Es; subst s0|apply Nat.eqb_neq in Es] end.
  all: try (left; split; reflexivity).
  all: try (left; split; [reflexivity|]; rewrite ?in_list_app_other, ?in_list_remove_other by congruence; reflexivity).
  (* the mark of s itself changes or is reported *)
  all: unfold os_head in *.
  all: try match goal with H : forall i, Some ?x = Some i -> exists g, _ |- _ => destruct (H x eq_refl) as (gos & Hgos & Haos) end.
  all: try match goal with H : find _ (os_list _) = Some ?x |- _ =>
         apply find_some in H; destruct H as [Hin _]; destruct (HL x Hin) as (gos & Hgos & Haos); apply in_list_spec in Hin end.
  all: try match goal with H : forall i g, Some ?x = Some i -> nth_error (segs _) i = Some g -> marked _ i = false, Hg : nth_error (segs _) ?x = Some ?g0 |- _ =>
         let Hm := fresh "Hm" in pose proof (H x g0 eq_refl Hg) as Hm; unfold marked in Hm; rewrite Hg in Hm end.
  all: try match goal with H : forall i g, Some ?x = Some i -> nth_error (segs _) i = Some g -> g_arena g = true, Hg : nth_error (segs _) ?x = Some ?g0 |- _ =>
         let Ha := fresh "Ha" in pose proof (H x g0 eq_refl Hg) as Ha end.
  all: repeat match goal with H : nth_error (segs _) _ = Some _ |- _ => rewrite H end.
  all: repeat (cbn [g_arena g_bit set_tid set_bit set_flag set_holder set_visits set_blocks set_freed zbit Z.eqb Pos.eqb] in *;
               repeat match goal with
                      | Hb : _ = true |- _ => rewrite Hb in *
                      | Hb : _ = false |- _ => rewrite Hb in *
                      end).
  all: rewrite ?zbit_zb, ?in_list_app_self, ?in_list_remove_self.
  all: try (right; reflexivity).
  all: try (left; split; reflexivity).
Qed.

(* ---- traces ---- *)
Lemma step_marks_chain st t st' ev s :
  Inv st -> stepx st t = Some (st', ev) -> chain (marked st s) (mark_pairs s ev) = Some (marked st' s).
Proof.
  intros HI Hs. destruct (step_marks st t st' ev s HI Hs) as [[E1 E2]|E]; rewrite ?E1, ?E2, ?E; cbn; [reflexivity|].
  rewrite Bool.eqb_reflx. reflexivity.
Qed.

Lemma stepx_step st t st' ev : stepx st t = Some (st', ev) -> step st t = Some st'.
Proof. intros H. unfold step. rewrite H. reflexivity. Qed.

Theorem trace_marks_chain sched : forall st s,
  Inv st -> chain (marked st s) (mark_pairs s (run_trace st sched)) = Some (marked (run_schedule st sched) s).
Proof.
  induction sched as [|t r IH]; intros st s HI; [reflexivity|]. cbn [run_trace run_schedule]. unfold step.
  destruct (stepx st t) as [[st' ev]|] eqn:E; [|apply IH; exact HI].
  rewrite mark_pairs_app, chain_app, (step_marks_chain st t st' ev s HI E).
  apply IH. eapply step_Inv; [exact HI|]. apply stepx_step with (ev := ev). exact E.
Qed.

(* in a chain, two pairs (true, false) are separated by a pair (false, true) *)
Lemma chain_from_false cur l1 l2 c :
  chain cur (l1 ++ (true, false) :: l2) = Some c -> cur = false -> In (false, true) l1.
Proof.
  revert cur. induction l1 as [|[o n] r IH]; intros cur H Hc; subst cur.
  - cbn [app chain Bool.eqb] in H. discriminate.
  - cbn [app chain] in H. destruct o; cbn [Bool.eqb] in H; [discriminate|]. destruct n.
    + left. reflexivity.
    + right. eapply IH; [exact H|reflexivity].
Qed.

Lemma chain_adopt_once cur l1 l2 l3 c :
  chain cur (l1 ++ (true, false) :: l2 ++ (true, false) :: l3) = Some c -> In (false, true) l2.
Proof.
  revert cur. induction l1 as [|[o n] r IH]; intros cur H.
  - cbn [app chain] in H. destruct (Bool.eqb true cur); [|discriminate]. eapply chain_from_false; [exact H|reflexivity].
  - cbn [app chain] in H. destruct (Bool.eqb o cur); [|discriminate]. eapply IH. exact H.
Qed.

(* an adoption of segment s: an event that reports its abandoned mark going from set to clear
   (the atomic-and of _mi_bitmap_unclaim that returns `was set`; the removal from the abandoned OS list);
   an abandonment: the mark going from clear to set (_mi_bitmap_claim; the push on the OS list) *)
Definition is_adoption (s : nat) (e : event) : bool :=
  match mark_pair s e with Some (true, false) => true | _ => false end.
Definition is_abandonment (s : nat) (e : event) : bool :=
  match mark_pair s e with Some (false, true) => true | _ => false end.

Lemma mark_pairs_In s tr p : In p (mark_pairs s tr) -> exists e, In e tr /\ mark_pair s e = Some p.
Proof.
  induction tr as [|e r IH]; cbn; [contradiction|]. destruct (mark_pair s e) as [q|] eqn:E.
  - intros [->|H]; [exists e; auto|]. destruct (IH H) as (e' & A & B). exists e'. auto.
  - intros H. destruct (IH H) as (e' & A & B). exists e'. auto.
Qed.

Theorem adopted_once_between_abandonments st0 st sched s tr1 e1 tr2 e2 tr3 :
  Inv st0 -> reachable st0 st ->
  run_trace st sched = tr1 ++ e1 :: tr2 ++ e2 :: tr3 ->
  is_adoption s e1 = true -> is_adoption s e2 = true ->
  exists e, In e tr2 /\ is_abandonment s e = true.
Proof.
  intros H0 Hr Htr A1 A2.
  pose proof (trace_marks_chain sched st s (reachable_Inv _ _ H0 Hr)) as Hc.
  rewrite Htr in Hc. rewrite mark_pairs_app in Hc. cbn [mark_pairs] in Hc.
  unfold is_adoption in A1, A2.
  destruct (mark_pair s e1) as [[[|] [|]]|] eqn:E1; try discriminate.
  rewrite mark_pairs_app in Hc. cbn [mark_pairs] in Hc.
  destruct (mark_pair s e2) as [[[|] [|]]|] eqn:E2; try discriminate.
  apply chain_adopt_once in Hc. apply mark_pairs_In in Hc as (e & Hin & He).
  exists e. split; [exact Hin|]. unfold is_abandonment. rewrite He. reflexivity.
Qed.

(* the thread that adopts: an adoption event is emitted by the stepping thread, and after it the segment is in
   that thread's hand (so, by unique_adopter, in nobody else's) *)
Theorem adoption_takes_in_hand st t st' ev s e :
  stepx st t = Some (st', ev) -> In e ev -> is_adoption s e = true ->
  fst (fst (fst e)) = t /\ exists th', thr_at st' t th' /\ holds (t_pc th') = Some s.
Proof.
  intros Hs Hin Ha. unfold stepx in Hs. destruct (nth_error (threads st) t) as [th|] eqn:Eth; [|discriminate].
  destruct (exec st t th) as [o|] eqn:Ee; [|discriminate]. inversion Hs; subst st' ev; clear Hs.
  assert (Hth' : thr_at (apply_outcome st t o) t (mkT (t_subproc th) (if o_pop o then tl (t_prog th) else t_prog th) (o_pc o) (o_hold o))).
  { rewrite apply_outcome_new. apply thr_at_new_self. exact Eth. }
  split.
  - unfold exec in Ee. destruct (t_pc th) eqn:Epc; break_exec Ee; inversion Ee; subst o; clear Ee.
    all: unfold with_seg, keep, with_count in Hin; cbn [o_ev] in Hin.
    all: repeat match goal with H : In _ (_ :: _) |- _ => destruct H as [H|H] | H : In _ [] |- _ => contradiction end.
    all: subst e; reflexivity.
  - eexists. split; [exact Hth'|]. cbn [t_pc].
    unfold exec in Ee. destruct (t_pc th) eqn:Epc; break_exec Ee; inversion Ee; subst o; clear Ee.
    all: unfold with_seg, keep, with_count in Hin |- *; cbn [o_ev o_pc] in Hin |- *.
    all: repeat match goal with H : In _ (_ :: _) |- _ => destruct H as [H|H] | H : In _ [] |- _ => contradiction end.
    all: subst e; unfold is_adoption, mark_pair in Ha.
    all: try discriminate Ha.
    all: match type of Ha with context [Nat.eqb ?a ?b] => destruct (Nat.eqb a b) eqn:Es; [apply Nat.eqb_eq in Es; subst|discriminate Ha] end.
    all: try (cbn in Ha; discriminate Ha).
    all: try reflexivity.
    all: exfalso; destruct (zbit (zb (g_bit _))); cbn in Ha; discriminate Ha.
Qed.

(* ---- example (non-vacuity): in the round-robin run of Proofs/AbandonProofs.v segment 0 is abandoned by thread 0,
   adopted by the cursor of thread 2 (other sub-process), marked again by it, and adopted by the free of thread 1;
   the OS segment 1 goes through the list twice ---- *)
Example ex_trace_marks :
  filter (fun e => is_adoption 0 e || is_abandonment 0 e) (run_trace ex_st0 ex_sched1) =
    [(0%nat, LBit 0, 0%Z, 1%Z); (2%nat, LBit 0, 1%Z, 0%Z); (2%nat, LBit 0, 0%Z, 1%Z); (1%nat, LBit 0, 1%Z, 0%Z)] /\
  mark_pairs 0 (run_trace ex_st0 ex_sched1) = [(false, false); (false, true); (true, true); (true, false); (false, true); (true, false)] /\
  mark_pairs 1 (run_trace ex_st0 ex_sched1) = [(false, true); (true, false); (false, true); (true, false)].
Proof. vm_compute. repeat split; reflexivity. Qed.
