(* Effect of the primitive span operations on the slice array, as equations on `get` (each primitive is
   unfolded exactly once, here). *)
From Coq Require Import NArith ZArith Lia Bool List.
From Coq Require Import ZifyN ZifyBool.
From MiV Require Import Gen.Consts Gen.Bins Model.Arith Model.Span Proofs.Base Proofs.ArithProofs Proofs.SpanBase Proofs.SpanInv.
Import ListNotations.
Local Open Scope N_scope.

Definition frame_seg (sg sg' : segment) : Prop :=
  kind sg' = kind sg /\ owned sg' = owned sg /\ slice_entries sg' = slice_entries sg /\
  info_slices sg' = info_slices sg /\ len (entries sg') = len (entries sg).

Lemma frame_seg_refl sg : frame_seg sg sg.
Proof. repeat split. Qed.

Lemma frame_seg_trans a b c : frame_seg a b -> frame_seg b c -> frame_seg a c.
Proof. unfold frame_seg. intros (A1 & A2 & A3 & A4 & A5) (B1 & B2 & B3 & B4 & B5). repeat split; congruence. Qed.

Lemma frame_seg_queued a b : frame_seg a b -> queued b = queued a.
Proof. intros (A1 & A2 & _). unfold queued. rewrite A1, A2. reflexivity. Qed.

Lemma frame_set_entries sg es : len es = len (entries sg) -> frame_seg sg (set_entries sg es).
Proof. intros H. repeat split. exact H. Qed.

(* two slice arrays with the same entries are equal *)
Lemma ext_get (l1 l2 : list slice) : len l1 = len l2 -> (forall j, get l1 j = get l2 j) -> l1 = l2.
Proof.
  intros Hl H. apply (nth_ext l1 l2 slice0 slice0).
  - unfold len in Hl. lia.
  - intros k _. specialize (H (N.of_nat k)). unfold get in H. rewrite Nat2N.id in H. exact H.
Qed.

Lemma sizeof_page_slice : sizeof_mi_page_t = sizeof_mi_slice_t.
Proof. reflexivity. Qed.

(* ------------------------------------------------------------------------------------- *)
(* mi_segment_span_free                                                                    *)
(* ------------------------------------------------------------------------------------- *)

Definition sf_entries (sg : segment) (idx count : N) : list slice :=
  let count := if count =? 0 then 1 else count in
  let es := entries sg in
  let es1 := set es idx (mkSlice (wrap32 count) 0 (bsz (get es idx))) in
  let es2 :=
    if 1 <? count then
      let last := idx + count - 1 in
      let last := if slice_entries sg <? last then slice_entries sg else last in
      set es1 last (mkSlice 0 (wrap32 (sizeof_mi_page_t * (count - 1))) 0)
    else es1 in
  set_bsz es2 idx 0.

Lemma span_free_unfold sg qs idx count :
  span_free (sg, qs) idx count =
  (set_entries sg (sf_entries sg idx count),
   if queued sg then q_upd qs (slice_bin count) (cons idx) else qs).
Proof. unfold span_free, sf_entries, span_queue_push. destruct (queued sg); reflexivity. Qed.

Lemma sf_entries_spec sg idx count :
  0 < count -> idx + count <= slice_entries sg -> slice_entries sg <= MI_SLICES_PER_SEGMENT ->
  len (entries sg) = slice_entries sg + 1 ->
  len (sf_entries sg idx count) = len (entries sg) /\
  get (sf_entries sg idx count) idx = mkSlice count 0 0 /\
  (1 < count -> get (sf_entries sg idx count) (idx + count - 1) = mkSlice 0 ((count - 1) * sizeof_mi_slice_t) 0) /\
  (forall j, j <> idx -> j <> idx + count - 1 -> get (sf_entries sg idx count) j = get (entries sg) j).
Proof.
  intros Hc Hle Hn Hl. unfold sf_entries.
  assert (E0 : (count =? 0) = false) by (apply N.eqb_neq; lia). rewrite E0.
  assert (Hw : wrap32 count = count).
  { apply wrap32_small. unfold MI_SLICES_PER_SEGMENT in Hn. lia. }
  rewrite Hw. cbv zeta.
  set (es := entries sg) in *.
  set (es1 := set es idx (mkSlice count 0 (bsz (get es idx)))).
  assert (Hl1 : len es1 = len es) by apply set_length.
  destruct (1 <? count) eqn:E1.
  - apply N.ltb_lt in E1.
    assert (E2 : (slice_entries sg <? idx + count - 1) = false) by (apply N.ltb_ge; lia). rewrite E2.
    assert (Hw2 : wrap32 (sizeof_mi_page_t * (count - 1)) = (count - 1) * sizeof_mi_slice_t).
    { rewrite sizeof_page_slice. rewrite wrap32_small; [lia|].
      unfold MI_SLICES_PER_SEGMENT, sizeof_mi_slice_t in *. lia. }
    rewrite Hw2.
    set (es2 := set es1 (idx + count - 1) (mkSlice 0 ((count - 1) * sizeof_mi_slice_t) 0)).
    assert (Hl2 : len es2 = len es) by (unfold es2; rewrite set_length; exact Hl1).
    assert (G2 : get es2 idx = mkSlice count 0 (bsz (get es idx))).
    { unfold es2. rewrite get_set_other by lia. unfold es1. apply get_set_same. lia. }
    split; [rewrite set_bsz_length; exact Hl2|].
    split; [rewrite get_set_bsz_same by lia; rewrite G2; reflexivity|].
    split.
    + intros _. rewrite get_set_bsz_other by lia. unfold es2. apply get_set_same. lia.
    + intros j Hj1 Hj2. rewrite get_set_bsz_other by lia. unfold es2. rewrite get_set_other by lia.
      unfold es1. apply get_set_other. lia.
  - apply N.ltb_ge in E1. assert (count = 1) by lia. subst count.
    split; [rewrite set_bsz_length; exact Hl1|].
    split; [rewrite get_set_bsz_same by lia; unfold es1; rewrite get_set_same by lia; reflexivity|].
    split; [intros; lia|].
    intros j Hj1 Hj2. rewrite get_set_bsz_other by lia. unfold es1. apply get_set_other. lia.
Qed.

(* ------------------------------------------------------------------------------------- *)
(* mi_segment_span_allocate                                                                *)
(* ------------------------------------------------------------------------------------- *)

Lemma write_followers_length es idx : forall k i, len (write_followers es idx i k) = len es.
Proof.
  intros k; revert es; induction k as [|k IH]; intros es i; cbn [write_followers]; [reflexivity|].
  rewrite IH. apply set_length.
Qed.

Lemma get_write_followers idx : forall k es i j, idx + i + N.of_nat k <= len es ->
  get (write_followers es idx i k) j =
  if (idx + i <=? j) && (j <? idx + i + N.of_nat k)
  then mkSlice 0 (wrap32 (sizeof_mi_slice_t * (j - idx))) 1 else get es j.
Proof.
  induction k as [|k IH]; intros es i j Hl; cbn [write_followers].
  - destruct ((idx + i <=? j) && (j <? idx + i + N.of_nat 0)) eqn:E; [|reflexivity]. lia.
  - rewrite IH by (rewrite set_length; lia).
    destruct ((idx + (i + 1) <=? j) && (j <? idx + (i + 1) + N.of_nat k)) eqn:E.
    + assert (E' : (idx + i <=? j) && (j <? idx + i + N.of_nat (S k)) = true) by lia. rewrite E'. reflexivity.
    + destruct (N.eq_dec j (idx + i)) as [->|Hne].
      * rewrite get_set_same by lia.
        assert (E' : (idx + i <=? idx + i) && (idx + i <? idx + i + N.of_nat (S k)) = true) by lia. rewrite E'.
        replace (idx + i - idx) with i by lia. reflexivity.
      * rewrite get_set_other by assumption.
        assert (E' : (idx + i <=? j) && (j <? idx + i + N.of_nat (S k)) = false) by lia. rewrite E'. reflexivity.
Qed.

(* the number of followers written, and the index of the "last" entry *)
Definition sa_extra (n idx count : N) : N :=
  let extra := count - 1 in
  let extra := if MI_MAX_SLICE_OFFSET_COUNT <? extra then MI_MAX_SLICE_OFFSET_COUNT else extra in
  if n <=? idx + extra then n - idx - 1 else extra.
Definition sa_last (n idx count : N) : N :=
  let last := idx + count - 1 in if n <? last then n else last.

Definition sa_entries (sg : segment) (idx count : N) : list slice :=
  let n := slice_entries sg in
  let es0 := set (entries sg) idx (mkSlice (wrap32 count) 0 (wmul count MI_SEGMENT_SLICE_SIZE)) in
  let es1 := write_followers es0 idx 1 (N.to_nat (sa_extra n idx count)) in
  let last := sa_last n idx count in
  if idx <? last then set es1 last (mkSlice 0 (wrap32 (sizeof_mi_slice_t * (last - idx))) 1) else es1.

Lemma span_allocate_unfold sg qs idx count :
  span_allocate (sg, qs) idx count true =
  Some (set_used (set_entries sg (sa_entries sg idx count)) (used sg + 1), qs).
Proof. reflexivity. Qed.

Lemma sa_extra_le n idx count : idx < n -> idx + sa_extra n idx count <= n - 1 /\ sa_extra n idx count <= MI_MAX_SLICE_OFFSET_COUNT
  /\ sa_extra n idx count <= count - 1.
Proof.
  intros H. unfold sa_extra. cbv zeta.
  destruct (MI_MAX_SLICE_OFFSET_COUNT <? count - 1) eqn:E1.
  - destruct (n <=? idx + MI_MAX_SLICE_OFFSET_COUNT) eqn:E2; lia.
  - destruct (n <=? idx + (count - 1)) eqn:E2; lia.
Qed.

Lemma sa_entries_spec sg idx count :
  0 < count -> idx < slice_entries sg -> slice_entries sg <= MI_SLICES_PER_SEGMENT ->
  len (entries sg) = slice_entries sg + 1 ->
  let n := slice_entries sg in
  let E := sa_extra n idx count in let L := sa_last n idx count in
  len (sa_entries sg idx count) = len (entries sg) /\
  get (sa_entries sg idx count) idx = mkSlice (wrap32 count) 0 (wmul count MI_SEGMENT_SLICE_SIZE) /\
  (forall k, 1 <= k -> k <= E -> get (sa_entries sg idx count) (idx + k) = follower k) /\
  (idx < L -> get (sa_entries sg idx count) L = follower (L - idx)) /\
  (forall j, j <> idx -> ~ (idx + 1 <= j /\ j <= idx + E) -> j <> L ->
     get (sa_entries sg idx count) j = get (entries sg) j).
Proof.
  intros Hc Hi Hn Hl n E L. unfold sa_entries. fold n. fold E. fold L.
  destruct (sa_extra_le n idx count Hi) as (HE1 & HE2 & HE3). fold E in HE1, HE2, HE3.
  assert (HL : L <= n) by (unfold L, sa_last; cbv zeta; destruct (n <? idx + count - 1) eqn:X; lia).
  set (es0 := set (entries sg) idx (mkSlice (wrap32 count) 0 (wmul count MI_SEGMENT_SLICE_SIZE))).
  assert (Hl0 : len es0 = len (entries sg)) by apply set_length.
  set (es1 := write_followers es0 idx 1 (N.to_nat E)).
  assert (Hl1 : len es1 = len (entries sg)) by (unfold es1; rewrite write_followers_length; exact Hl0).
  assert (G1 : forall j, get es1 j = if (idx + 1 <=? j) && (j <? idx + 1 + E)
                                     then mkSlice 0 (wrap32 (sizeof_mi_slice_t * (j - idx))) 1 else get es0 j).
  { intros j. unfold es1. rewrite get_write_followers by lia. rewrite N2Nat.id. reflexivity. }
  assert (Hfol : forall k, k <= MI_SLICES_PER_SEGMENT -> mkSlice 0 (wrap32 (sizeof_mi_slice_t * k)) 1 = follower k).
  { intros k Hk. unfold follower. rewrite wrap32_small; [f_equal; lia|].
    unfold MI_SLICES_PER_SEGMENT, sizeof_mi_slice_t in *. lia. }
  assert (HM : MI_MAX_SLICE_OFFSET_COUNT <= MI_SLICES_PER_SEGMENT) by (unfold MI_MAX_SLICE_OFFSET_COUNT, MI_SLICES_PER_SEGMENT; lia).
  destruct (idx <? L) eqn:EL.
  - apply N.ltb_lt in EL.
    split; [rewrite set_length; exact Hl1|].
    split.
    { rewrite get_set_other by lia. rewrite G1.
      assert (X : (idx + 1 <=? idx) && (idx <? idx + 1 + E) = false) by lia. rewrite X.
      unfold es0. apply get_set_same. lia. }
    split.
    { intros k Hk1 Hk2. destruct (N.eq_dec (idx + k) L) as [Ek|Ek].
      - rewrite Ek. rewrite get_set_same by lia. rewrite Hfol by lia. f_equal. lia.
      - rewrite get_set_other by assumption. rewrite G1.
        assert (X : (idx + 1 <=? idx + k) && (idx + k <? idx + 1 + E) = true) by lia. rewrite X.
        replace (idx + k - idx) with k by lia. apply Hfol. lia. }
    split.
    { intros _. rewrite get_set_same by lia. apply Hfol. lia. }
    intros j Hj1 Hj2 Hj3. rewrite get_set_other by assumption. rewrite G1.
    assert (X : (idx + 1 <=? j) && (j <? idx + 1 + E) = false) by lia. rewrite X.
    unfold es0. apply get_set_other. assumption.
  - apply N.ltb_ge in EL.
    split; [exact Hl1|].
    split.
    { rewrite G1.
      assert (X : (idx + 1 <=? idx) && (idx <? idx + 1 + E) = false) by lia. rewrite X.
      unfold es0. apply get_set_same. lia. }
    split.
    { intros k Hk1 Hk2. rewrite G1.
      assert (X : (idx + 1 <=? idx + k) && (idx + k <? idx + 1 + E) = true) by lia. rewrite X.
      replace (idx + k - idx) with k by lia. apply Hfol. lia. }
    split; [intros; lia|].
    intros j Hj1 Hj2 Hj3. rewrite G1.
    assert (X : (idx + 1 <=? j) && (j <? idx + 1 + E) = false) by lia. rewrite X.
    unfold es0. apply get_set_other. assumption.
Qed.

(* inside a segment (normal kind): the followers and the last entry in terms of count *)
Lemma sa_normal n idx count : 0 < count -> idx + count <= n ->
  sa_extra n idx count = N.min (count - 1) MI_MAX_SLICE_OFFSET_COUNT /\ sa_last n idx count = idx + count - 1.
Proof.
  intros Hc Hle. unfold sa_extra, sa_last. cbv zeta.
  assert (X : (n <? idx + count - 1) = false) by lia. rewrite X.
  destruct (MI_MAX_SLICE_OFFSET_COUNT <? count - 1) eqn:E1.
  - assert (Y : (n <=? idx + MI_MAX_SLICE_OFFSET_COUNT) = false) by lia. rewrite Y. lia.
  - assert (Y : (n <=? idx + (count - 1)) = false) by lia. rewrite Y. lia.
Qed.

(* ------------------------------------------------------------------------------------- *)
(* queue updates                                                                           *)
(* ------------------------------------------------------------------------------------- *)

Lemma q_get_remove qs b i b' :
  q_get (q_upd qs b (removeN i)) b' = if b' =? b then removeN i (q_get qs b) else q_get qs b'.
Proof.
  destruct (b' =? b) eqn:E.
  - apply N.eqb_eq in E. subst b'. destruct (N.lt_ge_cases b (len qs)) as [H|H].
    + apply q_get_upd_same. assumption.
    + unfold q_get, q_upd, len in *.
      assert (Hn : forall (l : queues) k f, (length l <= k)%nat -> q_upd_nat l k f = l).
      { induction l as [|x r IH]; intros [|k] f Hk; cbn in *; try lia; auto. f_equal. apply IH. lia. }
      rewrite Hn by lia. rewrite nth_overflow by lia. reflexivity.
  - apply N.eqb_neq in E. apply q_get_upd_other. assumption.
Qed.

Lemma q_get_push qs b i b' : b < len qs ->
  q_get (q_upd qs b (cons i)) b' = if b' =? b then i :: q_get qs b else q_get qs b'.
Proof.
  intros H. destruct (b' =? b) eqn:E.
  - apply N.eqb_eq in E. subst b'. apply q_get_upd_same. assumption.
  - apply N.eqb_neq in E. apply q_get_upd_other. assumption.
Qed.

Lemma slice_bin_lt c : c <= MI_SLICES_PER_SEGMENT -> slice_bin c < MI_SEGMENT_BIN_MAX + 1.
Proof. intros H. destruct (slice_bin_spec c H) as (H1 & _). unfold slice_bin. lia. Qed.
