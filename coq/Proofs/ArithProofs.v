(* Proofs about the size-class and address arithmetic (property C16; also used by C03, C06, C12). *)
From Coq Require Import NArith ZArith Lia Bool List.
From MiV Require Import Gen.Consts Gen.Bins Model.Arith Proofs.Base Proofs.ArithSweeps.
Import ListNotations.
Local Open Scope N_scope.

(* ------------------------------------------------------------------------------------- *)
(* Lifting the sweeps                                                                      *)
(* ------------------------------------------------------------------------------------- *)

Lemma bin_size_ge s : s <= MI_MEDIUM_OBJ_SIZE_MAX ->
  s <= bin_size (mi_bin s) /\ 1 <= mi_bin s < MI_BIN_HUGE.
Proof.
  intros Hs. pose proof (forallN_spec _ _ sweep_bin_size_ge s) as H.
  unfold chk_bin_size_ge in H. unfold sweep_limit in H.
  assert (Hlt : s < 2 * MI_MEDIUM_OBJ_SIZE_MAX + 1) by (unfold MI_MEDIUM_OBJ_SIZE_MAX in *; lia).
  specialize (H Hlt). apply N.leb_le in Hs. rewrite Hs in H.
  apply andb_prop in H as [H H3]. apply andb_prop in H as [H1 H2].
  apply N.leb_le in H1, H2. apply N.ltb_lt in H3. lia.
Qed.

Lemma bin_tight s : 64 < s -> s <= MI_MEDIUM_OBJ_SIZE_MAX -> bin_size (mi_bin s - 1) < s.
Proof.
  intros H8 Hs. pose proof (forallN_spec _ _ sweep_bin_tight s) as H.
  unfold chk_bin_tight, sweep_limit in H.
  assert (Hlt : s < 2 * MI_MEDIUM_OBJ_SIZE_MAX + 1) by (unfold MI_MEDIUM_OBJ_SIZE_MAX in *; lia).
  specialize (H Hlt). apply N.ltb_lt in H8. apply N.leb_le in Hs. rewrite H8, Hs in H. simpl in H.
  apply N.ltb_lt in H. exact H.
Qed.

Lemma bin_small_exact s : s <= 64 ->
  bin_size (mi_bin s) = if s <=? 8 then 8 else ((s + 15) / 16) * 16.
Proof.
  intros Hs. pose proof (forallN_spec _ _ sweep_bin_tight s) as H.
  unfold chk_bin_tight, sweep_limit in H.
  assert (Hlt : s < 2 * MI_MEDIUM_OBJ_SIZE_MAX + 1) by (unfold MI_MEDIUM_OBJ_SIZE_MAX in *; lia).
  specialize (H Hlt).
  assert (E: (64 <? s) = false) by (apply N.ltb_ge; exact Hs). rewrite E in H. cbn [andb] in H.
  destruct (s <=? 8) eqn:E8; [apply N.eqb_eq in H; exact H|].
  apply N.leb_le in Hs. rewrite Hs in H. apply N.eqb_eq in H; exact H.
Qed.

Lemma fragmentation_le_25 s : 64 < s -> s <= MI_MEDIUM_OBJ_SIZE_MAX ->
  4 * (bin_size (mi_bin s) - s) <= s.
Proof.
  intros H8 Hs. pose proof (forallN_spec _ _ sweep_fragmentation s) as H.
  unfold chk_fragmentation, sweep_limit in H.
  assert (Hlt : s < 2 * MI_MEDIUM_OBJ_SIZE_MAX + 1) by (unfold MI_MEDIUM_OBJ_SIZE_MAX in *; lia).
  specialize (H Hlt). apply N.ltb_lt in H8. apply N.leb_le in Hs. rewrite H8, Hs in H. simpl in H.
  apply N.leb_le in H. exact H.
Qed.

Lemma good_size_small s : s <= 2 * MI_MEDIUM_OBJ_SIZE_MAX ->
  s <= good_size s /\ good_size (good_size s) = good_size s /\
  (s <= MI_MEDIUM_OBJ_SIZE_MAX -> good_size s = bin_size (mi_bin s)).
Proof.
  intros Hs. pose proof (forallN_spec _ _ sweep_good_size s) as H.
  unfold chk_good_size, sweep_limit in H.
  assert (Hlt : s < 2 * MI_MEDIUM_OBJ_SIZE_MAX + 1) by (unfold MI_MEDIUM_OBJ_SIZE_MAX in *; lia).
  specialize (H Hlt). apply andb_prop in H as [H H3]. apply andb_prop in H as [H1 H2].
  apply N.leb_le in H1. apply N.eqb_eq in H2. repeat split; try assumption.
  intros Hm. apply N.leb_le in Hm. rewrite Hm in H3. apply N.eqb_eq in H3. exact H3.
Qed.

Lemma slice_bin_spec c : c <= MI_SLICES_PER_SEGMENT ->
  slice_bin8 c <= MI_SEGMENT_BIN_MAX /\ slice_bin8 c <= slice_bin8 (c + 1) /\
  (1 <= c -> c <= span_bin_count (slice_bin8 c)) /\
  (1 < c -> span_bin_count (slice_bin8 c - 1) < c).
Proof.
  intros Hc. pose proof (forallN_spec _ _ sweep_slice_bin c) as H.
  assert (Hlt : c < MI_SLICES_PER_SEGMENT + 1) by lia. specialize (H Hlt).
  unfold chk_slice_bin in H.
  apply andb_prop in H as [H H3]. apply andb_prop in H as [H1 H2].
  apply N.leb_le in H1, H2. repeat split; try assumption.
  - intros H1c. apply N.leb_le in H1c. rewrite H1c in H3. apply andb_prop in H3 as [H3 _].
    apply N.leb_le in H3; exact H3.
  - intros H1c. assert (Hle: 1 <= c) by lia. apply N.leb_le in Hle. rewrite Hle in H3.
    apply andb_prop in H3 as [_ H3]. apply N.ltb_lt in H1c. rewrite H1c in H3. apply N.ltb_lt in H3; exact H3.
Qed.

(* monotone from adjacent steps *)
Lemma slice_bin_monotone c1 c2 : c1 <= c2 -> c2 <= MI_SLICES_PER_SEGMENT -> slice_bin8 c1 <= slice_bin8 c2.
Proof.
  intros H12 H2. replace c2 with (c1 + (c2 - c1)) in * by lia.
  generalize dependent (c2 - c1). intros k. induction k using N.peano_ind; intros Hle Hk.
  - rewrite N.add_0_r. lia.
  - assert (Hs: c1 + k <= MI_SLICES_PER_SEGMENT) by lia.
    destruct (slice_bin_spec (c1 + k) Hs) as (_ & Hstep & _).
    replace (c1 + N.succ k) with (c1 + k + 1) by lia.
    etransitivity; [apply IHk; lia | exact Hstep].
Qed.

(* ------------------------------------------------------------------------------------- *)
(* Parametric part: every size below 2^64                                                  *)
(* ------------------------------------------------------------------------------------- *)

Lemma wsize_from_size_eq s : s + 7 < W64 -> wsize_from_size s = (s + 7) / 8.
Proof.
  intros H. unfold wsize_from_size, MI_INTPTR_SIZE.
  destruct (N.eq_dec (s + 8) W64) as [E|E].
  { replace s with (W64 - 8) by lia. vm_compute. reflexivity. }
  rewrite wadd_small by lia. rewrite wsub_small by lia. f_equal. lia.
Qed.

Lemma mi_bin_huge s : MI_MEDIUM_OBJ_SIZE_MAX < s -> s + 7 < W64 -> mi_bin s = MI_BIN_HUGE.
Proof.
  intros Hs Hw. unfold mi_bin. rewrite wsize_from_size_eq by assumption.
  unfold MI_MEDIUM_OBJ_SIZE_MAX, MI_MEDIUM_OBJ_WSIZE_MAX in *.
  assert (H: 8193 <= (s + 7) / 8) by (apply N.div_le_lower_bound; lia).
  change (MI_ALIGN_VARIANT =? 4) with false. cbn iota.
  destruct ((s + 7) / 8 <=? 8) eqn:E1; [apply N.leb_le in E1; lia|].
  destruct (8192 <? (s + 7) / 8) eqn:E2; [reflexivity|apply N.ltb_ge in E2; lia].
Qed.

Lemma mi_bin_le_huge s : s + 7 < W64 -> mi_bin s <= MI_BIN_HUGE.
Proof.
  intros Hw. destruct (N.le_gt_cases s MI_MEDIUM_OBJ_SIZE_MAX) as [H|H].
  - destruct (bin_size_ge s H) as (_ & _ & ?). lia.
  - rewrite mi_bin_huge by assumption. lia.
Qed.

Lemma mi_bin_step s : s + 8 < W64 -> mi_bin s <= mi_bin (s + 1).
Proof.
  intros Hw. destruct (N.lt_ge_cases s sweep_limit) as [H|H].
  - pose proof (forallN_spec _ _ sweep_bin_step s H) as Hc. apply N.leb_le in Hc. exact Hc.
  - unfold sweep_limit, MI_MEDIUM_OBJ_SIZE_MAX in H.
    rewrite (mi_bin_huge (s+1)) by (unfold MI_MEDIUM_OBJ_SIZE_MAX; lia).
    apply mi_bin_le_huge. lia.
Qed.

Lemma bin_monotone s1 s2 : s1 <= s2 -> s2 + 7 < W64 -> mi_bin s1 <= mi_bin s2.
Proof.
  intros H12 H2. replace s2 with (s1 + (s2 - s1)) in * by lia.
  generalize dependent (s2 - s1). intros k. induction k using N.peano_ind; intros Hle Hk.
  - rewrite N.add_0_r. lia.
  - replace (s1 + N.succ k) with (s1 + k + 1) in * by lia.
    etransitivity; [apply IHk; lia | apply mi_bin_step; lia].
Qed.

(* block size chosen for a small/medium request is >= request, for *every* request size: the
   huge bin is handled by the large/huge page path whose block size is the (rounded) request *)
Lemma bin_size_ge_all s : s + 7 < W64 ->
  (s <= MI_MEDIUM_OBJ_SIZE_MAX /\ s <= bin_size (mi_bin s)) \/
  (MI_MEDIUM_OBJ_SIZE_MAX < s /\ mi_bin s = MI_BIN_HUGE).
Proof.
  intros Hw. destruct (N.le_gt_cases s MI_MEDIUM_OBJ_SIZE_MAX) as [H|H].
  - left. split; [assumption|]. apply bin_size_ge; assumption.
  - right. split; [assumption|]. apply mi_bin_huge; assumption.
Qed.

(* ---- fast division (heap walk) ---- *)

Lemma magic_div n d l :
  0 < d -> n < 2^32 -> d <= 2^l ->
  (n * (2^(32+l) / d + 1)) / 2^(32+l) = n / d.
Proof.
  intros Hd Hn Hl.
  set (P := 2^(32+l)).
  assert (HP: P = 2^32 * 2^l) by (unfold P; rewrite N.pow_add_r; reflexivity).
  assert (H32: 2^32 = 4294967296) by reflexivity.
  assert (HPpos: 0 < P) by (rewrite HP; apply N.mul_pos_pos; [lia| apply N.neq_0_lt_0; apply N.pow_nonzero; lia]).
  pose proof (N.div_mod P d ltac:(lia)) as E1. pose proof (N.mod_lt P d ltac:(lia)) as E2.
  set (q := P / d) in *. set (r := P mod d) in *.
  pose proof (N.div_mod n d ltac:(lia)) as E3. pose proof (N.mod_lt n d ltac:(lia)) as E4.
  set (a := n / d) in *. set (b := n mod d) in *.
  symmetry. apply N.div_unique with (r := n*(q+1) - a*P).
  - assert (Hle: a * P <= n * (q+1)) by nia.
    assert (n*(q+1) - a*P = d*a + b*q + b - a*r) by nia.
    assert (Hq: 2^32 <= q). { apply N.div_le_lower_bound; [lia|]. rewrite HP. nia. }
    nia.
  - nia.
Qed.

Lemma clz_pos x : 0 < x -> clz x = 63 - N.log2 x.
Proof. intros H. unfold clz. destruct (x =? 0) eqn:E; [apply N.eqb_eq in E; lia|reflexivity]. Qed.

Lemma log2_lt_64 x : x < W64 -> 0 < x -> N.log2 x < 64.
Proof. intros H H0. apply N.log2_lt_pow2; [assumption|]. rewrite <- W64_pow. assumption. Qed.

Theorem fast_divide_correct d n :
  0 < d -> d < 2^32 -> n < 2^32 ->
  fast_divide n (fst (fast_divisor d)) (snd (fast_divisor d)) = n / d.
Proof.
  intros Hd Hd32 Hn.
  assert (H32: 2^32 = 4294967296) by reflexivity.
  destruct (N.eq_dec d 1) as [->|Hd1].
  { (* shift = 0, magic = 1 *)
    change (fast_divisor 1) with (1, 0). cbn [fst snd]. unfold fast_divide.
    rewrite wmul_small by (rewrite W64_val; lia). rewrite N.mul_1_r.
    rewrite (N.shiftr_div_pow2 n 32). rewrite (N.div_small n (2^32)) by exact Hn.
    rewrite wadd_small by (rewrite W64_val; lia). rewrite N.shiftr_0_r. rewrite N.div_1_r. lia. }
  unfold fast_divisor. cbn [fst snd].
  rewrite (wsub_small d 1) by lia.
  rewrite clz_pos by lia.
  assert (Hlog: N.log2 (d - 1) < 32).
  { apply N.log2_lt_pow2; lia. }
  unfold MI_SIZE_BITS.
  set (l := 64 - (63 - N.log2 (d - 1))).
  assert (Hl: l = N.log2 (d - 1) + 1) by (unfold l; lia).
  assert (Hl32: l <= 32) by lia.
  clearbody l.
  pose proof (N.log2_spec (d - 1) ltac:(lia)) as [Hlo Hhi].
  rewrite <- N.add_1_r in Hhi. rewrite <- Hl in Hhi.
  assert (Hpl: 2 ^ l = 2 * 2 ^ N.log2 (d - 1)).
  { rewrite Hl. rewrite N.pow_add_r. lia. }
  assert (Hpl32: 2 ^ l <= 2 ^ 32) by (apply N.pow_le_mono_r; lia).
  assert (Hdl: d <= 2 ^ l) by lia.
  rewrite N.shiftl_1_l.
  rewrite (wrap_small (2 ^ l)) by (rewrite W64_val; lia).
  rewrite wsub_small by lia.
  assert (Hprod: 2 ^ 32 * (2 ^ l - d) < W64) by (rewrite W64_val; nia).
  rewrite (wmul_small _ _ Hprod).
  (* magic = 2^(32+l)/d - 2^32 + 1 *)
  assert (Hm: 2 ^ 32 * (2 ^ l - d) / d = 2 ^ (32 + l) / d - 2 ^ 32).
  { rewrite N.pow_add_r.
    assert (E: 2 ^ 32 * 2 ^ l = 2 ^ 32 * (2 ^ l - d) + 2^32 * d) by nia.
    rewrite E. rewrite N.div_add by (intros ->; inversion Hd). symmetry. apply N.add_sub. }
  assert (Hq: 2 ^ 32 <= 2 ^ (32 + l) / d).
  { apply N.div_le_lower_bound; [lia|]. rewrite N.pow_add_r. nia. }
  assert (Hq2: 2 ^ (32 + l) / d < 2 ^ 33).
  { apply N.div_lt_upper_bound; [lia|]. rewrite N.pow_add_r.
    change (2^33) with (2 * 2^32). nia. }
  rewrite Hm.
  set (q := 2 ^ (32 + l) / d) in *.
  assert (H33: 2^33 = 8589934592) by reflexivity.
  rewrite wadd_small by (rewrite W64_val; lia).
  unfold fast_divide.
  rewrite wmul_small by (rewrite W64_val; nia).
  rewrite !N.shiftr_div_pow2.
  assert (Hhi2: n * (q - 2 ^ 32 + 1) / 2 ^ 32 < 2^33).
  { apply N.div_lt_upper_bound; [lia|]. nia. }
  rewrite wadd_small by (rewrite W64_val; lia).
  replace (n * (q - 2 ^ 32 + 1) / 2 ^ 32 + n) with ((n * (q - 2 ^ 32 + 1) + n * 2 ^ 32) / 2 ^ 32)
    by (rewrite N.div_add by lia; reflexivity).
  rewrite N.div_div by (try lia; apply N.pow_nonzero; lia).
  rewrite <- N.pow_add_r.
  replace (n * (q - 2 ^ 32 + 1) + n * 2 ^ 32) with (n * (q + 1)) by nia.
  unfold q. apply magic_div; assumption.
Qed.
